package main

// `jpverif manifest` prints /verif/MANIFEST.json from the property table in
// props.go, so that the claims, the rule lists and the commands cannot drift
// apart.

import (
	"bufio"
	"encoding/json"
	"fmt"
	"os"
	"path/filepath"
	"sort"
	"strings"
)

// notClaimed gives the reason for every property that has no PropSpec.
var notClaimed = map[string]string{}

func cmdManifest() int {
	f, err := os.Open(filepath.Join(verifDir, "properties.jsonl"))
	if err != nil {
		fatal(err)
	}
	defer f.Close()
	var ids []string
	sc := bufio.NewScanner(f)
	sc.Buffer(make([]byte, 1<<20), 1<<24)
	for sc.Scan() {
		var p struct {
			ID string `json:"id"`
		}
		if json.Unmarshal(sc.Bytes(), &p) == nil && p.ID != "" {
			ids = append(ids, p.ID)
		}
	}
	sort.Strings(ids)
	var fixCommits []string
	if data, err := os.ReadFile(filepath.Join(verifDir, "known_findings.json")); err == nil {
		var kf KnownFile
		if json.Unmarshal(data, &kf) == nil {
			for _, s := range kf.Fixed {
				// "fixed: property=<id> <commit> <what>"
				fs := strings.Fields(s)
				if len(fs) >= 3 {
					dup := false
					for _, c := range fixCommits {
						if c == fs[2] {
							dup = true
						}
					}
					if !dup {
						fixCommits = append(fixCommits, fs[2])
					}
				}
			}
		}
	}
	var checks []any
	na := []any{}
	var served []string
	for _, id := range ids {
		ps := propByID(id)
		if ps == nil {
			reason := notClaimed[id]
			if reason == "" {
				reason = "no sound static rule built for this property yet"
			}
			na = append(na, map[string]string{"property_id": id, "reason": reason})
			continue
		}
		served = append(served, id)
		var rs []string
		seen := map[string]bool{}
		for _, u := range ps.Rules {
			if !seen[u.Rule] {
				seen[u.Rule] = true
				rs = append(rs, u.Rule)
			}
		}
		checks = append(checks, map[string]any{
			"property_id":         id,
			"quick_cmd":           "./check " + id + " quick",
			"thorough_cmd":        "./check " + id + " thorough",
			"evidence_file":       "/verif/evidence/" + id + ".json",
			"replay_cmd_template": "./bin/jpverif explain {path}",
			"engine":              "jpverif",
			"level_claimed": map[string]string{
				"category":   "other",
				"text":       "Static analysis: a set of necessary structural conditions of the property's mechanisms, each decided exactly for all paths of the current source (type-checked program, SSA, dominance, dataflow, extracted tables). " + ps.Explanation + " NOT decided: " + ps.NotDecided,
				"design_ref": "DESIGN.md §4 (rules), §5 (" + id + ")",
			},
			"level_note": "Trusted: go/packages+go/types+go/ssa (x/tools v0.29.0), the analyser's own rules (validated both ways by controls and seeded variants), the Go standard library and the inherited encoding/json internals on well-formed input. Nothing from /repo is executed. " + strings.Join(ps.Assumptions, " "),
			"technique":  "static analysis (go/ssa dataflow + dominance + extracted tables): " + strings.Join(rs, ", "),
		})
	}
	m := map[string]any{
		"version":   1,
		"setup_cmd": "cd /verif/analyzer && GOFLAGS=-mod=mod GOPROXY=off GOSUMDB=off GOTOOLCHAIN=local GOWORK=off go build -o /verif/bin/jpverif .",
		"hooks": map[string]any{
			"guard":            "verif",
			"enable":           "none needed: the analyser reads /repo's source as it is; no hook or instrumentation was added to the repository (the build tag is reserved and unused)",
			"baseline_off_cmd": "cd /repo/v5 && GOFLAGS=-mod=mod GOPROXY=off GOSUMDB=off go test -vet=off -count=1 ./...",
			"source_commits":   fixCommits,
			"add_only":         true,
		},
		"engines": []any{map[string]any{
			"name":              "jpverif",
			"path":              "/verif/analyzer",
			"serves_properties": served,
			"kind_free_text":    "repository-specific static analyser over go/packages + go/types + go/ssa (x/tools v0.29.0): dominance/post-dominance, value-flow taint with summaries, nil analysis, difference-bound index analysis, error-chain analysis, write-effect census, byte-set abstract interpretation and automaton extraction/equivalence for the JSON scanner",
		}},
		"checks":         checks,
		"not_applicable": na,
		"notes":          "Every check loads and type-checks /repo's current working tree on each run (v5 module; legacy root package through an in-memory go.mod overlay) and reports role-keyed constructs. `./check <id> <tier>` builds the analyser if needed and runs `bin/jpverif check <id> --tier <tier>`. Genuine defects found were repaired by fix: commits listed in hooks.source_commits and in known_findings.json; remaining ones are listed there as findings.",
	}
	enc := json.NewEncoder(os.Stdout)
	enc.SetIndent("", " ")
	enc.SetEscapeHTML(false)
	if err := enc.Encode(m); err != nil {
		fatal(err)
	}
	fmt.Fprintf(os.Stderr, "manifest: %d checks, %d not applicable\n", len(checks), len(na))
	return 0
}
