package main

// R-ABSENT: in a map from member names to nodes a nil value is a legitimate
// member (JSON null), so absence can only be told from null with the
// comma-ok form. Every lookup in such a map either uses comma-ok and tests
// the flag, or uses a key that is known to be present.

import (
	"fmt"
	"go/types"

	"golang.org/x/tools/go/ssa"
)

func init() {
	register(&Rule{ID: "R-ABSENT", Doc: "every lookup in a member map (map[string]*lazyNode, where a nil value is the legitimate spelling of null) is either a comma-ok lookup whose flag is tested, or uses a key known to be present (the range key of the same map, an element of the paired keys list, or a key for which a comma-ok test on the same map already succeeded): an absent member is never mistaken for a null one",
		Run: ruleAbsent, Min: map[string]int{"v5": 5, "legacy": 4}})
}

// reviewed exceptions: one function each, with the reason
var absentExceptions = map[string]string{
	"legacy|(*partialDoc).get": "v4 dialect by design: get reports an absent member as (nil, nil) so that a test against it compares as null; the operations for which C18 promises an error on absence do not rely on get (remove and move fail in (*partialDoc).remove, which uses comma-ok); C18 promises nothing for copy/replace of an absent member",
}

func isMemberMap(t types.Type) bool {
	m, ok := t.Underlying().(*types.Map)
	if !ok {
		return false
	}
	return isPtrToNamed(m.Elem(), "lazyNode")
}

func ruleAbsent(c *Ctx) {
	for _, b := range c.bodies() {
		l := c.L
		for _, fn := range b.srcFuncs(b.Lib) {
			n := 0
			allInstrs(fn, func(i ssa.Instruction) {
				lk, ok := i.(*ssa.Lookup)
				if !ok || !isMemberMap(lk.X.Type()) {
					return
				}
				n++
				key := fmt.Sprintf("%s: member lookup #%d distinguishes absent from null", fname(fn), n)
				if lk.CommaOk {
					// the ok flag must be tested (feed a branch or a comparison)
					used := false
					for _, ex := range extractOf(lk, 1) {
						if feedsBranch(ex, 0) {
							used = true
						}
					}
					if used {
						l.add("R-ABSENT", b.Name, key, b.posOf(lk), Discharged, "comma-ok lookup whose presence flag decides a branch", true)
					} else {
						l.add("R-ABSENT", b.Name, key, b.posOf(lk), Violated, "comma-ok lookup whose presence flag is never tested: an absent member is handled like a null one", true)
					}
					return
				}
				// key known present?
				why := ""
				// (a) range key of the same map
				if ex, isEx := lk.Index.(*ssa.Extract); isEx && ex.Index == 1 {
					if nx, isNext := ex.Tuple.(*ssa.Next); isNext {
						if rg, isR := nx.Iter.(*ssa.Range); isR && sameMapValue(rg.X, lk.X) {
							why = "the key is the range key of the same map"
						}
					}
				}
				// (b) element of the paired keys list of the same object (R-KEYS keeps set(keys) = dom(obj))
				if why == "" {
					if base, okb := pdLoad(lk.X, "obj"); okb && elemOfKeys(lk.Index, base) {
						why = "the key is an element of the object's keys list (R-KEYS: set(keys) = dom(obj))"
					}
				}
				// (c) dominated by a successful comma-ok on the same map and key
				if why == "" {
					allInstrs(fn, func(j ssa.Instruction) {
						l2, ok2 := j.(*ssa.Lookup)
						if !ok2 || !l2.CommaOk || !sameMapValue(l2.X, lk.X) || l2.Index != lk.Index {
							return
						}
						for _, ex := range extractOf(l2, 1) {
							for _, bb := range fn.Blocks {
								iff, isIf := bb.Instrs[len(bb.Instrs)-1].(*ssa.If)
								if !isIf {
									continue
								}
								cv, neg := stripNot(iff.Cond)
								if cv != ssa.Value(ex) {
									continue
								}
								s := 0
								if neg {
									s = 1
								}
								if edgeDominates(bb, s, lk.Block()) {
									why = "a comma-ok lookup of the same key in the same map succeeded on every path to this one"
								}
							}
						}
					})
				}
				// (d) the merge walk, for a patch member that is not null: RFC 7396 replaces a target
				// member that is absent and one that is null alike (neither is an object), and
				// R-MERGESHAPE M3 sees to it that the member is stored on every such path
				if why == "" && b.roleNameOf(fn) == "mergeDocs" {
					if ml := b.findMemberLoop(fn); ml != nil && ml.nonNilBlk != nil && lk.Index == ml.key && edgeDominates(ml.testBlk, ml.nonNilSucc, lk.Block()) {
						if rg, isR := rangeOfKey(ml.key); isR && !sameMapValue(rg, lk.X) {
							why = "the target's member for a patch member that is not null: absent and null are replaced alike (RFC 7396; the store is R-MERGESHAPE M3's)"
						}
					}
				}
				if why != "" {
					l.add("R-ABSENT", b.Name, key, b.posOf(lk), Discharged, why, true)
				} else if reason, ok := absentExceptions[b.Name+"|"+fname(fn)]; ok {
					l.add("R-ABSENT", b.Name, key, b.posOf(lk), Excepted, reason, true)
				} else {
					l.add("R-ABSENT", b.Name, key, b.posOf(lk), Violated, "plain lookup m[k] in a member map with a key that may be absent: the nil it yields for an absent member is indistinguishable from a member whose value is null (e.g. {\"a\":null} would equal {\"b\":null}, or a null member would count as missing)", true)
				}
			})
		}
	}
}

// sameMapValue: two map values denote the same map (same SSA value, or loads of the same field of the same base).
func sameMapValue(x, y ssa.Value) bool {
	if x == y {
		return true
	}
	bx, fx, okx := fieldLoad(x)
	by, fy, oky := fieldLoad(y)
	if okx && oky && fx == fy {
		return bx == by || sameBase(bx, by)
	}
	lx, ly := loadOf(x), loadOf(y)
	return lx != nil && lx == ly
}

// rangeOfKey: key is the key of a range over a map; returns that map.
func rangeOfKey(key ssa.Value) (ssa.Value, bool) {
	ex, ok := key.(*ssa.Extract)
	if !ok || ex.Index != 1 {
		return nil, false
	}
	nx, ok := ex.Tuple.(*ssa.Next)
	if !ok {
		return nil, false
	}
	rg, ok := nx.Iter.(*ssa.Range)
	if !ok {
		return nil, false
	}
	return rg.X, true
}
