package main

// R-NUM, provenance of value text: the library bodies never assemble JSON text byte by
// byte. The text of a node is the decoder's slice copied as a whole, a constant, or what the
// codec's encoder / Compact produced; every transformation of text (dropping white space,
// re-spelling escapes) is the codec's, where R-SCAN and R-ESCSET decide it. A loop in the
// library that copies a value's bytes one at a time is a second, unchecked scanner.

import (
	"fmt"
	"go/types"

	"golang.org/x/tools/go/ssa"
)

func isByteElemSlice(t types.Type) bool {
	sl, ok := types.Unalias(t).Underlying().(*types.Slice)
	if !ok {
		return false
	}
	bt, ok := sl.Elem().Underlying().(*types.Basic)
	return ok && bt.Kind() == types.Uint8
}

func (b *Body) textProvenance(l *Ledger) {
	total := 0
	for _, fn := range b.srcFuncs(b.Lib) {
		var sites []string
		allInstrs(fn, func(i ssa.Instruction) {
			switch x := i.(type) {
			case *ssa.Store:
				ia, ok := x.Addr.(*ssa.IndexAddr)
				if !ok || !isByteElemSlice(ia.X.Type()) {
					return
				}
				if _, isConst := x.Val.(*ssa.Const); isConst {
					return // punctuation written by hand ('{', ',', ':'): structure, not a value's text
				}
				sites = append(sites, "byte store "+b.posOf(x))
			case *ssa.Call:
				bi, ok := x.Call.Value.(*ssa.Builtin)
				if !ok || bi.Name() != "append" || len(x.Call.Args) != 2 || !isByteElemSlice(x.Call.Args[0].Type()) {
					return
				}
				// append(dst, src...) of a whole slice or string is a copy; append(dst, c) builds
				// its argument slice from a fresh array
				if sl, ok := x.Call.Args[1].(*ssa.Slice); ok {
					if al, ok := sl.X.(*ssa.Alloc); ok {
						if _, isArr := derefPtr(al.Type()).Underlying().(*types.Array); isArr {
							// constant bytes are punctuation written by hand, not a value's text
							allConst := true
							for _, r := range *al.Referrers() {
								if ia, ok := r.(*ssa.IndexAddr); ok {
									for _, r2 := range *ia.Referrers() {
										if st, ok := r2.(*ssa.Store); ok {
											if _, isC := st.Val.(*ssa.Const); !isC {
												allConst = false
											}
										}
									}
								}
							}
							if !allConst {
								sites = append(sites, "append of single bytes "+b.posOf(x))
							}
						}
					}
				}
			}
		})
		total++
		if len(sites) == 0 {
			continue
		}
		key := fmt.Sprintf("%s: no text is assembled byte by byte", b.canonFname(fn))
		l.add("R-NUM", b.Name, key, b.rel(fn.Pos()), Violated, sites[0]+": the library builds text one byte at a time here; what is kept, dropped or re-spelled (white space next to escaped quotes, digits of a literal) is decided by this loop and not by the codec, whose scanner is the only one the rules check", true)
	}
	l.add("R-NUM", b.Name, "library body: text is copied whole, constant, or produced by the codec — never assembled byte by byte", "", Discharged, fmt.Sprintf("%d function(s) scanned: byte stores and single-byte appends into byte slices are reported per function", total), true)
}

// floatWidth (R-NUM, codec): a literal stored into a float of the caller's is converted at
// the width of that float. Converting at 64 bits and storing into a float32 rounds twice
// (1.0000000596046447753906250000000001 becomes 1 instead of 1.0000001) and rejects
// literals that only fit once rounded at 32 bits — the decoder would no longer agree with
// encoding/json on struct and slice destinations.
func (b *Body) floatWidth(l *Ledger) {
	if b.Codec == nil {
		return
	}
	n := 0
	for _, fn := range b.srcFuncs(b.Codec) {
		allInstrs(fn, func(i ssa.Instruction) {
			call, ok := i.(*ssa.Call)
			if !ok {
				return
			}
			f := call.Call.StaticCallee()
			if f == nil || f.Name() != "SetFloat" || f.Pkg == nil || f.Pkg.Pkg.Path() != "reflect" || len(call.Call.Args) < 2 {
				return
			}
			n++
			key := fmt.Sprintf("%s: float store #%d is converted at the width of the destination", fname(fn), n)
			bad := "the stored number is not the result of strconv.ParseFloat"
			if ex, ok := call.Call.Args[1].(*ssa.Extract); ok && ex.Index == 0 {
				if pf, ok := ex.Tuple.(*ssa.Call); ok && stdName(pf.Call.StaticCallee()) == "strconv.ParseFloat" {
					bits := unwrapConv(pf.Call.Args[1])
					if _, isConst := bits.(*ssa.Const); isConst {
						bad = "strconv.ParseFloat is called with a fixed bit size: a literal stored into a float32 is rounded twice (and literals between the float32 and float64 ranges are handled differently from encoding/json)"
					} else if bc, ok := bits.(*ssa.Call); ok && bc.Call.IsInvoke() && bc.Call.Method.Name() == "Bits" {
						bad = ""
					} else {
						bad = "the bit size handed to strconv.ParseFloat is " + describeValue(bits) + ", not Type().Bits() of the destination"
					}
				} else if ok {
					bad = "the stored number comes from " + calleeLabel(&pf.Call) + ", not from strconv.ParseFloat at the destination's width"
				}
			}
			if bad != "" {
				l.add("R-NUM", "codec", key, b.posOf(call), Violated, bad, true)
			} else {
				l.add("R-NUM", "codec", key, b.posOf(call), Discharged, "SetFloat(ParseFloat(literal, v.Type().Bits()))", true)
			}
		})
	}
}
