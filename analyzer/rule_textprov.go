package main

// R-NUM, provenance of value text: the library bodies never assemble JSON text byte by
// byte. The text of a node is the decoder's slice copied as a whole, a constant, or what the
// codec's encoder / Compact produced; every transformation of text (dropping white space,
// re-spelling escapes) is the codec's, where R-SCAN and R-ESCSET decide it. A loop in the
// library that copies a value's bytes one at a time is a second, unchecked scanner.

import (
	"fmt"
	"go/types"

	"golang.org/x/tools/go/ssa"
)

func isByteElemSlice(t types.Type) bool {
	sl, ok := types.Unalias(t).Underlying().(*types.Slice)
	if !ok {
		return false
	}
	bt, ok := sl.Elem().Underlying().(*types.Basic)
	return ok && bt.Kind() == types.Uint8
}

func (b *Body) textProvenance(l *Ledger) {
	total := 0
	for _, fn := range b.srcFuncs(b.Lib) {
		var sites []string
		allInstrs(fn, func(i ssa.Instruction) {
			switch x := i.(type) {
			case *ssa.Store:
				ia, ok := x.Addr.(*ssa.IndexAddr)
				if !ok || !isByteElemSlice(ia.X.Type()) {
					return
				}
				sites = append(sites, "byte store "+b.posOf(x))
			case *ssa.Call:
				bi, ok := x.Call.Value.(*ssa.Builtin)
				if !ok || bi.Name() != "append" || len(x.Call.Args) != 2 || !isByteElemSlice(x.Call.Args[0].Type()) {
					return
				}
				// append(dst, src...) of a whole slice or string is a copy; append(dst, c) builds
				// its argument slice from a fresh array
				if sl, ok := x.Call.Args[1].(*ssa.Slice); ok {
					if al, ok := sl.X.(*ssa.Alloc); ok {
						if _, isArr := derefPtr(al.Type()).Underlying().(*types.Array); isArr {
							sites = append(sites, "append of single bytes "+b.posOf(x))
						}
					}
				}
			}
		})
		total++
		if len(sites) == 0 {
			continue
		}
		key := fmt.Sprintf("%s: no text is assembled byte by byte", b.canonFname(fn))
		l.add("R-NUM", b.Name, key, b.rel(fn.Pos()), Violated, sites[0]+": the library builds text one byte at a time here; what is kept, dropped or re-spelled (white space next to escaped quotes, digits of a literal) is decided by this loop and not by the codec, whose scanner is the only one the rules check", true)
	}
	l.add("R-NUM", b.Name, "library body: text is copied whole, constant, or produced by the codec — never assembled byte by byte", "", Discharged, fmt.Sprintf("%d function(s) scanned: byte stores and single-byte appends into byte slices are reported per function", total), true)
}
