package main

// Thorough-tier self validation: every stored variant of /repo (the seeded
// breaking changes under /verif/seeded, the hand-made ones under
// /verif/variants/fire, and the behaviour-preserving ones under
// /verif/variants/silent) is replayed as an in-memory overlay of the CURRENT
// tree and analysed in a separate process. Must-fire variants have to be
// reported by one of the rules recorded for them, must-stay-silent variants
// must not be reported. Nothing of /repo is executed; nothing is written to
// /repo. The outcome goes into the evidence; it says something about the
// checker, not about /repo, so it never turns into a VIOLATION.

import (
	"encoding/json"
	"fmt"
	"os"
	"os/exec"
	"path/filepath"
	"sort"
	"strings"
	"sync"
)

func init() { selfValidationHook = runVariants }

type variant struct {
	Name  string
	Kind  string // must-fire | must-stay-silent | known-miss
	Diff  string
	Rules []string
}

func loadVariants() []variant {
	var out []variant
	// seeded changes
	dirs, _ := filepath.Glob(filepath.Join(verifDir, "seeded", "*"))
	sort.Strings(dirs)
	for _, d := range dirs {
		data, err := os.ReadFile(filepath.Join(d, "meta.json"))
		if err != nil {
			continue
		}
		var m struct {
			SeedID    string `json:"seed_id"`
			Detection struct {
				Rules []string `json:"rules_fired"`
			} `json:"detection"`
		}
		if json.Unmarshal(data, &m) != nil {
			continue
		}
		v := variant{Name: "seeded/" + filepath.Base(d), Diff: filepath.Join(d, "patch.diff"), Rules: m.Detection.Rules, Kind: "must-fire"}
		if len(v.Rules) == 0 {
			v.Kind = "known-miss"
		}
		out = append(out, v)
	}
	for _, kind := range []string{"fire", "silent"} {
		files, _ := filepath.Glob(filepath.Join(verifDir, "variants", kind, "*.diff"))
		sort.Strings(files)
		for _, f := range files {
			rs, _ := os.ReadFile(strings.TrimSuffix(f, ".diff") + ".rules")
			v := variant{Name: "variants/" + kind + "/" + strings.TrimSuffix(filepath.Base(f), ".diff"), Diff: f, Rules: strings.Fields(string(rs))}
			if kind == "fire" {
				v.Kind = "must-fire"
			} else {
				v.Kind = "must-stay-silent"
			}
			out = append(out, v)
		}
	}
	return out
}

// touchedFiles lists the repo-relative paths a unified diff modifies.
func touchedFiles(diff string) []string {
	var out []string
	for _, ln := range strings.Split(diff, "\n") {
		if strings.HasPrefix(ln, "+++ b/") {
			out = append(out, strings.TrimSpace(strings.TrimPrefix(ln, "+++ b/")))
		}
	}
	return out
}

func runVariants(cfg *Config, need map[string]bool) *SelfReport {
	vars := loadVariants()
	rep := &SelfReport{}
	type job struct {
		v   variant
		res VariantResult
	}
	var jobs []*job
	for _, v := range vars {
		rel := false
		if need == nil {
			rel = true
		}
		for _, r := range v.Rules {
			if need[r] {
				rel = true
			}
		}
		if v.Kind == "known-miss" {
			rep.Variants = append(rep.Variants, VariantResult{Name: v.Name, Kind: v.Kind, Expected: "no rule sees it (value-level change, documented in DESIGN.md)", Observed: "not replayed", OK: true})
			continue
		}
		if !rel {
			continue
		}
		jobs = append(jobs, &job{v: v})
	}
	self, err := os.Executable()
	if err != nil {
		return rep
	}
	sem := make(chan struct{}, 6)
	var wg sync.WaitGroup
	for _, j := range jobs {
		wg.Add(1)
		go func(j *job) {
			defer wg.Done()
			sem <- struct{}{}
			defer func() { <-sem }()
			j.res = replayVariant(self, cfg, j.v, need)
		}(j)
	}
	wg.Wait()
	for _, j := range jobs {
		rep.Variants = append(rep.Variants, j.res)
	}
	sort.Slice(rep.Variants, func(a, b int) bool { return rep.Variants[a].Name < rep.Variants[b].Name })
	return rep
}

func replayVariant(self string, cfg *Config, v variant, need map[string]bool) VariantResult {
	res := VariantResult{Name: v.Name, Kind: v.Kind, Rules: v.Rules}
	res.Expected = "reported by one of " + strings.Join(v.Rules, ", ")
	if v.Kind == "must-stay-silent" {
		res.Expected = "not reported by " + strings.Join(v.Rules, ", ")
	}
	diff, err := os.ReadFile(v.Diff)
	if err != nil {
		res.Observed, res.OK = "variant unreadable: "+err.Error(), true
		return res
	}
	tmp, err := os.MkdirTemp("", "jpverif-variant-")
	if err != nil {
		res.Observed, res.OK = "no scratch directory: "+err.Error(), true
		return res
	}
	defer os.RemoveAll(tmp)
	files := touchedFiles(string(diff))
	for _, f := range files {
		data, err := os.ReadFile(filepath.Join(cfg.Repo, f))
		if err != nil {
			res.Observed, res.OK = "file of the variant no longer exists in the tree: "+f, true
			return res
		}
		os.MkdirAll(filepath.Dir(filepath.Join(tmp, f)), 0o755)
		os.WriteFile(filepath.Join(tmp, f), data, 0o644)
	}
	p := exec.Command("patch", "-p1", "-s", "--no-backup-if-mismatch", "-d", tmp, "-i", v.Diff)
	if out, err := p.CombinedOutput(); err != nil {
		res.Observed, res.OK = "variant does not apply to the current tree (skipped): "+short(string(out), 160), true
		return res
	}
	rules := v.Rules
	args := []string{"rules", "--json", "--repo", cfg.Repo, "--only", strings.Join(rules, ",")}
	for _, f := range files {
		args = append(args, "--overlay", f+"="+filepath.Join(tmp, f))
	}
	cmd := exec.Command(self, args...)
	cmd.Env = append(os.Environ(), "JPVERIF_DIR="+verifDir)
	out, _ := cmd.Output()
	var obls []Obl
	if err := json.Unmarshal(out, &obls); err != nil {
		res.Observed, res.OK = "analysis of the variant produced no verdicts: "+short(string(out), 160), v.Kind != "must-fire"
		return res
	}
	var fired []string
	seen := map[string]bool{}
	known, _ := loadKnown(filepath.Join(verifDir, "known_findings.json"))
	for i := range obls {
		o := obls[i]
		if (o.Verdict == Violated || o.Verdict == Undecided) && !seen[o.Rule] {
			// the known findings of the unchanged tree do not count
			if known != nil && known.match("", &o) != nil {
				continue
			}
			seen[o.Rule] = true
			fired = append(fired, o.Rule)
		}
	}
	sort.Strings(fired)
	res.Observed = "rules reporting: " + strings.Join(fired, ", ")
	if len(fired) == 0 {
		res.Observed = "no rule reports it"
	}
	switch v.Kind {
	case "must-fire":
		res.OK = len(fired) > 0
	default:
		res.OK = len(fired) == 0
	}
	_ = fmt.Sprint
	return res
}
