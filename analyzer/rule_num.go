package main

// R-NUM (number literals survive decoding, comparison and encoding) and
// R-KEYORDER (the decoder reports object keys in document order).

import (
	"fmt"
	"go/token"
	"go/types"
	"strings"

	"golang.org/x/tools/go/ssa"
)

func init() {
	register(&Rule{ID: "R-NUM", Doc: "number literals are never converted: convertNumber returns the literal itself (only a type conversion of its string parameter) when useNumber is set; the encoder's Number branch writes the stored string (or \"0\" for the empty zero value) without reformatting; an unparsed node re-emits its raw bytes; the v5 library never calls a numeric parser/converter on JSON numbers (strconv.ParseFloat/ParseInt, Number.Float64/Int64, math/big) and compares Number values only with == / !=",
		Run: ruleNum, Min: map[string]int{"codec": 2, "v5": 3}})
	register(&Rule{ID: "R-KEYORDER", Doc: "decodeState.object appends each decoded key to a local list exactly once per member, unconditionally, before the member's value is decoded, and publishes that list to lastKeys once, after the loop, only for map targets",
		Run: ruleKeyOrder, Min: map[string]int{"codec": 3}})
}

// onlyConversionOf: v is p, possibly wrapped in ChangeType / Convert / MakeInterface.
func onlyConversionOf(v, p ssa.Value) bool {
	return unwrapConv(v) == p
}

func ruleNum(c *Ctx) {
	b := c.V5
	if b == nil {
		return
	}
	l := c.L
	for _, lb := range c.bodies() {
		lb.textProvenance(l)
	}
	b.floatWidth(l)
	b.numberIntoString(l)
	// (ii) convertNumber
	b.numberTextWrittenAsIs(l)
	if cn := b.method(b.Codec, "decodeState", "convertNumber"); cn == nil {
		l.add("R-NUM", "codec", "anchor convertNumber", "", Undecided, "(*decodeState).convertNumber not found", false)
	} else {
		key := "convertNumber: with useNumber set the result is the literal itself"
		ok, why := false, "no branch on useNumber whose true edge returns a plain conversion of the literal"
		for _, bb := range cn.Blocks {
			iff, isIf := bb.Instrs[len(bb.Instrs)-1].(*ssa.If)
			if !isIf {
				continue
			}
			cv, neg := stripNot(iff.Cond)
			if _, fr, isF := fieldLoad(cv); !isF || fr.Field != "useNumber" {
				continue
			}
			s := 0
			if neg {
				s = 1
			}
			tb := bb.Succs[s]
			r, isRet := tb.Instrs[len(tb.Instrs)-1].(*ssa.Return)
			if !isRet {
				why = "the useNumber edge does not return directly"
				continue
			}
			if onlyConversionOf(r.Results[0], cn.Params[1]) && isNilConst(r.Results[len(r.Results)-1]) {
				if n := derefNamed(unwrapMI(r.Results[0]).Type()); n != nil && n.Obj().Name() == "Number" {
					ok, why = true, "useNumber edge returns Number(s), nil — a type conversion of the parameter, no parsing or formatting"
					// … and nothing is parsed before the flag is looked at: a range check in front
					// of the branch would reject literals (1e400) that a Number holds without loss
					allInstrs(cn, func(i ssa.Instruction) {
						call, isCall := i.(*ssa.Call)
						if !isCall {
							return
						}
						f := call.Call.StaticCallee()
						if f == nil || f.Pkg == nil || f.Pkg.Pkg.Path() != "strconv" {
							return
						}
						if !edgeDominates(bb, 1-s, call.Block()) {
							ok, why = false, "strconv."+f.Name()+" at "+b.posOf(call)+" runs before (or regardless of) the useNumber branch: with useNumber set a literal outside the float64 range is rejected instead of being kept as it is"
						}
					})
				} else {
					why = "the useNumber edge returns the literal as " + typeShort(unwrapMI(r.Results[0]).Type()) + ", not as Number"
				}
			} else {
				why = "the value returned on the useNumber edge is not a plain conversion of the literal (it is recomputed: " + describeValue(unwrapMI(r.Results[0])) + ")"
			}
		}
		v := Discharged
		if !ok {
			v = Violated
		}
		l.add("R-NUM", "codec", key, b.rel(cn.Pos()), v, why, true)
	}
	// (iii) encoder's Number branch
	if se := fnOf(b.Codec, "stringEncoder"); se == nil {
		l.add("R-NUM", "codec", "anchor stringEncoder", "", Undecided, "stringEncoder not found", false)
	} else {
		key := "stringEncoder: a Number is written as its stored literal"
		ok, why := false, "no branch on v.Type() == numberType found"
		for _, bb := range se.Blocks {
			iff, isIf := bb.Instrs[len(bb.Instrs)-1].(*ssa.If)
			if !isIf {
				continue
			}
			bo, isBo := iff.Cond.(*ssa.BinOp)
			if !isBo || bo.Op != token.EQL {
				continue
			}
			g := loadedGlobal(bo.Y)
			if g == nil {
				g = loadedGlobal(bo.X)
			}
			if g == nil || g.Name() != "numberType" {
				continue
			}
			// within the blocks dominated by the true edge: WriteString(arg) where arg derives from v.String() or "0"; no strconv call
			ok, why = true, ""
			nWrites := 0
			for _, x := range se.Blocks {
				if !edgeDominates(bb, 0, x) {
					continue
				}
				for _, ins := range x.Instrs {
					call, isCall := ins.(*ssa.Call)
					if !isCall {
						continue
					}
					f := call.Call.StaticCallee()
					if f == nil {
						continue
					}
					n := stdName(f)
					if strings.HasPrefix(n, "strconv.") || strings.HasPrefix(n, "math/big") || strings.HasPrefix(n, "fmt.Sprint") {
						ok, why = false, "the Number branch calls "+n+" at "+b.posOf(ins)+": the literal is reformatted"
					}
					if n == "bytes.(*Buffer).WriteString" || n == "bytes.(*Buffer).Write" {
						nWrites++
						if !numLiteralOrigin(call.Call.Args[1], se.Params[1], map[ssa.Value]bool{}) {
							ok, why = false, "the text written at "+b.posOf(ins)+" is not v.String() (or \"0\" for the empty zero value)"
						}
					}
				}
			}
			if ok && nWrites == 0 {
				ok, why = false, "the Number branch writes nothing"
			}
			if ok {
				why = fmt.Sprintf("under v.Type() == numberType the %d write(s) emit v.String() itself (or the constant \"0\"); no numeric conversion in the branch", nWrites)
			}
		}
		v := Discharged
		if !ok {
			v = Violated
		}
		l.add("R-NUM", "codec", key, b.rel(se.Pos()), v, why, true)
	}
	// (iv) an unparsed node re-emits its raw bytes
	if rm := b.method(b.Lib, "lazyNode", "RedirectMarshalJSON"); rm == nil {
		l.add("R-NUM", "v5", "anchor RedirectMarshalJSON", "", Undecided, "(*lazyNode).RedirectMarshalJSON not found", false)
	} else {
		key := "lazyNode.RedirectMarshalJSON: an unparsed node is emitted from its raw bytes"
		ok := false
		// every successful return of the which == eRaw arm hands the raw message itself to the codec
		// (whose RawMessage path compacts it with the escape flag): anything else — a wrapper that
		// writes the text verbatim, a copy as plain bytes — bypasses the escaping pass of R-ESCSET
		notRaw := ""
		for _, r := range liveReturns(rm) {
			if !isNilConst(r.Results[1]) {
				continue
			}
			underRaw := false
			for _, f := range dominatingFacts(r.Block()) {
				bo, isBo := f.V.(*ssa.BinOp)
				if !isBo || bo.Op != token.EQL || !f.True {
					continue
				}
				if _, f1, isW := fieldLoad(bo.X); isW && f1.Field == "which" {
					if k, isK := intConst(bo.Y); isK && k == b.constInt("eRaw") {
						underRaw = true
					}
				}
			}
			if !underRaw {
				continue
			}
			v0 := unwrapMI(r.Results[0])
			if _, fr, isF := fieldLoad(v0); !isF || fr.Field != "raw" {
				notRaw = "under which == eRaw the value returned at " + b.posOf(r) + " is " + describeValue(v0) + ", not the node's raw message: the codec no longer compacts and escapes it (with EscapeHTML on, <, >, & and U+2028/9 of untouched values would appear unescaped)"
			}
		}
		if notRaw != "" {
			l.add("R-NUM", "v5", "lazyNode.RedirectMarshalJSON: an unparsed node hands the codec its raw message itself", b.rel(rm.Pos()), Violated, notRaw, true)
		} else {
			l.add("R-NUM", "v5", "lazyNode.RedirectMarshalJSON: an unparsed node hands the codec its raw message itself", b.rel(rm.Pos()), Discharged, "every successful return under which == eRaw is the field raw", true)
		}
		for _, r := range returnsOf(rm) {
			v0 := unwrapMI(r.Results[0])
			if _, fr, isF := fieldLoad(v0); isF && fr.Field == "raw" && isNilConst(r.Results[1]) {
				// controlled by which == eRaw
				for _, e := range b.controlDepsTransitive(r.Block()) {
					iff, isIf := e.From.Instrs[len(e.From.Instrs)-1].(*ssa.If)
					if !isIf {
						continue
					}
					bo, isBo := iff.Cond.(*ssa.BinOp)
					if !isBo || bo.Op != token.EQL {
						continue
					}
					_, f1, isW := fieldLoad(bo.X)
					if isW && f1.Field == "which" && e.Succ == 0 {
						if k, isK := intConst(bo.Y); isK && k == b.constInt("eRaw") {
							ok = true
						}
					}
				}
			}
		}
		v, why := Discharged, "the which == eRaw arm returns n.raw, which the codec copies through compact (only the escaping substitutions of R-ESCSET apply)"
		if !ok {
			v, why = Violated, "no return of n.raw under which == eRaw: untouched values would be re-encoded from a parsed form instead of copied"
		}
		l.add("R-NUM", "v5", key, b.rel(rm.Pos()), v, why, true)
	}
	// the same census for the legacy body: its patch side (test, Equal) compares number texts,
	// so a conversion through float64 makes distinct literals equal
	if lb := c.Legacy; lb != nil {
		key := "legacy library: JSON number texts are never parsed or converted"
		bad := ""
		for _, fn := range lb.srcFuncs(lb.Lib) {
			allInstrs(fn, func(i ssa.Instruction) {
				call, ok := i.(*ssa.Call)
				if !ok {
					return
				}
				f := call.Call.StaticCallee()
				if f == nil {
					return
				}
				n := stdName(f)
				if n == "strconv.ParseFloat" || n == "strconv.ParseInt" || n == "strconv.ParseUint" || strings.HasPrefix(n, "math/big.") {
					bad = fname(fn) + " calls " + n + " at " + lb.posOf(i)
				}
				if (f.Name() == "Float64" || f.Name() == "Int64") && recvTypeName(f) == "Number" {
					bad = fname(fn) + " calls Number." + f.Name() + " at " + lb.posOf(i)
				}
				// the standard decoder turns a number into a float64 wherever its target is an
				// interface: that happens where CreateMergePatch diffs two objects and in the
				// exported accessor ValueInterface, and nowhere on the side that compares texts
				if (n == "encoding/json.Unmarshal" || n == "encoding/json.(*Decoder).Decode") && len(call.Call.Args) >= 1 {
					tgt := call.Call.Args[len(call.Call.Args)-1]
					if mi, isMI := tgt.(*ssa.MakeInterface); isMI {
						tgt = mi.X
					}
					if pt, isPtr := tgt.Type().Underlying().(*types.Pointer); isPtr && holdsInterfaceOrFloat(pt.Elem(), 0) {
						okFn := fn == lb.roleFn("createObjectMergePatch") || (recvTypeName(fn) == "Operation" && fn.Name() == "ValueInterface")
						if !okFn {
							bad = fname(fn) + " decodes into " + typeShort(pt.Elem()) + " at " + lb.posOf(i) + " (numbers become float64)"
						}
					}
				}
			})
		}
		if bad != "" {
			l.add("R-NUM", "legacy", key, "", Violated, bad+": two different literals can compare equal (9007199254740993 and 9007199254740992 are one float64), so a test that must fail passes", true)
		} else {
			l.add("R-NUM", "legacy", key, "", Discharged, "no call of strconv.ParseFloat/ParseInt/ParseUint, Number.Float64/Int64 or math/big in the legacy library", true)
		}
	}
	// (v) no numeric conversion of JSON numbers in the v5 library
	{
		key := "v5 library: JSON numbers are never parsed or converted"
		bad := ""
		var atoi []string
		for _, fn := range b.srcFuncs(b.Lib) {
			allInstrs(fn, func(i ssa.Instruction) {
				call, ok := i.(*ssa.Call)
				if !ok {
					return
				}
				f := call.Call.StaticCallee()
				if f == nil {
					return
				}
				n := stdName(f)
				switch {
				case n == "strconv.ParseFloat" || n == "strconv.ParseInt" || n == "strconv.ParseUint" || strings.HasPrefix(n, "math/big."):
					bad = fname(fn) + " calls " + n + " at " + b.posOf(i)
				case f.Name() == "Float64" || f.Name() == "Int64":
					if recvTypeName(f) == "Number" {
						bad = fname(fn) + " calls Number." + f.Name() + " at " + b.posOf(i)
					}
				case n == "strconv.Atoi":
					atoi = append(atoi, fname(fn))
				}
			})
		}
		if bad != "" {
			l.add("R-NUM", "v5", key, "", Violated, bad+": two different literals can compare equal (or a literal can be re-spelled) once numbers go through a machine number type", true)
		} else {
			l.add("R-NUM", "v5", key, "", Discharged, "no call of strconv.ParseFloat/ParseInt/ParseUint, Number.Float64/Int64 or math/big in the library; strconv.Atoi is applied only to reference tokens (in "+strings.Join(dedup(atoi), ", ")+")", true)
		}
		// (vi) every decode the library asks of the codec keeps number literals: the entry point forces
		// useNumber before it decodes, or — for a streaming Decoder — UseNumber was called on that
		// decoder before Decode.
		{
			um := b.method(b.Codec, "decodeState", "unmarshal")
			decodes := func(f *ssa.Function) ssa.CallInstruction {
				for _, ci := range callsTo(f, func(cc *ssa.CallCommon) bool {
					g := cc.StaticCallee()
					return g != nil && (g == um || (recvTypeName(g) == "decodeState" && g.Name() == "value"))
				}) {
					return ci
				}
				return nil
			}
			setsUseNumber := func(f *ssa.Function, before ssa.Instruction) bool {
				ok := false
				allInstrs(f, func(i ssa.Instruction) {
					st, isSt := i.(*ssa.Store)
					if !isSt {
						return
					}
					fa, isFA := st.Addr.(*ssa.FieldAddr)
					if !isFA || fieldName(fa.X.Type(), fa.Field) != "useNumber" {
						return
					}
					if k, isK := boolConst(st.Val); isK && k && b.instrDominates(st, before) {
						ok = true
					}
				})
				return ok
			}
			nSites := 0
			for _, fn := range append(b.srcFuncs(b.Lib), b.srcFuncs(b.Cmd)...) {
				allInstrs(fn, func(i ssa.Instruction) {
					call, ok := i.(*ssa.Call)
					if !ok {
						return
					}
					f := call.Call.StaticCallee()
					if f == nil || f.Pkg != b.Codec || f.Blocks == nil {
						return
					}
					d := decodes(f)
					if d == nil {
						return
					}
					nSites++
					key := fmt.Sprintf("%s: decode through %s keeps number literals", b.canonFname(fn), fname(f))
					switch {
					case setsUseNumber(f, d):
						l.add("R-NUM", "v5", key, b.posOf(call), Discharged, fname(f)+" stores true into useNumber before it decodes", true)
					case recvTypeName(f) == "Decoder":
						recv := call.Call.Args[0]
						found := false
						for _, r := range *recv.Referrers() {
							c2, ok := r.(*ssa.Call)
							if !ok {
								continue
							}
							g := c2.Call.StaticCallee()
							if g == nil || recvTypeName(g) != "Decoder" || len(c2.Call.Args) == 0 || c2.Call.Args[0] != recv {
								continue
							}
							sets := false
							allInstrs(g, func(j ssa.Instruction) {
								if st, ok := j.(*ssa.Store); ok {
									if fa, ok := st.Addr.(*ssa.FieldAddr); ok && fieldName(fa.X.Type(), fa.Field) == "useNumber" {
										if k, isK := boolConst(st.Val); isK && k {
											sets = true
										}
									}
								}
							})
							if sets && b.instrDominates(c2, call) {
								found = true
							}
						}
						if found {
							l.add("R-NUM", "v5", key, b.posOf(call), Discharged, "UseNumber is called on this decoder before Decode", true)
						} else {
							l.add("R-NUM", "v5", key, b.posOf(call), Violated, "the streaming decoder is used without UseNumber: numbers are converted to float64, so a literal outside its range is rejected and every other literal loses its spelling", true)
						}
					default:
						l.add("R-NUM", "v5", key, b.posOf(call), Violated, fname(f)+" decodes without forcing useNumber: numbers are converted to float64 (a literal outside its range is an error, other literals lose their spelling)", true)
					}
				})
			}
			l.stat("R-NUM").Extra["v5_decode_call_sites"] = nSites
		}
		// Number values are compared with == only
		key = "v5 library: values asserted to json.Number are used only in == / != comparisons"
		bad = ""
		n := 0
		for _, fn := range b.srcFuncs(b.Lib) {
			allInstrs(fn, func(i ssa.Instruction) {
				ta, ok := i.(*ssa.TypeAssert)
				if !ok {
					return
				}
				tn, ok := ta.AssertedType.(*types.Named)
				if !ok || tn.Obj().Name() != "Number" {
					return
				}
				var vals []ssa.Value
				if ta.CommaOk {
					for _, ex := range extractOf(ta, 0) {
						vals = append(vals, ex)
					}
				} else {
					vals = append(vals, ta)
				}
				for _, v := range vals {
					for _, r := range *v.Referrers() {
						switch x := r.(type) {
						case *ssa.BinOp:
							n++
							if x.Op != token.EQL && x.Op != token.NEQ {
								bad = "ordered comparison of Numbers at " + b.posOf(r)
							}
						case *ssa.DebugRef, *ssa.MakeInterface, *ssa.Phi, *ssa.Store:
						default:
							bad = fmt.Sprintf("a Number is used by %T at %s in %s", r, b.posOf(r), fname(fn))
						}
					}
				}
			})
		}
		if bad != "" {
			l.add("R-NUM", "v5", key, "", Violated, bad, true)
		} else {
			l.add("R-NUM", "v5", key, "", Discharged, fmt.Sprintf("%d comparison(s) of Number values, all literal (string) equality", n), true)
		}
	}
}

func dedup(ss []string) []string {
	seen := map[string]bool{}
	var out []string
	for _, s := range ss {
		if !seen[s] {
			seen[s] = true
			out = append(out, s)
		}
	}
	return out
}

func unwrapMI(v ssa.Value) ssa.Value {
	for {
		switch x := v.(type) {
		case *ssa.MakeInterface:
			v = x.X
		case *ssa.ChangeInterface:
			v = x.X
		default:
			return v
		}
	}
}

func (b *Body) constInt(name string) int64 {
	if nc, ok := b.Lib.Members[name].(*ssa.NamedConst); ok {
		if k, ok := intConst(nc.Value); ok {
			return k
		}
	}
	return -999
}

// numLiteralOrigin: v is (reflect.Value).String() of param, the constant "0", or a phi of those.
func numLiteralOrigin(v ssa.Value, param ssa.Value, seen map[ssa.Value]bool) bool {
	if seen[v] {
		return true
	}
	seen[v] = true
	switch x := v.(type) {
	case *ssa.Const:
		s, ok := strConst(x)
		return ok && (s == "0" || s == "\"")
	case *ssa.Phi:
		for _, e := range x.Edges {
			if !numLiteralOrigin(e, param, seen) {
				return false
			}
		}
		return true
	case *ssa.Call:
		if f := x.Call.StaticCallee(); f != nil && stdName(f) == "reflect.(Value).String" {
			return x.Call.Args[0] == param
		}
	}
	return false
}

// ---- R-KEYORDER -------------------------------------------------------------------

func ruleKeyOrder(c *Ctx) {
	b := c.V5
	if b == nil {
		return
	}
	l := c.L
	obj := b.method(b.Codec, "decodeState", "object")
	if obj == nil {
		l.add("R-KEYORDER", "codec", "anchor object", "", Undecided, "(*decodeState).object not found", false)
		return
	}
	// the store that publishes the key list
	var pub *ssa.Store
	keysField := "lastKeys"
	allInstrs(obj, func(i ssa.Instruction) {
		if st, ok := i.(*ssa.Store); ok {
			// the decoder state's []string field: the key list (whatever it is called)
			if fa, ok := st.Addr.(*ssa.FieldAddr); ok && fieldOfAddr(fa).Type == "decodeState" {
				if sl, ok := derefPtr(fa.Type()).Underlying().(*types.Slice); ok && isStringType(sl.Elem()) {
					pub = st
					keysField = fieldOfAddr(fa).Field
				}
			}
		}
	})
	if pub == nil {
		l.add("R-KEYORDER", "codec", "object: publishes the key list", b.rel(obj.Pos()), Violated, "object() never stores to lastKeys", true)
		return
	}
	// the published value is the local list: a phi over appends
	var appends []*ssa.Call
	seen := map[ssa.Value]bool{}
	var collect func(v ssa.Value)
	collect = func(v ssa.Value) {
		if v == nil || seen[v] {
			return
		}
		seen[v] = true
		switch x := v.(type) {
		case *ssa.Phi:
			for _, e := range x.Edges {
				collect(e)
			}
		case *ssa.Call:
			if bi, ok := x.Call.Value.(*ssa.Builtin); ok && bi.Name() == "append" {
				appends = append(appends, x)
				collect(x.Call.Args[0])
			}
		}
	}
	collect(pub.Val)
	key := "object: one unconditional append of the decoded key per member, before its value is decoded"
	switch {
	case len(appends) != 1:
		l.add("R-KEYORDER", "codec", key, b.posOf(pub), Violated, fmt.Sprintf("the published list is built by %d append sites (expected exactly one, in the member loop); keys may be listed twice, or appended straight into shared state", len(appends)), true)
	default:
		ap := appends[0]
		bad := ""
		h := innermostLoopHeader(ap.Block())
		// the point that stands for the append in the ordering questions: the append itself, or
		// — when the list is only kept under a condition fixed before the loop, the same one
		// under which it is published — the test of that condition
		var at ssa.Instruction = ap
		guardNote := ""
		if h != nil {
			loop := naturalLoop(h)
			var inLoop []edge
			for _, e := range b.controlDeps(ap.Block()) {
				if loop[e.From] && e.From != h {
					inLoop = append(inLoop, e)
				}
			}
			if len(inLoop) == 1 {
				e := inLoop[0]
				if iff, ok := lastInstr(e.From).(*ssa.If); ok {
					c0, neg := stripNot(iff.Cond)
					outside := true
					if ci, isInstr := c0.(ssa.Instruction); isInstr && loop[ci.Block()] {
						outside = false
					}
					want := (e.Succ == 0) != neg // the outcome of c0 under which the key is kept
					published := false
					for _, f := range dominatingFacts(pub.Block()) {
						if f.V == c0 && f.True == want {
							published = true
						}
					}
					if outside && published {
						at = iff
						guardNote = " (kept only under the condition at " + b.posOf(iff) + ", which is fixed before the loop and is the one under which the list is published)"
					}
				}
			}
		}
		if h == nil {
			bad = "the append is not inside the member loop"
		} else {
			for _, p := range h.Preds {
				if h.Dominates(p) && !at.Block().Dominates(p) {
					bad = "the append does not dominate the loop's back edge: some members are decoded without their key being recorded"
				}
			}
		}
		// operand: string(key) where key is result 0 of unquoteBytes
		ops, ok := varargsOperands(ap.Call.Args[1])
		if !ok || len(ops) != 1 {
			bad = "appended operand not decodable"
		} else {
			o := ops[0]
			ex, isEx := o.(*ssa.Extract)
			if !isEx {
				if cv, isCv := ops[0].(*ssa.Convert); isCv {
					ex, isEx = cv.X.(*ssa.Extract)
				}
			}
			okSrc := false
			isUnquoted := func(v ssa.Value) bool {
				e, ok := v.(*ssa.Extract)
				if !ok {
					if cv, isCv := v.(*ssa.Convert); isCv {
						e, ok = cv.X.(*ssa.Extract)
					}
				}
				if !ok {
					return false
				}
				c, ok := e.Tuple.(*ssa.Call)
				return ok && c.Call.StaticCallee() != nil && strings.HasPrefix(c.Call.StaticCallee().Name(), "unquote")
			}
			if isEx {
				if call, isCall := ex.Tuple.(*ssa.Call); isCall {
					if f := call.Call.StaticCallee(); f != nil && strings.HasPrefix(f.Name(), "unquote") {
						okSrc = true
					} else if f != nil && f.Pkg == obj.Pkg && len(f.Blocks) > 0 {
						// a helper of the decoder that reads the member's name: every value it hands
						// back in that position is the unquoted literal
						all, nr := true, 0
						for _, hr := range liveReturns(f) {
							if ex.Index >= len(hr.Results) {
								all = false
								continue
							}
							hv := hr.Results[ex.Index]
							if isNilConst(hv) {
								continue
							}
							nr++
							if !isUnquoted(hv) {
								all = false
							}
						}
						okSrc = all && nr > 0
					}
				}
			}
			if !okSrc {
				bad = "the appended value is not the unquoted key of the current member"
			}
		}
		// before the value is decoded
		allInstrs(obj, func(i ssa.Instruction) {
			call, ok := i.(*ssa.Call)
			if !ok {
				return
			}
			f := call.Call.StaticCallee()
			if f == nil || recvTypeName(f) != "decodeState" {
				return
			}
			if f.Name() == "value" || f.Name() == "literalStore" {
				if h != nil && naturalLoop(h)[call.Block()] && !b.instrDominates(at, call) {
					bad = "the member's value is decoded (" + f.Name() + " at " + b.posOf(call) + ") before its key is recorded: a nested object's keys would come first"
				}
			}
		})
		if bad != "" {
			l.add("R-KEYORDER", "codec", key, b.posOf(ap), Violated, bad, true)
		} else {
			l.add("R-KEYORDER", "codec", key, b.posOf(ap), Discharged, "keys = append(keys, string(unquoted key)) dominates the loop latch and every value decode in the loop"+guardNote, true)
		}
	}
	// the list is local: no append whose destination is d.lastKeys
	key = "object: the list is a local of the call (nested objects cannot clobber it)"
	bad := ""
	for _, ap := range appends {
		if _, fr, ok := fieldLoad(ap.Call.Args[0]); ok && fr.Field == keysField {
			bad = "keys are appended directly to lastKeys at " + b.posOf(ap) + ": a nested map-typed object overwrites the outer list"
		}
	}
	if !freshSliceIn(pub.Val, map[ssa.Value]bool{}) && bad == "" {
		bad = "the published list is not built from nil by appends in this call"
	}
	if bad != "" {
		l.add("R-KEYORDER", "codec", key, b.posOf(pub), Violated, bad, true)
	} else {
		l.add("R-KEYORDER", "codec", key, b.posOf(pub), Discharged, "the published value is a phi over nil and appends made in this invocation", true)
	}
	// published once, after the loop, only for map targets
	key = "object: the list is published after the member loop, for map targets"
	bad = ""
	if h := innermostLoopHeader(pub.Block()); h != nil {
		bad = "lastKeys is stored inside a loop"
	}
	ctl := false
	for _, bb := range obj.Blocks {
		iff, ok := lastInstr(bb).(*ssa.If)
		if !ok {
			continue
		}
		cv, neg := stripNot(iff.Cond)
		bo, ok := cv.(*ssa.BinOp)
		if !ok || (bo.Op != token.EQL && bo.Op != token.NEQ) {
			continue
		}
		call, ok := bo.X.(*ssa.Call)
		if !ok || call.Call.StaticCallee() == nil || call.Call.StaticCallee().Name() != "Kind" {
			continue
		}
		// the edge on which the kind IS the constant
		eq := 0
		if bo.Op == token.NEQ {
			eq = 1
		}
		if neg {
			eq = 1 - eq
		}
		if edgeDominates(bb, eq, pub.Block()) {
			ctl = true
		}
	}
	if !ctl && bad == "" {
		bad = "the store is not controlled by v.Kind() == reflect.Map"
	}
	if bad != "" {
		l.add("R-KEYORDER", "codec", key, b.posOf(pub), Violated, bad, true)
	} else {
		l.add("R-KEYORDER", "codec", key, b.posOf(pub), Discharged, "single store after the loop under v.Kind() == reflect.Map", true)
	}
}

// holdsInterfaceOrFloat: a value of type t, filled by the standard decoder, holds numbers as
// float64 somewhere (an interface or a float type in it).
func holdsInterfaceOrFloat(t types.Type, depth int) bool {
	if depth > 4 {
		return false
	}
	switch u := t.Underlying().(type) {
	case *types.Interface:
		return true
	case *types.Basic:
		return u.Info()&types.IsFloat != 0
	case *types.Map:
		return holdsInterfaceOrFloat(u.Elem(), depth+1)
	case *types.Slice:
		return holdsInterfaceOrFloat(u.Elem(), depth+1)
	case *types.Array:
		return holdsInterfaceOrFloat(u.Elem(), depth+1)
	case *types.Pointer:
		if n, ok := u.Elem().(*types.Named); ok && n.Obj().Name() == "lazyNode" {
			return false // decoded by its own UnmarshalJSON, which keeps the text
		}
		return holdsInterfaceOrFloat(u.Elem(), depth+1)
	}
	return false
}

// numberTextWrittenAsIs (R-NUM, codec): the encoder writes a Number as the text it holds. The
// only spelling it replaces is the empty one (by 0, as encoding/json does): in stringEncoder
// the text is compared with no constant but "". A second special case (-0 treated like the
// empty Number, say) rewrites a literal of the document.
func (b *Body) numberTextWrittenAsIs(l *Ledger) {
	if b.Codec == nil {
		return
	}
	fn := fnOf(b.Codec, "stringEncoder")
	if fn == nil || len(fn.Blocks) == 0 {
		return
	}
	key := "stringEncoder: a Number is written as the text it holds (only the empty text is replaced)"
	bad := ""
	n := 0
	allInstrs(fn, func(i ssa.Instruction) {
		bo, ok := i.(*ssa.BinOp)
		if !ok || (bo.Op != token.EQL && bo.Op != token.NEQ) {
			return
		}
		for _, p := range [][2]ssa.Value{{bo.X, bo.Y}, {bo.Y, bo.X}} {
			s0, isS := strConst(p[0])
			if !isS {
				continue
			}
			call, isCall := unwrapConv(p[1]).(*ssa.Call)
			if !isCall || stdName(call.Call.StaticCallee()) != "reflect.(Value).String" {
				continue
			}
			n++
			if s0 != "" {
				bad = "the text of the value is compared with " + fmt.Sprintf("%q", s0) + " at " + b.posOf(bo) + ": a literal other than the empty one is singled out for rewriting"
			}
		}
	})
	if bad != "" {
		l.add("R-NUM", "codec", key, b.rel(fn.Pos()), Violated, bad, true)
	} else if n > 0 {
		l.add("R-NUM", "codec", key, b.rel(fn.Pos()), Discharged, fmt.Sprintf("%d comparison(s) of the text with a constant, each with the empty string", n), true)
	}
}
