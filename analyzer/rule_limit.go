package main

// R-COPYLIMIT (the copy budget is accumulated, compared and enforced in
// that order) and R-OPTSCOPE (AllowMissingPathOnRemove forgives only what it
// says).

import (
	"fmt"
	"go/token"
	"go/types"
	"sort"
	"strings"

	"golang.org/x/tools/go/ssa"
)

func init() {
	register(&Rule{ID: "R-COPYLIMIT", Doc: "the copy budget: the accumulator is one local of the apply function, outside the operation loop, handed only to the copy handler; the handler adds int64(size) exactly once, where size is result 1 of the deepCopy whose result 0 is inserted and equals len() of the bytes marshalled with the same encoder call and escaping option as the final output; the limit test is (limit > 0 && total > limit), evaluated after the addition and before the insertion, with the limit read from the per-call option (v5) / the package variable (legacy); the over-limit edge returns the constructor's error; NewApplyOptions copies the package defaults",
		Run: ruleCopyLimit, Min: map[string]int{"v5": 9, "legacy": 6}})
	register(&Rule{ID: "R-OPTSCOPE", Doc: "AllowMissingPathOnRemove is read only in the remove handler and in the remove methods of the two containers; each read decides a branch whose option-on edge returns a nil error and whose option-off edge returns a non-nil error, with no membership-changing write before either return; other callers of container.remove pass options in which the field is not set by the library",
		Run: ruleOptScope, Min: map[string]int{"v5": 6}})
}

// loadedGlobal: v = *G for a package-level variable G.
func loadedGlobal(v ssa.Value) *ssa.Global {
	u, ok := v.(*ssa.UnOp)
	if !ok || u.Op != token.MUL {
		return nil
	}
	g, _ := u.X.(*ssa.Global)
	return g
}

// loadOf: v = *addr, returns addr.
func loadOf(v ssa.Value) ssa.Value {
	u, ok := v.(*ssa.UnOp)
	if !ok || u.Op != token.MUL {
		return nil
	}
	return u.X
}

// cmpNorm normalises an ordered comparison to (big, small, strict): big > small or big >= small.
func cmpNorm(v ssa.Value) (big, small ssa.Value, strict, ok bool) {
	c, neg := stripNot(v)
	bo, isBin := c.(*ssa.BinOp)
	if !isBin {
		return nil, nil, false, false
	}
	op := bo.Op
	if neg {
		switch op {
		case token.GTR:
			op = token.LEQ
		case token.GEQ:
			op = token.LSS
		case token.LSS:
			op = token.GEQ
		case token.LEQ:
			op = token.GTR
		default:
			return nil, nil, false, false
		}
	}
	switch op {
	case token.GTR:
		return bo.X, bo.Y, true, true
	case token.GEQ:
		return bo.X, bo.Y, false, true
	case token.LSS:
		return bo.Y, bo.X, true, true
	case token.LEQ:
		return bo.Y, bo.X, false, true
	}
	return nil, nil, false, false
}

// limitSource describes where the limit value v is read from.
func (b *Body) limitSource(v ssa.Value) string {
	if g := loadedGlobal(v); g != nil {
		return "global:" + g.Name()
	}
	if base, fr, ok := fieldLoad(v); ok {
		if _, isP := base.(*ssa.Parameter); isP {
			return "param-field:" + fr.Type + "." + fr.Field
		}
		return "field:" + fr.Type + "." + fr.Field
	}
	return ""
}

func (b *Body) optionsHasField(name string) bool {
	t := b.Lib.Type("ApplyOptions")
	if t == nil {
		return false
	}
	st, ok := t.Type().Underlying().(*types.Struct)
	if !ok {
		return false
	}
	for i := 0; i < st.NumFields(); i++ {
		if st.Field(i).Name() == name {
			return true
		}
	}
	return false
}

func ruleCopyLimit(c *Ctx) {
	for _, b := range c.bodies() {
		l := c.L
		add := func(key, pos string, ok bool, good, bad string) {
			v, f := Discharged, good
			if !ok {
				v, f = Violated, bad
			}
			l.add("R-COPYLIMIT", b.Name, key, pos, v, f, true)
		}
		ai := b.findApply()
		if ai == nil || ai.handlers["copy"] == nil || ai.cases["copy"] == nil {
			l.add("R-COPYLIMIT", b.Name, "anchor copy handler", "", Undecided, "copy handler not found through the dispatch", false)
			continue
		}
		h := ai.handlers["copy"]
		call := ai.cases["copy"]
		// (i) accumulator
		accIdx := -1
		var accArg ssa.Value
		for i, p := range h.Params {
			if pt, ok := p.Type().(*types.Pointer); ok {
				if bt, ok := pt.Elem().Underlying().(*types.Basic); ok && bt.Kind() == types.Int64 {
					accIdx = i
				}
			}
		}
		if accIdx < 0 {
			l.add("R-COPYLIMIT", b.Name, "(i) accumulator: the copy handler receives a *int64 running total", b.rel(h.Pos()), Violated, "the copy handler has no *int64 parameter: no running total survives from one copy to the next", true)
			continue
		}
		accArg = call.Call.Args[accIdx]
		accUser := call
		key := "(i) accumulator: one local of the apply function, outside the loop, handed only to the copy handler"
		passBad := ""
		if p, isP := accArg.(*ssa.Parameter); isP && ai.viaCall != nil && p.Parent() == ai.fn {
			// the dispatch is a helper: its parameter is handed to the copy handler only, and the
			// loop function passes the address of its local
			for _, r := range *p.Referrers() {
				switch x := r.(type) {
				case *ssa.Call:
					if x != call {
						passBad = "the dispatch helper also passes the accumulator to " + calleeLabel(&x.Call) + " at " + b.posOf(x)
					}
				case *ssa.DebugRef:
				default:
					passBad = fmt.Sprintf("the dispatch helper uses the accumulator itself (%T) at %s", r, b.posOf(r))
				}
			}
			if pi := paramIdx(p); pi < len(ai.viaCall.Call.Args) {
				accArg = ai.viaCall.Call.Args[pi]
				accUser = ai.viaCall
			}
		}
		al, isAlloc := accArg.(*ssa.Alloc)
		if passBad != "" {
			add(key, b.posOf(call), false, "", passBad)
		} else if !isAlloc {
			add(key, b.posOf(call), false, "", "the running total handed to the copy handler is "+describeValue(accArg)+", not a local variable of the apply function")
		} else {
			bad := ""
			if loopHeaderOf(al.Block()) != nil {
				bad = "the accumulator is declared inside the operation loop: it restarts from zero for every operation"
			}
			for _, r := range *al.Referrers() {
				switch x := r.(type) {
				case *ssa.Call:
					if x != accUser {
						bad = "the accumulator is also passed to " + calleeLabel(&x.Call) + " at " + b.posOf(x)
					}
				case *ssa.Store:
					if x.Addr == ssa.Value(al) {
						if loopHeaderOf(x.Block()) != nil {
							bad = "the apply function stores to the accumulator inside the loop at " + b.posOf(x)
						} else if cv, ok := intConst(x.Val); !ok || cv != 0 {
							bad = "the apply function initialises the accumulator with a non-zero value at " + b.posOf(x)
						}
					}
				case *ssa.UnOp, *ssa.DebugRef:
				default:
					bad = fmt.Sprintf("unexpected use of the accumulator (%T) at %s", r, b.posOf(r))
				}
			}
			add(key, b.posOf(al), bad == "", "local "+al.Comment+" allocated before the loop; its address is passed only to the copy handler", bad)
		}
		acc := ssa.Value(h.Params[accIdx])

		// (ii) one store of old + int64(deepCopy#1)
		var stores []*ssa.Store
		allInstrs(h, func(i ssa.Instruction) {
			if st, ok := i.(*ssa.Store); ok && st.Addr == acc {
				stores = append(stores, st)
			}
		})
		// the budget arithmetic may live in a function of its own that the handler hands the
		// accumulator to (a method of a counter type): the obligations are then stated there, a
		// parameter standing for the argument the handler passes
		bf := h
		var gcall *ssa.Call
		if len(stores) == 0 {
			for _, cs := range callsTo(h, func(cc *ssa.CallCommon) bool {
				g := cc.StaticCallee()
				return g != nil && g.Pkg == b.Lib && len(g.Blocks) > 0
			}) {
				cc, isCall := cs.(*ssa.Call)
				if !isCall {
					continue
				}
				g := cc.Call.StaticCallee()
				for ai, a := range cc.Call.Args {
					if a != acc || ai >= len(g.Params) {
						continue
					}
					var gs []*ssa.Store
					allInstrs(g, func(i ssa.Instruction) {
						if st, ok := i.(*ssa.Store); ok && st.Addr == ssa.Value(g.Params[ai]) {
							gs = append(gs, st)
						}
					})
					if len(gs) > 0 && gcall == nil {
						bf, gcall, stores = g, cc, gs
						acc = g.Params[ai]
					}
				}
			}
		}
		// a value of the budget function as the handler sees it
		argIn := func(v ssa.Value) ssa.Value {
			if gcall == nil {
				return v
			}
			if p, ok := unwrapConv(v).(*ssa.Parameter); ok && p.Parent() == bf {
				return gcall.Call.Args[paramIdx(p)]
			}
			return v
		}
		limSrc := func(v ssa.Value) string {
			return b.limitSource(argIn(v))
		}
		accLoad := func(v ssa.Value) bool {
			return loadOf(v) == acc || loadOf(unwrapConv(v)) == acc
		}
		key = "(ii) accumulation: exactly one store, of old total + int64(size of the inserted copy)"
		var st *ssa.Store
		var dcCall *ssa.Call
		if len(stores) != 1 {
			add(key, b.rel(h.Pos()), false, "", fmt.Sprintf("%d stores to the running total in the copy handler", len(stores)))
		} else {
			st = stores[0]
			bad := "the stored value is not (load of the total) + int64(result 1 of deepCopy): a plain assignment forgets earlier copies"
			if bo, ok := st.Val.(*ssa.BinOp); ok && bo.Op == token.ADD {
				x, y := bo.X, bo.Y
				if accLoad(y) {
					x, y = y, x
				}
				if accLoad(x) {
					if ex, ok := unwrapConv(argIn(unwrapConv(y))).(*ssa.Extract); ok && ex.Index == 1 {
						if dc, ok := ex.Tuple.(*ssa.Call); ok {
							// the same deepCopy whose #0 is inserted
							for _, a := range containerCalls(h, "add") {
								if e0, ok := a.Common().Args[1].(*ssa.Extract); ok && e0.Tuple == ssa.Value(dc) && e0.Index == 0 {
									dcCall = dc
								}
							}
							if dcCall == nil {
								bad = "the size added is result 1 of " + calleeLabel(&dc.Call) + " but the inserted value is not result 0 of that call"
							}
						}
					}
				}
			}
			add(key, b.posOf(st), dcCall != nil, "total = total + int64(deepCopy#1), and deepCopy#0 of the same call is what container.add inserts", bad)
		}

		// (vii) every copy the handler makes is the one that is charged
		if dcCall != nil {
			if dcf := dcCall.Call.StaticCallee(); dcf != nil {
				bad := ""
				for _, cs := range callsTo(h, func(cc *ssa.CallCommon) bool { return cc.StaticCallee() == dcf }) {
					if cs != ssa.CallInstruction(dcCall) {
						bad = "a second " + fname(dcf) + " at " + b.posOf(cs) + " makes a copy whose size is not added to the running total: what it inserts grows the document outside the limit"
					}
				}
				add("(vii) every copy made in the handler is the one that is charged", b.posOf(dcCall), bad == "", "one "+fname(dcf)+" call in the copy handler, its size is what is accumulated", bad)
			}
		}

		// (ii') deepCopy's size is len() of the marshalled bytes, marshalled like the output
		if dcCall != nil {
			dcFn := dcCall.Call.StaticCallee()
			key = "(ii) size: deepCopy's result 1 is len() of the bytes its result 0 is built from"
			if dcFn == nil || dcFn.Blocks == nil {
				l.add("R-COPYLIMIT", b.Name, key, b.posOf(dcCall), Undecided, "deepCopy callee unresolved", false)
			} else {
				bad := ""
				var marsh *ssa.Call
				n := 0
				for _, r := range returnsOf(dcFn) {
					if isNilConst(r.Results[0]) {
						if cv, ok := intConst(r.Results[1]); !ok || cv != 0 {
							bad = "a nil copy is reported with a non-zero size at " + b.posOf(r)
						}
						continue
					}
					n++
					ln, ok := r.Results[1].(*ssa.Call)
					if !ok {
						bad = "size returned at " + b.posOf(r) + " is not a len() call"
						continue
					}
					bi, ok := ln.Call.Value.(*ssa.Builtin)
					if !ok || bi.Name() != "len" {
						bad = "size returned at " + b.posOf(r) + " is not a len() call"
						continue
					}
					src := ln.Call.Args[0]
					ex, ok := src.(*ssa.Extract)
					if !ok || ex.Index != 0 {
						bad = "len() is taken of " + describeValue(src) + ", not of the marshalled bytes"
						continue
					}
					mc, ok := ex.Tuple.(*ssa.Call)
					if !ok {
						bad = "len() operand is not the result of a marshal call"
						continue
					}
					marsh = mc
					// result 0 must be built from the same bytes
					t := taintClosure(dcFn, []ssa.Value{ex}, nil)
					if !t[r.Results[0]] {
						bad = "the returned node at " + b.posOf(r) + " is not built from the bytes whose length is reported"
					}
					// marshal input is the source parameter
					if len(mc.Call.Args) == 0 || (mc.Call.Args[0] != ssa.Value(dcFn.Params[0]) && unwrapConv(mc.Call.Args[0]) != ssa.Value(dcFn.Params[0])) {
						if !(mc.Call.IsInvoke() && mc.Call.Value == ssa.Value(dcFn.Params[0])) {
							bad = "the marshalled value is not deepCopy's source parameter"
						}
					}
				}
				if n == 0 && bad == "" {
					bad = "deepCopy has no return with a non-nil node"
				}
				add(key, b.rel(dcFn.Pos()), bad == "", "size = len(marshal(src)#0) and the node is built from those bytes", bad)

				// the encoder call may sit in a helper of deepCopy (encode, validate, return the
				// bytes): the helper's own call is the one compared, provided the helper is handed
				// deepCopy's source and options parameters and returns the encoder's bytes
				if marsh != nil {
					if hf := marsh.Call.StaticCallee(); hf != nil && hf.Pkg == b.Lib && len(hf.Blocks) > 0 && b.Codec != nil {
						var inner *ssa.Call
						nInner := 0
						allInstrs(hf, func(i ssa.Instruction) {
							if cc, ok := i.(*ssa.Call); ok {
								if g := cc.Call.StaticCallee(); g != nil && g.Pkg == b.Codec && strings.HasPrefix(g.Name(), "Marshal") {
									inner = cc
									nInner++
								}
							}
						})
						okHelper := nInner == 1 && len(inner.Call.Args) > 0
						if okHelper {
							// the helper encodes its first parameter …
							a0 := inner.Call.Args[0]
							if mi, isMI := a0.(*ssa.MakeInterface); isMI {
								a0 = mi.X
							}
							if a0 != ssa.Value(hf.Params[0]) {
								okHelper = false
							}
							// … returns exactly those bytes on success …
							ei := errResultIndex(hf)
							for _, r := range returnsOf(hf) {
								if ei >= 0 && b.definitelyNonNilErr(r.Results[ei], r.Block(), 0) {
									continue
								}
								ex, isEx := r.Results[0].(*ssa.Extract)
								if !isEx || ex.Tuple != ssa.Value(inner) || ex.Index != 0 {
									okHelper = false
								}
							}
							// … and is given deepCopy's own parameters
							for _, a := range marsh.Call.Args {
								if _, isP := a.(*ssa.Parameter); !isP {
									okHelper = false
								}
							}
						}
						if okHelper {
							marsh = inner
						}
					}
				}
				// same encoder + same escaping option as the final output (v5)
				if marsh != nil && b.optionsHasField("EscapeHTML") {
					key = "(ii) size: measured as spelled in the output (same encoder call, same EscapeHTML option)"
					mf := marsh.Call.StaticCallee()
					var finals []*ssa.Call
					allInstrs(b.encodeFnOf(ai), func(i ssa.Instruction) {
						if cc, ok := i.(*ssa.Call); ok && cc.Call.StaticCallee() != nil && cc.Call.StaticCallee().Pkg == b.Codec && strings.HasPrefix(cc.Call.StaticCallee().Name(), "Marshal") {
							finals = append(finals, cc)
						}
					})
					bad := ""
					if mf == nil || len(finals) == 0 {
						bad = "marshal calls not resolved"
					} else {
						for _, fc := range finals {
							if fc.Call.StaticCallee() != mf {
								bad = "deepCopy measures with " + fname(mf) + " but the output is produced by " + fname(fc.Call.StaticCallee())
							}
						}
						src := func(cc *ssa.Call) string {
							if len(cc.Call.Args) < 2 {
								return "(no option argument)"
							}
							return b.limitSource(cc.Call.Args[1])
						}
						ms := src(marsh)
						if ms != "param-field:ApplyOptions.EscapeHTML" {
							bad = "deepCopy's escaping argument is " + ms + ", not the caller's options.EscapeHTML"
						}
						for _, fc := range finals {
							if s := src(fc); s != ms {
								bad = "the output is escaped per " + s + " but the copy is measured per " + ms
							}
						}
						// deepCopy receives the handler's own options
						for i, p := range dcFn.Params {
							if isPtrToNamed(p.Type(), "ApplyOptions") {
								if _, isParam := dcCall.Call.Args[i].(*ssa.Parameter); !isParam {
									bad = "deepCopy is not given the handler's options parameter"
								}
							}
						}
					}
					add(key, b.posOf(marsh), bad == "", fname(mf)+"(src, options.EscapeHTML) in deepCopy and for the final output", bad)
				}
			}
		}

		// (iii)+(iv) the limit test
		wantSrc := "global:AccumulatedCopySizeLimit"
		if b.optionsHasField("AccumulatedCopySizeLimit") {
			wantSrc = "param-field:ApplyOptions.AccumulatedCopySizeLimit"
		}
		var conj1, conj2 *ssa.BasicBlock // limit > 0 ; total > limit
		var c1Succ, c2Succ int
		badShape := ""
		for _, bb := range bf.Blocks {
			iff, ok := bb.Instrs[len(bb.Instrs)-1].(*ssa.If)
			if !ok {
				continue
			}
			big, small, strict, ok := cmpNorm(iff.Cond)
			if !ok {
				continue
			}
			// which successor is taken when "big > small" holds: cmpNorm already
			// folded negations, so it is successor 0 of the un-negated form.
			_, neg := stripNot(iff.Cond)
			trueSucc := 0
			if neg {
				trueSucc = 0 // cmpNorm folded the negation into the operator
			}
			bs, ss := limSrc(big), limSrc(small)
			switch {
			case bs != "" && strings.HasSuffix(bs, "AccumulatedCopySizeLimit"):
				if z, ok := intConst(small); ok {
					if !strict || z != 0 {
						badShape = fmt.Sprintf("the enabling test at %s is not `limit > 0` (compares with %d, strict=%v): a limit of 0 no longer disables the check, or a positive limit is ignored", b.posOf(iff), z, strict)
					}
					if bs != wantSrc {
						badShape = "the enabling test reads the limit from " + bs + ", expected " + wantSrc
					}
					conj1, c1Succ = bb, trueSucc
				}
			case accLoad(big) && ss != "" && strings.HasSuffix(ss, "AccumulatedCopySizeLimit"):
				if !strict {
					badShape = "the limit test at " + b.posOf(iff) + " is `total >= limit`: a total equal to the limit is rejected although it is within the limit"
				}
				if ss != wantSrc {
					badShape = "the limit test reads the limit from " + ss + ", expected " + wantSrc
				}
				conj2, c2Succ = bb, trueSucc
			case accLoad(small) && bs != "" && strings.HasSuffix(bs, "AccumulatedCopySizeLimit"):
				// limit > total / limit >= total: the exceed edge is the false edge
				if strict {
					badShape = "the limit test at " + b.posOf(iff) + " is `limit > total` (exceeds when total >= limit): a total equal to the limit is rejected"
				}
				if bs != wantSrc {
					badShape = "the limit test reads the limit from " + bs + ", expected " + wantSrc
				}
				conj2, c2Succ = bb, 1-trueSucc
			case (accLoad(big) || accLoad(small)) && (bs != "" || ss != ""):
				badShape = "the running total is compared with " + bs + ss + " at " + b.posOf(iff) + ", not with the accumulated-copy-size limit"
			}
		}
		key = "(iii) limit test: (limit > 0 && total > limit), limit read from " + wantSrc
		if conj1 == nil || conj2 == nil {
			why := "the copy handler has no branch comparing the running total with the limit"
			if conj2 != nil {
				why = "the copy handler has no `limit > 0` enabling test: a limit of 0 does not disable the check"
			}
			if badShape != "" {
				why = badShape
			}
			add(key, b.rel(h.Pos()), false, "", why)
			continue
		}
		add(key, b.posOf(conj2.Instrs[len(conj2.Instrs)-1]), badShape == "", "conjuncts found at "+b.posOf(conj1.Instrs[len(conj1.Instrs)-1])+" and "+b.posOf(conj2.Instrs[len(conj2.Instrs)-1])+", both strict", badShape)

		// (iv) ordering
		key = "(iv) order: addition, then the limit test, then the insertion; over-limit returns the size error"
		{
			bad := ""
			if1 := conj1.Instrs[len(conj1.Instrs)-1]
			if2 := conj2.Instrs[len(conj2.Instrs)-1]
			if st == nil {
				bad = "no accumulation store"
			} else {
				if !b.instrDominates(st, if1) || !b.instrDominates(st, if2) {
					bad = "the addition does not precede the limit test on every path (the total is compared before the current copy is counted)"
				}
				// the load compared in conj2 must come after the store
				iff2 := if2.(*ssa.If)
				big, small, _, _ := cmpNorm(iff2.Cond)
				for _, v := range []ssa.Value{big, small} {
					if accLoad(v) {
						if ld, ok := unwrapConv(v).(*ssa.UnOp); ok && !b.instrDominates(st, ld) {
							bad = "the total compared with the limit is read before the addition"
						}
					}
				}
			}
			// conj2 is evaluated only when conj1 holds
			if !edgeDominates(conj1, c1Succ, conj2) {
				bad = "the limit comparison is not guarded by the `limit > 0` test"
			}
			// exceed edge returns the constructor's error
			ex := conj2.Succs[c2Succ]
			r, ok := ex.Instrs[len(ex.Instrs)-1].(*ssa.Return)
			if !ok {
				bad = "the over-limit edge does not return"
			} else {
				ch := c.errFor(b).chain(r.Results[len(r.Results)-1], map[ssa.Value]bool{})
				if !ch["T:*jsonpatch.AccumulatedCopySizeError"] || len(ch) != 1 {
					bad = "the over-limit edge returns " + ch.String() + ", not exactly *AccumulatedCopySizeError"
				}
			}
			// the insertion happens after the test
			if gcall != nil {
				// … which sits in the budget function: the handler inserts only where that
				// function reported no error, and hands its error back as it is
				for _, a := range containerCalls(h, "add") {
					if ok, why := b.successDominates(gcall, a); !ok {
						bad = "container.add at " + b.posOf(a) + " does not lie behind the success of " + fname(bf) + " (" + why + "): the copy is inserted although the budget is exceeded"
					}
				}
				for _, e := range errResultOf(gcall) {
					for _, t := range nilTests(h, e) {
						nb := t.Blk.Succs[t.NonNilSucc]
						if r, isRet := lastInstr(nb).(*ssa.Return); isRet {
							ch := c.errFor(b).chain(r.Results[len(r.Results)-1], map[ssa.Value]bool{})
							if !ch["T:*jsonpatch.AccumulatedCopySizeError"] || len(ch) != 1 {
								bad = "the handler turns the error of " + fname(bf) + " into " + ch.String() + ", not exactly *AccumulatedCopySizeError"
							}
						}
					}
				}
			}
			for _, a := range containerCalls(h, "add") {
				if gcall != nil {
					break
				}
				if !conj1.Dominates(a.Block()) || a.Block() == conj1 {
					bad = "container.add at " + b.posOf(a) + " is not preceded by the limit test (the copy is inserted before the budget is checked)"
				}
				if ex.Dominates(a.Block()) {
					bad = "container.add runs on the over-limit edge"
				}
				if st != nil && !b.instrDominates(st, a) {
					bad = "container.add is not preceded by the accumulation"
				}
			}
			// the handler reads the total only through its parameter (no second counter)
			add(key, b.posOf(if2), bad == "", "store dominates both conjuncts; conj2 only under conj1; the both-true edge returns the *AccumulatedCopySizeError constructor's result; both conjunct blocks precede container.add, which is unreachable from the over-limit edge", bad)
		}

		// (x) the size error is reported on the over-limit edge of that test and nowhere else:
		// a second, coarser test (against the length of a remembered text, say) refuses
		// copies whose exact total is within the limit
		{
			key := "(x) the size error is returned on the over-limit edge of the limit test only"
			bad := ""
			for _, fn := range []*ssa.Function{bf, h} {
				for _, bb := range fn.Blocks {
					r, ok := lastInstr(bb).(*ssa.Return)
					if !ok || len(r.Results) == 0 {
						continue
					}
					ch := c.errFor(b).chain(r.Results[len(r.Results)-1], map[ssa.Value]bool{})
					if !ch["T:*jsonpatch.AccumulatedCopySizeError"] {
						continue
					}
					if fn == bf {
						if bb != conj2.Succs[c2Succ] && !edgeDominates(conj2, c2Succ, bb) {
							bad = "the return at " + b.posOf(r) + " answers with *AccumulatedCopySizeError off the over-limit edge of the test at " + b.posOf(lastInstr(conj2)) + ": a copy is refused although the exact total may be within the limit"
						}
						continue
					}
					// the handler hands back what the budget function reported
					okPass := false
					if gcall != nil {
						for _, e := range errResultOf(gcall) {
							for _, t := range nilTests(h, e) {
								nb := t.Blk.Succs[t.NonNilSucc]
								if nb == bb || nb.Dominates(bb) {
									okPass = true
								}
							}
						}
					}
					if !okPass {
						bad = "the handler's return at " + b.posOf(r) + " answers with *AccumulatedCopySizeError without the budget function having reported it"
					}
				}
				if bf == h {
					break
				}
			}
			add(key, b.posOf(lastInstr(conj2)), bad == "", "every return whose error can be the size error lies on the over-limit edge (or passes on the budget function's error)", bad)
		}

		// (xi) a copy that takes place is charged: the handler reports success only behind the
		// accumulation (or the budget function's call). A branch that installs the copy some
		// other way — as the new root, say — and returns leaves that copy out of the total.
		{
			key := "(xi) the copy handler reports success only after the copy was charged"
			bad := ""
			ei := errResultIndex(h)
			for _, r := range liveReturns(h) {
				if ei < 0 || !isNilConst(retVal(r, ei)) {
					continue
				}
				charged := false
				if gcall != nil && b.instrDominates(gcall, r) {
					charged = true
				}
				if st != nil && st.Parent() == h && b.instrDominates(st, r) {
					charged = true
				}
				if !charged {
					bad = "the success return at " + b.posOf(r) + " is not preceded by the addition to the running total on every path: a copy can take place without being counted"
				}
			}
			add(key, b.rel(h.Pos()), bad == "", "every nil-error return of the handler is dominated by the accumulation", bad)
		}

		// (vi) a copy that cannot take place is not charged, and its own failure is what is reported:
		// the accumulation happens only after both locations have been resolved (every
		// findObject call of the handler has answered with a container)
		if st != nil {
			key := "(vi) the copy is charged only after source and destination have been resolved"
			bad := ""
			n := 0
			allInstrs(h, func(i ssa.Instruction) {
				call, ok := i.(*ssa.Call)
				if !ok || !b.isFindObjectCall(&call.Call) {
					return
				}
				n++
				var con ssa.Value
				for _, ex := range extractOf(call, 0) {
					con = ex
				}
				okRes := false
				if con != nil {
					for _, t := range nilTests(h, con) {
						nilSucc := t.Blk.Succs[1-t.NonNilSucc]
						// the accumulation must be unreachable from the "no container" edge
						seen := map[*ssa.BasicBlock]bool{}
						var reach func(bb *ssa.BasicBlock) bool
						chargeBlk := st.Block()
						if gcall != nil {
							chargeBlk = gcall.Block()
						}
						reach = func(bb *ssa.BasicBlock) bool {
							if bb == chargeBlk {
								return true
							}
							if seen[bb] {
								return false
							}
							seen[bb] = true
							for _, sx := range bb.Succs {
								if reach(sx) {
									return true
								}
							}
							return false
						}
						fromNil := reach(nilSucc)
						seen = map[*ssa.BasicBlock]bool{}
						afterTest := reach(t.Blk.Succs[t.NonNilSucc])
						if !fromNil && afterTest && call.Block().Dominates(t.Blk) {
							okRes = true
						}
					}
				}
				if !okRes {
					bad = "the running total is increased at " + b.posOf(st) + " before the location looked up at " + b.posOf(call) + " is known to exist: a copy to an unreachable destination is charged, and can be reported as over the limit instead of as a missing path"
				}
			})
			if n == 0 {
				bad = "no location lookup in the copy handler"
			}
			add(key, b.posOf(st), bad == "", fmt.Sprintf("the accumulation is dominated by the non-nil edge of all %d location lookup(s)", n), bad)
		}
		// legacy: what deepCopy measures is the encoder's output for every kind of node
		if b.Name == "legacy" {
			if mj := b.method(b.Lib, "lazyNode", "MarshalJSON"); mj != nil {
				key := "(ii) size: every arm of lazyNode.MarshalJSON returns the encoder's output (what deepCopy measures is the output spelling)"
				bad := ""
				n := 0
				for _, r := range liveReturns(mj) {
					if !isNilConst(retVal(r, 1)) && b.definitelyNonNilErr(retVal(r, 1), r.Block(), 0) {
						continue
					}
					n++
					ok := false
					if ex, isEx := retVal(r, 0).(*ssa.Extract); isEx {
						if call, isCall := ex.Tuple.(*ssa.Call); isCall {
							if f := call.Call.StaticCallee(); f != nil && f.Pkg != nil && f.Pkg.Pkg.Path() == "encoding/json" && strings.HasPrefix(f.Name(), "Marshal") {
								ok = true
							}
						}
					}
					if !ok {
						bad = "the bytes returned at " + b.posOf(r) + " are " + describeValue(retVal(r, 0)) + ", not the result of json.Marshal: deepCopy then charges the spelling of the input (whitespace counted, <, >, & not yet escaped) instead of the spelling in the output"
					}
				}
				add(key, b.rel(mj.Pos()), bad == "", fmt.Sprintf("%d successful return(s), each json.Marshal(…)", n), bad)
			}
		}
		// other handlers never touch the accumulator: only the copy handler has a *int64 parameter
		{
			var others []string
			for k, hh := range ai.handlers {
				if k == "copy" {
					continue
				}
				for _, p := range hh.Params {
					if pt, ok := p.Type().(*types.Pointer); ok {
						if bt, ok := pt.Elem().Underlying().(*types.Basic); ok && bt.Kind() == types.Int64 {
							others = append(others, k)
						}
					}
				}
			}
			sort.Strings(others)
			add("(i) other operations never count towards the total", b.rel(ai.fn.Pos()), len(others) == 0, "no other handler receives a *int64", "handlers "+strings.Join(others, ",")+" also receive a *int64 running total")
		}

		// (xii) the package default of the limit is 0: Apply with the defaults never refuses a
		// patch for what it copies (a default of 32 MiB makes patches that RFC 6902 evaluates
		// successfully fail)
		if g, _ := b.Lib.Members["AccumulatedCopySizeLimit"].(*ssa.Global); g != nil {
			key := "(xii) the package default of AccumulatedCopySizeLimit is 0 (no limit unless the caller sets one)"
			bad := ""
			for _, st := range b.globalStores(g) {
				if st.Parent() != nil && st.Parent().Name() == "init" {
					if k, isK := intConst(st.Val); !isK || k != 0 {
						bad = "the package initialiser stores " + describeValue(st.Val) + " at " + b.posOf(st) + ": with the defaults a patch that copies more than that is refused"
					}
				}
			}
			l.add("R-COPYLIMIT", b.Name, key, b.rel(g.Pos()), map[bool]string{true: Discharged, false: Violated}[bad == ""], map[bool]string{true: "zero value, or initialised with the constant 0", false: bad}[bad == ""], true)
		}
		// (v) NewApplyOptions copies the package defaults
		if nao := fnOf(b.Lib, "NewApplyOptions"); nao != nil {
			for _, fld := range []string{"AccumulatedCopySizeLimit", "SupportNegativeIndices"} {
				key := "(v) NewApplyOptions initialises " + fld + " from the package default of the same name"
				found := false
				ok := false
				allInstrs(nao, func(i ssa.Instruction) {
					st, isSt := i.(*ssa.Store)
					if !isSt {
						return
					}
					fa, isFA := st.Addr.(*ssa.FieldAddr)
					if !isFA || fieldName(fa.X.Type(), fa.Field) != fld {
						return
					}
					found = true
					if g := loadedGlobal(st.Val); g != nil && g.Name() == fld {
						ok = true
					}
				})
				add(key, b.rel(nao.Pos()), found && ok, "field = load of package variable "+fld, "the field is not initialised from the package variable "+fld+" (the documented package default no longer reaches Apply)")
			}
		}
	}
}

// ---- R-OPTSCOPE ------------------------------------------------------------------

// membershipWrite: instruction changes which members/elements a container has.
func membershipWrite(i ssa.Instruction) (bool, string) {
	switch x := i.(type) {
	case *ssa.Store:
		if fa, ok := x.Addr.(*ssa.FieldAddr); ok {
			fr := fieldOfAddr(fa)
			if (fr.Type == "partialDoc" && (fr.Field == "keys" || fr.Field == "obj")) || (fr.Type == "partialArray" && fr.Field == "nodes") {
				return true, "store to " + fr.Type + "." + fr.Field
			}
		}
		if isNamed(derefPtr(x.Addr.Type()), "container") {
			return true, "store to a container slot"
		}
		if _, ok := x.Addr.(*ssa.IndexAddr); ok {
			if isPtrToNamed(x.Val.Type(), "lazyNode") {
				return true, "element store"
			}
		}
	case *ssa.MapUpdate:
		return true, "map insert"
	case *ssa.Call:
		if bi, ok := x.Call.Value.(*ssa.Builtin); ok && bi.Name() == "delete" {
			return true, "map delete"
		}
		for _, m := range []string{"set", "add", "remove"} {
			if isContainerInvoke(&x.Call, m) {
				return true, "container." + m
			}
		}
	}
	return false, ""
}

func derefPtr(t types.Type) types.Type {
	if p, ok := t.Underlying().(*types.Pointer); ok {
		return p.Elem()
	}
	return t
}

// blocksBetweenEntryAnd: all blocks that lie on some path from entry to bb (inclusive).
func blocksOnPathsTo(bb *ssa.BasicBlock) map[*ssa.BasicBlock]bool {
	out := map[*ssa.BasicBlock]bool{}
	var walk func(x *ssa.BasicBlock)
	walk = func(x *ssa.BasicBlock) {
		if out[x] {
			return
		}
		out[x] = true
		for _, p := range x.Preds {
			walk(p)
		}
	}
	walk(bb)
	return out
}

func ruleOptScope(c *Ctx) {
	b := c.V5
	if b == nil {
		return
	}
	l := c.L
	const field = "AllowMissingPathOnRemove"
	ai := b.findApply()
	if ai == nil || ai.handlers["remove"] == nil {
		l.add("R-OPTSCOPE", "v5", "anchor remove handler", "", Undecided, "remove handler not found", false)
		return
	}
	allowed := map[*ssa.Function]string{ai.handlers["remove"]: "remove handler"}
	for _, impl := range b.implementations(b.Lib.Type("container").Type(), containerMethod(b, "remove")) {
		allowed[impl] = "container remove method"
	}
	// the containers' remove honours the option, so it is the remove handler's and the move
	// handler's to call (move's source is pinned by R-MOVE): a replace spelled as remove + add
	// would have a missing target forgiven and turn into an insertion
	for _, k := range rfc6902Kinds {
		h := ai.handlers[k]
		if h == nil || k == "remove" || k == "move" {
			continue
		}
		key := fmt.Sprintf("handler %q does not go through the container's remove (which honours %s)", k, field)
		if cs := containerCalls(h, "remove"); len(cs) > 0 {
			l.add("R-OPTSCOPE", "v5", key, b.posOf(cs[0]), Violated, "the "+k+" handler calls the container's remove with the caller's options: under "+field+" an absent target is forgiven there, so the operation goes on where it has to fail", true)
		} else {
			l.add("R-OPTSCOPE", "v5", key, b.rel(h.Pos()), Discharged, "no call of container.remove in the handler", true)
		}
	}
	nReads := 0
	for _, fn := range b.srcFuncs(b.Lib) {
		allInstrs(fn, func(i ssa.Instruction) {
			fa, ok := i.(*ssa.FieldAddr)
			if !ok || fieldName(fa.X.Type(), fa.Field) != field || !isNamed(derefPtr(fa.X.Type()), "ApplyOptions") {
				return
			}
			for _, r := range *fa.Referrers() {
				switch x := r.(type) {
				case *ssa.Store:
					// initialising store: only a constant false, only in a constructor of options
					key := fmt.Sprintf("%s: store to %s", fname(fn), field)
					if cv, ok := boolConst(x.Val); ok && !cv {
						l.add("R-OPTSCOPE", "v5", key, b.posOf(x), Discharged, "library code only ever stores the constant false (the option is opt-in by the caller)", true)
					} else {
						l.add("R-OPTSCOPE", "v5", key, b.posOf(x), Violated, "library code switches the option on / copies it from elsewhere", true)
					}
				case *ssa.UnOp:
					nReads++
					key := fmt.Sprintf("%s: read of %s #%d decides only an error-vs-skip branch", fname(fn), field, nReads)
					role, ok := allowed[fn]
					if !ok {
						l.add("R-OPTSCOPE", "v5", key, b.posOf(x), Violated, "the option is read outside the remove handler and the containers' remove methods: it can forgive something other than a remove of an absent target", true)
						continue
					}
					ok2, why := b.optionReadShape(fn, x)
					v := Discharged
					if !ok2 {
						v = Violated
					}
					l.add("R-OPTSCOPE", "v5", key, b.posOf(x), v, role+": "+why, true)
				}
			}
		})
	}
	// every out-of-range rejection of a container's remove method is forgiven under the option:
	// an error return whose immediate controlling branch compares against a length is a
	// "target does not exist" verdict and must sit on the option's false edge instead
	for impl := range allowed {
		if impl == ai.handlers["remove"] {
			continue
		}
		ei := errResultIndex(impl)
		if ei < 0 {
			continue
		}
		n := 0
		bad := ""
		for _, r := range liveReturns(impl) {
			if !b.definitelyNonNilErr(retVal(r, ei), r.Block(), 0) {
				continue
			}
			for _, e := range b.controlDeps(r.Block()) {
				iff, ok := e.From.Instrs[len(e.From.Instrs)-1].(*ssa.If)
				if !ok {
					continue
				}
				involvesLen := false
				var walk func(v ssa.Value, d int)
				walk = func(v ssa.Value, d int) {
					if d > 4 || v == nil {
						return
					}
					if _, ok := lenArg(v); ok {
						involvesLen = true
						return
					}
					switch x := v.(type) {
					case *ssa.BinOp:
						walk(x.X, d+1)
						walk(x.Y, d+1)
					case *ssa.UnOp:
						walk(x.X, d+1)
					}
				}
				walk(iff.Cond, 0)
				// the receiver is the nil container that stands for a null document: nothing is in it
				if x, _, isNil := nilTestOfCond(iff.Cond); isNil && len(impl.Params) > 0 && x == ssa.Value(impl.Params[0]) {
					n++
					bad = fmt.Sprintf("the error return at %s is decided directly by the test for the nil container (%s) and not by the option: in a document that is null no location exists, so with AllowMissingPathOnRemove set the remove is to be skipped like any other remove of an absent target", b.posOf(r), b.posOf(iff))
				}
				if involvesLen {
					n++
					bad = fmt.Sprintf("the error return at %s is decided directly by a length comparison (%s) and not by the option: with AllowMissingPathOnRemove set, a remove of an index that does not exist still aborts the patch", b.posOf(r), b.posOf(iff))
				}
			}
		}
		key := fmt.Sprintf("%s: every out-of-range rejection is under the option's control", fname(impl))
		if bad != "" {
			l.add("R-OPTSCOPE", "v5", key, b.rel(impl.Pos()), Violated, bad, true)
		} else {
			l.add("R-OPTSCOPE", "v5", key, b.rel(impl.Pos()), Discharged, "no error return is the immediate outcome of a length comparison: each range test leads to the option test first", true)
		}
	}
	b.removeRefusals(l, field)
	// an index token too large for an int is an index outside the array, not a malformed token:
	// the array's remove method tells strconv.ErrRange apart on the parse-error edge and lets the
	// option forgive it
	if rm := b.method(b.Lib, "partialArray", "remove"); rm != nil {
		key := "(*partialArray).remove: an index too large for int counts as out of range, not as a malformed token"
		ok := false
		allInstrs(rm, func(i ssa.Instruction) {
			call, isCall := i.(*ssa.Call)
			if !isCall {
				return
			}
			f := call.Call.StaticCallee()
			if f == nil || stdName(f) != "errors.Is" || len(call.Call.Args) != 2 {
				return
			}
			if g := loadedGlobal(call.Call.Args[1]); g == nil || g.Name() != "ErrRange" {
				return
			}
			// its true edge reaches a read of the option
			for _, r := range *call.Referrers() {
				iff, isIf := r.(*ssa.If)
				if !isIf {
					continue
				}
				seen := map[*ssa.BasicBlock]bool{}
				var walk func(bb *ssa.BasicBlock) bool
				walk = func(bb *ssa.BasicBlock) bool {
					if seen[bb] {
						return false
					}
					seen[bb] = true
					for _, ins := range bb.Instrs {
						if fa, isFA := ins.(*ssa.FieldAddr); isFA && fieldName(fa.X.Type(), fa.Field) == field {
							return true
						}
					}
					for _, sx := range bb.Succs {
						if walk(sx) {
							return true
						}
					}
					return false
				}
				if walk(iff.Block().Succs[0]) {
					ok = true
				}
			}
		})
		if ok {
			l.add("R-OPTSCOPE", "v5", key, b.rel(rm.Pos()), Discharged, "errors.Is(err, strconv.ErrRange) on the parse-error edge leads to the option test", true)
		} else {
			l.add("R-OPTSCOPE", "v5", key, b.rel(rm.Pos()), Violated, "every parse error of the index is returned as it is: `remove /99999999999999999999` (a numeric index that exists in no array) aborts the patch even with AllowMissingPathOnRemove set", true)
		}
	}
	// the branch in the handler is on the unreachable-parent edge only, and the
	// container methods' branches are on absent-target edges only
	{
		h := ai.handlers["remove"]
		key := "remove handler: the option is consulted only when findObject found no container"
		ok := true
		why := ""
		allInstrs(h, func(i ssa.Instruction) {
			fa, isFA := i.(*ssa.FieldAddr)
			if !isFA || fieldName(fa.X.Type(), fa.Field) != field {
				return
			}
			// dominated by the nil edge of a findObject result test
			dom := false
			allInstrs(h, func(j ssa.Instruction) {
				ci, isC := j.(*ssa.Call)
				if !isC || !b.isFindObjectCall(&ci.Call) {
					return
				}
				for _, ex := range extractOf(ci, 0) {
					for _, t := range nilTests(h, ex) {
						if edgeDominates(t.Blk, 1-t.NonNilSucc, fa.Block()) {
							dom = true
						}
					}
				}
			})
			if !dom {
				ok = false
				why = "the read at " + b.posOf(fa) + " is not under the container == nil edge"
			}
		})
		v := Discharged
		if !ok {
			v = Violated
		} else {
			why = "every read lies under the nil edge of the findObject result test"
		}
		l.add("R-OPTSCOPE", "v5", key, b.rel(h.Pos()), v, why, true)
	}
	// other callers of remove (static calls to the containers' remove methods
	// outside the handlers): the options they pass never have the field set by the library
	for _, fn := range b.srcFuncs(b.Lib) {
		if _, isAllowed := allowed[fn]; isAllowed {
			continue
		}
		if h := ai.handlers["move"]; fn == h {
			continue // R-MOVE: get precedes remove
		}
		for _, cs := range callsTo(fn, func(cc *ssa.CallCommon) bool {
			if isContainerInvoke(cc, "remove") {
				return true
			}
			f := cc.StaticCallee()
			return f != nil && f.Name() == "remove" && (recvTypeName(f) == "partialDoc" || recvTypeName(f) == "partialArray")
		}) {
			key := fmt.Sprintf("%s: remove called outside the RFC 6902 handlers passes options with the option off", fname(fn))
			args := cs.Common().Args
			opt := args[len(args)-1]
			ok, why := b.optionsFieldConstFalse(opt, field, fn)
			v := Discharged
			if !ok {
				v = Violated
			}
			l.add("R-OPTSCOPE", "v5", key, b.posOf(cs), v, why, true)
		}
	}
}

func containerMethod(b *Body, name string) *types.Func {
	it := b.Lib.Type("container").Type().Underlying().(*types.Interface)
	for i := 0; i < it.NumMethods(); i++ {
		if it.Method(i).Name() == name {
			return it.Method(i)
		}
	}
	return nil
}

// optionReadShape: the loaded option value is the condition of a branch
// whose option-on edge leads only to `return nil`-error and whose option-off
// edge leads only to returns of a non-nil error, and no membership-changing
// write can precede either return.
func (b *Body) optionReadShape(fn *ssa.Function, ld *ssa.UnOp) (bool, string) {
	ei := errResultIndex(fn)
	if ei < 0 {
		return false, "function has no error result"
	}
	for _, r := range *ld.Referrers() {
		if _, ok := r.(*ssa.DebugRef); ok {
			continue
		}
		iff, ok := r.(*ssa.If)
		if !ok {
			if u, isU := r.(*ssa.UnOp); isU && u.Op == token.NOT {
				for _, r2 := range *u.Referrers() {
					if i2, ok := r2.(*ssa.If); ok {
						iff = i2
					}
				}
			}
			if iff == nil {
				return false, fmt.Sprintf("the option value is used by %T at %s, not as a branch condition", r, b.posOf(r))
			}
		}
		_, neg := stripNot(iff.Cond)
		on, off := 0, 1
		if neg {
			on, off = 1, 0
		}
		bb := iff.Block()
		onB, offB := bb.Succs[on], bb.Succs[off]
		rOn, okOn := onB.Instrs[len(onB.Instrs)-1].(*ssa.Return)
		rOff, okOff := offB.Instrs[len(offB.Instrs)-1].(*ssa.Return)
		if !okOn || !okOff {
			return false, "the option branch at " + b.posOf(iff) + " does not lead straight to two returns"
		}
		if !isNilConst(retVal(rOn, ei)) {
			return false, "the option-on edge does not return a nil error"
		}
		if !b.definitelyNonNilErr(retVal(rOff, ei), offB, 0) {
			return false, "the option-off edge does not return a non-nil error"
		}
		// no membership-changing write on any path from entry to the branch or in the two arms
		region := blocksOnPathsTo(bb)
		region[onB], region[offB] = true, true
		for blk := range region {
			for _, ins := range blk.Instrs {
				if w, what := membershipWrite(ins); w {
					if blk == bb || blk == onB || blk == offB || !bb.Dominates(blk) {
						return false, "a membership-changing write (" + what + " at " + b.posOf(ins) + ") can precede the skip: a skipped remove is not a no-op"
					}
				}
			}
		}
		return true, "branch at " + b.posOf(iff) + ": option on -> return nil, option off -> non-nil error; no membership-changing write can precede either"
	}
	return false, "the option value is never used"
}

// optionsFieldConstFalse: opt is a fresh options value built in fn (or the
// result of a constructor) in which `field` is never stored true.
func (b *Body) optionsFieldConstFalse(opt ssa.Value, field string, fn *ssa.Function) (bool, string) {
	return b.optionsFieldConstFalseRec(opt, field, fn, map[ssa.Value]bool{})
}

func (b *Body) optionsFieldConstFalseRec(opt ssa.Value, field string, fn *ssa.Function, seen map[ssa.Value]bool) (bool, string) {
	if seen[opt] {
		return true, "(cycle: the same options parameter is passed around)"
	}
	seen[opt] = true
	switch x := opt.(type) {
	case *ssa.Alloc:
		for _, r := range *x.Referrers() {
			if fa, ok := r.(*ssa.FieldAddr); ok && fieldName(fa.X.Type(), fa.Field) == field {
				for _, r2 := range *fa.Referrers() {
					if st, ok := r2.(*ssa.Store); ok {
						if cv, ok := boolConst(st.Val); !ok || cv {
							return false, "the options literal sets " + field
						}
					}
				}
			}
		}
		return true, "options literal built in " + fname(fn) + " leaves " + field + " false"
	case *ssa.Call:
		if f := x.Call.StaticCallee(); f != nil && f.Blocks != nil && b.inRepo(f) {
			for _, r := range returnsOf(f) {
				if ok, why := b.optionsFieldConstFalseRec(r.Results[0], field, f, seen); !ok {
					return false, why
				}
			}
			return true, fname(f) + "() leaves " + field + " false"
		}
	case *ssa.Parameter:
		// passed down from a caller: every call site of fn inside the library must satisfy it
		idx := -1
		for i, p := range fn.Params {
			if p == x {
				idx = i
			}
		}
		n := 0
		for _, caller := range b.srcFuncs(b.Lib) {
			for _, cs := range callsTo(caller, func(cc *ssa.CallCommon) bool { return cc.StaticCallee() == fn }) {
				n++
				if caller == fn {
					continue // recursion passes the same parameter on
				}
				if ok, why := b.optionsFieldConstFalseRec(cs.Common().Args[idx], field, caller, seen); !ok {
					return false, why
				}
			}
		}
		if n == 0 {
			return false, "no call site found for " + fname(fn)
		}
		return true, fmt.Sprintf("every one of the %d library call sites of %s passes options that leave %s false", n, fname(fn), field)
	case *ssa.Global:
		return false, "global options"
	case *ssa.UnOp:
		if g := loadedGlobal(opt); g != nil {
			// a package-level default options value: never stored to with the field set
			for _, st := range b.globalStores(g) {
				if ok, why := b.optionsFieldConstFalseRec(st.Val, field, st.Parent(), seen); !ok {
					return false, why
				}
			}
			return true, "package-level options " + g.Name() + " leaves " + field + " false"
		}
	}
	return false, "options value " + describeValue(opt) + " cannot be traced to a literal"
}

// encodeFnOf: the function that encodes the patched document: the loop function, or the
// library helper it calls (outside the loop) that contains the codec's Marshal call.
func (b *Body) encodeFnOf(ai *applyInfo) *ssa.Function {
	hasMarshal := func(fn *ssa.Function) bool {
		found := false
		allInstrs(fn, func(i ssa.Instruction) {
			if cc, ok := i.(*ssa.Call); ok {
				if f := cc.Call.StaticCallee(); f != nil && b.Codec != nil && f.Pkg == b.Codec && strings.HasPrefix(f.Name(), "Marshal") {
					found = true
				}
				if f := cc.Call.StaticCallee(); f != nil && b.Codec == nil && f.Pkg != nil && f.Pkg.Pkg.Path() == "encoding/json" && strings.HasPrefix(f.Name(), "Marshal") {
					found = true
				}
			}
		})
		return found
	}
	if hasMarshal(ai.loopFn) {
		return ai.loopFn
	}
	var cands []*ssa.Function
	allInstrs(ai.loopFn, func(i ssa.Instruction) {
		cc, ok := i.(*ssa.Call)
		if !ok || innermostLoopHeader(cc.Block()) != nil {
			return
		}
		f := cc.Call.StaticCallee()
		if f == nil || f.Pkg != b.Lib || len(f.Blocks) == 0 {
			return
		}
		isHandler := false
		for _, h := range ai.handlers {
			if h == f {
				isHandler = true
			}
		}
		if !isHandler && hasMarshal(f) {
			cands = append(cands, f)
		}
	})
	if len(cands) == 1 {
		return cands[0]
	}
	return ai.loopFn
}
