package main

// R-SELF: the parse-time snapshot of a container (the node holding the text
// it was decoded from) never stands in for the container's current value.

import (
	"fmt"
	"go/token"
	"strings"

	"golang.org/x/tools/go/ssa"
)

func init() {
	register(&Rule{ID: "R-SELF", Doc: "the parse-time snapshot field `self` of partialDoc / partialArray is never read back as a value (returned, copied, inserted): the empty reference token must denote the container as it is now, after the earlier operations of the patch; the library may store the field, but every way of handing out `the document itself` builds a node over the live container",
		Run: ruleSelf, Min: map[string]int{"v5": 2}})
}

// underEmptyStringTest: bb is reached only through the true edge of `x == ""`.
func underEmptyStringTest(bb *ssa.BasicBlock) bool {
	for _, f := range dominatingFacts(bb) {
		bo, ok := f.V.(*ssa.BinOp)
		if !ok {
			continue
		}
		if s, isS := strConst(bo.Y); !isS || s != "" {
			continue
		}
		if (bo.Op == token.EQL && f.True) || (bo.Op == token.NEQ && !f.True) {
			return true
		}
	}
	return false
}

func ruleSelf(c *Ctx) {
	b := c.V5
	if b == nil {
		return
	}
	l := c.L
	// builtOver: v is a fresh node one of whose fields is stored with `over`, or nil, or the
	// result of a helper (called with `over` as an argument) all of whose returns are such.
	var builtOver func(v ssa.Value, over ssa.Value, depth int) (bool, int)
	builtOver = func(v ssa.Value, over ssa.Value, depth int) (bool, int) {
		if depth > 3 {
			return false, 0
		}
		switch x := v.(type) {
		case *ssa.Const:
			return x.Value == nil, 0
		case *ssa.Alloc:
			n := 0
			for _, ref := range *x.Referrers() {
				if fa, ok := ref.(*ssa.FieldAddr); ok {
					for _, r2 := range *fa.Referrers() {
						if st, ok := r2.(*ssa.Store); ok && st.Val == over {
							n++
						}
					}
				}
			}
			return n > 0, n
		case *ssa.Phi:
			tot := 0
			for _, e := range x.Edges {
				ok, n := builtOver(e, over, depth+1)
				if !ok {
					return false, 0
				}
				tot += n
			}
			return true, tot
		case *ssa.Call:
			f := x.Call.StaticCallee()
			if f == nil || f.Blocks == nil || f.Pkg != b.Lib {
				return false, 0
			}
			pi := -1
			for i, a := range x.Call.Args {
				if a == over {
					pi = i
				}
			}
			if pi < 0 {
				return false, 0
			}
			tot := 0
			for _, r := range liveReturns(f) {
				ok, n := builtOver(retVal(r, 0), f.Params[pi], depth+1)
				if !ok {
					return false, 0
				}
				tot += n
			}
			return true, tot
		}
		return false, 0
	}
	// (G1) get hands out members / elements only. The reference token "" is the
	// member with the empty name; "the container itself" has its own accessor.
	// (Conflating the two let `move from "/"` insert a container into itself.)
	var memberRead func(v ssa.Value, depth int) (bool, string)
	memberRead = func(v ssa.Value, depth int) (bool, string) {
		if depth > 4 {
			return false, "too deep"
		}
		baseField := func(x ssa.Value, want string) bool {
			bs, fr, ok := fieldLoad(x)
			if !ok || fr.Field != want {
				return false
			}
			n := derefNamed(bs.Type())
			return n != nil && (n.Obj().Name() == "partialDoc" || n.Obj().Name() == "partialArray")
		}
		switch x := v.(type) {
		case *ssa.Const:
			if x.Value == nil {
				return true, ""
			}
		case *ssa.Phi:
			for _, e := range x.Edges {
				if ok, why := memberRead(e, depth+1); !ok {
					return false, why
				}
			}
			return true, ""
		case *ssa.Extract:
			if lk, ok := x.Tuple.(*ssa.Lookup); ok && x.Index == 0 && baseField(lk.X, "obj") {
				return true, ""
			}
		case *ssa.Lookup:
			if baseField(x.X, "obj") {
				return true, ""
			}
		case *ssa.UnOp:
			if ia, ok := x.X.(*ssa.IndexAddr); ok && baseField(ia.X, "nodes") {
				return true, ""
			}
		}
		return false, describeValue(v)
	}
	for _, tn := range []string{"partialDoc", "partialArray"} {
		get := b.method(b.Lib, tn, "get")
		key := fmt.Sprintf("(*%s).get: every value handed out is a member of the container, never the container itself or its snapshot", tn)
		if get == nil {
			l.add("R-SELF", "v5", key, "", Undecided, "method not found", false)
			continue
		}
		bad := ""
		n := 0
		for _, r := range liveReturns(get) {
			n++
			if ok, why := memberRead(retVal(r, 0), 0); !ok {
				bad = fmt.Sprintf("the return at %s hands out %s: the reference token \"\" (path \"/\") then denotes the container, and `move from \"/\"` can insert a container into itself (unbounded recursion when the result is written)", b.posOf(r), why)
			}
		}
		if bad != "" {
			l.add("R-SELF", "v5", key, b.rel(get.Pos()), Violated, bad, true)
		} else {
			l.add("R-SELF", "v5", key, b.rel(get.Pos()), Discharged, fmt.Sprintf("%d return(s): nil, a lookup in obj, or an element of nodes", n), true)
		}
	}
	// (G2) accessors for "the container itself" build a node over the live
	// container; (G3) such a node is only ever deep-copied or compared, never
	// inserted (it would alias the container, or make the document cyclic).
	var liveCtors []*ssa.Function
	for _, fn := range b.srcFuncs(b.Lib) {
		if fn.Signature.Recv() == nil || len(fn.Params) != 1 || fn.Signature.Results().Len() != 1 || !isPtrToNamed(fn.Signature.Results().At(0).Type(), "lazyNode") {
			continue
		}
		rn := derefNamed(fn.Params[0].Type())
		if rn == nil || (rn.Obj().Name() != "partialDoc" && rn.Obj().Name() != "partialArray") {
			continue
		}
		liveCtors = append(liveCtors, fn)
		key := fmt.Sprintf("%s: the node for the container itself is built over the live container", fname(fn))
		bad := ""
		tot := 0
		for _, r := range liveReturns(fn) {
			v := retVal(r, 0)
			if _, fr, ok := fieldLoad(v); ok && fr.Field == "self" {
				bad = "returns the snapshot field self at " + b.posOf(r) + ": after an earlier operation changed the document, `copy` from \"\" duplicates the original input instead of the current document"
				continue
			}
			ok, n := builtOver(v, fn.Params[0], 0)
			if !ok {
				bad = "the value returned at " + b.posOf(r) + " is not a node built over the receiver (the live container)"
			}
			tot += n
		}
		if bad == "" && tot == 0 {
			bad = "no return builds a node over the receiver"
		}
		if bad != "" {
			l.add("R-SELF", "v5", key, b.rel(fn.Pos()), Violated, bad, true)
		} else {
			l.add("R-SELF", "v5", key, b.rel(fn.Pos()), Discharged, "returns nil or a fresh node whose doc/ary field is the receiver itself", true)
		}
	}
	isLive := map[*ssa.Function]bool{}
	for _, f := range liveCtors {
		isLive[f] = true
	}
	dcFn := b.roleFn("deepCopy")
	nUse := 0
	badUse := ""
	for _, fn := range b.srcFuncs(b.Lib) {
		allInstrs(fn, func(i ssa.Instruction) {
			call, ok := i.(*ssa.Call)
			if !ok {
				return
			}
			hit := false
			if f := call.Call.StaticCallee(); f != nil && isLive[f] {
				hit = true
			} else if call.Call.IsInvoke() {
				for _, f := range b.callees(&call.Call) {
					if isLive[f] {
						hit = true
					}
				}
			}
			if !hit {
				return
			}
			nUse++
			var follow func(v ssa.Value, depth int)
			follow = func(v ssa.Value, depth int) {
				if depth > 4 {
					badUse = "value flow too deep at " + b.posOf(call)
					return
				}
				for _, r := range *v.Referrers() {
					switch x := r.(type) {
					case *ssa.DebugRef, *ssa.If:
					case *ssa.BinOp:
					case *ssa.Phi:
						follow(x, depth+1)
					case *ssa.FieldAddr:
						// reading its fields
						for _, r2 := range *x.Referrers() {
							if st, ok := r2.(*ssa.Store); ok && st.Addr == ssa.Value(x) {
								badUse = "the live-container node is written at " + b.posOf(st)
							}
						}
					case *ssa.Call:
						f := x.Call.StaticCallee()
						switch {
						case f != nil && f == dcFn:
						case f != nil && f.Signature.Recv() != nil && len(x.Call.Args) > 0 && x.Call.Args[0] == v && (f.Name() == "equal" || f.Name() == "isNull"):
						default:
							badUse = fmt.Sprintf("%s passes the node for the live container to %s at %s: inserted, it would alias the container or make the document contain itself", fname(fn), calleeLabel(&x.Call), b.posOf(x))
						}
					case *ssa.MakeInterface:
						// handed to the encoder (which reads it) and to nothing else
						for _, r2 := range *x.Referrers() {
							switch y := r2.(type) {
							case *ssa.DebugRef:
							case *ssa.Call:
								if g := y.Call.StaticCallee(); g != nil && b.Codec != nil && g.Pkg == b.Codec && strings.HasPrefix(g.Name(), "Marshal") {
									continue
								}
								badUse = fmt.Sprintf("%s passes the node for the live container to %s at %s", fname(fn), calleeLabel(&y.Call), b.posOf(y))
							default:
								badUse = fmt.Sprintf("%s: the node for the live container escapes (%T at %s)", fname(fn), y, b.posOf(r2))
							}
						}
					default:
						badUse = fmt.Sprintf("%s: the node for the live container escapes (%T at %s)", fname(fn), x, b.posOf(r))
					}
				}
			}
			follow(call, 0)
		})
	}
	key2 := "the node for the live container is only deep-copied or compared, never inserted"
	switch {
	case badUse != "":
		l.add("R-SELF", "v5", key2, "", Violated, badUse, true)
	case nUse == 0:
		l.add("R-SELF", "v5", key2, "", Discharged, "no call of a whole-container accessor", true)
	default:
		l.add("R-SELF", "v5", key2, "", Discharged, fmt.Sprintf("%d call(s) of a whole-container accessor; each result flows only into deepCopy, a comparison, or a nil test", nUse), true)
	}
	// (G4) the copy handler serves from == "" from such an accessor applied to the root
	if ai := b.findApply(); ai != nil && ai.handlers["copy"] != nil && dcFn != nil {
		fn := ai.handlers["copy"]
		key := "copy: from == \"\" denotes the whole current document"
		verdict, why := Violated, "no value flowing into deepCopy is the node of a whole-container accessor applied to the root: `copy from \"\"` does not copy the document"
		for _, d := range callsTo(fn, func(cc *ssa.CallCommon) bool { return cc.StaticCallee() == dcFn }) {
			var walk func(v ssa.Value, depth int)
			walk = func(v ssa.Value, depth int) {
				if depth > 3 {
					return
				}
				switch x := v.(type) {
				case *ssa.Phi:
					for _, e := range x.Edges {
						walk(e, depth+1)
					}
				case *ssa.Call:
					if !isWholeDocCall(x) {
						return
					}
					recv := callArgs(&x.Call)[0]
					if u, ok := recv.(*ssa.UnOp); ok {
						if p, ok := u.X.(*ssa.Parameter); ok && isNamed(derefPtr(p.Type()), "container") {
							verdict, why = Discharged, "deepCopy receives "+calleeLabel(&x.Call)+" of the root slot"
							// and only under from == ""
							if !underEmptyStringTest(x.Block()) {
								verdict, why = Violated, "the whole-document node is used on a path where from is not known to be \"\""
							}
						}
					}
				}
			}
			walk(d.Common().Args[0], 0)
		}
		l.add("R-SELF", "v5", key, b.rel(fn.Pos()), verdict, why, true)
	}
	// every container installed as the root has its self set (so that the empty token can denote it)
	if ai := b.findApply(); ai != nil {
		for _, fn := range b.srcFuncs(b.Lib) {
			n := 0
			allInstrs(fn, func(i ssa.Instruction) {
				st, ok := i.(*ssa.Store)
				if !ok {
					return
				}
				if !isNamed(derefPtr(st.Addr.Type()), "container") {
					return
				}
				if _, isParam := st.Addr.(*ssa.Parameter); !isParam {
					if _, isAlloc := st.Addr.(*ssa.Alloc); !isAlloc {
						return
					}
				}
				srcs := b.rootSources(fn, st.Val, st)
				if len(srcs) == 0 {
					return
				}
				n++
				key := fmt.Sprintf("%s: root store #%d installs a container whose self is set", fname(fn), n)
				bad := ""
				for _, src := range srcs {
					if why := b.rootSourceHasSelf(src); why != "" {
						bad = why
					}
				}
				if bad == "" {
					l.add("R-SELF", "v5", key, b.posOf(st), Discharged, fmt.Sprintf("each of the %d container(s) that can be installed here is a literal with self set, or its self is stored before it becomes the root", len(srcs)), true)
				} else {
					l.add("R-SELF", "v5", key, b.posOf(st), Violated, bad+": the empty reference token then yields nothing, e.g. `replace \"\" {…}` followed by `copy from \"\"` inserts null instead of a copy of the document", true)
				}
			})
		}
	}
	// the snapshot node itself is never handed out: a loaded `self` pointer is only
	// compared with nil or dereferenced for its text
	bad := ""
	n := 0
	for _, fn := range b.srcFuncs(b.Lib) {
		allInstrs(fn, func(i ssa.Instruction) {
			u, ok := i.(*ssa.UnOp)
			if !ok {
				return
			}
			_, fr, ok := fieldLoad(u)
			if !ok || fr.Field != "self" || (fr.Type != "partialDoc" && fr.Type != "partialArray") {
				return
			}
			n++
			for _, r := range *u.Referrers() {
				switch x := r.(type) {
				case *ssa.BinOp, *ssa.FieldAddr, *ssa.DebugRef:
				case *ssa.If:
				default:
					bad = fmt.Sprintf("%s hands the snapshot node out (%T at %s)", fname(fn), x, b.posOf(r))
				}
			}
		})
	}
	key := "the snapshot node self is never returned, copied or inserted"
	if bad != "" {
		l.add("R-SELF", "v5", key, "", Violated, bad, true)
	} else {
		l.add("R-SELF", "v5", key, "", Discharged, fmt.Sprintf("%d load(s) of the field, each only compared with nil or dereferenced for its text", n), true)
	}
}

// rootSource: one concrete container value that a root store can install, with the function
// and the instruction (the store itself, or the return of a helper) at which it leaves.
type rootSource struct {
	fn *ssa.Function
	v  ssa.Value
	at ssa.Instruction
}

// rootSources resolves the value of a root store to the concrete container pointers behind
// it: through phis, the interface conversion, and the results of library helpers.
func (b *Body) rootSources(fn *ssa.Function, v ssa.Value, at ssa.Instruction) []rootSource {
	var out []rootSource
	type vk struct {
		v  ssa.Value
		at ssa.Instruction
	}
	seen := map[vk]bool{}
	var walk func(fn *ssa.Function, v ssa.Value, at ssa.Instruction, depth int)
	walk = func(fn *ssa.Function, v ssa.Value, at ssa.Instruction, depth int) {
		if depth > 6 || seen[vk{v, at}] {
			return
		}
		seen[vk{v, at}] = true
		switch x := v.(type) {
		case *ssa.Phi:
			for _, e := range x.Edges {
				walk(fn, e, at, depth)
			}
			return
		case *ssa.MakeInterface:
			walk(fn, x.X, at, depth)
			return
		case *ssa.ChangeInterface:
			walk(fn, x.X, at, depth)
			return
		case *ssa.Extract:
			if call, ok := x.Tuple.(*ssa.Call); ok {
				if f := call.Call.StaticCallee(); f != nil && f.Pkg == b.Lib && len(f.Blocks) > 0 {
					for _, r := range returnsOf(f) {
						if x.Index < len(r.Results) {
							walk(f, r.Results[x.Index], r, depth+1)
						}
					}
					return
				}
			}
		case *ssa.Call:
			if f := x.Call.StaticCallee(); f != nil && f.Pkg == b.Lib && len(f.Blocks) > 0 {
				for _, r := range returnsOf(f) {
					if len(r.Results) > 0 {
						walk(f, r.Results[0], r, depth+1)
					}
				}
				return
			}
		case *ssa.Const:
			if isNamed(x.Type(), "container") {
				// the nil interface next to an error is no root; next to a nil error it is one
				if r, ok := at.(*ssa.Return); ok {
					ei := errResultIndex(fn)
					if ei >= 0 && ei < len(r.Results) && !b.definitelyNonNilErr(r.Results[ei], r.Block(), 0) {
						out = append(out, rootSource{fn, v, at})
					}
				}
				return
			}
		}
		tn := derefNamed(v.Type())
		if tn == nil || (tn.Obj().Name() != "partialDoc" && tn.Obj().Name() != "partialArray") {
			return
		}
		out = append(out, rootSource{fn, v, at})
	}
	walk(fn, v, at, 0)
	return out
}

// rootSourceHasSelf: "" when the container has its self set when it leaves at src.at.
func (b *Body) rootSourceHasSelf(src rootSource) string {
	fn, v, at := src.fn, src.v, src.at
	// (a) a composite literal that sets self
	if al, isAl := v.(*ssa.Alloc); isAl {
		for _, ref := range *al.Referrers() {
			if fa, ok := ref.(*ssa.FieldAddr); ok && fieldName(fa.X.Type(), fa.Field) == "self" {
				for _, r2 := range *fa.Referrers() {
					if s2, ok := r2.(*ssa.Store); ok && !isNilConst(s2.Val) {
						return ""
					}
				}
			}
		}
		return "the " + typeShort(al.Type()) + " literal at " + b.posOf(al) + " does not set self"
	}
	// (b) a store to <same container>.self dominates, or is skipped only when the container is nil
	ok2 := false
	sameAs := func(x ssa.Value) bool {
		if x == v {
			return true
		}
		if b1, f1, ok1 := fieldLoad(x); ok1 {
			if b2, f2, ok2b := fieldLoad(v); ok2b && b1 == b2 && f1 == f2 {
				return true
			}
		}
		return false
	}
	allInstrs(fn, func(j ssa.Instruction) {
		s2, ok := j.(*ssa.Store)
		if !ok || isNilConst(s2.Val) || ok2 {
			return
		}
		fa, ok := s2.Addr.(*ssa.FieldAddr)
		if !ok || fieldName(fa.X.Type(), fa.Field) != "self" || !sameAs(fa.X) {
			return
		}
		if b.instrDominates(s2, at) {
			ok2 = true
			return
		}
		for _, bb := range fn.Blocks {
			iff, isIf := lastInstr(bb).(*ssa.If)
			if !isIf {
				continue
			}
			x, nnTrue, isNil := nilTestOfCond(iff.Cond)
			if !isNil || !sameAs(x) {
				continue
			}
			nn := 1
			if nnTrue {
				nn = 0
			}
			if edgeDominates(bb, nn, s2.Block()) && bb.Dominates(at.Block()) {
				ok2 = true
			}
		}
	})
	if ok2 {
		return ""
	}
	return "the container " + describeValue(v) + " leaving " + fname(fn) + " at " + b.posOf(at) + " has no self"
}
