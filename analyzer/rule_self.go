package main

// R-SELF: the parse-time snapshot of a container (the node holding the text
// it was decoded from) never stands in for the container's current value.

import (
	"fmt"

	"golang.org/x/tools/go/ssa"
)

func init() {
	register(&Rule{ID: "R-SELF", Doc: "the parse-time snapshot field `self` of partialDoc / partialArray is never read back as a value (returned, copied, inserted): the empty reference token must denote the container as it is now, after the earlier operations of the patch; the library may store the field, but every way of handing out `the document itself` builds a node over the live container",
		Run: ruleSelf, Min: map[string]int{"v5": 2}})
}

func ruleSelf(c *Ctx) {
	b := c.V5
	if b == nil {
		return
	}
	l := c.L
	// builtOver: v is a fresh node one of whose fields is stored with `over`, or nil, or the
	// result of a helper (called with `over` as an argument) all of whose returns are such.
	var builtOver func(v ssa.Value, over ssa.Value, depth int) (bool, int)
	builtOver = func(v ssa.Value, over ssa.Value, depth int) (bool, int) {
		if depth > 3 {
			return false, 0
		}
		switch x := v.(type) {
		case *ssa.Const:
			return x.Value == nil, 0
		case *ssa.Alloc:
			n := 0
			for _, ref := range *x.Referrers() {
				if fa, ok := ref.(*ssa.FieldAddr); ok {
					for _, r2 := range *fa.Referrers() {
						if st, ok := r2.(*ssa.Store); ok && st.Val == over {
							n++
						}
					}
				}
			}
			return n > 0, n
		case *ssa.Phi:
			tot := 0
			for _, e := range x.Edges {
				ok, n := builtOver(e, over, depth+1)
				if !ok {
					return false, 0
				}
				tot += n
			}
			return true, tot
		case *ssa.Call:
			f := x.Call.StaticCallee()
			if f == nil || f.Blocks == nil || f.Pkg != b.Lib {
				return false, 0
			}
			pi := -1
			for i, a := range x.Call.Args {
				if a == over {
					pi = i
				}
			}
			if pi < 0 {
				return false, 0
			}
			tot := 0
			for _, r := range liveReturns(f) {
				ok, n := builtOver(retVal(r, 0), f.Params[pi], depth+1)
				if !ok {
					return false, 0
				}
				tot += n
			}
			return true, tot
		}
		return false, 0
	}
	for _, tn := range []string{"partialDoc", "partialArray"} {
		get := b.method(b.Lib, tn, "get")
		key := fmt.Sprintf("(*%s).get: the empty key yields the live container, not the parse-time snapshot", tn)
		if get == nil {
			l.add("R-SELF", "v5", key, "", Undecided, "method not found", false)
			continue
		}
		// the return on the key == "" edge
		bad := ""
		found := false
		for _, bb := range get.Blocks {
			iff, ok := bb.Instrs[len(bb.Instrs)-1].(*ssa.If)
			if !ok {
				continue
			}
			bo, ok := iff.Cond.(*ssa.BinOp)
			if !ok {
				continue
			}
			if s, isS := strConst(bo.Y); !isS || s != "" {
				continue
			}
			for _, r := range liveReturns(get) {
				if !edgeDominates(bb, 0, r.Block()) {
					continue
				}
				found = true
				v := retVal(r, 0)
				if _, fr, ok := fieldLoad(v); ok && fr.Field == "self" {
					bad = "returns the snapshot field self at " + b.posOf(r) + ": after an earlier operation changed the document, `copy` from \"\" duplicates the original input instead of the current document"
					continue
				}
				ok, n := builtOver(v, get.Params[0], 0)
				if !ok || n == 0 {
					bad = "the value returned for the empty key at " + b.posOf(r) + " is not a node built over the receiver (the live container)"
				}
			}
		}
		if !found && bad == "" {
			bad = "no return on the key == \"\" edge"
		}
		if bad != "" {
			l.add("R-SELF", "v5", key, b.rel(get.Pos()), Violated, bad, true)
		} else {
			l.add("R-SELF", "v5", key, b.rel(get.Pos()), Discharged, "the empty key returns nil or a fresh node whose doc/ary field is the receiver itself", true)
		}
	}
	// every container installed as the root has its self set (so that the empty token can denote it)
	if ai := b.findApply(); ai != nil {
		for _, fn := range b.srcFuncs(b.Lib) {
			n := 0
			allInstrs(fn, func(i ssa.Instruction) {
				st, ok := i.(*ssa.Store)
				if !ok {
					return
				}
				if !isNamed(derefPtr(st.Addr.Type()), "container") {
					return
				}
				if _, isParam := st.Addr.(*ssa.Parameter); !isParam {
					if _, isAlloc := st.Addr.(*ssa.Alloc); !isAlloc {
						return
					}
				}
				v := unwrapConv(st.Val)
				tn := derefNamed(v.Type())
				if tn == nil || (tn.Obj().Name() != "partialDoc" && tn.Obj().Name() != "partialArray") {
					return
				}
				n++
				key := fmt.Sprintf("%s: root store #%d installs a container whose self is set", fname(fn), n)
				ok2 := false
				// (a) a composite literal that sets self
				if al, isAl := v.(*ssa.Alloc); isAl {
					for _, ref := range *al.Referrers() {
						if fa, ok := ref.(*ssa.FieldAddr); ok && fieldName(fa.X.Type(), fa.Field) == "self" {
							for _, r2 := range *fa.Referrers() {
								if s2, ok := r2.(*ssa.Store); ok && !isNilConst(s2.Val) {
									ok2 = true
								}
							}
						}
					}
				}
				// (b) a store to <same container>.self dominates
				allInstrs(fn, func(j ssa.Instruction) {
					s2, ok := j.(*ssa.Store)
					if !ok || isNilConst(s2.Val) {
						return
					}
					fa, ok := s2.Addr.(*ssa.FieldAddr)
					if !ok || fieldName(fa.X.Type(), fa.Field) != "self" {
						return
					}
					same := fa.X == v
					if b1, f1, ok1 := fieldLoad(fa.X); ok1 {
						if b2, f2, ok2b := fieldLoad(v); ok2b && b1 == b2 && f1 == f2 {
							same = true
						}
					}
					if same && b.instrDominates(s2, st) {
						ok2 = true
					}
					// the store is skipped only when the container itself is nil (the null root)
					if same && !ok2 {
						for _, bb := range fn.Blocks {
							iff, isIf := bb.Instrs[len(bb.Instrs)-1].(*ssa.If)
							if !isIf {
								continue
							}
							x, nnTrue, isNil := nilTestOfCond(iff.Cond)
							if !isNil {
								continue
							}
							b1, f1, ok1 := fieldLoad(x)
							b2, f2, ok2b := fieldLoad(v)
							if !ok1 || !ok2b || b1 != b2 || f1 != f2 {
								continue
							}
							nn := 1
							if nnTrue {
								nn = 0
							}
							if edgeDominates(bb, nn, s2.Block()) && bb.Dominates(st.Block()) {
								ok2 = true
							}
						}
					}
				})
				// (c) a phi of such values (the apply function's pd)
				if phi, isPhi := v.(*ssa.Phi); isPhi {
					all := true
					for _, e := range phi.Edges {
						al, isAl := unwrapConv(e).(*ssa.Alloc)
						if !isAl {
							all = false
							continue
						}
						has := false
						for _, ref := range *al.Referrers() {
							if fa, ok := ref.(*ssa.FieldAddr); ok && fieldName(fa.X.Type(), fa.Field) == "self" {
								has = true
							}
						}
						if !has {
							all = false
						}
					}
					if all {
						ok2 = true
					}
				}
				if ok2 {
					l.add("R-SELF", "v5", key, b.posOf(st), Discharged, "the installed container is a literal with self set, or its self is stored before it becomes the root", true)
				} else {
					l.add("R-SELF", "v5", key, b.posOf(st), Violated, "the container installed as the root has no self: the empty reference token then yields nothing, e.g. `replace \"\" {…}` followed by `copy from \"\"` inserts null instead of a copy of the document", true)
				}
			})
		}
	}
	// the snapshot node itself is never handed out: a loaded `self` pointer is only
	// compared with nil or dereferenced for its text
	bad := ""
	n := 0
	for _, fn := range b.srcFuncs(b.Lib) {
		allInstrs(fn, func(i ssa.Instruction) {
			u, ok := i.(*ssa.UnOp)
			if !ok {
				return
			}
			_, fr, ok := fieldLoad(u)
			if !ok || fr.Field != "self" || (fr.Type != "partialDoc" && fr.Type != "partialArray") {
				return
			}
			n++
			for _, r := range *u.Referrers() {
				switch x := r.(type) {
				case *ssa.BinOp, *ssa.FieldAddr, *ssa.DebugRef:
				case *ssa.If:
				default:
					bad = fmt.Sprintf("%s hands the snapshot node out (%T at %s)", fname(fn), x, b.posOf(r))
				}
			}
		})
	}
	key := "the snapshot node self is never returned, copied or inserted"
	if bad != "" {
		l.add("R-SELF", "v5", key, "", Violated, bad, true)
	} else {
		l.add("R-SELF", "v5", key, "", Discharged, fmt.Sprintf("%d load(s) of the field, each only compared with nil or dereferenced for its text", n), true)
	}
}
