package main

// A-BYTE (path-enumerating byte-set evaluation of loop bodies), R-TABLES
// (the safe-character tables) and R-ESCSET (all implementations of HTML
// escaping agree on the escaped set and on the spelling).

import (
	"fmt"
	"go/constant"
	"go/token"
	"go/types"
	"strings"

	"golang.org/x/tools/go/ssa"
)

func init() {
	register(&Rule{ID: "R-TABLES", Doc: "constant evaluation of the composite literals: safeSet[b] ⇔ 0x20 ≤ b < 0x80 ∧ b ∉ {\", \\}; htmlSafeSet = safeSet ∖ {<, >, &}; hex = \"0123456789abcdef\"",
		Run: ruleTables, Min: map[string]int{"codec": 3}})
	register(&Rule{ID: "R-ESCSET", Doc: "the set of input bytes that trigger an escape, computed by path enumeration with exact byte sets (A-BYTE) for each setting of the escape flag: compact substitutes exactly {<,>,&} (as \\u00 + two hex digits of that byte) and the sequence E2 80 A8/A9 (as \\u202 + low nibble) when its flag is on and nothing when it is off; HTMLEscape the same unconditionally; encodeState.string and stringBytes escape exactly the control characters, quote and backslash, plus {<,>,&} iff escapeHTML; the flag reaches compact from opts.escapeHTML, which MarshalEscaped sets from its argument and Marshal sets to true",
		Run: ruleEscSet, Min: map[string]int{"codec": 8}})
}

// ---- tables -----------------------------------------------------------------------

// boolTable reads a package-level [N]bool array from the stores of the package initialiser.
func (b *Body) boolTable(pkg *ssa.Package, name string) (tbl [256]bool, n int, ok bool) {
	g, _ := pkg.Members[name].(*ssa.Global)
	if g == nil {
		return tbl, 0, false
	}
	at, isArr := g.Type().(*types.Pointer).Elem().Underlying().(*types.Array)
	if !isArr {
		return tbl, 0, false
	}
	init := pkg.Func("init")
	if init == nil {
		return tbl, 0, false
	}
	okAll := true
	allInstrs(init, func(i ssa.Instruction) {
		st, isSt := i.(*ssa.Store)
		if !isSt {
			return
		}
		ia, isIA := st.Addr.(*ssa.IndexAddr)
		if !isIA || ia.X != ssa.Value(g) {
			return
		}
		idx, okI := intConst(ia.Index)
		v, okV := boolConst(st.Val)
		if !okI || !okV || idx < 0 || idx > 255 {
			okAll = false
			return
		}
		tbl[idx] = v
	})
	// a store of a whole composite value (array literal copied) is not handled: require element stores
	return tbl, int(at.Len()), okAll
}

func ruleTables(c *Ctx) {
	b := c.V5
	if b == nil {
		return
	}
	l := c.L
	b.unescapeTable(l)
	b.rescanNumberBytes(l)
	b.surrogatePairs(l)
	safe, n1, ok1 := b.boolTable(b.Codec, "safeSet")
	html, n2, ok2 := b.boolTable(b.Codec, "htmlSafeSet")
	key := "safeSet[b] ⇔ 0x20 ≤ b < 0x80 ∧ b ∉ {\", \\}"
	if !ok1 || n1 != 128 {
		l.add("R-TABLES", "codec", key, "", Undecided, "safeSet is not a [128]bool initialised by constant element stores", false)
	} else {
		bad := ""
		for i := 0; i < 128; i++ {
			want := i >= 0x20 && i != '"' && i != '\\'
			if safe[i] != want {
				bad += fmt.Sprintf(" [0x%02x]=%v", i, safe[i])
			}
		}
		if bad != "" {
			l.add("R-TABLES", "codec", key, "", Violated, "deviating entries:"+bad, true)
		} else {
			l.add("R-TABLES", "codec", key, "", Discharged, "all 128 entries evaluated", true)
		}
	}
	key = "htmlSafeSet = safeSet ∖ {<, >, &}"
	if !ok2 || n2 != 128 {
		l.add("R-TABLES", "codec", key, "", Undecided, "htmlSafeSet is not a [128]bool initialised by constant element stores", false)
	} else {
		bad := ""
		for i := 0; i < 128; i++ {
			want := safe[i] && i != '<' && i != '>' && i != '&'
			if html[i] != want {
				bad += fmt.Sprintf(" [0x%02x]=%v", i, html[i])
			}
		}
		if bad != "" {
			l.add("R-TABLES", "codec", key, "", Violated, "deviating entries:"+bad, true)
		} else {
			l.add("R-TABLES", "codec", key, "", Discharged, "all 128 entries evaluated", true)
		}
	}
	key = "hex = \"0123456789abcdef\""
	okHex := false
	if g, _ := b.Codec.Members["hex"].(*ssa.Global); g != nil {
		sts := b.globalStores(g)
		if len(sts) == 1 {
			if s, ok := strConst(sts[0].Val); ok && s == "0123456789abcdef" {
				okHex = true
			}
		}
	}
	if okHex {
		l.add("R-TABLES", "codec", key, "", Discharged, "single initialising store of the constant", true)
	} else {
		l.add("R-TABLES", "codec", key, "", Violated, "the hex digit table is not the constant \"0123456789abcdef\" (escapes would be spelled with wrong or upper-case digits)", true)
	}
}

// ---- A-BYTE path evaluator ------------------------------------------------------------

type bpKind int

const (
	bpUnknown bpKind = iota
	bpByte           // function of the loop byte
	bpConst
	bpBool
	bpPred
	bpTblPtr
)

type bpVal struct {
	k   bpKind
	tbl *[256]int64
	n   int64
	b   bool
	set bset
	g   *ssa.Global // bpTblPtr: the constant table pointed to
}

type bytePath struct {
	b       *Body
	fn      *ssa.Function
	byteVal map[ssa.Value]bool // SSA values that denote the loop byte
	assume  map[ssa.Value]bool // boolean parameters with an assumed value
	tables  map[*ssa.Global]*[256]bool
	stop    *ssa.BasicBlock // loop header: paths end when they come back to it
	target  ssa.Instruction
	reached bset
	steps   int
}

func (p *bytePath) val(env map[ssa.Value]bpVal, v ssa.Value) bpVal {
	if x, ok := env[v]; ok {
		return x
	}
	if p.byteVal[v] {
		return bpVal{k: bpByte}
	}
	if a, ok := p.assume[v]; ok {
		return bpVal{k: bpBool, b: a}
	}
	switch x := v.(type) {
	case *ssa.Const:
		if x.Value != nil {
			switch x.Value.Kind() {
			case constant.Int:
				n, _ := constant.Int64Val(x.Value)
				return bpVal{k: bpConst, n: n}
			case constant.Bool:
				return bpVal{k: bpBool, b: constant.BoolVal(x.Value)}
			}
		}
	case *ssa.Convert:
		return p.val(env, x.X)
	case *ssa.ChangeType:
		return p.val(env, x.X)
	case *ssa.UnOp:
		if x.Op == token.NOT {
			o := p.val(env, x.X)
			switch o.k {
			case bpBool:
				return bpVal{k: bpBool, b: !o.b}
			case bpPred:
				return bpVal{k: bpPred, set: o.set.not()}
			}
		}
	case *ssa.BinOp:
		l, r := p.val(env, x.X), p.val(env, x.Y)
		switch {
		case l.k == bpByte && r.k == bpConst && scIsArith(x.Op):
			return bpVal{k: bpByte, tbl: scArith(l.tbl, x.Op, r.n, true)}
		case l.k == bpConst && r.k == bpByte && scIsArith(x.Op):
			return bpVal{k: bpByte, tbl: scArith(r.tbl, x.Op, l.n, false)}
		case l.k == bpByte && r.k == bpConst:
			return bpVal{k: bpPred, set: scCmpSetTbl(l.tbl, x.Op, r.n, true)}
		case l.k == bpConst && r.k == bpByte:
			return bpVal{k: bpPred, set: scCmpSetTbl(r.tbl, x.Op, l.n, false)}
		case l.k == bpConst && r.k == bpConst:
			switch x.Op {
			case token.EQL:
				return bpVal{k: bpBool, b: l.n == r.n}
			case token.NEQ:
				return bpVal{k: bpBool, b: l.n != r.n}
			}
		}
	case *ssa.Index:
		// table[b] for a constant bool table
		if g := loadedGlobal(x.X); g != nil {
			if t, ok := p.tables[g]; ok {
				iv := p.val(env, x.Index)
				if iv.k == bpByte {
					var s bset
					for c := 0; c < 256; c++ {
						k := int64(c)
						if iv.tbl != nil {
							k = iv.tbl[c]
						}
						if k >= 0 && k < 256 && t[k] {
							s.add(c)
						}
					}
					return bpVal{k: bpPred, set: s}
				}
			}
		}
	}
	// the address of a constant table, as such or as chosen by a helper from a flag
	if g, ok := v.(*ssa.Global); ok {
		if _, isT := p.tables[g]; isT {
			return bpVal{k: bpTblPtr, g: g}
		}
	}
	if call, ok := v.(*ssa.Call); ok {
		if g := p.tableChosenBy(env, call); g != nil {
			return bpVal{k: bpTblPtr, g: g}
		}
	}
	// element load table[b] through IndexAddr on the global array
	if ld, ok := v.(*ssa.UnOp); ok && ld.Op == token.MUL {
		if ia, ok := ld.X.(*ssa.IndexAddr); ok {
			var g *ssa.Global
			if xv := p.val(env, ia.X); xv.k == bpTblPtr {
				g = xv.g
			}
			if g != nil {
				if t, ok := p.tables[g]; ok {
					iv := p.val(env, ia.Index)
					if iv.k == bpByte {
						var s bset
						for c := 0; c < 256; c++ {
							k := int64(c)
							if iv.tbl != nil {
								k = iv.tbl[c]
							}
							if k >= 0 && k < 256 && t[k] {
								s.add(c)
							}
						}
						return bpVal{k: bpPred, set: s}
					}
				}
			}
		}
	}
	return bpVal{k: bpUnknown}
}

// tableChosenBy: call is a call of a repository function every return of which hands out the
// address of a constant table, the choice depending only on boolean parameters whose arguments
// have a known value here: the table returned.
func (p *bytePath) tableChosenBy(env map[ssa.Value]bpVal, call *ssa.Call) *ssa.Global {
	f := call.Call.StaticCallee()
	if f == nil || len(f.Blocks) == 0 || !p.b.inRepo(f) {
		return nil
	}
	var chosen *ssa.Global
	n := 0
	for _, r := range liveReturns(f) {
		if len(r.Results) != 1 {
			return nil
		}
		g, ok := r.Results[0].(*ssa.Global)
		if !ok {
			return nil
		}
		if _, isT := p.tables[g]; !isT {
			return nil
		}
		feasible := true
		for _, fact := range dominatingFacts(r.Block()) {
			prm, ok := fact.V.(*ssa.Parameter)
			if !ok {
				return nil // the choice depends on something else than a flag
			}
			av := p.val(env, call.Call.Args[paramIdx(prm)])
			if av.k != bpBool {
				return nil
			}
			if av.b != fact.True {
				feasible = false
			}
		}
		if feasible {
			chosen = g
			n++
		}
	}
	if n != 1 {
		return nil
	}
	return chosen
}

func (p *bytePath) run(bb *ssa.BasicBlock, pred *ssa.BasicBlock, cset bset, env map[ssa.Value]bpVal, depth int) {
	p.steps++
	if p.steps > 200000 || depth > 60 {
		panic("byte-path enumeration exceeded its budget in " + fname(p.fn))
	}
	for _, ins := range bb.Instrs {
		if ins == p.target {
			p.reached = p.reached.or(cset)
			return
		}
		switch x := ins.(type) {
		case *ssa.Phi:
			for j, pr := range bb.Preds {
				if pr == pred {
					env[x] = p.val(env, x.Edges[j])
				}
			}
		case *ssa.If:
			c := p.val(env, x.Cond)
			next := func(si int, cs bset) {
				s := bb.Succs[si]
				if s == p.stop || cs.empty() {
					return
				}
				e2 := make(map[ssa.Value]bpVal, len(env))
				for k, v := range env {
					e2[k] = v
				}
				p.run(s, bb, cs, e2, depth+1)
			}
			switch c.k {
			case bpBool:
				if c.b {
					next(0, cset)
				} else {
					next(1, cset)
				}
			case bpPred:
				next(0, cset.and(c.set))
				next(1, cset.and(c.set.not()))
			default:
				next(0, cset)
				next(1, cset)
			}
			return
		case *ssa.Jump:
			s := bb.Succs[0]
			if s == p.stop {
				return
			}
			p.run(s, bb, cset, env, depth+1)
			return
		case *ssa.Return, *ssa.Panic:
			return
		}
	}
}

// reachSet: the set of loop-byte values for which `target` is reachable from
// the block that defines the byte, within one iteration.
func (b *Body) reachSet(fn *ssa.Function, byteDef ssa.Value, assume map[ssa.Value]bool, tables map[*ssa.Global]*[256]bool, target ssa.Instruction) (set bset, err string) {
	defer func() {
		if r := recover(); r != nil {
			err = fmt.Sprint(r)
		}
	}()
	def, ok := byteDef.(ssa.Instruction)
	if !ok {
		// a parameter of a helper: the whole function is one "iteration", from its entry
		if _, isParam := byteDef.(*ssa.Parameter); !isParam || len(fn.Blocks) == 0 {
			return set, "byte value is not an instruction"
		}
		p := &bytePath{b: b, fn: fn, byteVal: map[ssa.Value]bool{byteDef: true}, assume: assume, tables: tables, stop: nil, target: target}
		var full bset
		full = full.not()
		p.run(fn.Blocks[0], nil, full, map[ssa.Value]bpVal{}, 0)
		return p.reached, ""
	}
	h := innermostLoopHeader(def.Block())
	p := &bytePath{b: b, fn: fn, byteVal: map[ssa.Value]bool{byteDef: true}, assume: assume, tables: tables, stop: h, target: target}
	var full bset
	full = full.not()
	// start after the defining instruction: run the defining block as a whole (instructions before it have no effect on the evaluation)
	p.run(def.Block(), nil, full, map[ssa.Value]bpVal{}, 0)
	return p.reached, ""
}

func setOf(bs ...int) bset {
	var s bset
	for _, c := range bs {
		s.add(c)
	}
	return s
}

// loopByte finds the loop byte of fn: the element of the []byte / string
// parameter (index ssaParam) loaded at the loop index.
func loopBytes(fn *ssa.Function, param *ssa.Parameter) []ssa.Value {
	var out []ssa.Value
	allInstrs(fn, func(i ssa.Instruction) {
		switch x := i.(type) {
		case *ssa.UnOp:
			if ia, ok := x.X.(*ssa.IndexAddr); ok && x.Op == token.MUL && ia.X == ssa.Value(param) {
				if _, isAdd := ia.Index.(*ssa.BinOp); isAdd || true {
					out = append(out, x)
				}
			}
		case *ssa.Lookup:
			if x.X == ssa.Value(param) {
				out = append(out, x)
			}
		case *ssa.Index:
			if x.X == ssa.Value(param) {
				out = append(out, x)
			}
		}
	})
	return out
}

// indexExpr decodes X[Index] for strings/arrays (ssa.Index) and maps/strings (ssa.Lookup).
func indexExpr(v ssa.Value) (x, idx ssa.Value, ok bool) {
	switch e := v.(type) {
	case *ssa.Index:
		return e.X, e.Index, true
	case *ssa.Lookup:
		return e.X, e.Index, true
	}
	return nil, nil, false
}

func writeStringConstCalls(fn *ssa.Function, lit string) []*ssa.Call {
	var out []*ssa.Call
	allInstrs(fn, func(i ssa.Instruction) {
		call, ok := i.(*ssa.Call)
		if !ok {
			return
		}
		f := call.Call.StaticCallee()
		if f == nil || !strings.HasSuffix(stdName(f), "(*Buffer).WriteString") {
			return
		}
		if s, ok := strConst(call.Call.Args[len(call.Call.Args)-1]); ok && s == lit {
			out = append(out, call)
		}
	})
	// the same text as the constant front of a byte-slice literal handed to Write:
	// e.Write([]byte{'\\', 'u', '2', '0', '2', hex[c&0xF]})
	allInstrs(fn, func(i ssa.Instruction) {
		call, ok := i.(*ssa.Call)
		if !ok {
			return
		}
		f := call.Call.StaticCallee()
		if f == nil || !strings.HasSuffix(stdName(f), "(*Buffer).Write") || len(call.Call.Args) == 0 {
			return
		}
		sl, ok := call.Call.Args[len(call.Call.Args)-1].(*ssa.Slice)
		if !ok {
			return
		}
		al, ok := sl.X.(*ssa.Alloc)
		if !ok || al.Referrers() == nil {
			return
		}
		front := map[int64]byte{}
		for _, r := range *al.Referrers() {
			ia, ok := r.(*ssa.IndexAddr)
			if !ok || ia.Referrers() == nil {
				continue
			}
			idx, okI := intConst(ia.Index)
			for _, r2 := range *ia.Referrers() {
				if st, ok := r2.(*ssa.Store); ok && okI {
					if k, isK := intConst(st.Val); isK && k >= 0 && k < 256 {
						front[idx] = byte(k)
					}
				}
			}
		}
		spelled := make([]byte, 0, len(lit))
		for j := int64(0); j < int64(len(lit)); j++ {
			c, ok := front[j]
			if !ok {
				return
			}
			spelled = append(spelled, c)
		}
		if string(spelled) == lit {
			out = append(out, call)
		}
	})
	return out
}

func ruleEscSet(c *Ctx) {
	b := c.V5
	if b == nil {
		return
	}
	l := c.L
	sp := b.Codec
	b.memberNameEscapes(l)
	b.optionsHandedOn(l)
	b.escapersWalkTheirInput(l)
	b.nestedEncodings(l)
	tables := map[*ssa.Global]*[256]bool{}
	for _, n := range []string{"safeSet", "htmlSafeSet"} {
		if g, _ := sp.Members[n].(*ssa.Global); g != nil {
			if t, _, ok := b.boolTable(sp, n); ok {
				tt := t
				tables[g] = &tt
			}
		}
	}
	html3 := setOf('<', '>', '&')
	report := func(key string, pos string, got, want bset, err string) {
		switch {
		case err != "":
			l.add("R-ESCSET", "codec", key, pos, Undecided, "byte-set evaluation failed: "+err, true)
		case got != want:
			l.add("R-ESCSET", "codec", key, pos, Violated, "computed set "+got.String()+", required "+want.String(), true)
		default:
			l.add("R-ESCSET", "codec", key, pos, Discharged, "computed set "+got.String(), true)
		}
	}

	// --- compact and HTMLEscape: the \u00 and \u202 substitutions
	for _, name := range []string{"compact", "HTMLEscape"} {
		fn := fnOf(sp, name)
		if fn == nil {
			l.add("R-ESCSET", "codec", "anchor "+name, "", Undecided, name+" not found", false)
			continue
		}
		var src, flag *ssa.Parameter
		for _, p := range fn.Params {
			if isByteSlice(p.Type()) {
				src = p
			}
			if bt, ok := p.Type().Underlying().(*types.Basic); ok && bt.Kind() == types.Bool {
				flag = p
			}
		}
		u00, u00x := escapeSites(fn, `\u00`, 2)
		u202, u202x := escapeSites(fn, `\u202`, 1)
		if src == nil || len(u00) != 1 || len(u202) != 1 {
			l.add("R-ESCSET", "codec", name+": one \\u00 and one \\u202 substitution site", b.rel(fn.Pos()), Violated, fmt.Sprintf("found %d writes of `\\u00` and %d of `\\u202`", len(u00), len(u202)), true)
			continue
		}
		// the loop byte: src[i] for the range index (not src[i+1], src[i+2])
		var cbyte ssa.Value
		for _, v := range loopBytes(fn, src) {
			ld := v.(*ssa.UnOp)
			ia := ld.X.(*ssa.IndexAddr)
			if h := innermostLoopHeader(ld.Block()); h != nil && isRangeIndex(h, ia.Index, src) {
				cbyte = v
			}
		}
		if cbyte == nil {
			l.add("R-ESCSET", "codec", name+": loop byte", b.rel(fn.Pos()), Undecided, "the loop over the input bytes was not recognised", true)
			continue
		}
		settings := []struct {
			label  string
			assume map[ssa.Value]bool
			want00 bset
			wantE2 bset
		}{{"escape on", map[ssa.Value]bool{}, html3, setOf(0xE2)}}
		if flag != nil {
			settings[0].assume[flag] = true
			settings = append(settings, struct {
				label  string
				assume map[ssa.Value]bool
				want00 bset
				wantE2 bset
			}{"escape off", map[ssa.Value]bool{flag: false}, bset{}, bset{}})
		}
		for _, st := range settings {
			got, err := b.reachSet(fn, cbyte, st.assume, tables, u00[0])
			report(fmt.Sprintf("%s (%s): bytes rewritten as \\u00XX", name, st.label), b.posOf(u00[0]), got, st.want00, err)
			got, err = b.reachSet(fn, cbyte, st.assume, tables, u202[0])
			report(fmt.Sprintf("%s (%s): lead bytes of the sequence rewritten as \\u202X", name, st.label), b.posOf(u202[0]), got, st.wantE2, err)
		}
		// spelling: \u00 + hex[c>>4] + hex[c&0xF]; \u202 + hex[src[i+2]&0xF]; continuation bytes checked
		key := name + ": spelling of the substitutions and the E2 80 A8/A9 test"
		bad := ""
		blk := u00[0].Block()
		var pieces []string
		for _, v := range u00x[0] {
			pieces = append(pieces, hexPiece(v, cbyte))
		}
		if strings.Join(pieces, ",") != "hex[c>>4],hex[c&15]" {
			bad = "after `\\u00` the function writes " + strings.Join(pieces, ",") + ", expected hex[c>>4],hex[c&15]"
		}
		// \u202 piece and guards
		blk2 := u202[0].Block()
		pieces = nil
		var third ssa.Value
		for _, v := range u202x[0] {
			// hex[x & 0xF] where x = src[i+2]
			if _, lidx, ok := indexExpr(v); ok {
				if bo, ok := unwrapConv(lidx).(*ssa.BinOp); ok && bo.Op == token.AND {
					if k, ok := intConst(bo.Y); ok && k == 15 {
						third = bo.X
						pieces = append(pieces, "hex[x&15]")
					}
				}
			}
		}
		if strings.Join(pieces, ",") != "hex[x&15]" {
			bad = "after `\\u202` the function does not write hex[third byte & 15]"
		}
		// dominating guards: src[i+1] == 0x80 and src[i+2]&^1 == 0xA8, third is src[i+2]
		g80, gA8 := false, false
		// every atomic comparison known to hold where the substitution is written (conditions
		// joined with && or held in a named boolean are taken apart)
		for _, ef := range dominatingFacts(blk2) {
			if !ef.True {
				continue
			}
			bo, ok := ef.V.(*ssa.BinOp)
			if !ok || bo.Op != token.EQL {
				continue
			}
			k, okk := intConst(bo.Y)
			if !okk {
				continue
			}
			if k == 0x80 && isSrcAt(bo.X, src, 1) {
				g80 = true
			}
			if k == 0xA8 {
				if m, ok := bo.X.(*ssa.BinOp); ok && m.Op == token.AND_NOT {
					if k1, ok := intConst(m.Y); ok && k1 == 1 && isSrcAt(m.X, src, 2) {
						gA8 = true
						if third != nil && !isSrcAt(third, src, 2) {
							bad = "the nibble written after `\\u202` is not taken from the third byte of the sequence"
						}
					}
				}
			}
		}
		if !g80 || !gA8 {
			bad = "the \\u202X substitution is not guarded by src[i+1] == 0x80 && src[i+2]&^1 == 0xA8"
		}
		// the decision to substitute depends on nothing but the flag parameter, the byte(s) and the bounds test
		for _, tgt := range []*ssa.BasicBlock{blk, blk2} {
			for _, bb := range fn.Blocks {
				iff, ok := bb.Instrs[len(bb.Instrs)-1].(*ssa.If)
				if !ok {
					continue
				}
				for si := range bb.Succs {
					if !edgeDominates(bb, si, tgt) {
						continue
					}
					if h := innermostLoopHeader(tgt); h != nil && bb == h {
						continue // the loop condition itself
					}
					// a condition held in a named boolean (or built with && / ||) is judged leaf by leaf
					okLeaf := func(cv ssa.Value) bool {
						if flag != nil && cv == ssa.Value(flag) {
							return true
						}
						if bo, ok := cv.(*ssa.BinOp); ok {
							// comparisons of input bytes with constants, index/bounds comparisons
							if _, isK := intConst(bo.Y); isK {
								return true
							}
							if _, isK := intConst(bo.X); isK {
								return true
							}
							if bt, ok := bo.X.Type().Underlying().(*types.Basic); ok && bt.Info()&types.IsInteger != 0 && bt.Kind() != types.Uint8 {
								return true // i+2 < len(src), start < i
							}
						}
						return false
					}
					var leaves func(v ssa.Value, d int) bool
					leaves = func(v ssa.Value, d int) bool {
						v, _ = stripNot(v)
						if _, isC := v.(*ssa.Const); isC {
							return true
						}
						phi, isPhi := v.(*ssa.Phi)
						if !isPhi || d > 6 {
							return okLeaf(v)
						}
						for i, e := range phi.Edges {
							if !leaves(e, d+1) {
								return false
							}
							if pi, ok := lastInstr(phi.Block().Preds[i]).(*ssa.If); ok {
								if !leaves(pi.Cond, d+1) {
									return false
								}
							}
						}
						return true
					}
					cv, _ := stripNot(iff.Cond)
					if leaves(cv, 0) {
						continue
					}
					bad = "whether a byte is escaped also depends on " + describeValue(cv) + " (branch at " + b.posOf(iff) + "), not only on the escape flag and the byte: with the flag on some occurrences stay unescaped"
				}
			}
		}
		if bad != "" {
			l.add("R-ESCSET", "codec", key, b.posOf(u00[0]), Violated, bad, true)
		} else {
			l.add("R-ESCSET", "codec", key, b.posOf(u00[0]), Discharged, "`\\u00`+hex[c>>4]+hex[c&15]; `\\u202`+hex[src[i+2]&15] under src[i+1]==0x80 && src[i+2]&^1==0xA8", true)
		}
	}

	// --- the string encoders
	for _, name := range []string{"string", "stringBytes"} {
		fn := b.method(sp, "encodeState", name)
		if fn == nil {
			l.add("R-ESCSET", "codec", "anchor encodeState."+name, "", Undecided, "method not found", false)
			continue
		}
		var src, flag *ssa.Parameter
		for _, p := range fn.Params[1:] {
			if isByteSlice(p.Type()) || isStringType(p.Type()) {
				src = p
			}
			if bt, ok := p.Type().Underlying().(*types.Basic); ok && bt.Kind() == types.Bool {
				flag = p
			}
		}
		// the escape start: WriteByte('\\')
		var esc *ssa.Call
		allInstrs(fn, func(i ssa.Instruction) {
			call, ok := i.(*ssa.Call)
			if !ok {
				return
			}
			f := call.Call.StaticCallee()
			if f == nil || !strings.HasSuffix(stdName(f), "(*Buffer).WriteByte") {
				return
			}
			if k, ok := intConst(call.Call.Args[1]); ok && k == '\\' {
				esc = call
			}
		})
		lbs := loopBytes(fn, src)
		// the escape writers may have been moved into helpers of the encoder that are handed
		// the byte (rune): the call is the site, the spelling is read inside the helper
		helperWith := func(pred func(*ssa.Function) bool) (*ssa.Call, *ssa.Function, *ssa.Parameter) {
			var hc *ssa.Call
			var hf *ssa.Function
			var hp *ssa.Parameter
			allInstrs(fn, func(i ssa.Instruction) {
				call, ok := i.(*ssa.Call)
				if !ok {
					return
				}
				f := call.Call.StaticCallee()
				if f == nil || f.Pkg != sp || len(f.Blocks) == 0 || !pred(f) {
					return
				}
				for ai, a := range call.Call.Args {
					if ai == 0 || ai >= len(f.Params) {
						continue
					}
					if bt, ok := a.Type().Underlying().(*types.Basic); ok && bt.Info()&types.IsInteger != 0 {
						hc, hf, hp = call, f, f.Params[ai]
					}
				}
			})
			return hc, hf, hp
		}
		writesBackslash := func(f *ssa.Function) bool {
			found := false
			allInstrs(f, func(i ssa.Instruction) {
				if call, ok := i.(*ssa.Call); ok {
					if g := call.Call.StaticCallee(); g != nil && strings.HasSuffix(stdName(g), "(*Buffer).WriteByte") {
						if k, ok := intConst(call.Call.Args[1]); ok && k == '\\' {
							found = true
						}
					}
				}
			})
			return found
		}
		var escHelper *ssa.Function
		var escParam *ssa.Parameter
		if esc == nil {
			esc, escHelper, escParam = helperWith(writesBackslash)
		}
		if src == nil || flag == nil || esc == nil || len(lbs) == 0 {
			l.add("R-ESCSET", "codec", "encodeState."+name+": escape site", b.rel(fn.Pos()), Undecided, fmt.Sprintf("escape site or loop byte not recognised (src=%v flag=%v esc=%v loop bytes=%d)", src != nil, flag != nil, esc != nil, len(lbs)), true)
			continue
		}
		cbyte := lbs[0]
		var ctl bset
		for i := 0; i < 0x20; i++ {
			ctl.add(i)
		}
		base := ctl.or(setOf('"', '\\'))
		var ascii bset
		for i := 0; i < 0x80; i++ {
			ascii.add(i)
		}
		for _, on := range []bool{true, false} {
			got, err := b.reachSet(fn, cbyte, map[ssa.Value]bool{flag: on}, tables, esc)
			want := base
			label := "escapeHTML off"
			if on {
				want = base.or(html3)
				label = "escapeHTML on"
			}
			report(fmt.Sprintf("encodeState.%s (%s): ASCII bytes that are backslash-escaped", name, label), b.posOf(esc), got.and(ascii), want, err)
		}
		// U+2028 / U+2029 are escaped whatever the flag says (as the standard library does)
		u202s := writeStringConstCalls(fn, `\u202`)
		if len(u202s) == 0 {
			if hc, _, _ := helperWith(func(f *ssa.Function) bool { return len(writeStringConstCalls(f, `\u202`)) == 1 }); hc != nil {
				u202s = []*ssa.Call{hc}
			}
		}
		if len(u202s) != 1 {
			l.add("R-ESCSET", "codec", "encodeState."+name+": U+2028/U+2029 escape", b.rel(fn.Pos()), Violated, fmt.Sprintf("%d writes of `\\u202`", len(u202s)), true)
		} else {
			for _, on := range []bool{true, false} {
				got, err := b.reachSet(fn, cbyte, map[ssa.Value]bool{flag: on}, tables, u202s[0])
				label := map[bool]string{true: "escapeHTML on", false: "escapeHTML off"}[on]
				key := fmt.Sprintf("encodeState.%s (%s): the U+2028/U+2029 escape is reachable for the lead byte 0xE2", name, label)
				switch {
				case err != "":
					l.add("R-ESCSET", "codec", key, b.posOf(u202s[0]), Undecided, err, true)
				case !got.has(0xE2):
					l.add("R-ESCSET", "codec", key, b.posOf(u202s[0]), Violated, "with this flag setting the line/paragraph separator escape is unreachable: the HTML switch changes more than <, >, & (and the output differs from encoding/json)", true)
				default:
					l.add("R-ESCSET", "codec", key, b.posOf(u202s[0]), Discharged, "reachable for non-ASCII lead bytes "+got.String(), true)
				}
			}
		}
		// <,>,& take the u00XX spelling
		u00 := writeStringConstCalls(fn, `u00`)
		if len(u00) == 0 && escHelper != nil {
			// inside the helper: the bytes that reach the helper, cut down to those that reach
			// its u00 write
			if hu := writeStringConstCalls(escHelper, `u00`); len(hu) == 1 {
				gotCall, err1 := b.reachSet(fn, cbyte, map[ssa.Value]bool{flag: true}, tables, esc)
				gotIn, err2 := b.reachSet(escHelper, escParam, map[ssa.Value]bool{}, tables, hu[0])
				var want bset
				for i := 0; i < 0x20; i++ {
					if i != '\n' && i != '\r' && i != '\t' {
						want.add(i)
					}
				}
				want = want.or(html3)
				report(fmt.Sprintf("encodeState.%s (escapeHTML on): bytes spelled \\u00XX", name), b.posOf(hu[0]), gotCall.and(gotIn).and(ascii), want, err1+err2)
				continue
			}
		}
		if len(u00) != 1 {
			l.add("R-ESCSET", "codec", "encodeState."+name+": \\u00XX spelling", b.rel(fn.Pos()), Violated, fmt.Sprintf("%d writes of `u00`", len(u00)), true)
		} else {
			got, err := b.reachSet(fn, cbyte, map[ssa.Value]bool{flag: true}, tables, u00[0])
			var want bset
			for i := 0; i < 0x20; i++ {
				if i != '\n' && i != '\r' && i != '\t' {
					want.add(i)
				}
			}
			want = want.or(html3)
			report(fmt.Sprintf("encodeState.%s (escapeHTML on): bytes spelled \\u00XX", name), b.posOf(u00[0]), got.and(ascii), want, err)
		}
	}

	b.marshalerOutputCompacted(l)
	// --- provenance of the flag: MarshalEscaped -> opts.escapeHTML -> compact
	{
		key := "flag provenance: MarshalEscaped passes its argument, Marshal the constant true, as opts.escapeHTML"
		bad := ""
		for _, name := range []string{"MarshalEscaped", "Marshal"} {
			fn := fnOf(sp, name)
			if fn == nil {
				bad = name + " not found"
				continue
			}
			found := false
			// what the encoder is given as escapeHTML, seen from fn: one of fn's parameters or a
			// constant — directly, or through codec functions that pass their own parameter on
			var flagOf func(g *ssa.Function, depth int) ssa.Value
			flagOf = func(g *ssa.Function, depth int) ssa.Value {
				var out ssa.Value
				if g == nil || len(g.Blocks) == 0 || depth > 3 {
					return nil
				}
				allInstrs(g, func(i ssa.Instruction) {
					call, ok := i.(*ssa.Call)
					if !ok || out != nil {
						return
					}
					f := call.Call.StaticCallee()
					if f == nil {
						return
					}
					if f.Name() == "marshal" && recvTypeName(f) == "encodeState" {
						// the encOpts argument: a struct value built with escapeHTML field
						out = encOptsField(call.Call.Args[len(call.Call.Args)-1], "escapeHTML")
						return
					}
					if f.Pkg == g.Pkg && f != g {
						if inner := flagOf(f, depth+1); inner != nil {
							if p, isP := inner.(*ssa.Parameter); isP && p.Parent() == f {
								out = call.Call.Args[paramIdx(p)]
							} else if _, isK := inner.(*ssa.Const); isK {
								out = inner
							}
						}
					}
				})
				return out
			}
			if v := flagOf(fn, 0); v != nil {
				switch name {
				case "MarshalEscaped":
					if p, ok := v.(*ssa.Parameter); ok && p.Parent() == fn {
						found = true
					}
				case "Marshal":
					if k, ok := boolConst(v); ok && k {
						found = true
					}
				}
			}
			if !found {
				bad = name + " does not pass the expected escapeHTML value to the encoder"
			}
		}
		if bad != "" {
			l.add("R-ESCSET", "codec", key, "", Violated, bad, true)
		} else {
			l.add("R-ESCSET", "codec", key, "", Discharged, "encOpts{escapeHTML: escape} / encOpts{escapeHTML: true}", true)
		}
		// every compact(…, flag) call in the encoder passes opts.escapeHTML
		key = "flag provenance: the encoder hands opts.escapeHTML to compact"
		bad = ""
		n := 0
		cf := fnOf(sp, "compact")
		for _, fn := range b.srcFuncs(sp) {
			for _, cs := range callsTo(fn, func(cc *ssa.CallCommon) bool { return cc.StaticCallee() == cf && cf != nil }) {
				args := cs.Common().Args
				fl := args[len(args)-1]
				if k, ok := boolConst(fl); ok {
					if fn.Name() == "Compact" && !k {
						continue // the exported Compact never escapes, by contract
					}
					bad = fmt.Sprintf("%s passes the constant %v to compact", fname(fn), k)
					continue
				}
				n++
				if f, ok := fl.(*ssa.Field); ok {
					if st := piStructOf(f.X.Type()); st != nil && st.Field(f.Field).Name() == "escapeHTML" {
						continue
					}
				}
				if _, fr, ok := fieldLoad(fl); ok && fr.Field == "escapeHTML" {
					continue
				}
				bad = fname(fn) + " passes " + describeValue(fl) + " to compact, not opts.escapeHTML"
			}
		}
		if n == 0 && bad == "" {
			bad = "no encoder call of compact with the options' flag found"
		}
		if bad != "" {
			l.add("R-ESCSET", "codec", key, "", Violated, bad, true)
		} else {
			l.add("R-ESCSET", "codec", key, "", Discharged, fmt.Sprintf("%d call(s) of compact in the encoders, each with opts.escapeHTML", n), true)
		}
	}
}

// hexPiece describes hex[<expr of c>] lookups.
func hexPiece(v ssa.Value, c ssa.Value) string {
	lx, lidx, ok := indexExpr(v)
	if !ok {
		return "?"
	}
	if g := loadedGlobal(lx); g == nil || g.Name() != "hex" {
		return "?"
	}
	idx := lidx
	if cv, ok := idx.(*ssa.Convert); ok {
		idx = cv.X
	}
	bo, ok := idx.(*ssa.BinOp)
	if !ok || unwrapConv(bo.X) != c {
		return "hex[?]"
	}
	k, _ := intConst(bo.Y)
	switch bo.Op {
	case token.SHR:
		return fmt.Sprintf("hex[c>>%d]", k)
	case token.AND:
		return fmt.Sprintf("hex[c&%d]", k)
	}
	return "hex[?]"
}

// isSrcAt: v = src[i+k] (a load of IndexAddr(src, idx+k)).
func isSrcAt(v ssa.Value, src *ssa.Parameter, k int64) bool {
	ld, ok := v.(*ssa.UnOp)
	if !ok || ld.Op != token.MUL {
		return false
	}
	ia, ok := ld.X.(*ssa.IndexAddr)
	if !ok || ia.X != ssa.Value(src) {
		return false
	}
	bo, ok := ia.Index.(*ssa.BinOp)
	if !ok || bo.Op != token.ADD {
		return false
	}
	n, ok := intConst(bo.Y)
	return ok && n == k
}

// encOptsField: the value stored into field `name` of the encOpts struct value v
// (a load of a local that was initialised field by field, or a struct built in SSA).
func encOptsField(v ssa.Value, name string) ssa.Value {
	ld, ok := v.(*ssa.UnOp)
	if !ok {
		return nil
	}
	al, ok := ld.X.(*ssa.Alloc)
	if !ok {
		return nil
	}
	var out ssa.Value
	for _, r := range *al.Referrers() {
		fa, ok := r.(*ssa.FieldAddr)
		if !ok || fieldName(fa.X.Type(), fa.Field) != name {
			continue
		}
		for _, r2 := range *fa.Referrers() {
			if st, ok := r2.(*ssa.Store); ok {
				out = st.Val
			}
		}
	}
	return out
}

// memberNameEscapes (R-ESCSET, v5): the emitter of an object spells member names with the
// codec's string encoder. C15 lets the EscapeHTML switch decide the spelling of all five
// characters (<, >, &, U+2028, U+2029) in strings *and member names*: off means no such escape
// is introduced. The string encoder follows encoding/json (as C17 requires of it) and escapes
// U+2028/U+2029 whatever the flag says, so a name holding one of them comes out escaped with
// the switch off, while values — kept as text and only compacted — stay as they were.
func (b *Body) memberNameEscapes(l *Ledger) {
	em := b.method(b.Lib, "partialDoc", "TrustMarshalJSON")
	if em == nil || b.Codec == nil {
		return
	}
	// the call that encodes a member name: a codec Marshal* call on a string
	var nameCall *ssa.Call
	allInstrs(em, func(i ssa.Instruction) {
		call, ok := i.(*ssa.Call)
		if !ok {
			return
		}
		f := call.Call.StaticCallee()
		if f == nil || f.Pkg != b.Codec || !strings.HasPrefix(f.Name(), "Marshal") || len(call.Call.Args) == 0 {
			return
		}
		a := call.Call.Args[0]
		if mi, ok := a.(*ssa.MakeInterface); ok {
			a = mi.X
		}
		if isStringType(a.Type()) {
			nameCall = call
		}
	})
	key := "(*partialDoc).TrustMarshalJSON: with EscapeHTML off a member name is written without escaping U+2028/U+2029"
	if nameCall == nil {
		l.add("R-ESCSET", "v5", key, b.rel(em.Pos()), Undecided, "the call that encodes a member name was not found", false)
		return
	}
	se := b.method(b.Codec, "encodeState", "string")
	if se == nil {
		l.add("R-ESCSET", "v5", key, b.posOf(nameCall), Undecided, "(*encodeState).string not found", false)
		return
	}
	var flag *ssa.Parameter
	for _, p := range se.Params[1:] {
		if bt, ok := p.Type().Underlying().(*types.Basic); ok && bt.Kind() == types.Bool {
			flag = p
		}
	}
	underFlag := true
	n := 0
	allInstrs(se, func(i ssa.Instruction) {
		call, ok := i.(*ssa.Call)
		if !ok || len(call.Call.Args) < 2 {
			return
		}
		s, isS := strConst(call.Call.Args[1])
		if !isS || s != `\u202` {
			return
		}
		n++
		dep := false
		for _, e := range b.controlDepsTransitive(call.Block()) {
			if iff, ok := lastInstr(e.From).(*ssa.If); ok && flag != nil {
				t := taintClosure(se, []ssa.Value{flag}, nil)
				if t[iff.Cond] {
					dep = true
				}
			}
		}
		if !dep {
			underFlag = false
		}
	})
	if n == 0 {
		l.add("R-ESCSET", "v5", key, b.posOf(nameCall), Discharged, "the string encoder has no U+2028/U+2029 escape", true)
		return
	}
	if underFlag {
		l.add("R-ESCSET", "v5", key, b.posOf(nameCall), Discharged, "the U+2028/U+2029 escape of the string encoder is under its escapeHTML flag", true)
		return
	}
	l.add("R-ESCSET", "v5", key, b.posOf(nameCall), Violated, "member names are spelled by "+fname(nameCall.Call.StaticCallee())+" → (*encodeState).string, whose U+2028/U+2029 escape does not depend on the escapeHTML flag: with EscapeHTML off a name holding U+2028 is written as \\u2028 (an escape the patch introduces), while the same character in a value stays raw", true)
}

// emitItem: one byte written to a bytes.Buffer — a constant, or a computed value.
type emitItem struct {
	ins ssa.Instruction // the write that carries it
	k   int64           // the constant byte, or -1
	v   ssa.Value       // the computed byte
}

// emitted lists, in order, the bytes a block writes with WriteString(constant), WriteByte(x)
// and Write(a byte-slice literal); writes of other slices (a run of input bytes) are skipped.
func emitted(bb *ssa.BasicBlock) []emitItem {
	var out []emitItem
	for _, ins := range bb.Instrs {
		call, ok := ins.(*ssa.Call)
		if !ok {
			continue
		}
		f := call.Call.StaticCallee()
		if f == nil {
			continue
		}
		n := stdName(f)
		if len(call.Call.Args) == 0 {
			continue
		}
		last := call.Call.Args[len(call.Call.Args)-1]
		switch {
		case strings.HasSuffix(n, "(*Buffer).WriteString"):
			if str, ok := strConst(last); ok {
				for i := 0; i < len(str); i++ {
					out = append(out, emitItem{ins, int64(str[i]), nil})
				}
			}
		case strings.HasSuffix(n, "(*Buffer).WriteByte"):
			if k, ok := intConst(last); ok {
				out = append(out, emitItem{ins, k, nil})
			} else {
				out = append(out, emitItem{ins, -1, last})
			}
		case strings.HasSuffix(n, "(*Buffer).Write"):
			sl, ok := last.(*ssa.Slice)
			if !ok {
				continue
			}
			al, ok := sl.X.(*ssa.Alloc)
			if !ok {
				continue
			}
			arr, ok := derefPtr(al.Type()).Underlying().(*types.Array)
			if !ok {
				continue
			}
			elems := make([]emitItem, arr.Len())
			for i := range elems {
				elems[i] = emitItem{ins, 0, nil}
			}
			for _, r := range *al.Referrers() {
				ia, ok := r.(*ssa.IndexAddr)
				if !ok {
					continue
				}
				idx, ok := intConst(ia.Index)
				if !ok || idx < 0 || idx >= int64(len(elems)) {
					continue
				}
				for _, r2 := range *ia.Referrers() {
					if st, ok := r2.(*ssa.Store); ok {
						if k, ok := intConst(st.Val); ok {
							elems[idx] = emitItem{ins, k, nil}
						} else {
							elems[idx] = emitItem{ins, -1, st.Val}
						}
					}
				}
			}
			out = append(out, elems...)
		}
	}
	return out
}

// escapeSite: the block of fn that writes the constant prefix followed by n computed bytes;
// returns the first write of the sequence and the computed bytes.
func escapeSites(fn *ssa.Function, prefix string, n int) (sites []ssa.Instruction, exprs [][]ssa.Value) {
	for _, bb := range fn.Blocks {
		em := emitted(bb)
		for i := 0; i+len(prefix)+n <= len(em); i++ {
			match := true
			for j := 0; j < len(prefix); j++ {
				if em[i+j].k != int64(prefix[j]) {
					match = false
					break
				}
			}
			if !match {
				continue
			}
			var vs []ssa.Value
			for j := 0; j < n; j++ {
				it := em[i+len(prefix)+j]
				if it.k != -1 {
					match = false
					break
				}
				vs = append(vs, it.v)
			}
			if !match {
				continue
			}
			sites = append(sites, em[i].ins)
			exprs = append(exprs, vs)
		}
	}
	return
}
