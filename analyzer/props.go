package main

import "strings"

// RuleUse selects the obligations of one rule that bear on a property.
type RuleUse struct {
	Rule   string
	Bodies []string // empty = every body
	// KeyHas, when non-empty, keeps only obligations whose construct key
	// contains one of the substrings (scoping a census rule to the functions
	// the property is anchored in).
	KeyHas []string
}

func (u RuleUse) matches(o *Obl) bool {
	if len(u.Bodies) > 0 {
		ok := false
		for _, b := range u.Bodies {
			if b == o.Body {
				ok = true
			}
		}
		if !ok {
			return false
		}
	}
	if len(u.KeyHas) > 0 {
		if o.Key == "instance-count" || strings.HasPrefix(o.Key, "anchor") {
			return true
		}
		for _, s := range u.KeyHas {
			if strings.Contains(o.Key, s) {
				return true
			}
		}
		return false
	}
	return true
}

type PropSpec struct {
	ID          string
	Rules       []RuleUse
	Explanation string
	NotDecided  string
	Trusted     []string
	Assumptions []string
}

var propSpecs []*PropSpec

func propByID(id string) *PropSpec {
	for _, p := range propSpecs {
		if p.ID == id {
			return p
		}
	}
	return nil
}

func use(rule string, bodies ...string) RuleUse { return RuleUse{Rule: rule, Bodies: bodies} }

var commonTrusted = []string{
	"go/packages + go/types + go/ssa of golang.org/x/tools v0.29.0 (loading, type checking, SSA construction)",
	"the jpverif analyser itself (rules in /verif/analyzer), exercised by its positive/negative controls and the seeded variants under /verif/seeded",
	"the Go standard library behaves as documented (strings.Replacer, strconv.Atoi, sync.Pool, bytes, fmt.Errorf %w)",
}

var commonAssumptions = []string{
	"static analysis only: no code of /repo is executed; what is decided is the shape of the mechanisms on every path of the current source, not the run-time values they compute",
	"inherited encoding/json decoder/encoder internals (reflection-driven) honour their contract on well-formed input",
	"integer overflow of slice lengths is not modelled",
}

func init() {
	propSpecs = []*PropSpec{
		{
			ID:          "C01",
			Rules:       []RuleUse{use("R-DISPATCH", "v5"), use("R-TOKEN", "v5"), use("R-TOKTAB", "v5"), use("R-REPLACE", "v5"), use("R-MOVE", "v5"), use("R-COPYISO", "v5"), use("R-TYPESTATE", "v5"), use("R-SUCCESS", "v5"), {Rule: "R-BOUNDS", Bodies: []string{"v5"}, KeyHas: []string{"(*partialArray)", "findObject", "(*partialDoc)"}}, use("R-NEGIDX", "v5"), use("R-SELF", "v5"), use("R-NULLSPELL", "v5"), use("R-EQSHAPE", "v5"), {Rule: "R-ERRCHAIN", Bodies: []string{"v5"}, KeyHas: []string{"TEST-ABSENT"}}, {Rule: "R-KEYS", Bodies: []string{"v5"}, KeyHas: []string{"(*partialDoc)", "(Patch)", "emitter"}}, {Rule: "R-ABSENT", Bodies: []string{"v5"}, KeyHas: []string{"(*partialDoc)", ".equal"}}},
			Explanation: "Decided for the v5 body: R-KEYS + R-ABSENT (an object's member list and member map stay in step through add/replace/remove/move: a member is written exactly once into the result, a replaced member — also one holding null — is not listed twice, absent and null are told apart by the comma-ok flag), R-ERRCHAIN TEST-ABSENT (the tolerance of test for an absent location covers object members only: the array lookup never reports ErrMissing, so an index outside the array fails the test), R-DISPATCH (all six RFC 6902 operations reach the handler with that operation's container effects; validator table = RFC 6902 §4; verdict cannot be bypassed), R-TOKEN + R-TOKTAB (every reference token obtained by splitting a path is decoded exactly once, by a decoder whose table and order are RFC 6901's, on every route to a member lookup, insertion or removal), R-REPLACE (replace requires the target to exist), R-MOVE (move = get, remove of the same container/key, destination resolved after the removal, add of that same value), R-COPYISO (copy inserts a fresh deep duplicate, never an alias), R-TYPESTATE (a null root is held as a nil container that every later operation rejects instead of dereferencing). R-SUCCESS (every handler reports success only after performing its operation). R-BOUNDS + R-NEGIDX (the index arithmetic of the four array methods stays in range for every parsed index and both SupportNegativeIndices settings; a negative index is honoured only under the option and is an error otherwise). R-SELF (copy from \"\" copies the document as it is now — a node built over the live root, never the parse-time snapshot, and every root installed by the patch carries its self; the container lookups hand out members only, so the token \"\" names the member with the empty name and a container can never be inserted into itself; the node for the live container is only deep-copied or compared). R-NULLSPELL (a test verdict on a non-nil looked-up node always consults that node's content, so a null stored by add/replace — a non-nil node whose text is null — is seen as null by later test operations).",
			NotDecided:  "that the resulting values equal the RFC 6902 result (value-level: needs the contents of the lazily parsed byte slices); value-level agreement of equal() with RFC equality beyond the null-spelling mechanism; index semantics beyond range safety.",
			Trusted:     commonTrusted, Assumptions: commonAssumptions,
		},
		{
			ID:          "C02",
			Rules:       []RuleUse{{Rule: "R-GATE", Bodies: []string{"v5", "codec"}, KeyHas: []string{"MergePatch", "sink "}}, use("R-MERGEWIRE", "v5"), {Rule: "R-NIL", Bodies: []string{"v5"}, KeyHas: []string{"doMergePatch", "merge", "prune"}}, {Rule: "R-KEYS", Bodies: []string{"v5"}, KeyHas: []string{"mergeDocs", "pruneDocNulls", "doMergePatch", "(*partialDoc)", "emitter"}}, {Rule: "R-ROOTDISPATCH", Bodies: []string{"v5"}, KeyHas: []string{"MergePatch", "doMergePatch"}}, {Rule: "R-ABSENT", Bodies: []string{"v5"}, KeyHas: []string{"mergeDocs"}}, use("R-MERGESHAPE", "v5"), use("R-NOPRUNE", "v5"), use("R-ARRAYS", "v5"), use("R-PATCHWINS", "v5")},
			Explanation: "Decided for the v5 body: R-GATE (both inputs of MergePatch pass json.Valid before the validity-assuming parse), R-MERGEWIRE (MergePatch runs doMergePatch in apply mode with its parameters in order), R-NIL over doMergePatch/merge/mergeDocs/prune* (the nil nodes that stand for null members are never dereferenced), R-KEYS over the merge walk (merged members are neither lost nor duplicated: keys/obj pairing in mergeDocs and partialDoc.set/remove; pruning does not skip members — no loop over keys rewrites keys; a null document is rejected before its stale key list could be used), R-ROOTDISPATCH (whether the patch is an object is never decided from a fixed-offset byte of possibly padded text), R-ABSENT (mergeDocs tells an absent target member from a null one by comma-ok). R-MERGESHAPE (the skeleton of RFC 7396 as provenance and must-pass-through facts: the mode flag is passed down unchanged; merge returns the patch value when either side is not an object and the merged target otherwise; every non-null patch member is stored under its key on every path, as itself or as merge(current, member); a null member removes the key in apply mode), R-NOPRUNE (a member stored as a new value has its own null members dropped first), R-ARRAYS (arrays are never edited: the array handler reaches no member removal), R-PATCHWINS (a non-object patch replaces the document: those returns derive from the patch parameter only).",
			NotDecided:  "that the recursive member-by-member result equals RFC 7396 MergePatch(doc, patch) (value-level); the 'non-object document is treated as {}' clause.",
			Trusted:     commonTrusted, Assumptions: commonAssumptions,
		},
		{
			ID:          "C03",
			Rules:       []RuleUse{{Rule: "R-GATE", Bodies: []string{"v5", "codec"}, KeyHas: []string{"CreateMergePatch", "sink "}}, {Rule: "R-NIL", Bodies: []string{"v5"}, KeyHas: []string{"createArrayMergePatch", "createObjectMergePatch"}}, use("R-NUM", "v5", "codec"), {Rule: "R-POOLINIT", Bodies: []string{"codec"}, KeyHas: []string{"useNumber"}}, {Rule: "R-MAPORDER", Bodies: []string{"v5"}, KeyHas: []string{"getDiff", "matchesValue"}}, {Rule: "R-MAPORDER", Bodies: []string{"codec"}}, use("R-CMPSHAPE", "v5"), {Rule: "R-BOUNDS", Bodies: []string{"v5"}, KeyHas: []string{"createArrayMergePatch", "matchesArray"}}, use("R-EXH", "v5"), {Rule: "R-PANIC", Bodies: []string{"v5"}, KeyHas: []string{"getDiff", "matchesValue", "matchesArray"}}},
			Explanation: "Decided for the v5 body: R-GATE (malformed input to CreateMergePatch is rejected before the validity-assuming parse), R-NIL over the create*MergePatch functions, R-NUM + R-POOLINIT/useNumber (numbers are decoded as literals, compared only by literal equality and written back unchanged — 'number literals are carried over unchanged'; two different literals can never compare equal through a machine number type), R-MAPORDER (the diff's map ranges have no order-sensitive effect). R-CMPSHAPE (rejection clause and completeness of the walk: mixed array/object roots return the mismatch error; unequal array lengths are rejected; every element pair goes through the object diff, whose error aborts; every successful return of getDiff has passed both the walk over the modified members and the walk over the original that emits removed members as null; every decode of an input must have succeeded — err == nil, not merely 'no syntax error' — before a patch is produced; the diff goes to the encoder as getDiff produced it; census of getDiff's stores: a member enters the patch only as b's value under b's key where a lacks the key, the dynamic types differ or a value comparison answered false — never inside the arm where a's value is an object — as the non-empty, error-tested recursive diff of two objects, or as null under a key of a that b lacks, and each of these classes has a store; matchesValue/matchesArray pair element i with element i and member k with member k under a size comparison that answers false, compare scalars as the two operands asserted to one type, and a false nested answer is final). R-BOUNDS over the pairwise array walks. R-EXH (every JSON type, including literal-preserving numbers, is handled by matchesValue — equal members are never reported — and by getDiff — no type falls into the panicking default).",
			NotDecided:  "the round-trip law MergePatch(A, P) = B and minimality as value-level statements (what is decided is which stores can put a member into the patch and under which verdicts, not the contents of the decoded values).",
			Trusted:     commonTrusted, Assumptions: commonAssumptions,
		},
		{
			ID:          "C04",
			Rules:       []RuleUse{{Rule: "R-GATE", Bodies: []string{"v5", "codec"}, KeyHas: []string{"validity-assuming parse", "sink ", "encoder output"}}, use("R-SELF", "v5"), use("R-NIL"), use("R-TYPESTATE"), use("R-RAW"), use("R-STALERAW"), use("R-DISPATCH"), use("R-REPLACE"), use("R-COPYISO"), use("R-SCAN", "codec"), use("R-DRIVER", "codec"), {Rule: "R-KEYS", Bodies: []string{"v5"}, KeyHas: []string{"emitter", "obj != nil", "whole-map"}}, use("R-BOUNDS"), use("R-NEGIDX"), use("R-PANIC"), use("R-EXH")},
			Explanation: "Decided for both library bodies, as a census of potential panic sites: R-GATE (every exported []byte parameter passes json.Valid before any validity-assuming parse, which panics on ill-formed text; text the library produces itself and keeps as a node — the encoded copy made by the copy operation — passes the same gate, because the encoder can emit a text nested deeper than the scanner accepts), R-SELF (no container can be inserted into itself: the lookups hand out members only and the node for the live container is never inserted, so the document stays a tree and writing it out terminates), R-NIL (every dereference of a node/container/raw message that may be the nil spelling of null is guarded on every path), R-TYPESTATE (which==eDoc implies a non-nil doc; a nil array container is confined to the root slot and scratch nodes and every consumer tests for it), R-RAW (raw is dereferenced only where it cannot be nil), R-STALERAW (raw bytes are re-read as content only while the node is unparsed), R-DISPATCH (handlers dereference only the members the validator requires for their kind), R-REPLACE (set on an array only after a successful get of the same slot, which is what bounds its index), R-COPYISO (copy never inserts an alias of the source, so no operation sequence can make a value contain itself — the encoder would never return on a cyclic document), R-SCAN + R-DRIVER (the json.Valid gate that the panic-freedom of the validity-assuming decoder rests on accepts exactly RFC 8259), R-KEYS (inserts into the member map happen only under an obj != nil fact — a nil map write panics; the trusted emitter writes names and values only through the codec's encoder, so what it emits — and the unvalidated parser later re-reads — is well-formed). R-BOUNDS (every index / slice / make of both library bodies is proved in range from dominating linear facts, or is a reviewed exception naming the invariant it relies on — content-dependent first-byte reads, the keys splice, set-after-get), R-NEGIDX. R-PANIC + R-EXH (the rest of the census: the explicit panic in getDiff is the default arm of a type switch that covers every dynamic type the decoder can produce; every single-value type assertion is guarded by reflect.TypeOf equality plus a successful assertion of the other operand; every map update is on a fresh or non-nil-tested map).",
			NotDecided:  "termination and stack exhaustion; panics inside the inherited decoder/encoder and reflect on well-formed input (trusted codec contract); run-time out-of-memory.",
			Trusted:     commonTrusted, Assumptions: commonAssumptions,
		},
		{
			ID:          "C05",
			Rules:       []RuleUse{use("R-KEYS", "v5"), use("R-ABSENT", "v5"), use("R-MAPORDER", "v5"), use("R-KEYORDER", "codec"), use("R-NUM", "v5", "codec"), {Rule: "R-POOLINIT", Bodies: []string{"codec"}, KeyHas: []string{"useNumber"}}, {Rule: "R-POOL", Bodies: []string{"v5", "codec"}, KeyHas: []string{"MarshalEscaped", "Marshal"}}, use("R-COPYISO", "v5")},
			Explanation: "Decided for the v5 body and the codec: R-KEYS (the ordered-object invariant: every insert into obj is paired with a membership-scan-guarded append of the same key to keys and vice versa, every delete with the removal of the scanned slot and vice versa, whole-map stores with a keys store, the decoder fill with its own key list; a replaced member keeps its slot — no remove followed by re-creation of the same key; no loop over keys rewrites keys; the emitter ranges over keys and emits obj[k], never ranging over the map; inserts happen under obj != nil), R-ABSENT (membership in the member map is only ever decided by comma-ok or by the keys list, never by comparing the looked-up value with nil — a null member is a member), R-KEYORDER (the decoder records each key once per member, unconditionally, before the value, in a call-local list published once), R-NUM (number literals are never parsed, converted or reformatted: convertNumber returns the literal, the encoder writes it back, unparsed nodes re-emit raw bytes, Numbers are compared only by literal equality), R-POOLINIT (useNumber is forced in every decoder entry point), R-MAPORDER (no order-sensitive effect under a map range on the Apply/CreateMergePatch/Equal paths).",
			NotDecided:  "byte-exact fidelity of every literal through compact beyond the escaping substitutions; string value preservation through unquote/quote (C17's domain); the order in which MergePatch appends several new members (map iteration order, allowed by the property as worded).",
			Trusted:     commonTrusted, Assumptions: commonAssumptions,
		},
		{
			ID:          "C06",
			Rules:       []RuleUse{{Rule: "R-GATE", Bodies: []string{"v5", "codec"}, KeyHas: []string{"Equal", "sink "}}, {Rule: "R-NIL", Bodies: []string{"v5"}, KeyHas: []string{"Equal", ".equal", "tryDoc", "tryAry", "compact", "isNull", "nextByte"}}, {Rule: "R-TYPESTATE", Bodies: []string{"v5"}, KeyHas: []string{".equal", "tryDoc", "tryAry"}}, {Rule: "R-RAW", Bodies: []string{"v5"}, KeyHas: []string{"compact", "tryDoc", "tryAry", "nextByte", "newLazyNode"}}, {Rule: "R-STALERAW", Bodies: []string{"v5"}, KeyHas: []string{".equal", "isNull", "compact", "tryDoc", "tryAry"}}, {Rule: "R-NUM", Bodies: []string{"v5"}, KeyHas: []string{"never parsed"}}, {Rule: "R-MAPORDER", Bodies: []string{"v5"}, KeyHas: []string{".equal"}}, {Rule: "R-ABSENT", Bodies: []string{"v5"}, KeyHas: []string{".equal"}}, use("R-EQSHAPE", "v5"), {Rule: "R-NULLSPELL", Bodies: []string{"v5"}, KeyHas: []string{".equal"}}, {Rule: "R-ROOTDISPATCH", Bodies: []string{"v5"}, KeyHas: []string{"untrimmed text", "Equal"}}, {Rule: "R-DRIVER", Bodies: []string{"codec"}, KeyHas: []string{"Valid", "checkValid", "eof"}}},
			Explanation: "Decided for the v5 body: R-EQSHAPE (the recursive comparison itself: every branch tests the two operands only, so no verdict depends on a counter, option or other state; strings are compared after being unescaped by the codec's own decoder, each side from its own compacted text; every computed verdict uses both operands and the scalar comparison is bytes.Equal of the two compacted texts; the recursion pairs element i with element i and member k with member k under a preceding length/size comparison that answers false, answers false whenever the recursion does, and runs over all elements/members), R-NULLSPELL (no verdict from the nil-ness of member nodes: a stored null equals a decoded null), R-ROOTDISPATCH (no function classifies a node by a fixed-offset byte of its raw text — the operands of Equal are nodes built over the caller's bytes, leading whitespace included), R-GATE on both parameters of Equal with the invalid edge returning false, R-NIL + R-TYPESTATE + R-RAW + R-STALERAW over Equal, (*lazyNode).equal, tryDoc, tryAry, compact, isNull (Equal is total: null roots, nulls inside arrays and as members, an array against null never dereference a nil node; comparison never re-reads stale bytes of a parsed node), R-NUM (no numeric parsing anywhere in the library: numbers are compared as literals, so distinct literals are never equal), R-MAPORDER (the member loop of equal has no order-sensitive effect), R-ABSENT (the member comparison looks the other side up with comma-ok and tests the flag: a null member is never equal to an absent one).",
			NotDecided:  "reflexivity/symmetry/transitivity and agreement with an independent deep comparison as value-level statements (R-EQSHAPE decides the pairing, coverage and provenance of the verdicts, not the contents of the byte slices); that the codec's decoder unescapes strings per RFC 8259 is decided separately (C17/C18 rules) and assumed here.",
			Trusted:     commonTrusted, Assumptions: commonAssumptions,
		},
		{
			ID:          "C07",
			Rules:       []RuleUse{use("R-MERGEWIRE", "v5"), {Rule: "R-GATE", Bodies: []string{"v5", "codec"}, KeyHas: []string{"MergeMergePatches", "sink "}}, {Rule: "R-KEYS", Bodies: []string{"v5"}, KeyHas: []string{"mergeDocs", "doMergePatch", "(*partialDoc)", "emitter"}}, use("R-MERGESHAPE", "v5"), use("R-NOPRUNE", "v5"), use("R-ARRAYS", "v5"), use("R-PATCHWINS", "v5")},
			Explanation: "Decided for the v5 body: R-MERGEWIRE (MergeMergePatches runs doMergePatch in combine mode, constant true, with its parameters in order), R-GATE (both patches pass json.Valid), R-KEYS over mergeDocs (a deletion that is new to the first patch is actually emitted: in the combine branch the null member is stored and its key appended under a membership scan whose flag is initialised inside the iteration). R-MERGESHAPE (M1: the combine flag reaches every level of the recursion unchanged; M2: a later non-object value overrides — merge returns the patch value; M3: every non-null member of P2 is stored; M5: a null member is kept as null in combine mode), R-NOPRUNE (nothing is pruned under the combine flag, so deletions of both patches survive), R-ARRAYS + R-PATCHWINS (if P2 is not an object the combined patch is P2, unedited).",
			NotDecided:  "the composition law over all (D, P1, P2) (value-level).",
			Trusted:     commonTrusted, Assumptions: commonAssumptions,
		},
		{
			ID:          "C08",
			Rules:       []RuleUse{use("R-RETSHAPE", "v5"), use("R-ERRCHAIN", "v5"), {Rule: "R-COPYLIMIT", Bodies: []string{"v5"}, KeyHas: []string{"(i)", "(iii)", "(iv)", "(vi)"}}, use("R-SUCCESS", "v5"), {Rule: "R-DISPATCH", Bodies: []string{"v5"}, KeyHas: []string{"operation order"}}, {Rule: "R-TYPESTATE", Bodies: []string{"v5"}, KeyHas: []string{"root slot", "object root decoded", "receiver tested for nil"}}},
			Explanation: "Decided for the v5 body: R-TYPESTATE root obligations (every container that can become the root is either a parsed object with its member map, or the nil array that stands for null, whose every method answers with an error; no object root is decoded in place from a text that may be null — such a root has no member map and fails only when the result is written out, so that a later operation replacing the root would turn the failure into a success), R-DISPATCH operation order (the apply function reports errors from the dispatch loop only: no other loop over the operations — a pre-scan or validation pass — leaves into an error return, so the first operation that cannot be applied decides the outcome), R-RETSHAPE (every return of the Apply family and of the functions whose result tuples they pass through has a nil document or a nil error; in the operation loop every handler's error is tested before the back edge and the non-nil edge returns (nil, that error), so no later operation runs after the first failure), R-ERRCHAIN (error identity over every error return of the six handlers and the two containers: ErrTestFailed is produced only by the test handler, by each of its comparison-verdict returns and by none of its lookup-failure returns; a test against an absent member reaches the comparison; an unreachable parent yields ErrMissing in all six handlers; an absent member yields ErrMissing in partialDoc.get/remove and every handler wraps (%w) the container's error or ErrMissing; *AccumulatedCopySizeError comes only from its constructor, called only by the copy handler), R-COPYLIMIT (iii,iv) (that error is returned exactly on the over-limit edge). R-SUCCESS (a handler returns nil only after its container effect — add/set/remove, the root replacement, the comparison for test — or through the AllowMissingPathOnRemove skip: an inapplicable operation cannot be silently accepted, so the first failing operation really ends the patch).",
			NotDecided:  "that a patch whose operations all succeed never errors, beyond the root typestate (the final marshal could still fail on a value nested deeper than the encoder accepts); the 'exactly when' direction for ErrMissing beyond the 'holds when' clauses the property states.",
			Trusted:     commonTrusted, Assumptions: commonAssumptions,
		},
		{
			ID:          "C09",
			Rules:       []RuleUse{use("R-EFFECT"), use("R-GLOBALS"), use("R-POOL"), use("R-POOLINIT"), {Rule: "R-KEYS", Bodies: []string{"v5"}, KeyHas: []string{"whole-map", "obj != nil", "decoder fill", "whole-list"}}, use("R-MAPORDER"), use("R-KEYORDER", "codec")},
			Explanation: "Decided for the v5 library, the embedded codec and the legacy library: R-EFFECT (a census of every store / copy / append / map update / delete / writing std call whose target memory has a type the caller can share with the library — byte slices and RawMessage contents and headers, Operation, Patch, ApplyOptions: the root of each is freshly allocated in the call, or it is a parameter and becomes a summary pushed to all call sites; no exported function ends up writing through a parameter; decoder targets are fresh or call-local; working types are never published into globals or into a Patch), R-GLOBALS (every package-level variable is immutable after init, a sync.Pool/sync.Map used only through its methods, or configuration that library code only reads), R-POOL (pooled decoder/encoder/scanner states are not used after Put, not retained, and no result aliases them — Marshal returns a copy), R-POOLINIT (no field of a recycled state can be read before it is rewritten, except reviewed idioms with their own structural checks; useNumber is forced in every entry point): R-KEYS (the one recycled field that can be stale, lastKeys, is only ever consumed together with a non-nil freshly decoded member map: obj is never replaced or filled without keys being stored alongside, and merge code touches keys only under obj != nil), R-MAPORDER (identical bytes for Apply/CreateMergePatch/Equal do not depend on map iteration order): together, nothing written by one call is visible to a later one and nothing a call reads was left by an earlier one.",
			NotDecided:  "full functional determinism of the inherited codec (its type caches are trusted to be semantically transparent);",
			Trusted:     commonTrusted, Assumptions: commonAssumptions,
		},
		{
			ID:          "C10",
			Rules:       []RuleUse{use("R-EFFECT"), use("R-GLOBALS"), use("R-POOL")},
			Explanation: "Decided as a race-freedom argument by ownership: two concurrent calls can share only (a) their arguments — never written (R-EFFECT: no exported function writes through a []byte, RawMessage, Operation, Patch or ApplyOptions parameter, directly or through any callee), (b) package-level variables — immutable after init, or sync.Pool/sync.Map used only through their methods, or configuration that the library only reads (R-GLOBALS), (c) pooled objects — exclusively owned between Get and Put, never used after Put, never retained, never aliased by a result (R-POOL). Every other object a call writes has an unexported working type that is never published (R-EFFECT publication obligations). Hence no location is written by one call and accessed by another without synchronisation.",
			NotDecided:  "that each concurrent call returns what it returns alone (follows from C09's rules plus race freedom; argued, not checked); correctness of sync.Pool/sync.Map/strings.Replacer themselves (trusted std); reflect-driven writes inside the inherited encoder caches.",
			Trusted:     commonTrusted, Assumptions: commonAssumptions,
		},
		{
			ID:          "C11",
			Rules:       []RuleUse{{Rule: "R-GATE", Bodies: []string{"v5", "codec"}, KeyHas: []string{"DecodePatch", "sink "}}, use("R-DISPATCH", "v5"), {Rule: "R-RETSHAPE", Bodies: []string{"v5"}, KeyHas: []string{"DecodePatch"}}, {Rule: "R-NIL", Bodies: []string{"v5"}, KeyHas: []string{"(Operation)"}}, {Rule: "R-NUM", Bodies: []string{"v5"}, KeyHas: []string{"decode through"}}, use("R-SCAN", "codec"), {Rule: "R-DRIVER", Bodies: []string{"codec"}, KeyHas: []string{"Valid", "checkValid", "eof"}}},
			Explanation: "Decided for the v5 body: R-GATE (malformed JSON is rejected before the validity-assuming parse), R-DISPATCH (b) (the accept/reject decision table kind × required member, extracted from validateOperation by partial evaluation per kind, equals RFC 6902 §4 in the library's dialect; unknown kinds are rejected; Operation.value() is nil only when the member is absent), R-DISPATCH (d) (every element is validated and a rejection reaches a (nil, error) return of DecodePatch), R-RETSHAPE (nil patch with every error), R-NIL over the Operation accessors.",
			NotDecided:  "type errors inside members (a numeric path) are rejected by the codec's unmarshal-into-string, which is trusted; accessor results equal the decoded members (value-level).",
			Trusted:     commonTrusted, Assumptions: commonAssumptions,
		},
		{
			ID:          "C12",
			Rules:       []RuleUse{use("R-COPYLIMIT"), {Rule: "R-ERRCHAIN", KeyHas: []string{"ACS-only"}}, {Rule: "R-RETSHAPE", KeyHas: []string{"apply loop"}}, {Rule: "R-SUCCESS", KeyHas: []string{"handler \"copy\""}}},
			Explanation: "Decided for both library bodies: R-COPYLIMIT (i) the running total is one local of the apply function, allocated before the operation loop and handed only to the copy handler (other operations never count); (ii) the handler adds int64(size) exactly once per copy, size being result 1 of the very deepCopy whose result 0 is inserted, and deepCopy reports len() of the bytes it marshalled — in v5 with the same encoder function and the same options.EscapeHTML as the final output ('as it is spelled in the output'); (iii) the limit test is (limit > 0 && total > limit), both strict, the limit read from the per-call option (v5) / the package variable (legacy); (iv) addition, then test, then insertion, and the over-limit edge returns exactly the constructor's *AccumulatedCopySizeError; (v) NewApplyOptions copies the package defaults. R-ERRCHAIN ACS-only (no other handler can produce the error), R-RETSHAPE (no document is returned with it).",
			NotDecided:  "that len(marshalled bytes) is numerically the output size for every value (relies on the encoder's determinism, trusted); arithmetic overflow of the int64 total.",
			Trusted:     commonTrusted, Assumptions: commonAssumptions,
		},
		{
			ID:          "C13",
			Rules:       []RuleUse{use("R-OPTSCOPE", "v5"), use("R-MOVE", "v5"), {Rule: "R-ERRCHAIN", Bodies: []string{"v5"}, KeyHas: []string{"handler \"remove\"", "(*partialDoc).remove"}}, use("R-TOKTAB", "v5"), {Rule: "R-TOKEN", Bodies: []string{"v5"}, KeyHas: []string{"findObject", "(Patch).remove"}}, {Rule: "R-TYPESTATE", Bodies: []string{"v5"}, KeyHas: []string{"findObject"}}, {Rule: "R-NIL", Bodies: []string{"v5"}, KeyHas: []string{"findObject"}}},
			Explanation: "Decided for the v5 body: R-OPTSCOPE (the option is read only in the remove handler — under the container == nil edge — and in the remove methods of the two containers; every read decides a branch whose option-on edge returns a nil error and whose option-off edge returns a non-nil error, with no membership-changing write before either, so switching it on turns exactly those error returns into no-ops; library code never switches it on; other callers of remove pass options that leave it off), R-MOVE (move's get precedes its remove, so a move from an absent location stays an error), R-ERRCHAIN (the remove handler's and partialDoc.remove's absent-target returns).",
			NotDecided:  "equality of whole outcomes with the 'patch minus skipped removes' reference (value-level).",
			Trusted:     commonTrusted, Assumptions: commonAssumptions,
		},
		{
			ID:          "C14",
			Rules:       []RuleUse{{Rule: "R-TOKEN", Bodies: []string{"v5"}, KeyHas: []string{"ensurePathExists", "(Patch).add", "findObject"}}, use("R-TOKTAB", "v5"), {Rule: "R-NIL", Bodies: []string{"v5"}, KeyHas: []string{"ensurePathExists"}}, {Rule: "R-TYPESTATE", Bodies: []string{"v5"}, KeyHas: []string{"ensurePathExists"}}, {Rule: "R-RAW", Bodies: []string{"v5"}, KeyHas: []string{"ensurePathExists"}}, {Rule: "R-BOUNDS", Bodies: []string{"v5"}, KeyHas: []string{"ensurePathExists"}}, use("R-ENSURE", "v5"), {Rule: "R-OPTS", Bodies: []string{"v5"}, KeyHas: []string{"ensurePathExists"}}},
			Explanation: "Decided for the v5 body: R-TOKEN + R-TOKTAB (the names of the members that ensurePathExists looks up and creates are the reference tokens decoded exactly once with the RFC 6901 table; padding uses generated indices), R-NIL + R-TYPESTATE + R-RAW over ensurePathExists (no nil node, nil array container or nil raw message is dereferenced while walking and creating the path). R-BOUNDS over ensurePathExists (the look-ahead parts[pi+1] is in range). R-ENSURE (the option is read only in the add handler and the path walk runs only under it; containers and padding are created only on the `lookup of this token failed` edges, so existing parents are never overwritten; the number of padded nulls comes from a single index parse of the same iteration).",
			NotDecided:  "that afterwards the value is found at the path, the padding count, and the frame condition (value-level).",
			Trusted:     commonTrusted, Assumptions: commonAssumptions,
		},
		{
			ID:          "C15",
			Rules:       []RuleUse{use("R-ESCSET", "codec"), use("R-TABLES", "codec"), use("R-OPTS", "v5"), use("R-INDENT", "v5"), {Rule: "R-GATE", Bodies: []string{"v5"}, KeyHas: []string{"ApplyIndentWithOptions: accepting return"}}, {Rule: "R-COPYLIMIT", Bodies: []string{"v5"}, KeyHas: []string{"measured as spelled"}}, {Rule: "R-KEYS", Bodies: []string{"v5"}, KeyHas: []string{"emitter"}}, {Rule: "R-STALERAW", Bodies: []string{"v5"}}, {Rule: "R-DRIVER", Bodies: []string{"codec"}, KeyHas: []string{"Indent"}}, {Rule: "R-NUM", Bodies: []string{"v5"}, KeyHas: []string{"RedirectMarshalJSON"}}},
			Explanation: "Decided: R-ESCSET + R-TABLES (codec; exact byte sets by path enumeration: with the flag on, compact — which copies raw values into the output — rewrites exactly {<,>,&} as \\u00XX and E2 80 A8/A9 as \\u202X, and nothing with the flag off; whether a byte is rewritten depends on nothing but the flag parameter and the bytes; HTMLEscape does the same; the two string encoders backslash-escape exactly the control characters, quote and backslash, plus {<,>,&} iff escapeHTML; the tables safeSet/htmlSafeSet/hex have the required contents; MarshalEscaped hands its argument, Marshal the constant true, to the encoders and on to compact). For the v5 body: R-OPTS (every partialDoc that can reach the output carries the caller's options: all composite literals set opts; decoder-allocated documents get doc.opts before the node becomes eDoc, or the node is a scratch copy / has opts stored before it is published; the emitter passes opts.EscapeHTML — true only when opts is nil — to both of its encoder calls), R-INDENT (ApplyIndent hands Indent exactly the bytes Apply returns, produced by MarshalEscaped(document, options.EscapeHTML), with prefix \"\" and the caller's indent, and returns the buffer Indent wrote), R-COPYLIMIT(ii) (copies are re-encoded with the same encoder and flag as the output), R-KEYS emitter (name then obj[name], keys order), R-STALERAW (a passing test never re-parses or re-spells a document node: comparisons work on scratch copies).",
			NotDecided:  "that an independent parser reads the output back as the intended value; UTF-8 validity of outputs; byte identity of outputs with and without passing test operations beyond the no-re-parse mechanism.",
			Trusted:     commonTrusted, Assumptions: commonAssumptions,
		},
		{
			ID:          "C16",
			Rules:       []RuleUse{use("R-SCAN", "codec"), use("R-DRIVER", "codec"), use("R-GATE", "v5", "codec"), use("R-ROOTDISPATCH", "v5"), use("R-WS", "v5")},
			Explanation: "Decided: R-SCAN — the language of the embedded scanner is decided COMPLETELY: the transition relation of every state function is extracted from the current source by exact byte-set abstract interpretation (7 stack contexts each) and proved language-equivalent, by product exploration with synchronised stacks, to an RFC 8259 reference pushdown automaton written independently in the checker (itself cross-checked against a recursive-descent recogniser on all strings up to length 5/6 over 16 symbols); the nesting test is len <= 10000. R-DRIVER — Valid, checkValid, compact (Compact) and Indent feed every byte of the whole input to the scanner in order, stop on scanError and accept iff eof() does; Unmarshal/UnmarshalWithKeys return checkValid's error before decoding. R-GATE — every public v5 entry point consults json.Valid on each []byte parameter before parsing; the invalid edge returns an error / false; every return that can report success lies behind the gate (one known finding: the empty document is accepted by Apply before the gate). R-ROOTDISPATCH + R-WS — no entry point classifies its input by a fixed-offset byte of possibly padded text: root-kind predicates skip exactly the JSON whitespace set (computed byte sets) or trim it completely, so every well-formed text with leading/trailing whitespace is routed like the same text without it.",
			NotDecided:  "that the decoding pass agrees with the scanner on valid input (trusted codec contract); acceptance by the legacy package is the standard library's.",
			Trusted:     commonTrusted, Assumptions: commonAssumptions,
		},
		{
			ID:          "C17",
			Rules:       []RuleUse{use("R-SCAN", "codec"), use("R-DRIVER", "codec"), use("R-ESCSET", "codec"), use("R-TABLES", "codec"), use("R-POOL", "codec"), use("R-POOLINIT", "codec"), use("R-KEYORDER", "codec"), use("R-NUM", "codec"), {Rule: "R-EFFECT", Bodies: []string{"codec"}}, {Rule: "R-GLOBALS", Bodies: []string{"codec"}}, {Rule: "R-MAPORDER", Bodies: []string{"codec"}}},
			Explanation: "Decided for the embedded codec: R-SCAN + R-DRIVER (the syntax accepted by Valid/Compact/Indent/Unmarshal is exactly RFC 8259 — complete decision of the scanner automaton, see C16; the opcode the scanner reports for each byte equals the documented event, and compact drops exactly the bytes reported as scanSkipSpace or later while Indent skips exactly scanSkipSpace, so Compact and Indent change only insignificant whitespace plus the escaping substitutions of R-ESCSET), and for the fork-added machinery: R-POOL + R-POOLINIT (the pooled decodeState/encodeState/scanner are transparent: never used after Put, never aliased by a result, every field a recycled state can expose is rewritten first — data, off, savedError, opcode, useNumber, the scanner's step/err/endTop/parseState/bytes, the encoder's buffer and ptrLevel — with reviewed idioms for errorContext, disallowUnknownFields, lastKeys, ptrSeen), R-ESCSET + R-TABLES (Compact, HTMLEscape and both string encoders escape exactly the documented byte sets with the documented spelling; the HTML-escaping switch changes nothing but {<,>,&}, and in compact additionally U+2028/9), R-KEYORDER (the key list reported for an object is its member names in document order: one unconditional append per member, before the value, in a call-local list), R-NUM (numbers keep their literal through decode and encode), R-EFFECT + R-GLOBALS on the codec (no write into caller-visible byte slices; tables such as safeSet/htmlSafeSet/hex are immutable).",
			NotDecided:  "equivalence with the standard library over all Go values and types (reflection-driven, value-level); Decoder/Encoder stream behaviour; round-trip of strings.",
			Trusted:     commonTrusted, Assumptions: commonAssumptions,
		},
		{
			ID:          "C18",
			Rules:       []RuleUse{use("R-DISPATCH", "legacy"), use("R-TOKEN", "legacy"), use("R-TOKTAB", "legacy"), use("R-REPLACE", "legacy"), use("R-MOVE", "legacy"), use("R-COPYISO", "legacy"), {Rule: "R-NIL", Bodies: []string{"legacy"}, KeyHas: []string{"(Patch)", "(*partial", "findObject", "(*lazyNode)", "deepCopy", "newLazyNode", "(Operation)"}}, use("R-RAW", "legacy"), use("R-STALERAW", "legacy"), use("R-RETSHAPE", "legacy"), use("R-ERRCHAIN", "legacy"), {Rule: "R-ABSENT", Bodies: []string{"legacy"}, KeyHas: []string{"(*partialDoc)", ".equal"}}, use("R-ROOTDISPATCH", "legacy"), use("R-WS", "legacy"), use("R-SUCCESS", "legacy"), use("R-BOUNDS", "legacy"), use("R-NEGIDX", "legacy"), use("R-EQSHAPE", "legacy"), use("R-NULLSPELL", "legacy")},
			Explanation: "Decided on the legacy body (which no baseline test compiles): R-DISPATCH (a) (six kinds reach their handlers, unknown kind is an error), R-TOKEN + R-TOKTAB (reference tokens decoded exactly once, RFC 6901 table), R-REPLACE, R-MOVE, R-COPYISO, R-NIL + R-RAW + R-STALERAW (no nil-node or nil-raw dereference), R-RETSHAPE (no document with an error; first failure ends the loop), R-ERRCHAIN (a failed test yields ErrTestFailed and nothing else does; unreachable parents and absent members yield ErrMissing), R-ABSENT (remove and equal distinguish absent from null by comma-ok; get's v4 behaviour is a reviewed exception), R-ROOTDISPATCH + R-WS (the root kind is decided after skipping all JSON whitespace). R-SUCCESS (legacy handlers report success only after performing their operation). R-BOUNDS + R-NEGIDX on the legacy body (an out-of-range index is an error, never a panic; negative indices follow the SupportNegativeIndices package setting).",
			NotDecided:  "value-level RFC 6902 equivalence.",
			Trusted:     commonTrusted, Assumptions: commonAssumptions,
		},
		{
			ID:          "C19",
			Rules:       []RuleUse{use("R-MERGEWIRE", "legacy"), {Rule: "R-NIL", Bodies: []string{"legacy"}, KeyHas: []string{"doMergePatch", "merge", "prune", "Equal", ".equal", "createArrayMergePatch"}}, {Rule: "R-ABSENT", Bodies: []string{"legacy"}, KeyHas: []string{".equal", "mergeDocs"}}, {Rule: "R-MAPORDER", Bodies: []string{"legacy"}}, use("R-MERGESHAPE", "legacy"), use("R-NOPRUNE", "legacy"), use("R-ARRAYS", "legacy"), use("R-PATCHWINS", "legacy"), use("R-CMPSHAPE", "legacy"), use("R-EXH", "legacy"), {Rule: "R-PANIC", Bodies: []string{"legacy"}, KeyHas: []string{"getDiff", "matchesValue", "matchesArray"}}, use("R-EQSHAPE", "legacy"), {Rule: "R-ROOTDISPATCH", Bodies: []string{"legacy"}, KeyHas: []string{"untrimmed text", "Equal", "MergePatch", "doMergePatch", "CreateMergePatch"}}, {Rule: "R-NULLSPELL", Bodies: []string{"legacy"}, KeyHas: []string{".equal"}}},
			Explanation: "Decided on the legacy body: R-MERGEWIRE (mode flags and parameter order of MergePatch / MergeMergePatches), R-NIL over the merge walk and equal (no nil-node dereference), R-ABSENT (equal and mergeDocs tell an absent member from a null one with tested comma-ok lookups), R-MAPORDER (no order-sensitive effect under the map ranges of equal, getDiff, matchesValue). R-MERGESHAPE + R-NOPRUNE + R-ARRAYS + R-PATCHWINS + R-CMPSHAPE on the legacy body (same obligations as C02/C07/C03: flag pass-through, merge's return provenance, every non-null member stored, null members removed or kept by mode, new values pruned first in apply mode, arrays untouched, non-object patch wins, CreateMergePatch's rejection clause and both diff walks). R-EXH (legacy: the standard library's dynamic types are all handled).",
			NotDecided:  "the merge, diff and composition laws themselves (value-level).",
			Trusted:     commonTrusted, Assumptions: commonAssumptions,
		},
		{
			ID:          "C20",
			Rules:       []RuleUse{use("R-CMD", "v5/cmd", "legacy/cmd")},
			Explanation: "Decided for both commands (v5/cmd/json-patch and cmd/json-patch): R-CMD (i) every error-yielding call in the command package (flag parsing, reading a patch file, decoding it, reading stdin, applying a patch) has its error tested at once and the non-nil edge reaches log.Fatal* (exit status 1, message on standard error) before any write to standard output; (ii) the only write to standard output has no fallible call reachable after it — no partial output; (iii) patches[i] is the patch decoded from the i-th -p value, the Apply loop ranges over that slice in order, its document argument is the loop-carried value phi(stdin bytes, previous result), and that value is the sole operand of the constant \"%s\" print; (iv) the file flag rejects missing paths and directories; (v) exit calls occur only on error edges and the std logger is not redirected; (vi) the two commands are identical up to the library import path.",
			NotDecided:  "behaviour of go-flags itself and of log.Fatalf's exit status (trusted); that the library result is what the property's other clauses say (C01…).",
			Trusted:     commonTrusted, Assumptions: commonAssumptions,
		},
	}
}
