package main

import "strings"

// RuleUse selects the obligations of one rule that bear on a property.
type RuleUse struct {
	Rule   string
	Bodies []string // empty = every body
	// KeyHas, when non-empty, keeps only obligations whose construct key
	// contains one of the substrings (scoping a census rule to the functions
	// the property is anchored in).
	KeyHas []string
}

func (u RuleUse) matches(o *Obl) bool {
	if len(u.Bodies) > 0 {
		ok := false
		for _, b := range u.Bodies {
			if b == o.Body {
				ok = true
			}
		}
		if !ok {
			return false
		}
	}
	if len(u.KeyHas) > 0 {
		if o.Key == "instance-count" || strings.HasPrefix(o.Key, "anchor") {
			return true
		}
		for _, s := range u.KeyHas {
			if strings.Contains(o.Key, s) {
				return true
			}
		}
		return false
	}
	return true
}

type PropSpec struct {
	ID          string
	Rules       []RuleUse
	Explanation string
	NotDecided  string
	Trusted     []string
	Assumptions []string
}

var propSpecs []*PropSpec

func propByID(id string) *PropSpec {
	for _, p := range propSpecs {
		if p.ID == id {
			return p
		}
	}
	return nil
}

func use(rule string, bodies ...string) RuleUse { return RuleUse{Rule: rule, Bodies: bodies} }

var commonTrusted = []string{
	"go/packages + go/types + go/ssa of golang.org/x/tools v0.29.0 (loading, type checking, SSA construction)",
	"the jpverif analyser itself (rules in /verif/analyzer), exercised by its positive/negative controls and the seeded variants under /verif/seeded",
	"the Go standard library behaves as documented (strings.Replacer, strconv.Atoi, sync.Pool, bytes, fmt.Errorf %w)",
}

var commonAssumptions = []string{
	"static analysis only: no code of /repo is executed; what is decided is the shape of the mechanisms on every path of the current source, not the run-time values they compute",
	"inherited encoding/json decoder/encoder internals (reflection-driven) honour their contract on well-formed input",
	"integer overflow of slice lengths is not modelled",
}

func init() {
	propSpecs = []*PropSpec{
		{
			ID: "C01",
			Rules: []RuleUse{use("R-DISPATCH", "v5"), use("R-REPLACE", "v5"), use("R-MOVE", "v5"), use("R-COPYISO", "v5")},
			Explanation: "Decided for the v5 body: R-DISPATCH (all six RFC 6902 operations reach the handler with that operation's container effects; validator table = RFC 6902 §4; verdict cannot be bypassed), R-REPLACE (replace requires the target to exist), R-MOVE (move = get, remove of the same container/key, destination resolved after the removal, add of that same value), R-COPYISO (copy inserts a fresh deep duplicate, never an alias).",
			NotDecided:  "that the resulting values equal the RFC 6902 result (value-level: needs the contents of the lazily parsed byte slices); the null-equivalence clause (add null then test null); index semantics beyond range safety.",
			Trusted:     commonTrusted, Assumptions: commonAssumptions,
		},
		{
			ID: "C08",
			Rules: []RuleUse{use("R-RETSHAPE", "v5")},
			Explanation: "Decided for the v5 body: R-RETSHAPE (every return of the Apply family and of the functions whose result tuples they pass through has a nil document or a nil error; in the operation loop every handler's error is tested before the back edge and the non-nil edge returns (nil, err), so no later operation runs after the first failure).",
			NotDecided:  "which sentinel an error carries (R-ERRCHAIN, not built yet); that a patch whose operations all succeed never errors (final marshal).",
			Trusted:     commonTrusted, Assumptions: commonAssumptions,
		},
		{
			ID: "C11",
			Rules: []RuleUse{use("R-GATE", "v5", "codec"), use("R-DISPATCH", "v5"), use("R-RETSHAPE", "v5")},
			Explanation: "Decided for the v5 body: R-GATE (malformed JSON is rejected before the validity-assuming parse), R-DISPATCH (b) (the accept/reject decision table kind × required member, extracted from validateOperation by partial evaluation per kind, equals RFC 6902 §4 in the library's dialect; unknown kinds are rejected; Operation.value() is nil only when the member is absent), R-DISPATCH (d) (every element is validated and a rejection reaches a (nil, error) return of DecodePatch), R-RETSHAPE (nil patch with every error).",
			NotDecided:  "type errors inside members (a numeric path) are rejected by the codec's unmarshal-into-string, which is trusted; accessor results equal the decoded members (value-level).",
			Trusted:     commonTrusted, Assumptions: commonAssumptions,
		},
	}
}
