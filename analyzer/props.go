package main

import "strings"

// RuleUse selects the obligations of one rule that bear on a property.
type RuleUse struct {
	Rule   string
	Bodies []string // empty = every body
	// KeyHas, when non-empty, keeps only obligations whose construct key
	// contains one of the substrings (scoping a census rule to the functions
	// the property is anchored in).
	KeyHas []string
}

func (u RuleUse) matches(o *Obl) bool {
	if len(u.Bodies) > 0 {
		ok := false
		for _, b := range u.Bodies {
			if b == o.Body {
				ok = true
			}
		}
		if !ok {
			return false
		}
	}
	if len(u.KeyHas) > 0 {
		if o.Key == "instance-count" || strings.HasPrefix(o.Key, "anchor") {
			return true
		}
		for _, s := range u.KeyHas {
			if strings.Contains(o.Key, s) {
				return true
			}
		}
		return false
	}
	return true
}

type PropSpec struct {
	ID          string
	Rules       []RuleUse
	Explanation string
	NotDecided  string
	Trusted     []string
	Assumptions []string
}

var propSpecs []*PropSpec

func propByID(id string) *PropSpec {
	for _, p := range propSpecs {
		if p.ID == id {
			return p
		}
	}
	return nil
}

func use(rule string, bodies ...string) RuleUse { return RuleUse{Rule: rule, Bodies: bodies} }

var commonTrusted = []string{
	"go/packages + go/types + go/ssa of golang.org/x/tools v0.29.0 (loading, type checking, SSA construction)",
	"the jpverif analyser itself (rules in /verif/analyzer), exercised by its positive/negative controls and the seeded variants under /verif/seeded",
	"the Go standard library behaves as documented (strings.Replacer, strconv.Atoi, sync.Pool, bytes, fmt.Errorf %w)",
}

var commonAssumptions = []string{
	"static analysis only: no code of /repo is executed; what is decided is the shape of the mechanisms on every path of the current source, not the run-time values they compute",
	"inherited encoding/json decoder/encoder internals (reflection-driven) honour their contract on well-formed input",
	"integer overflow of slice lengths is not modelled",
}

func init() {
	propSpecs = []*PropSpec{
		{
			ID:          "C01",
			Rules:       []RuleUse{use("R-DISPATCH", "v5"), use("R-REPLACE", "v5"), use("R-MOVE", "v5"), use("R-COPYISO", "v5"), use("R-TYPESTATE", "v5")},
			Explanation: "Decided for the v5 body: R-DISPATCH (all six RFC 6902 operations reach the handler with that operation's container effects; validator table = RFC 6902 §4; verdict cannot be bypassed), R-REPLACE (replace requires the target to exist), R-MOVE (move = get, remove of the same container/key, destination resolved after the removal, add of that same value), R-COPYISO (copy inserts a fresh deep duplicate, never an alias), R-TYPESTATE (a null root is held as a nil container that every later operation rejects instead of dereferencing).",
			NotDecided:  "that the resulting values equal the RFC 6902 result (value-level: needs the contents of the lazily parsed byte slices); the null-equivalence clause (add null then test null); index semantics beyond range safety.",
			Trusted:     commonTrusted, Assumptions: commonAssumptions,
		},
		{
			ID:          "C02",
			Rules:       []RuleUse{{Rule: "R-GATE", Bodies: []string{"v5", "codec"}, KeyHas: []string{"MergePatch", "sink "}}, use("R-MERGEWIRE", "v5"), {Rule: "R-NIL", Bodies: []string{"v5"}, KeyHas: []string{"doMergePatch", "merge", "prune"}}},
			Explanation: "Decided for the v5 body: R-GATE (both inputs of MergePatch pass json.Valid before the validity-assuming parse), R-MERGEWIRE (MergePatch runs doMergePatch in apply mode with its parameters in order), R-NIL over doMergePatch/merge/mergeDocs/prune* (the nil nodes that stand for null members are never dereferenced).",
			NotDecided:  "that the recursive member-by-member result equals RFC 7396 MergePatch(doc, patch) (value-level); the 'non-object document is treated as {}' clause.",
			Trusted:     commonTrusted, Assumptions: commonAssumptions,
		},
		{
			ID:          "C03",
			Rules:       []RuleUse{{Rule: "R-GATE", Bodies: []string{"v5", "codec"}, KeyHas: []string{"CreateMergePatch", "sink "}}, {Rule: "R-NIL", Bodies: []string{"v5"}, KeyHas: []string{"createArrayMergePatch", "createObjectMergePatch"}}},
			Explanation: "Decided for the v5 body: R-GATE (malformed input to CreateMergePatch is rejected before the validity-assuming parse), R-NIL over the create*MergePatch functions.",
			NotDecided:  "the round-trip law MergePatch(A, P) = B and minimality (value-level); deletion-as-null completeness.",
			Trusted:     commonTrusted, Assumptions: commonAssumptions,
		},
		{
			ID:          "C04",
			Rules:       []RuleUse{use("R-GATE", "v5", "codec"), use("R-NIL"), use("R-TYPESTATE"), use("R-RAW"), use("R-STALERAW"), use("R-DISPATCH"), use("R-REPLACE")},
			Explanation: "Decided for both library bodies, as a census of potential panic sites: R-GATE (every exported []byte parameter passes json.Valid before any validity-assuming parse, which panics on ill-formed text), R-NIL (every dereference of a node/container/raw message that may be the nil spelling of null is guarded on every path), R-TYPESTATE (which==eDoc implies a non-nil doc; a nil array container is confined to the root slot and scratch nodes and every consumer tests for it), R-RAW (raw is dereferenced only where it cannot be nil), R-STALERAW (raw bytes are re-read as content only while the node is unparsed), R-DISPATCH (handlers dereference only the members the validator requires for their kind), R-REPLACE (set on an array only after a successful get of the same slot, which is what bounds its index).",
			NotDecided:  "termination and stack exhaustion; panics inside the inherited decoder/encoder and reflect on well-formed input (trusted codec contract); run-time out-of-memory.",
			Trusted:     commonTrusted, Assumptions: commonAssumptions,
		},
		{
			ID:          "C06",
			Rules:       []RuleUse{{Rule: "R-GATE", Bodies: []string{"v5", "codec"}, KeyHas: []string{"Equal", "sink "}}, {Rule: "R-NIL", Bodies: []string{"v5"}, KeyHas: []string{"Equal", ".equal", "tryDoc", "tryAry", "compact", "isNull", "nextByte"}}, {Rule: "R-TYPESTATE", Bodies: []string{"v5"}, KeyHas: []string{".equal", "tryDoc", "tryAry"}}, {Rule: "R-RAW", Bodies: []string{"v5"}, KeyHas: []string{"compact", "tryDoc", "tryAry", "nextByte", "newLazyNode"}}, {Rule: "R-STALERAW", Bodies: []string{"v5"}, KeyHas: []string{".equal", "isNull", "compact", "tryDoc", "tryAry"}}},
			Explanation: "Decided for the v5 body: R-GATE on both parameters of Equal with the invalid edge returning false, R-NIL + R-TYPESTATE + R-RAW + R-STALERAW over Equal, (*lazyNode).equal, tryDoc, tryAry, compact, isNull (Equal is total: null roots, nulls inside arrays and as members, an array against null never dereference a nil node; comparison never re-reads stale bytes of a parsed node).",
			NotDecided:  "reflexivity/symmetry/transitivity and agreement with an independent deep comparison (value-level); string comparison after unescaping.",
			Trusted:     commonTrusted, Assumptions: commonAssumptions,
		},
		{
			ID:          "C07",
			Rules:       []RuleUse{use("R-MERGEWIRE", "v5"), {Rule: "R-GATE", Bodies: []string{"v5", "codec"}, KeyHas: []string{"MergeMergePatches", "sink "}}},
			Explanation: "Decided for the v5 body: R-MERGEWIRE (MergeMergePatches runs doMergePatch in combine mode, constant true, with its parameters in order), R-GATE (both patches pass json.Valid).",
			NotDecided:  "the composition law over all (D, P1, P2) (value-level).",
			Trusted:     commonTrusted, Assumptions: commonAssumptions,
		},
		{
			ID:          "C08",
			Rules:       []RuleUse{use("R-RETSHAPE", "v5")},
			Explanation: "Decided for the v5 body: R-RETSHAPE (every return of the Apply family and of the functions whose result tuples they pass through has a nil document or a nil error; in the operation loop every handler's error is tested before the back edge and the non-nil edge returns (nil, err), so no later operation runs after the first failure).",
			NotDecided:  "that a patch whose operations all succeed never errors (final marshal).",
			Trusted:     commonTrusted, Assumptions: commonAssumptions,
		},
		{
			ID:          "C11",
			Rules:       []RuleUse{{Rule: "R-GATE", Bodies: []string{"v5", "codec"}, KeyHas: []string{"DecodePatch", "sink "}}, use("R-DISPATCH", "v5"), {Rule: "R-RETSHAPE", Bodies: []string{"v5"}, KeyHas: []string{"DecodePatch"}}, {Rule: "R-NIL", Bodies: []string{"v5"}, KeyHas: []string{"(Operation)"}}},
			Explanation: "Decided for the v5 body: R-GATE (malformed JSON is rejected before the validity-assuming parse), R-DISPATCH (b) (the accept/reject decision table kind × required member, extracted from validateOperation by partial evaluation per kind, equals RFC 6902 §4 in the library's dialect; unknown kinds are rejected; Operation.value() is nil only when the member is absent), R-DISPATCH (d) (every element is validated and a rejection reaches a (nil, error) return of DecodePatch), R-RETSHAPE (nil patch with every error), R-NIL over the Operation accessors.",
			NotDecided:  "type errors inside members (a numeric path) are rejected by the codec's unmarshal-into-string, which is trusted; accessor results equal the decoded members (value-level).",
			Trusted:     commonTrusted, Assumptions: commonAssumptions,
		},
		{
			ID:          "C16",
			Rules:       []RuleUse{use("R-GATE", "v5", "codec")},
			Explanation: "Decided: R-GATE (every public v5 entry point consults json.Valid on each []byte parameter before parsing; the invalid edge returns an error / false).",
			NotDecided:  "that the decoding pass agrees with the scanner on valid input (trusted codec contract); acceptance by the legacy package is the standard library's.",
			Trusted:     commonTrusted, Assumptions: commonAssumptions,
		},
		{
			ID:          "C18",
			Rules:       []RuleUse{use("R-DISPATCH", "legacy"), use("R-REPLACE", "legacy"), use("R-MOVE", "legacy"), use("R-COPYISO", "legacy"), {Rule: "R-NIL", Bodies: []string{"legacy"}, KeyHas: []string{"(Patch)", "(*partial", "findObject", "(*lazyNode)", "deepCopy", "newLazyNode", "(Operation)"}}, use("R-RAW", "legacy"), use("R-STALERAW", "legacy"), use("R-RETSHAPE", "legacy")},
			Explanation: "Decided on the legacy body (which no baseline test compiles): R-DISPATCH (a) (six kinds reach their handlers, unknown kind is an error), R-REPLACE, R-MOVE, R-COPYISO, R-NIL + R-RAW + R-STALERAW (no nil-node or nil-raw dereference), R-RETSHAPE (no document with an error; first failure ends the loop).",
			NotDecided:  "value-level RFC 6902 equivalence.",
			Trusted:     commonTrusted, Assumptions: commonAssumptions,
		},
		{
			ID:          "C19",
			Rules:       []RuleUse{use("R-MERGEWIRE", "legacy"), {Rule: "R-NIL", Bodies: []string{"legacy"}, KeyHas: []string{"doMergePatch", "merge", "prune", "Equal", ".equal", "createArrayMergePatch"}}},
			Explanation: "Decided on the legacy body: R-MERGEWIRE (mode flags and parameter order of MergePatch / MergeMergePatches), R-NIL over the merge walk and equal (no nil-node dereference).",
			NotDecided:  "the merge, diff and composition laws themselves (value-level).",
			Trusted:     commonTrusted, Assumptions: commonAssumptions,
		},
	}
}
