package main

// R-STDSIB: the codec is a fork of the standard library's encoding/json, and C17 names the
// standard library as the specification of everything the two share. This rule cross-checks
// the two siblings function by function on the SSA form of both (the legacy package imports
// encoding/json, so the reference is the one of the toolchain the analysis runs with).
//
// What is compared is not text. Each function is reduced to the multiset of the operations it
// performs: calls (by callee; helpers that have no sibling on the other side are expanded in
// place, so extracting or inlining a helper changes nothing), comparisons with their constant
// operand (== and != are one operation, so are < and >, so are <= and >=: flipping a branch or
// swapping operands changes nothing), arithmetic, conversions, field selections, indexing,
// type assertions, allocations of slices and maps, constants stored, returned or passed, and
// the number of loops. Names of locals, the order of statements, if/else against switch,
// early returns against nesting, De Morgan and temporaries do not appear in it.
//
//   (a) a function that performed exactly the reference's operations when the fork was
//       reviewed (stdsibSame) still does;
//   (b) a function that deviates from its sibling for a reviewed reason (the key list, the
//       validity-assuming entry points, the escaping option, drift between Go releases) has
//       exactly the reviewed difference to it (stdsibDeviations).
//
// NOT ARMED. Measured on the stored material (DESIGN.md 11.17): it reports 11 of the 12 seeded
// changes inside inherited code that no other rule sees, and 34 of the 55 behaviour-preserving
// refactorings of the codec that the campaigns delivered. A rule that fires on six of ten
// correct rewrites is a change detector, not a decision of the property, so a difference is
// recorded as information in C17's evidence for the reviewer of a codec change and never
// raises a violation.
//
// This looks at "the inherited logic still performs the inherited operations": necessary for
// agreeing with the reference operation for operation, which is what an inherited function
// does until somebody changes it. It is blind to a change that keeps the operations and
// rearranges them (two statements exchanged, the wrong one of two variables of one type), and
// it reports a rewrite that reaches the same result by other operations (strings.ContainsRune
// over a list replaced by a switch) as a deviation to review. When the reference itself is not
// the reviewed release (its multiset hashes differently) that function is skipped and said so.

import (
	"crypto/sha256"
	"fmt"
	"go/token"
	"os"
	"sort"
	"strings"

	"go/constant"
	"go/types"

	"golang.org/x/tools/go/packages"
	"golang.org/x/tools/go/ssa"
	"golang.org/x/tools/go/ssa/ssautil"
)

func init() {
	register(&Rule{ID: "R-STDSIB", Doc: "sibling cross-check of the forked codec against the standard library's encoding/json (the specification C17 names): every function that was the reference's function when the fork was reviewed still is, up to the names of locals; every function that deviates for a reviewed reason has no deviation outside the reviewed list",
		Run: ruleStdSib})
}

func sibHash(s string) string {
	h := sha256.Sum256([]byte(s))
	return fmt.Sprintf("%x", h[:8])
}

type sibDeviation struct {
	RefHash  string
	ForkOnly []string
	StdOnly  []string
	Reason   string
}

// ---- the operations a function performs ------------------------------------------------

type sibSide struct {
	pkg     *ssa.Package
	fns     map[string]*ssa.Function // top-level source functions by key
	sibling map[string]bool          // keys present on both sides
}

func sibKey(f *ssa.Function) string { return fname(f) }

// sibType prints a type with the codec and encoding/json both spelled "json".
func sibType(t types.Type) string {
	return types.TypeString(t, func(p *types.Package) string {
		if p == nil {
			return ""
		}
		if p.Path() == "encoding/json" || strings.HasSuffix(p.Path(), "/internal/json") {
			return "json"
		}
		return p.Path()
	})
}

func sibConst(c *ssa.Const) string {
	if c.Value == nil {
		return "nil"
	}
	switch c.Value.Kind() {
	case constant.String:
		return fmt.Sprintf("%q", constant.StringVal(c.Value))
	default:
		return c.Value.ExactString()
	}
}

func sibOperand(v ssa.Value) string {
	if c, ok := v.(*ssa.Const); ok {
		return sibConst(c)
	}
	return sibType(v.Type())
}

// sibAtoms adds the operations of fn to out; calls of functions of the same package that have
// no sibling on the other side are expanded in place.
func (sd *sibSide) sibAtoms(fn *ssa.Function, out map[string]int, stack map[*ssa.Function]bool) {
	if fn == nil || len(fn.Blocks) == 0 || stack[fn] || len(stack) > 8 {
		return
	}
	stack[fn] = true
	defer delete(stack, fn)
	loops := 0
	for _, bb := range fn.Blocks {
		for _, sc := range bb.Succs {
			if sc.Dominates(bb) {
				loops++
			}
		}
		for _, ins := range bb.Instrs {
			switch x := ins.(type) {
			case ssa.CallInstruction:
				cc := x.Common()
				name := ""
				switch {
				case cc.IsInvoke():
					name = "invoke " + cc.Method.Name()
				default:
					switch cv := cc.Value.(type) {
					case *ssa.Builtin:
						name = "builtin " + cv.Name()
					case *ssa.Function:
						if cv.Pkg == sd.pkg && cv.Parent() == nil && !sd.sibling[sibKey(cv)] && len(cv.Blocks) > 0 {
							sd.sibAtoms(cv, out, stack)
							continue
						}
						if cv.Pkg == sd.pkg || cv.Pkg == nil {
							name = "call json." + strings.TrimPrefix(cv.RelString(sd.pkg.Pkg), "json.")
							if cv.Pkg == nil {
								name = "call " + cv.String()
							}
						} else {
							name = "call " + cv.String()
						}
					case *ssa.MakeClosure:
						if f, ok := cv.Fn.(*ssa.Function); ok {
							sd.sibAtoms(f, out, stack)
						}
						continue
					default:
						name = "call through a value of " + sibType(cc.Value.Type())
					}
				}
				switch ins.(type) {
				case *ssa.Go:
					name = "go " + name
				case *ssa.Defer:
					name = "defer " + name
				}
				var ks []string
				for _, a := range cc.Args {
					if c, ok := a.(*ssa.Const); ok {
						ks = append(ks, sibConst(c))
					}
				}
				if len(ks) > 0 {
					name += " with " + strings.Join(ks, ", ")
				}
				out[name]++
			case *ssa.MakeClosure:
				if f, ok := x.Fn.(*ssa.Function); ok {
					sd.sibAtoms(f, out, stack)
				}
			case *ssa.BinOp:
				op := x.Op.String()
				a, b := sibOperand(x.X), sibOperand(x.Y)
				switch x.Op {
				case token.EQL, token.NEQ:
					op = "==/!="
				case token.LSS, token.GTR:
					op = "</>"
				case token.LEQ, token.GEQ:
					op = "<=/>="
				}
				switch x.Op {
				case token.EQL, token.NEQ, token.LSS, token.GTR, token.LEQ, token.GEQ, token.ADD, token.MUL, token.AND, token.OR, token.XOR:
					if a > b {
						a, b = b, a
					}
				}
				out["op "+a+" "+op+" "+b]++
			case *ssa.UnOp:
				switch x.Op {
				case token.NOT, token.MUL:
				default:
					out["op "+x.Op.String()+sibType(x.X.Type())]++
				}
			case *ssa.FieldAddr:
				st := derefPtr(x.X.Type())
				if u, ok := st.Underlying().(*types.Struct); ok {
					out["field "+sibType(st)+"."+u.Field(x.Field).Name()]++
				}
			case *ssa.Field:
				if u, ok := x.X.Type().Underlying().(*types.Struct); ok {
					out["field "+sibType(x.X.Type())+"."+u.Field(x.Field).Name()]++
				}
			case *ssa.IndexAddr:
				out["index "+sibType(x.X.Type())]++
			case *ssa.Index:
				out["index "+sibType(x.X.Type())]++
			case *ssa.Lookup:
				out["lookup "+sibType(x.X.Type())]++
			case *ssa.Slice:
				out["slice "+sibType(x.X.Type())]++
			case *ssa.MakeSlice:
				out["make "+sibType(x.Type())]++
			case *ssa.MakeMap:
				out["make "+sibType(x.Type())]++
			case *ssa.MakeChan:
				out["make "+sibType(x.Type())]++
			case *ssa.MakeInterface:
				out["to interface "+sibType(x.X.Type())]++
			case *ssa.Convert:
				out["convert "+sibType(x.X.Type())+" to "+sibType(x.Type())]++
			case *ssa.TypeAssert:
				out["assert "+sibType(x.AssertedType)]++
			case *ssa.Range:
				out["range "+sibType(x.X.Type())]++
			case *ssa.MapUpdate:
				out["map update "+sibType(x.Map.Type())]++
			case *ssa.Send:
				out["send"]++
			case *ssa.Select:
				out["select"]++
			case *ssa.Panic:
				out["panic "+sibOperand(x.X)]++
			case *ssa.Store:
				if c, ok := x.Val.(*ssa.Const); ok {
					out["store "+sibConst(c)+" into "+sibType(derefPtr(x.Addr.Type()))]++
				}
			case *ssa.Return:
				for _, r := range x.Results {
					if c, ok := r.(*ssa.Const); ok {
						out["return "+sibConst(c)]++
					}
				}
			case *ssa.Phi:
				for _, e := range x.Edges {
					if c, ok := e.(*ssa.Const); ok {
						out["value "+sibConst(c)+" of "+sibType(x.Type())]++
					}
				}
			}
		}
	}
	if loops > 0 {
		out["loop"] += loops
	}
}

func sibList(m map[string]int) []string {
	var out []string
	for k, n := range m {
		for i := 0; i < n; i++ {
			out = append(out, k)
		}
	}
	sort.Strings(out)
	return out
}

func sibSideOf(prog *ssa.Program, pkg *ssa.Package) *sibSide {
	sd := &sibSide{pkg: pkg, fns: map[string]*ssa.Function{}, sibling: map[string]bool{}}
	for f := range ssautil.AllFunctions(prog) {
		if f.Pkg == pkg && f.Parent() == nil && f.Synthetic == "" && f.Name() != "init" && len(f.Blocks) > 0 {
			if f.Pos().IsValid() && strings.HasSuffix(prog.Fset.Position(f.Pos()).Filename, "_test.go") {
				continue
			}
			sd.fns[sibKey(f)] = f
		}
	}
	return sd
}

// sibReference builds the SSA form of the standard library's encoding/json from the syntax
// go/packages loaded for it (the bodies' own programs hold dependencies without bodies).
func (c *Ctx) sibReference() (*ssa.Program, *ssa.Package, string) {
	for _, b := range c.bodies() {
		var found *packages.Package
		packages.Visit(b.Pkgs, nil, func(p *packages.Package) {
			if p.PkgPath == "encoding/json" && len(p.Syntax) > 0 && p.TypesInfo != nil {
				found = p
			}
		})
		if found == nil {
			continue
		}
		prog, pkgs := ssautil.Packages([]*packages.Package{found}, ssa.BuilderMode(0))
		if len(pkgs) == 1 && pkgs[0] != nil {
			prog.Build()
			return prog, pkgs[0], "encoding/json as loaded with the " + b.Name + " body"
		}
	}
	return nil, nil, ""
}

func ruleStdSib(c *Ctx) {
	b := c.V5
	if b == nil || b.Codec == nil {
		return
	}
	l := c.L
	rprog, rpkg, how := c.sibReference()
	if rpkg == nil {
		l.add("R-STDSIB", "codec", "anchor: the standard library's encoding/json", "", Undecided, "no loaded body imports encoding/json with its syntax: the reference is not available", false)
		return
	}
	fork := sibSideOf(b.Prog, b.Codec)
	std := sibSideOf(rprog, rpkg)
	for k := range fork.fns {
		if std.fns[k] != nil {
			fork.sibling[k] = true
			std.sibling[k] = true
		}
	}
	atoms := func(sd *sibSide, k string) []string {
		m := map[string]int{}
		sd.sibAtoms(sd.fns[k], m, map[*ssa.Function]bool{})
		return sibList(m)
	}
	if gen := os.Getenv("JPVERIF_STDSIB_GEN"); gen != "" {
		sibGenerate(gen, fork, std, atoms)
	}
	skipped := 0
	var keys []string
	for k := range stdsibSame {
		keys = append(keys, k)
	}
	sort.Strings(keys)
	for _, k := range keys {
		key := k + ": performs the operations of encoding/json's " + k
		f, s := fork.fns[k], std.fns[k]
		if s == nil {
			skipped++
			l.add("R-STDSIB", "codec", key, "", Info, "the reference in this toolchain has no such function ("+how+"); not compared", false)
			continue
		}
		sa := atoms(std, k)
		switch {
		case sibHash(strings.Join(sa, "\n")) != stdsibSame[k]:
			skipped++
			l.add("R-STDSIB", "codec", key, "", Info, "the reference in this toolchain is not the reviewed one for this function ("+how+"); not compared", false)
		case f == nil:
			// a function that is gone computes nothing; its callers are in this table, too,
			// and then differ
			l.add("R-STDSIB", "codec", key, "", Info, "no longer present in the fork", false)
		default:
			fa := atoms(fork, k)
			fo, so := sibMinus(fa, sa), sibMinus(sa, fa)
			if len(fo) == 0 && len(so) == 0 {
				l.add("R-STDSIB", "codec", key, b.rel(f.Pos()), Info, fmt.Sprintf("cross-reference: %d operation(s), the same as the reference's", len(fa)), false)
				continue
			}
			l.add("R-STDSIB", "codec", key, b.rel(f.Pos()), Info, "CROSS-REFERENCE, not armed — inherited function changed: the fork performs "+sibShow(fo)+" where encoding/json performs "+sibShow(so)+" — on what the two share the codec is to give the standard library's results, and this function did what the standard library's does", true)
		}
	}
	keys = keys[:0]
	for k := range stdsibDeviations {
		keys = append(keys, k)
	}
	sort.Strings(keys)
	for _, k := range keys {
		dv := stdsibDeviations[k]
		key := k + ": deviates from encoding/json's " + k + " only where reviewed"
		f, s := fork.fns[k], std.fns[k]
		if s == nil {
			skipped++
			l.add("R-STDSIB", "codec", key, "", Info, "the reference in this toolchain has no such function ("+how+"); not compared", false)
			continue
		}
		sa := atoms(std, k)
		switch {
		case sibHash(strings.Join(sa, "\n")) != dv.RefHash:
			skipped++
			l.add("R-STDSIB", "codec", key, "", Info, "the reference in this toolchain is not the reviewed one for this function ("+how+"); not compared", false)
		case f == nil:
			l.add("R-STDSIB", "codec", key, "", Info, "no longer present in the fork", false)
		default:
			fa := atoms(fork, k)
			fo, so := sibMinus(fa, sa), sibMinus(sa, fa)
			newF := sibMinus(fo, dv.ForkOnly)
			newS := sibMinus(so, dv.StdOnly)
			goneF := sibMinus(dv.ForkOnly, fo)
			goneS := sibMinus(dv.StdOnly, so)
			if len(newF) == 0 && len(newS) == 0 && len(goneF) == 0 && len(goneS) == 0 {
				l.add("R-STDSIB", "codec", key, b.rel(f.Pos()), Info, fmt.Sprintf("cross-reference: %d operation(s) of the fork and %d of the reference differ, exactly the reviewed list (%s)", len(fo), len(so), dv.Reason), false)
				continue
			}
			msg := "a deviation that was not there when the fork's deviations were reviewed (" + dv.Reason + "):"
			if len(newF) > 0 {
				msg += " the fork now performs " + sibShow(newF) + ";"
			}
			if len(newS) > 0 {
				msg += " the fork no longer performs the reference's " + sibShow(newS) + ";"
			}
			if len(goneF) > 0 {
				msg += " the fork no longer performs its own " + sibShow(goneF) + ";"
			}
			if len(goneS) > 0 {
				msg += " the fork now also performs the reference's " + sibShow(goneS)
			}
			l.add("R-STDSIB", "codec", key, b.rel(f.Pos()), Info, "CROSS-REFERENCE, not armed — "+msg, true)
		}
	}
	if skipped > 0 {
		l.add("R-STDSIB", "codec", "reference release", "", Info, fmt.Sprintf("%d function(s) not compared: this toolchain's encoding/json is not %s, the release the tables were reviewed against", skipped, stdsibRelease), false)
	}
}

// sibMinus: the lines of a (as a multiset) that b does not account for.
func sibMinus(a, b []string) []string {
	cnt := map[string]int{}
	for _, x := range b {
		cnt[x]++
	}
	var out []string
	for _, x := range a {
		if cnt[x] > 0 {
			cnt[x]--
			continue
		}
		out = append(out, x)
	}
	return out
}

func sibShow(ls []string) string {
	if len(ls) == 0 {
		return "nothing"
	}
	n := len(ls)
	if n > 3 {
		ls = ls[:3]
	}
	s := "`" + strings.Join(ls, "` / `") + "`"
	if n > 3 {
		s += fmt.Sprintf(" (and %d more line(s))", n-3)
	}
	return s
}

// sibGenerate writes the reviewed tables from today's tree (run once, by hand, after reading
// every deviation; the reasons are filled in by the reviewer and survive regeneration).
func sibGenerate(path string, fork, std *sibSide, atoms func(*sibSide, string) []string) {
	var b strings.Builder
	b.WriteString("package main\n\n// Tables of R-STDSIB, generated from the pinned tree against the reference named below and\n// then reviewed by hand (see DESIGN.md 11.17). Regenerate with JPVERIF_STDSIB_GEN=<file>.\n\n")
	fmt.Fprintf(&b, "const stdsibRelease = %q\n\n", os.Getenv("JPVERIF_STDSIB_RELEASE"))
	var same, dev []string
	fa, sa := map[string][]string{}, map[string][]string{}
	for k := range fork.fns {
		if std.fns[k] == nil {
			continue
		}
		fa[k], sa[k] = atoms(fork, k), atoms(std, k)
		if len(sibMinus(fa[k], sa[k])) == 0 && len(sibMinus(sa[k], fa[k])) == 0 {
			same = append(same, k)
		} else {
			dev = append(dev, k)
		}
	}
	sort.Strings(same)
	sort.Strings(dev)
	b.WriteString("// stdsibSame: function -> hash of the reference's operations it performed exactly.\nvar stdsibSame = map[string]string{\n")
	for _, k := range same {
		fmt.Fprintf(&b, "\t%q: %q,\n", k, sibHash(strings.Join(sa[k], "\n")))
	}
	b.WriteString("}\n\n// stdsibDeviations: the reviewed differences of the functions that deviate from their sibling.\nvar stdsibDeviations = map[string]sibDeviation{\n")
	for _, k := range dev {
		reason := "REVIEW"
		if old, ok := stdsibDeviations[k]; ok {
			reason = old.Reason
		}
		fmt.Fprintf(&b, "\t%q: {\n\t\tRefHash: %q,\n\t\tReason:  %q,\n\t\tForkOnly: []string{\n", k, sibHash(strings.Join(sa[k], "\n")), reason)
		for _, x := range sibMinus(fa[k], sa[k]) {
			fmt.Fprintf(&b, "\t\t\t%q,\n", x)
		}
		b.WriteString("\t\t},\n\t\tStdOnly: []string{\n")
		for _, x := range sibMinus(sa[k], fa[k]) {
			fmt.Fprintf(&b, "\t\t\t%q,\n", x)
		}
		b.WriteString("\t\t},\n\t},\n")
	}
	b.WriteString("}\n")
	_ = os.WriteFile(path, []byte(b.String()), 0o644)
}
