package main

// jpverif — static verification of evanphx/json-patch against the fixed
// property list in /verif/properties.jsonl. See /verif/DESIGN.md.
//
//   jpverif check <Cxx> [--tier quick|thorough] [--repo DIR] [--overlay PATH=FILE]...
//   jpverif all   [--tier ...]            run every claimed property in one load
//   jpverif rules [--json] [--only R-X,R-Y] run rules, print obligations
//   jpverif explain <replay.json>         re-evaluate one reported obligation
//
// Exit status: 0 = property held on everything examined, 1 = violation (a
// line "VIOLATION property=<id> replay=<path>" is printed per violated
// obligation), 2 = usage.

import (
	"encoding/json"
	"flag"
	"fmt"
	"os"
	"path/filepath"
	"runtime/debug"
	"sort"
	"strconv"
	"strings"
	"time"
)

type Ctx struct {
	L      *Ledger
	Cfg    *Config
	V5     *Body
	Legacy *Body
	Tier   string
	facts  map[string]any // cross-rule facts (e.g. R-DISPATCH imports for R-NIL)
}

func (c *Ctx) bodies() []*Body {
	var out []*Body
	if c.V5 != nil {
		out = append(out, c.V5)
	}
	if c.Legacy != nil {
		out = append(out, c.Legacy)
	}
	return out
}

type Rule struct {
	ID  string
	Doc string
	Run func(c *Ctx)
	// Min: minimum number of obligations per body label, confirmed by hand on
	// the pinned tree; a rule that matches fewer sites fails instead of
	// passing vacuously.
	Min map[string]int
}

var rules []*Rule

func register(r *Rule) { rules = append(rules, r) }

func ruleByID(id string) *Rule {
	for _, r := range rules {
		if r.ID == id {
			return r
		}
	}
	return nil
}

var verifDir = "/verif"

type multiFlag []string

func (m *multiFlag) String() string     { return strings.Join(*m, ",") }
func (m *multiFlag) Set(s string) error { *m = append(*m, s); return nil }

func main() {
	if len(os.Args) < 2 {
		usage()
	}
	if d := os.Getenv("JPVERIF_DIR"); d != "" {
		verifDir = d
	}
	cmd := os.Args[1]
	fs := flag.NewFlagSet(cmd, flag.ExitOnError)
	tier := fs.String("tier", envOr("VERIF_TIER", "quick"), "quick|thorough")
	repo := fs.String("repo", envOr("JPVERIF_REPO", "/repo"), "tree to analyse")
	var overlays multiFlag
	fs.Var(&overlays, "overlay", "PATH=FILE: analyse FILE in place of PATH (relative to repo)")
	asJSON := fs.Bool("json", false, "machine-readable output (rules)")
	only := fs.String("only", "", "comma-separated rule ids (rules)")
	evdir := fs.String("evidence-dir", "", "where to write evidence (default <verif>/evidence)")
	goarch := fs.String("goarch", "", "GOARCH for loading")
	tags := fs.String("tags", "", "build tags for loading")
	noSelf := fs.Bool("no-selfcheck", false, "skip thorough-tier self validation")
	var args []string
	rest := os.Args[2:]
	// allow positional args before flags
	for len(rest) > 0 && !strings.HasPrefix(rest[0], "-") {
		args = append(args, rest[0])
		rest = rest[1:]
	}
	fs.Parse(rest)
	args = append(args, fs.Args()...)

	abs, err := filepath.Abs(*repo)
	if err != nil {
		fatal(err)
	}
	cfg := &Config{Repo: abs, Overlay: map[string][]byte{}, GOARCH: *goarch, Tags: *tags}
	for _, ov := range overlays {
		i := strings.Index(ov, "=")
		if i < 0 {
			fatal(fmt.Errorf("bad --overlay %q", ov))
		}
		data, err := os.ReadFile(ov[i+1:])
		if err != nil {
			fatal(err)
		}
		p := ov[:i]
		if !filepath.IsAbs(p) {
			p = filepath.Join(abs, p)
		}
		cfg.Overlay[p] = data
	}
	if *evdir == "" {
		*evdir = filepath.Join(verifDir, "evidence")
	}
	opts := &runOpts{Tier: *tier, EvidenceDir: *evdir, JSON: *asJSON, Only: *only, NoSelf: *noSelf}

	// Watchdog: an analysis that does not finish is a failed check, not a hung one.
	if cmd == "check" || cmd == "all" {
		limit := 15 * time.Minute
		if *tier == "thorough" {
			limit = 60 * time.Minute
		}
		pid := "?"
		if len(args) > 0 {
			pid = args[0]
		}
		time.AfterFunc(limit, func() {
			fmt.Printf("VIOLATION property=%s replay=%s (analyser watchdog: no verdict after %s; fail closed)\n", pid, filepath.Join(verifDir, "analyzer"), limit)
			os.Exit(1)
		})
	}
	switch cmd {
	case "check":
		if len(args) != 1 {
			usage()
		}
		os.Exit(cmdCheck(cfg, opts, []string{args[0]}))
	case "all":
		var ids []string
		for _, p := range propSpecs {
			ids = append(ids, p.ID)
		}
		os.Exit(cmdCheck(cfg, opts, ids))
	case "rules":
		os.Exit(cmdRules(cfg, opts))
	case "explain":
		if len(args) != 1 {
			usage()
		}
		os.Exit(cmdExplain(cfg, opts, args[0]))
	case "manifest":
		os.Exit(cmdManifest())
	case "selfcheck":
		os.Exit(cmdSelfcheck(cfg, opts, args))
	default:
		usage()
	}
}

type runOpts struct {
	Tier        string
	EvidenceDir string
	JSON        bool
	Only        string
	NoSelf      bool
}

func envOr(k, d string) string {
	if v := os.Getenv(k); v != "" {
		return v
	}
	return d
}

func usage() {
	fmt.Fprintln(os.Stderr, "usage: jpverif check <Cxx> [--tier quick|thorough] | all | rules [--json] [--only ids] | explain <replay.json> | selfcheck")
	os.Exit(2)
}

func fatal(err error) {
	fmt.Fprintln(os.Stderr, "jpverif:", err)
	os.Exit(2)
}

// configLabel names a build configuration.
func configLabel(cfg *Config) string {
	arch := cfg.GOARCH
	if arch == "" {
		arch = "amd64"
	}
	l := "linux/" + arch
	if cfg.Tags != "" {
		l += "+" + cfg.Tags
	}
	return l
}

// runRules loads both bodies under cfg and runs the given rules into ledger l.
// Every failure to load or a panic inside a rule is turned into a violated
// "engine" obligation (fail closed).
func runRules(cfg *Config, l *Ledger, tier string, ruleIDs map[string]bool) (ctx *Ctx) {
	l.Config = configLabel(cfg)
	ctx = &Ctx{L: l, Cfg: cfg, Tier: tier, facts: map[string]any{}}
	v5, err := loadBody(cfg, "v5")
	if err != nil {
		l.add("ENGINE", "v5", "load", "", Violated, err.Error(), false)
	}
	ctx.V5 = v5
	leg, err := loadBody(cfg, "legacy")
	if err != nil {
		l.add("ENGINE", "legacy", "load", "", Violated, err.Error(), false)
	}
	ctx.Legacy = leg
	for _, r := range rules {
		if ruleIDs != nil && !ruleIDs[r.ID] {
			continue
		}
		func() {
			defer func() {
				if rec := recover(); rec != nil {
					st := string(debug.Stack())
					l.add("ENGINE", "-", "panic in "+r.ID, "", Violated, fmt.Sprintf("%v\n%s", rec, short(st, 1500)), false)
				}
			}()
			before := len(l.Obls)
			r.Run(ctx)
			// minimum instance counts
			cnt := map[string]int{}
			for _, o := range l.Obls[before:] {
				if o.Verdict != Info {
					cnt[o.Body]++
				}
			}
			st := l.stat(r.ID)
			for b, n := range cnt {
				st.Instances[b] += n
			}
			for b, m := range r.Min {
				st.Min[b] = m
				if (b == "legacy" || b == "legacy/cmd") && ctx.Legacy == nil {
					continue
				}
				if (b == "v5" || b == "codec" || b == "v5/cmd") && ctx.V5 == nil {
					continue
				}
				if cnt[b] < m {
					l.add(r.ID, b, "instance-count", "", Violated,
						fmt.Sprintf("rule matched %d construct(s) in body %s, fewer than the %d confirmed by hand: the rule's anchors no longer resolve (vacuous pass refused)", cnt[b], b, m), false)
				}
			}
		}()
	}
	return ctx
}

func cmdRules(cfg *Config, opts *runOpts) int {
	l := newLedger()
	var ids map[string]bool
	if opts.Only != "" {
		ids = map[string]bool{}
		for _, s := range strings.Split(opts.Only, ",") {
			ids[strings.TrimSpace(s)] = true
		}
	}
	t0 := time.Now()
	runRules(cfg, l, opts.Tier, ids)
	sortObls(l.Obls)
	if opts.JSON {
		enc := json.NewEncoder(os.Stdout)
		enc.SetIndent("", " ")
		enc.Encode(l.Obls)
	} else {
		cnt := map[string]int{}
		for _, o := range l.Obls {
			cnt[o.Verdict]++
			mark := " "
			if o.Verdict == Violated || o.Verdict == Undecided {
				mark = "!"
			}
			fmt.Printf("%s %-12s %-10s %-10s %s\n      @%s  %s\n", mark, o.Rule, o.Body, o.Verdict, o.Key, o.Pos, short(o.Fact, 400))
		}
		fmt.Printf("-- %d obligations: %v  (%.1fs)\n", len(l.Obls), cnt, time.Since(t0).Seconds())
	}
	for _, o := range l.Obls {
		if o.Verdict == Violated || o.Verdict == Undecided {
			return 1
		}
	}
	return 0
}

// cmdCheck decides the listed properties. All needed rules run once per
// configuration; each property then selects its obligations.
func cmdCheck(cfg *Config, opts *runOpts, ids []string) int {
	t0 := time.Now()
	seed, _ := strconv.Atoi(os.Getenv("VERIF_SEED"))
	var specs []*PropSpec
	need := map[string]bool{}
	for _, id := range ids {
		ps := propByID(id)
		if ps == nil {
			fmt.Fprintf(os.Stderr, "jpverif: property %s is not claimed by this framework\n", id)
			return 2
		}
		specs = append(specs, ps)
		for _, u := range ps.Rules {
			need[u.Rule] = true
		}
	}
	known, err := loadKnown(filepath.Join(verifDir, "known_findings.json"))
	if err != nil {
		fmt.Fprintln(os.Stderr, "jpverif: known_findings.json:", err)
		fmt.Printf("VIOLATION property=%s replay=%s\n", ids[0], filepath.Join(verifDir, "known_findings.json"))
		return 1
	}

	l := newLedger()
	configs := []*Config{cfg}
	if opts.Tier == "thorough" && cfg.GOARCH == "" && cfg.Tags == "" {
		c386 := *cfg
		c386.GOARCH = "386"
		cfz := *cfg
		cfz.Tags = "gofuzz"
		configs = append(configs, &c386, &cfz)
	}
	var ctx0 *Ctx
	for i, c := range configs {
		ctx := runRules(c, l, opts.Tier, need)
		if i == 0 {
			ctx0 = ctx
		}
	}
	_ = ctx0
	sortObls(l.Obls)

	var self *SelfReport
	if opts.Tier == "thorough" && !opts.NoSelf {
		self = runSelfValidation(cfg, need)
	}

	exit := 0
	for _, ps := range specs {
		if decideProperty(ps, l, known, cfg, opts, seed, time.Since(t0).Seconds(), self) != 0 {
			exit = 1
		}
	}
	return exit
}

func decideProperty(ps *PropSpec, l *Ledger, known *KnownFile, cfg *Config, opts *runOpts, seed int, wall float64, self *SelfReport) int {
	var sel []*Obl
	for _, o := range l.Obls {
		if o.Rule == "ENGINE" {
			sel = append(sel, o)
			continue
		}
		for _, u := range ps.Rules {
			if u.Rule == o.Rule && u.matches(o) {
				sel = append(sel, o)
				break
			}
		}
	}
	nObl, nDis, nExc, nViol, nUndec, nNontriv, nKnown := 0, 0, 0, 0, 0, 0, 0
	distinct := map[string]bool{}
	perRule := map[string]map[string]int{}
	var samples []any
	var bad []*Obl
	sampleRule := map[string]int{}
	for _, o := range sel {
		if o.Verdict == Info {
			continue
		}
		nObl++
		if perRule[o.Rule] == nil {
			perRule[o.Rule] = map[string]int{}
		}
		perRule[o.Rule][o.Verdict]++
		switch o.Verdict {
		case Discharged:
			nDis++
		case Excepted:
			nExc++
		case Violated:
			nViol++
			bad = append(bad, o)
		case Undecided:
			nUndec++
			bad = append(bad, o)
		}
		if o.Nontrivial && !distinct[o.ID()] {
			distinct[o.ID()] = true
			nNontriv++
		}
		if sampleRule[o.Rule] < 2 && o.Verdict != Violated {
			sampleRule[o.Rule]++
			samples = append(samples, map[string]string{"rule": o.Rule, "body": o.Body, "construct": o.Key, "at": o.Pos, "verdict": o.Verdict, "fact": short(o.Fact, 300)})
		}
	}
	// violations vs known findings
	var newViol []*Obl
	var knownLines []string
	for _, o := range bad {
		if o.Verdict == Violated {
			if kf := known.match(ps.ID, o); kf != nil {
				nKnown++
				knownLines = append(knownLines, fmt.Sprintf("KNOWN-FINDING: property=%s %s [%s %s] failing input: %s", ps.ID, kf.What, o.Rule, o.Key, kf.FailingInput))
				continue
			}
		}
		newViol = append(newViol, o)
	}
	sort.Strings(knownLines)
	uniq := map[string]bool{}
	for _, kl := range knownLines {
		if !uniq[kl] {
			uniq[kl] = true
			fmt.Println(kl)
		}
	}
	replayDir := filepath.Join(opts.EvidenceDir, "replay")
	seenReplay := map[string]bool{}
	for _, o := range newViol {
		rp := filepath.Join(replayDir, fmt.Sprintf("%s-%s.json", ps.ID, hashKey(o.ID())))
		if !seenReplay[rp] {
			seenReplay[rp] = true
			writeJSON(rp, &Replay{Property: ps.ID, Rule: o.Rule, Body: o.Body, Config: o.Config, Key: o.Key, Pos: o.Pos, Verdict: o.Verdict, Witness: o.Fact, Repo: cfg.Repo,
				Explain: "re-evaluate with: ./bin/jpverif explain " + rp})
			fmt.Printf("VIOLATION property=%s replay=%s\n", ps.ID, rp)
		}
		fmt.Printf("  %s [%s] %s\n    at %s (%s)\n    %s\n", o.Verdict, o.Rule, o.Key, o.Pos, o.Config, short(o.Fact, 600))
	}

	ruleInst := []any{}
	var ruleIDs []string
	for _, u := range ps.Rules {
		ruleIDs = append(ruleIDs, u.Rule)
	}
	sort.Strings(ruleIDs)
	prev := ""
	for _, id := range ruleIDs {
		if id == prev {
			continue
		}
		prev = id
		st := l.RuleStats[id]
		r := ruleByID(id)
		doc := ""
		if r != nil {
			doc = r.Doc
		}
		ent := map[string]any{"rule": id, "what": doc, "verdicts_for_this_property": perRule[id]}
		if st != nil {
			ent["instances_per_body_all_configs"] = st.Instances
			ent["confirmed_minimum"] = st.Min
			if len(st.Extra) > 0 {
				ent["extracted"] = st.Extra
			}
		}
		ruleInst = append(ruleInst, ent)
	}
	cfgs := map[string]bool{}
	for _, o := range l.Obls {
		cfgs[o.Config] = true
	}
	var cfgList []string
	for c := range cfgs {
		cfgList = append(cfgList, c)
	}
	sort.Strings(cfgList)

	cov := map[string]any{
		"explanation":         ps.Explanation,
		"not_decided":         ps.NotDecided,
		"obligations":         nObl,
		"discharged":          nDis,
		"excepted":            nExc,
		"violated":            nViol,
		"undecided":           nUndec,
		"known_findings":      nKnown,
		"evaluations":         nObl,
		"distinct_nontrivial": nNontriv,
		"rule":                "one evaluation = one obligation (rule × role-keyed construct of the current source × build configuration); an obligation is non-trivial when its verdict needed a fact computed from the code (dominance, dataflow, extracted table, byte set) rather than mere presence of a construct; distinct = distinct rule|body|construct keys",
		"samples":             samples,
		"checker_cmd":         "./bin/jpverif check " + ps.ID + " --tier " + opts.Tier,
		"trusted_base":        ps.Trusted,
		"rule_instances":      ruleInst,
		"configs":             cfgList,
		"repo":                cfg.Repo,
		"exhaustive":          false,
	}
	if self != nil {
		sv := self.forRules(ruleIDs)
		cov["self_validation"] = sv
		if list, ok := sv.([]VariantResult); ok {
			nOK, nBad := 0, 0
			for _, v := range list {
				if v.OK {
					nOK++
				} else {
					nBad++
					fmt.Printf("SELF-VALIDATION property=%s variant=%s kind=%s: expected %s; observed %s (this concerns the checker, not /repo)\n", ps.ID, v.Name, v.Kind, v.Expected, v.Observed)
				}
			}
			cov["self_validation_summary"] = map[string]int{"variants_replayed_for_this_property": len(list), "as_expected": nOK, "not_as_expected": nBad}
		}
	}
	var violList []any
	for _, o := range newViol {
		violList = append(violList, map[string]string{"rule": o.Rule, "body": o.Body, "construct": o.Key, "at": o.Pos, "verdict": o.Verdict, "witness": short(o.Fact, 600)})
	}
	if len(violList) > 0 {
		cov["violations_detail"] = violList
	}
	ev := &Evidence{PropertyID: ps.ID, Tier: opts.Tier, Seed: seed, Level: "other", Coverage: cov, Assumptions: ps.Assumptions, WallS: wall, Violations: len(newViol)}
	if err := writeJSON(filepath.Join(opts.EvidenceDir, ps.ID+".json"), ev); err != nil {
		fmt.Fprintln(os.Stderr, "jpverif: writing evidence:", err)
		return 1
	}
	status := "OK"
	if len(newViol) > 0 {
		status = "FAIL"
	}
	fmt.Printf("%s %s: %d obligations (%d discharged, %d excepted, %d known findings, %d new violations/undecided) in %.1fs\n",
		status, ps.ID, nObl, nDis, nExc, nKnown, len(newViol), wall)
	if len(newViol) > 0 {
		return 1
	}
	return 0
}

func cmdExplain(cfg *Config, opts *runOpts, path string) int {
	data, err := os.ReadFile(path)
	if err != nil {
		fatal(err)
	}
	var rp Replay
	if err := json.Unmarshal(data, &rp); err != nil {
		fatal(err)
	}
	fmt.Printf("replaying obligation\n  property: %s\n  rule:     %s\n  body:     %s\n  construct:%s\n  recorded: %s at %s\n  witness:  %s\n", rp.Property, rp.Rule, rp.Body, rp.Key, rp.Verdict, rp.Pos, rp.Witness)
	c := *cfg
	if strings.Contains(rp.Config, "/386") {
		c.GOARCH = "386"
	}
	if i := strings.Index(rp.Config, "+"); i >= 0 {
		c.Tags = rp.Config[i+1:]
	}
	l := newLedger()
	need := map[string]bool{rp.Rule: true}
	if rp.Rule == "ENGINE" {
		need = nil
	}
	runRules(&c, l, "quick", need)
	found := false
	rc := 0
	for _, o := range l.Obls {
		if o.Rule == rp.Rule && o.Body == rp.Body && o.Key == rp.Key {
			found = true
			fmt.Printf("now: %s at %s\n  %s\n", o.Verdict, o.Pos, o.Fact)
			if o.Verdict == Violated || o.Verdict == Undecided {
				rc = 1
			}
		}
	}
	if !found {
		fmt.Println("now: the construct no longer exists in the analysed tree (obligation not generated)")
	}
	if rc == 1 {
		fmt.Printf("VIOLATION property=%s replay=%s\n", rp.Property, path)
	}
	return rc
}
