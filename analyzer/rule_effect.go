package main

// A-EFF: write-effect census with root classification, and the rules built on
// it: R-EFFECT (no write lands in memory the caller or another call can
// see), R-GLOBALS (every package-level variable is immutable, a synchronised
// container, or read-only configuration), R-POOL (pooled objects are owned
// between Get and Put, never used after Put, never aliased by a result).

import (
	"fmt"
	"go/token"
	"go/types"
	"sort"
	"strings"

	"golang.org/x/tools/go/ssa"
)

func init() {
	register(&Rule{ID: "R-EFFECT", Doc: "no write lands in caller-visible memory: every store / copy / append / map update / delete whose target memory has a type that callers can share with the library ([]byte and json.RawMessage contents and headers, Operation, Patch, ApplyOptions) has a root that is freshly allocated in the call; writes through parameters become per-function summaries that are pushed to every call site, and no exported function writes through a parameter; std callees that receive such memory are in a reviewed read-only table; decoder targets are fresh or of a call-local type; no value of a call-local working type is published into a global or into a Patch/Operation",
		Run: ruleEffect, Min: map[string]int{"v5": 30, "codec": 10, "legacy": 25}})
	register(&Rule{ID: "R-GLOBALS", Doc: "every package-level variable is immutable after package initialisation (no store outside init; no element/member write anywhere), a synchronised std container used only through its methods (sync.Pool, sync.Map), or documented configuration that library code only reads",
		Run: ruleGlobals, Min: map[string]int{"v5": 10, "codec": 15, "legacy": 8}})
	register(&Rule{ID: "R-POOL", Doc: "for every sync.Pool Get: the object is not used after it is Put back (a deferred Put, or no use reachable after a direct Put), is not stored anywhere that outlives the call, and no returned value aliases memory owned by the pooled object",
		Run: rulePool, Min: map[string]int{"codec": 6}})
}

// ---- types ----------------------------------------------------------------------

func isByteSliceLike(t types.Type) bool { return isByteSlice(t) }

// sharedMem: memory of this type can be shared between the caller (or another
// call) and the library, so a write into it must be to a fresh object.
func sharedMem(t types.Type) (bool, string) {
	if t == nil {
		return false, ""
	}
	if n, ok := t.(*types.Named); ok {
		switch n.Obj().Name() {
		case "Operation", "Patch", "ApplyOptions":
			if n.Obj().Pkg() != nil && strings.Contains(n.Obj().Pkg().Path(), "json-patch") {
				return true, n.Obj().Name()
			}
		}
	}
	if isByteSliceLike(t) {
		return true, typeShort(t)
	}
	return false, ""
}

type effAn struct {
	b           *Body
	fns         []*ssa.Function
	inFn        map[*ssa.Function]bool
	writesParam map[*ssa.Function]map[int]string
	freshRet    map[*ssa.Function]map[int]bool
	fieldFresh  map[string]bool // "Type.field" -> every store to the field stores a fresh value
	sites       []effSite
}

type effSite struct {
	fn    *ssa.Function
	ins   ssa.Instruction
	kind  string   // store-elem, store-header, field-store, map-update, delete, copy, append, call:<callee>
	mem   string   // shared memory type description
	roots []string // sorted atoms
}

func (c *Ctx) effFor(b *Body) *effAn {
	key := "effAn." + b.Name
	if a, ok := c.facts[key].(*effAn); ok {
		return a
	}
	a := &effAn{b: b, inFn: map[*ssa.Function]bool{}, writesParam: map[*ssa.Function]map[int]string{}, freshRet: map[*ssa.Function]map[int]bool{}, fieldFresh: map[string]bool{}}
	a.fns = b.srcFuncs(b.Lib, b.Codec)
	for _, f := range a.fns {
		a.inFn[f] = true
		a.writesParam[f] = map[int]string{}
		a.freshRet[f] = map[int]bool{}
	}
	a.compute()
	c.facts[key] = a
	return a
}

func paramIdx(p *ssa.Parameter) int {
	for i, q := range p.Parent().Params {
		if q == p {
			return i
		}
	}
	return -1
}

// roots returns the set of root atoms of the memory that slice / pointer /
// map value v refers to.
func (a *effAn) roots(v ssa.Value, seen map[ssa.Value]bool, out map[string]bool) {
	if v == nil || seen[v] {
		return
	}
	seen[v] = true
	switch x := v.(type) {
	case *ssa.Alloc:
		out["fresh"] = true
	case *ssa.MakeSlice, *ssa.MakeMap, *ssa.MakeChan, *ssa.MakeClosure:
		out["fresh"] = true
	case *ssa.Const:
		out["fresh"] = true // nil: nothing to write into; append allocates
	case *ssa.Global:
		out["global:"+x.Name()] = true
	case *ssa.Parameter:
		out[fmt.Sprintf("param:%d", paramIdx(x))] = true
	case *ssa.FreeVar:
		out["freevar:"+x.Name()] = true
	case *ssa.FieldAddr:
		a.roots(x.X, seen, out)
	case *ssa.IndexAddr:
		a.roots(x.X, seen, out)
	case *ssa.Slice:
		a.roots(x.X, seen, out)
	case *ssa.ChangeType:
		a.roots(x.X, seen, out)
	case *ssa.ChangeInterface:
		a.roots(x.X, seen, out)
	case *ssa.MakeInterface:
		a.roots(x.X, seen, out)
	case *ssa.TypeAssert:
		a.roots(x.X, seen, out)
	case *ssa.Convert:
		if bt, ok := x.X.Type().Underlying().(*types.Basic); ok && bt.Info()&types.IsString != 0 {
			out["fresh"] = true // []byte(string) copies
			return
		}
		a.roots(x.X, seen, out)
	case *ssa.Phi:
		for _, e := range x.Edges {
			a.roots(e, seen, out)
		}
	case *ssa.UnOp:
		if x.Op != token.MUL {
			out["?unop"] = true
			return
		}
		switch addr := x.X.(type) {
		case *ssa.Alloc:
			// local variable: join over what is stored into it
			n := 0
			for _, r := range *addr.Referrers() {
				if st, ok := r.(*ssa.Store); ok && st.Addr == ssa.Value(addr) {
					n++
					a.roots(st.Val, seen, out)
				}
			}
			if n == 0 {
				out["fresh"] = true // zero value
			}
			// the address may also have been handed to a callee that fills it in
			for _, r := range *addr.Referrers() {
				if _, ok := r.(ssa.CallInstruction); ok {
					out["filled-by-callee"] = true
				}
			}
		case *ssa.FieldAddr:
			fr := fieldOfAddr(addr)
			k := fr.Type + "." + fr.Field
			if a.fieldFresh[k] {
				out["fresh"] = true
			} else {
				out["loaded:"+k] = true
			}
		case *ssa.Global:
			out["global:"+addr.Name()] = true
		default:
			out["loaded:*"+typeShort(x.Type())] = true
		}
	case *ssa.Lookup:
		out["loaded:element of "+typeShort(x.X.Type())] = true
	case *ssa.Extract:
		if call, ok := x.Tuple.(*ssa.Call); ok {
			a.callRoots(call, x.Index, seen, out)
		} else {
			out["loaded:tuple"] = true
		}
	case *ssa.Call:
		a.callRoots(x, 0, seen, out)
	default:
		out[fmt.Sprintf("?%T", v)] = true
	}
}

// std functions whose []byte result aliases their first []byte argument
var stdAliasArg0 = map[string]bool{
	"bytes.TrimSpace": true, "bytes.TrimLeft": true, "bytes.TrimRight": true, "bytes.Trim": true, "bytes.TrimPrefix": true, "bytes.TrimSuffix": true,
	"strconv.AppendInt": true, "strconv.AppendUint": true, "strconv.AppendFloat": true, "strconv.AppendQuote": true, "strconv.AppendBool": true,
	"unicode/utf8.AppendRune": true, "fmt.Appendf": true, "fmt.Append": true,
}

// std functions / methods whose result is freshly allocated
var stdFreshResult = map[string]bool{
	"encoding/json.Marshal": true, "encoding/json.MarshalIndent": true, "bytes.ToLower": true, "bytes.ToUpper": true, "bytes.Repeat": true, "bytes.Join": true,
	"os.ReadFile": true, "io.ReadAll": true, "io/ioutil.ReadAll": true, "io/ioutil.ReadFile": true, "encoding/base64.(*Encoding).DecodeString": true,
	"bytes.Clone": true, "slices.Clone": true, "(reflect.Value).Bytes": false,
}

func stdName(f *ssa.Function) string {
	if f == nil {
		return "?"
	}
	if recv := f.Signature.Recv(); recv != nil {
		t := recv.Type()
		ptr := ""
		if p, ok := t.(*types.Pointer); ok {
			t = p.Elem()
			ptr = "*"
		}
		if n, ok := t.(*types.Named); ok && n.Obj().Pkg() != nil {
			return n.Obj().Pkg().Path() + ".(" + ptr + n.Obj().Name() + ")." + f.Name()
		}
	}
	if f.Pkg != nil {
		return f.Pkg.Pkg.Path() + "." + f.Name()
	}
	return f.String()
}

func (a *effAn) callRoots(call *ssa.Call, idx int, seen map[ssa.Value]bool, out map[string]bool) {
	com := &call.Call
	if bi, ok := com.Value.(*ssa.Builtin); ok {
		switch bi.Name() {
		case "append":
			a.roots(com.Args[0], seen, out)
			return
		}
		out["?builtin "+bi.Name()] = true
		return
	}
	f := com.StaticCallee()
	if f == nil {
		if com.IsInvoke() {
			// interface method: join over repo implementations; unknown otherwise
			impls := a.b.callees(com)
			if len(impls) == 0 {
				out["call:"+com.Method.Name()+" (interface)"] = true
				return
			}
			for _, g := range impls {
				if a.freshRet[g][idx] {
					out["fresh"] = true
				} else {
					out["call:"+fname(g)] = true
				}
			}
			return
		}
		out["call:dynamic"] = true
		return
	}
	if a.inFn[f] {
		if a.freshRet[f][idx] {
			out["fresh"] = true
			return
		}
		// a function that returns (an alias of) one of its parameters
		retParam := a.returnsParam(f, idx)
		if len(retParam) > 0 {
			for _, pi := range retParam {
				if pi < len(com.Args) {
					a.roots(com.Args[pi], seen, out)
				}
			}
			return
		}
		out["call:"+fname(f)] = true
		return
	}
	name := stdName(f)
	switch {
	case stdFreshResult[name]:
		out["fresh"] = true
	case stdAliasArg0[name]:
		a.roots(com.Args[0], seen, out)
	case name == "bytes.(*Buffer).Bytes" || name == "bytes.(*Buffer).Next":
		a.roots(com.Args[0], seen, out)
	case name == "sync.(*Pool).Get":
		out["pooled"] = true
	case name == "bytes.NewBuffer":
		a.roots(com.Args[0], seen, out)
	case name == "bytes.NewBufferString" || name == "bytes.NewReader" || name == "strings.NewReader":
		out["fresh"] = true
	default:
		out["call:"+name] = true
	}
}

// returnsParam: indices of parameters that result idx of f may alias (every
// return's value roots are parameters only).
func (a *effAn) returnsParam(f *ssa.Function, idx int) []int {
	set := map[int]bool{}
	for _, r := range liveReturns(f) {
		if idx >= len(r.Results) {
			return nil
		}
		rs := map[string]bool{}
		a.roots(retVal(r, idx), map[ssa.Value]bool{}, rs)
		for k := range rs {
			if k == "fresh" {
				continue
			}
			if strings.HasPrefix(k, "param:") {
				var i int
				fmt.Sscanf(k, "param:%d", &i)
				set[i] = true
				continue
			}
			return nil
		}
	}
	var out []int
	for i := range set {
		out = append(out, i)
	}
	sort.Ints(out)
	return out
}

func rootList(m map[string]bool) []string {
	var out []string
	for k := range m {
		out = append(out, k)
	}
	sort.Strings(out)
	return out
}

func onlyFresh(roots []string) bool {
	for _, r := range roots {
		if r != "fresh" {
			return false
		}
	}
	return len(roots) > 0
}

// std callees that only read the byte slices / shared values they are given
// (reviewed one by one; anything else that receives caller-visible memory is
// undecided and fails).
var stdReadOnly = map[string]bool{
	"bytes.Equal": true, "bytes.Compare": true, "bytes.HasPrefix": true, "bytes.HasSuffix": true, "bytes.TrimSpace": true, "bytes.TrimLeft": true, "bytes.TrimRight": true, "bytes.Trim": true,
	"bytes.Index": true, "bytes.IndexByte": true, "bytes.Contains": true, "bytes.EqualFold": true, "bytes.NewReader": true, "bytes.IndexAny": true, "bytes.ContainsAny": true, "bytes.Count": true,
	"bytes.(*Buffer).Write": true, "bytes.(*Buffer).WriteString": true,
	"unicode/utf8.DecodeRune": true, "unicode/utf8.DecodeLastRune": true, "unicode/utf8.Valid": true, "unicode/utf8.FullRune": true, "unicode/utf8.RuneCount": true,
	"strconv.ParseFloat": true, "strconv.ParseInt": true, "strconv.ParseUint": true, "strconv.Atoi": true,
	"encoding/json.Unmarshal": true, "encoding/json.Valid": true, "encoding/json.Compact": true, "encoding/json.Indent": true, "encoding/json.HTMLEscape": true,
	"encoding/base64.(*Encoding).Decode": true, "encoding/base64.(*Encoding).DecodedLen": true,
	"encoding.TextUnmarshaler.UnmarshalText":    true,
	"encoding/json.(*RawMessage).UnmarshalJSON": true, // copies its argument into the message
	"encoding/json.(RawMessage).MarshalJSON":    true,
	"encoding/base64.NewEncoder":                true,
	"reflect.(Value).SetBytes":                  false,
	"fmt.Errorf":                                true, "fmt.Sprintf": true, "fmt.Printf": true, "fmt.Fprintf": true, "fmt.Sprint": true, "fmt.Println": true, "fmt.Fprint": true, "fmt.Fprintln": true, "fmt.Print": true,
	"log.Fatalf": true, "log.Printf": true,
	"reflect.ValueOf": true, "reflect.TypeOf": true, "reflect.DeepEqual": true,
	"io.Writer.Write": true, "io.(Writer).Write": true, "os.(*File).Write": true, "bufio.(*Writer).Write": true,
	"errors.As": true, "errors.Is": true,
	"sort.Strings": false,
}

// std callees that write exactly the listed arguments (receiver = 0 for
// methods) and only read the others.
var stdWrites = map[string][]int{
	"encoding/base64.(*Encoding).Encode": {1},
	"encoding/hex.Encode":                {0},
	"strconv.AppendInt":                  {0}, "strconv.AppendUint": {0}, "strconv.AppendFloat": {0}, "strconv.AppendQuote": {0}, "strconv.AppendBool": {0},
	"unicode/utf8.AppendRune": {0}, "unicode/utf8.EncodeRune": {0},
	"bytes.NewBuffer": {0}, // the buffer takes ownership of the slice and writes into it
	"io.ReadFull":     {1}, "io.(Reader).Read": {1},
}

// interface methods that, by documented contract, do not modify the byte slice they receive
var ifaceReadOnlyMethods = map[string]bool{"Write": true, "UnmarshalJSON": true, "UnmarshalText": true, "TrustMarshalJSON": false}

func (a *effAn) addSite(fn *ssa.Function, ins ssa.Instruction, kind string, target ssa.Value, mem string) {
	rs := map[string]bool{}
	a.roots(target, map[ssa.Value]bool{}, rs)
	a.sites = append(a.sites, effSite{fn: fn, ins: ins, kind: kind, mem: mem, roots: rootList(rs)})
}

// collect enumerates the write sites of fn against shared-type memory using
// the current summaries.
func (a *effAn) collect(fn *ssa.Function) []effSite {
	saved := a.sites
	a.sites = nil
	allInstrs(fn, func(i ssa.Instruction) {
		switch x := i.(type) {
		case *ssa.Store:
			switch ad := x.Addr.(type) {
			case *ssa.IndexAddr:
				xt := ad.X.Type()
				if _, isSlice := xt.Underlying().(*types.Slice); isSlice {
					if ok, d := sharedMem(xt); ok {
						a.addSite(fn, i, "store-elem", ad.X, "element of "+d)
					}
				} else if pt, ok := xt.Underlying().(*types.Pointer); ok {
					// pointer to array inside some object: the object's memory
					if at, ok := pt.Elem().Underlying().(*types.Array); ok {
						if bt, ok := at.Elem().Underlying().(*types.Basic); ok && bt.Kind() == types.Byte {
							a.addSite(fn, i, "store-elem", ad.X, "element of a byte array")
						}
					}
				}
			case *ssa.FieldAddr:
				if n := derefNamed(ad.X.Type()); n != nil {
					if ok, d := sharedMem(n); ok {
						a.addSite(fn, i, "field-store", ad.X, "field "+fieldName(ad.X.Type(), ad.Field)+" of "+d)
					}
				}
			case *ssa.Global:
				// R-GLOBALS
			default:
				if pt, ok := x.Addr.Type().Underlying().(*types.Pointer); ok {
					if ok2, d := sharedMem(pt.Elem()); ok2 {
						if _, isAlloc := x.Addr.(*ssa.Alloc); !isAlloc {
							a.addSite(fn, i, "store-header", x.Addr, "the "+d+" a pointer refers to")
						}
					}
				}
			}
		case *ssa.MapUpdate:
			if ok, d := sharedMem(x.Map.Type()); ok {
				a.addSite(fn, i, "map-update", x.Map, "entry of "+d)
			}
		case ssa.CallInstruction:
			com := x.Common()
			if bi, ok := com.Value.(*ssa.Builtin); ok {
				switch bi.Name() {
				case "delete":
					if ok, d := sharedMem(com.Args[0].Type()); ok {
						a.addSite(fn, i, "delete", com.Args[0], "entry of "+d)
					}
				case "copy":
					if ok, d := sharedMem(com.Args[0].Type()); ok {
						a.addSite(fn, i, "copy", com.Args[0], "contents of "+d)
					}
				case "append":
					if ok, d := sharedMem(com.Args[0].Type()); ok {
						a.addSite(fn, i, "append", com.Args[0], "spare capacity of "+d)
					}
				}
				return
			}
			args := callArgs(com)
			var callees []*ssa.Function
			if f := com.StaticCallee(); f != nil {
				callees = []*ssa.Function{f}
			} else if com.IsInvoke() {
				callees = a.b.callees(com)
				if len(callees) == 0 {
					// unknown implementation
					for ai, arg := range args {
						if ai == 0 {
							continue
						}
						if ok, d := sharedMem(arg.Type()); ok && !ifaceReadOnlyMethods[com.Method.Name()] {
							a.addSite(fn, i, "call:interface "+com.Method.Name(), arg, d+" handed to an unknown implementation")
						}
					}
					return
				}
			} else {
				// call through a function value: closures of the repo are analysed as
				// functions of their own; the arguments are checked conservatively
				for _, arg := range args {
					if ok, d := sharedMem(arg.Type()); ok {
						if mc, isMC := com.Value.(*ssa.MakeClosure); isMC {
							if cf, ok := mc.Fn.(*ssa.Function); ok && a.inFn[cf] {
								continue
							}
						}
						_ = d
					}
				}
				return
			}
			for _, f := range callees {
				if a.inFn[f] {
					for pi, w := range a.writesParam[f] {
						if pi < len(args) {
							mem := "memory that " + fname(f) + " writes through its parameter " + fmt.Sprint(pi) + " (" + w + ")"
							a.addSite(fn, i, "call:"+fname(f), args[pi], mem)
						}
					}
					continue
				}
				name := stdName(f)
				written, partial := stdWrites[name]
				for ai, arg := range args {
					if partial {
						hit := false
						for _, w := range written {
							if w == ai {
								hit = true
							}
						}
						if !hit {
							continue
						}
					}
					t := arg.Type()
					if p, ok := t.Underlying().(*types.Pointer); ok {
						t = p.Elem()
					}
					ok, d := sharedMem(t)
					if !ok {
						continue
					}
					if stdReadOnly[name] {
						continue
					}
					if name == "sync.(*Pool).Put" || name == "sync.(*Pool).Get" {
						continue
					}
					_ = ai
					a.addSite(fn, i, "call:"+name, arg, d+" handed to "+name+", which is not in the reviewed read-only table")
				}
			}
		}
	})
	out := a.sites
	a.sites = saved
	return out
}

func (a *effAn) compute() {
	// field freshness: optimistic start, iterate down
	type fstore struct {
		fn  *ssa.Function
		val ssa.Value
	}
	stores := map[string][]fstore{}
	for _, fn := range a.fns {
		allInstrs(fn, func(i ssa.Instruction) {
			if st, ok := i.(*ssa.Store); ok {
				if fa, ok := st.Addr.(*ssa.FieldAddr); ok {
					fr := fieldOfAddr(fa)
					if fr.Type == "" {
						return
					}
					t := st.Val.Type()
					if p, ok := t.Underlying().(*types.Pointer); ok {
						t = p.Elem()
					}
					if ok, _ := sharedMem(t); ok {
						k := fr.Type + "." + fr.Field
						stores[k] = append(stores[k], fstore{fn, st.Val})
					}
				}
			}
		})
	}
	for k := range stores {
		a.fieldFresh[k] = true
	}
	for iter := 0; iter < 30; iter++ {
		changed := false
		// fresh returns
		for _, fn := range a.fns {
			res := fn.Signature.Results()
			for idx := 0; idx < res.Len(); idx++ {
				t := res.At(idx).Type()
				if p, ok := t.Underlying().(*types.Pointer); ok {
					t = p.Elem()
				}
				if ok, _ := sharedMem(t); !ok {
					continue
				}
				allFresh := true
				rets := liveReturns(fn)
				if len(rets) == 0 {
					allFresh = false
				}
				for _, r := range rets {
					rs := map[string]bool{}
					a.roots(retVal(r, idx), map[ssa.Value]bool{}, rs)
					if !onlyFresh(rootList(rs)) {
						allFresh = false
					}
				}
				if allFresh != a.freshRet[fn][idx] {
					a.freshRet[fn][idx] = allFresh
					changed = true
				}
			}
		}
		// field freshness
		for k, ss := range stores {
			if !a.fieldFresh[k] {
				continue
			}
			for _, s := range ss {
				rs := map[string]bool{}
				a.roots(s.val, map[ssa.Value]bool{}, rs)
				if !onlyFresh(rootList(rs)) {
					a.fieldFresh[k] = false
					changed = true
					break
				}
			}
		}
		// writes-through-parameter summaries
		for _, fn := range a.fns {
			for _, s := range a.collect(fn) {
				for _, r := range s.roots {
					if strings.HasPrefix(r, "param:") {
						var pi int
						fmt.Sscanf(r, "param:%d", &pi)
						if _, ok := a.writesParam[fn][pi]; !ok {
							a.writesParam[fn][pi] = s.kind + " at " + a.b.posOf(s.ins)
							changed = true
						}
					}
				}
			}
		}
		if !changed {
			break
		}
	}
}

func (a *effAn) labelOf(fn *ssa.Function) string {
	for fn.Parent() != nil {
		fn = fn.Parent()
	}
	switch fn.Pkg {
	case a.b.Codec:
		return "codec"
	case a.b.Lib:
		return a.b.Name
	}
	return a.b.Name
}

// reviewed exceptions of R-EFFECT: function + kind -> reason. Each names one
// construct; the reason says which other fact makes the write harmless.
var effectExceptions = map[string]string{}

func ruleEffect(c *Ctx) {
	for _, b := range c.bodies() {
		l := c.L
		b.noUnsafe(l)
		a := c.effFor(b)
		perFn := map[string]int{}
		nSites := 0
		for _, fn := range a.fns {
			for _, s := range a.collect(fn) {
				nSites++
				base := fmt.Sprintf("%s: %s into %s", fname(fn), s.kind, s.mem)
				perFn[base]++
				key := base
				if perFn[base] > 1 {
					key = fmt.Sprintf("%s #%d", base, perFn[base])
				}
				lab := a.labelOf(fn)
				var bad, viaParam []string
				for _, r := range s.roots {
					switch {
					case r == "fresh":
					case strings.HasPrefix(r, "param:"):
						viaParam = append(viaParam, r)
					case r == "pooled":
					case r == "filled-by-callee":
						// a local whose address was handed to a callee (decoder target):
						// the callee allocates what it stores there (checked by the target obligations)
					default:
						bad = append(bad, r)
					}
				}
				// the package initialiser fills package-level tables before any call can run: those
				// writes are the tables' initial values (R-GLOBALS judges every later write)
				if fn.Name() == "init" && fn.Parent() == nil && fn.Signature.Recv() == nil && len(bad) > 0 {
					onlyGlobals := true
					for _, r := range bad {
						if !strings.HasPrefix(r, "global:") {
							onlyGlobals = false
						}
					}
					if onlyGlobals {
						l.add("R-EFFECT", lab, key, b.posOf(s.ins), Discharged, "the package initialiser writes the initial value of "+strings.Join(bad, ", "), true)
						continue
					}
				}
				switch {
				case len(bad) > 0:
					if reason, ok := effectExceptions[fname(fn)+"|"+s.kind]; ok {
						l.add("R-EFFECT", lab, key, b.posOf(s.ins), Excepted, reason, true)
						continue
					}
					verdict := Violated
					for _, r := range bad {
						if strings.HasPrefix(r, "?") || strings.HasPrefix(r, "call:") {
							verdict = Undecided
						}
					}
					for _, r := range bad {
						if strings.HasPrefix(r, "loaded:") || strings.HasPrefix(r, "global:") || strings.HasPrefix(r, "freevar:") {
							verdict = Violated
						}
					}
					l.add("R-EFFECT", lab, key, b.posOf(s.ins), verdict, "the written memory is not provably fresh in this call: roots "+strings.Join(s.roots, ", ")+" — it may belong to the caller's input, to the shared Patch, or to another call", true)
				case len(viaParam) > 0:
					l.add("R-EFFECT", lab, key, b.posOf(s.ins), Discharged, "writes through "+strings.Join(viaParam, ", ")+" of "+fname(fn)+": carried to every call site by the function's summary (exported functions must not have such a summary)", true)
				default:
					l.add("R-EFFECT", lab, key, b.posOf(s.ins), Discharged, "target root is freshly allocated in this call ("+strings.Join(s.roots, ", ")+")", true)
				}
			}
		}
		l.stat("R-EFFECT").Extra[b.Name+"_write_sites_into_shared_type_memory"] = nSites

		// headline: no exported function writes through a parameter
		for _, pkg := range []*ssa.Package{b.Lib, b.Codec} {
			if pkg == nil {
				continue
			}
			lab := b.Name
			if pkg == b.Codec {
				lab = "codec"
			}
			for _, fn := range b.exportedAPI(pkg) {
				for pi, p := range fn.Params {
					t := p.Type()
					if pt, ok := t.Underlying().(*types.Pointer); ok {
						t = pt.Elem()
					}
					ok, d := sharedMem(t)
					if !ok {
						continue
					}
					if pkg == b.Codec && isPtrToNamed(p.Type(), "Buffer") {
						continue
					}
					key := fmt.Sprintf("%s: parameter %s (%s) is never written through", fname(fn), p.Name(), d)
					if w, has := a.writesParam[fn][pi]; has {
						// codec functions that document an output parameter
						if pkg == b.Codec && codecOutputParam(fn, pi) {
							l.add("R-EFFECT", lab, key, b.rel(fn.Pos()), Excepted, "documented output parameter of the codec API ("+w+"); library callers are checked at their call sites", true)
							continue
						}
						l.add("R-EFFECT", lab, key, b.rel(fn.Pos()), Violated, "the function (or a callee, by summary) writes into memory reachable from this parameter: "+w, true)
					} else {
						l.add("R-EFFECT", lab, key, b.rel(fn.Pos()), Discharged, "no write site in the function or in any callee summary has this parameter as a root", true)
					}
				}
			}
		}

		// decoder targets in library code
		for _, fn := range b.srcFuncs(b.Lib) {
			n := 0
			allInstrs(fn, func(i ssa.Instruction) {
				call, ok := i.(*ssa.Call)
				if !ok {
					return
				}
				f := call.Call.StaticCallee()
				if f == nil || !strings.HasPrefix(f.Name(), "Unmarshal") || f.Signature.Recv() != nil {
					return
				}
				if !(f.Pkg == b.Codec || (f.Pkg != nil && f.Pkg.Pkg.Path() == "encoding/json")) {
					return
				}
				if len(call.Call.Args) < 2 {
					return
				}
				n++
				key := fmt.Sprintf("%s: decoder target #%d is fresh or of a call-local type", fname(fn), n)
				tgt := unwrapConv(call.Call.Args[1])
				rs := map[string]bool{}
				a.roots(tgt, map[ssa.Value]bool{}, rs)
				rl := rootList(rs)
				tn := derefNamed(tgt.Type())
				local := tn != nil && !tn.Obj().Exported() && tn.Obj().Pkg() == b.Lib.Pkg
				if tgtIface := isNamed(tgt.Type(), "container"); tgtIface {
					local = true
				}
				// the receiver / a parameter of a working type (methods of the working types decode into themselves)
				if !local {
					allParamLocal := len(rl) > 0
					for _, r := range rl {
						if r == "fresh" {
							continue
						}
						var pi int
						if n, _ := fmt.Sscanf(r, "param:%d", &pi); n != 1 || pi >= len(fn.Params) {
							allParamLocal = false
							continue
						}
						pn := derefNamed(fn.Params[pi].Type())
						if pn == nil || pn.Obj().Exported() || pn.Obj().Pkg() != b.Lib.Pkg {
							allParamLocal = false
						}
					}
					if allParamLocal {
						local = true
					}
				}
				// a thin wrapper (its own parameter is the target): the obligation moves to its call sites
				if p, isParam := tgt.(*ssa.Parameter); isParam && !local {
					pi := paramIdx(p)
					nCalls := 0
					wbad := ""
					for _, caller := range b.srcFuncs(b.Lib) {
						for _, cs := range callsTo(caller, func(cc *ssa.CallCommon) bool { return cc.StaticCallee() == fn }) {
							nCalls++
							t2 := unwrapConv(cs.Common().Args[pi])
							rs2 := map[string]bool{}
							a.roots(t2, map[ssa.Value]bool{}, rs2)
							tn2 := derefNamed(t2.Type())
							loc2 := tn2 != nil && !tn2.Obj().Exported() && tn2.Obj().Pkg() == b.Lib.Pkg
							if !onlyFresh(rootList(rs2)) && !loc2 {
								// a parameter/receiver of working type in the caller
								okp := true
								for r := range rs2 {
									if r == "fresh" {
										continue
									}
									var qi int
									if n, _ := fmt.Sscanf(r, "param:%d", &qi); n != 1 || qi >= len(caller.Params) {
										okp = false
										continue
									}
									qn := derefNamed(caller.Params[qi].Type())
									if qn == nil || qn.Obj().Exported() || qn.Obj().Pkg() != b.Lib.Pkg {
										okp = false
									}
								}
								if !okp {
									wbad = fmt.Sprintf("call site in %s at %s passes a target with roots %s", fname(caller), b.posOf(cs), strings.Join(rootList(rs2), ", "))
								}
							}
						}
					}
					if wbad != "" {
						l.add("R-EFFECT", b.Name, key, b.posOf(call), Violated, "decoder wrapper: "+wbad, true)
					} else {
						l.add("R-EFFECT", b.Name, key, b.posOf(call), Discharged, fmt.Sprintf("decoder wrapper: each of its %d library call sites passes a fresh local or a working-type object", nCalls), true)
					}
					return
				}
				switch {
				case onlyFresh(rl):
					l.add("R-EFFECT", b.Name, key, b.posOf(call), Discharged, "target is a fresh local ("+typeShort(tgt.Type())+")", true)
				case local:
					l.add("R-EFFECT", b.Name, key, b.posOf(call), Discharged, "target has the call-local working type "+typeShort(tgt.Type())+" (never published: see the publication obligations)", true)
				default:
					l.add("R-EFFECT", b.Name, key, b.posOf(call), Violated, "the decoder writes by reflection into "+typeShort(tgt.Type())+" with roots "+strings.Join(rl, ", "), true)
				}
			})
		}

		// publication: working types never reach globals or Patch/Operation
		{
			nStores := 0
			bad := ""
			for _, fn := range b.srcFuncs(b.Lib) {
				allInstrs(fn, func(i ssa.Instruction) {
					var val, addr ssa.Value
					switch x := i.(type) {
					case *ssa.Store:
						val, addr = x.Val, x.Addr
					case *ssa.MapUpdate:
						val, addr = x.Value, x.Map
					default:
						return
					}
					tn := derefNamed(val.Type())
					if tn == nil || tn.Obj().Exported() || tn.Obj().Pkg() != b.Lib.Pkg {
						return
					}
					nStores++
					rs := map[string]bool{}
					a.roots(addr, map[ssa.Value]bool{}, rs)
					for r := range rs {
						if strings.HasPrefix(r, "global:") {
							bad = fmt.Sprintf("%s stores a %s into package-level variable %s at %s", fname(fn), typeShort(val.Type()), r[7:], b.posOf(i))
						}
					}
					if ok, d := sharedMem(derefPtr(addr.Type())); ok {
						bad = fmt.Sprintf("%s stores a %s into a %s at %s", fname(fn), typeShort(val.Type()), d, b.posOf(i))
					}
					if m, ok := addr.Type().Underlying().(*types.Map); ok {
						if ok2, d := sharedMem(addr.Type()); ok2 {
							_ = m
							bad = fmt.Sprintf("%s stores a %s into a %s at %s", fname(fn), typeShort(val.Type()), d, b.posOf(i))
						}
					}
				})
			}
			key := "publication: no value of an unexported working type is stored into a package-level variable, a Patch or an Operation"
			if bad != "" {
				l.add("R-EFFECT", b.Name, key, "", Violated, bad, true)
			} else {
				l.add("R-EFFECT", b.Name, key, b.rel(b.Lib.Pkg.Scope().Pos()), Discharged, fmt.Sprintf("%d stores of working-type values examined; every destination is a working-type object, a local or a container slot", nStores), true)
			}
			// exported signatures do not mention working types
			bad = ""
			for _, fn := range b.exportedAPI(b.Lib) {
				sig := fn.Signature
				for _, tup := range []*types.Tuple{sig.Params(), sig.Results()} {
					for i := 0; i < tup.Len(); i++ {
						if tn := derefNamed(tup.At(i).Type()); tn != nil && !tn.Obj().Exported() && tn.Obj().Pkg() == b.Lib.Pkg {
							bad = fname(fn) + " exposes " + tn.Obj().Name()
						}
					}
				}
			}
			key = "publication: no exported signature mentions an unexported working type"
			if bad != "" {
				l.add("R-EFFECT", b.Name, key, "", Violated, bad, true)
			} else {
				l.add("R-EFFECT", b.Name, key, "", Discharged, "checked every exported function and method", false)
			}
		}
	}
}

// codecOutputParam: destination parameters of the codec's exported API.
func codecOutputParam(fn *ssa.Function, pi int) bool {
	if pi >= len(fn.Params) {
		return false
	}
	n := fn.Params[pi].Name()
	return n == "dst" || n == "v"
}

// ---- R-GLOBALS --------------------------------------------------------------------

var configGlobals = map[string]bool{"SupportNegativeIndices": true, "AccumulatedCopySizeLimit": true}

var extraGlobalsHook func(c *Ctx, b *Body, pkg *ssa.Package, lab string, g *ssa.Global)

func isSyncContainer(t types.Type) bool {
	n, ok := t.(*types.Named)
	if !ok || n.Obj().Pkg() == nil || n.Obj().Pkg().Path() != "sync" {
		return false
	}
	switch n.Obj().Name() {
	case "Pool", "Map", "Once", "Mutex", "RWMutex":
		return true
	}
	return false
}

func ruleGlobals(c *Ctx) {
	for _, b := range c.bodies() {
		l := c.L
		a := c.effFor(b)
		b.closuresWriteCaptures(l)
		b.noGoroutines(l)
		for _, pkg := range []*ssa.Package{b.Lib, b.Codec} {
			if pkg == nil {
				continue
			}
			lab := b.Name
			if pkg == b.Codec {
				lab = "codec"
			}
			var names []string
			for n, m := range pkg.Members {
				if _, ok := m.(*ssa.Global); ok {
					names = append(names, n)
				}
			}
			sort.Strings(names)
			for _, n := range names {
				g := pkg.Members[n].(*ssa.Global)
				if strings.HasPrefix(n, "init$") {
					continue
				}
				et := g.Type().(*types.Pointer).Elem()
				key := "package variable " + n + " (" + typeShort(et) + ")"
				// stores outside init
				var lateStores []string
				for _, st := range b.globalStores(g) {
					if st.Parent().Name() != "init" || st.Parent().Parent() != nil {
						lateStores = append(lateStores, fname(st.Parent())+" at "+b.posOf(st))
					}
				}
				// element / member writes and address escapes
				var elemWrites, escapes []string
				for _, fn := range a.fns {
					if fn.Pkg != pkg && !(fn.Parent() != nil) {
						// other package of the body may still touch exported globals
					}
					allInstrs(fn, func(i ssa.Instruction) {
						var ops []*ssa.Value
						for _, op := range i.Operands(ops) {
							if *op != ssa.Value(g) {
								continue
							}
							switch x := i.(type) {
							case *ssa.UnOp: // load
							case *ssa.Store:
								if x.Addr == ssa.Value(g) {
									// counted above
								} else {
									escapes = append(escapes, "address stored at "+b.posOf(i))
								}
							case *ssa.FieldAddr, *ssa.IndexAddr:
								// writes through it?
								for _, r := range *x.(ssa.Value).Referrers() {
									if st, ok := r.(*ssa.Store); ok && st.Addr == x.(ssa.Value) {
										if fn.Name() != "init" {
											elemWrites = append(elemWrites, "element/field store at "+b.posOf(st))
										}
									}
								}
							case ssa.CallInstruction:
								com := x.Common()
								f := com.StaticCallee()
								if f != nil && f.Signature.Recv() != nil && len(com.Args) > 0 && com.Args[0] == ssa.Value(g) && isSyncContainer(et) {
									// method of the synchronised container
								} else if fn.Name() != "init" {
									escapes = append(escapes, "address passed to "+calleeLabel(com)+" at "+b.posOf(i))
								}
							case *ssa.DebugRef:
							case *ssa.Return:
								// handed out by an unexported function all of whose callers only read through it
								if why := a.handedOutReadOnly(fn); why != "" {
									escapes = append(escapes, "address returned by "+fname(fn)+" at "+b.posOf(i)+": "+why)
								}
							default:
								escapes = append(escapes, fmt.Sprintf("address used by %T at %s", i, b.posOf(i)))
							}
						}
						// writes into the memory a loaded global slice/map refers to
						switch x := i.(type) {
						case *ssa.Store:
							if ia, ok := x.Addr.(*ssa.IndexAddr); ok && loadedGlobal(ia.X) == g && fn.Name() != "init" {
								elemWrites = append(elemWrites, "element store at "+b.posOf(i))
							}
							// a field of the object the variable points to
							if fa, ok := x.Addr.(*ssa.FieldAddr); ok && loadedGlobal(fa.X) == g && fn.Name() != "init" {
								elemWrites = append(elemWrites, "store into field "+fieldOfAddr(fa).Field+" of the object it points to at "+b.posOf(i))
							}
						case *ssa.MapUpdate:
							if loadedGlobal(x.Map) == g && fn.Name() != "init" {
								elemWrites = append(elemWrites, "map update at "+b.posOf(i))
							}
						}
					})
				}
				// passing the loaded slice to a writer (summary)
				for _, fn := range a.fns {
					for _, s := range a.collect(fn) {
						for _, r := range s.roots {
							if r == "global:"+n && fn.Name() != "init" {
								elemWrites = append(elemWrites, s.kind+" at "+b.posOf(s.ins))
							}
						}
					}
				}
				// the memory a slice- or map-typed variable refers to is not handed on: a loaded value
				// that is stored into another object, appended onto, or returned lets later code write
				// (append within capacity, element stores) into memory every call shares
				if isSliceOrMap(et) {
					for _, fn := range a.fns {
						if fn.Name() == "init" && fn.Parent() == nil {
							continue
						}
						allInstrs(fn, func(i ssa.Instruction) {
							ld, ok := i.(*ssa.UnOp)
							if !ok || ld.Op != token.MUL || ld.X != ssa.Value(g) {
								return
							}
							seen := map[ssa.Value]bool{}
							var follow func(v ssa.Value)
							follow = func(v ssa.Value) {
								if seen[v] || v.Referrers() == nil {
									return
								}
								seen[v] = true
								for _, r := range *v.Referrers() {
									switch x := r.(type) {
									case *ssa.Slice:
										if x.X == v {
											follow(x)
										}
									case *ssa.ChangeType:
										follow(x)
									case *ssa.Phi:
										follow(x)
									case *ssa.Store:
										if x.Val == v {
											if al, isAl := rootOfAddr(x.Addr).(*ssa.Alloc); isAl && !al.Heap {
												continue
											}
											escapes = append(escapes, "the memory it refers to is stored into another object at "+b.posOf(x)+" (later writes through that object — append within capacity, element stores — land in memory every call shares)")
										}
									case *ssa.Return:
										// to the caller of the library, directly or through the unexported
										// function an exported one hands the result of
										if fn.Parent() == nil && (token.IsExported(fn.Name()) || b.resultReachesExported(fn, 0)) {
											escapes = append(escapes, "the memory it refers to is returned to the caller at "+b.posOf(x))
										}
									case *ssa.Call:
										if bi, isB := x.Call.Value.(*ssa.Builtin); isB && bi.Name() == "append" && len(x.Call.Args) > 0 && x.Call.Args[0] == v {
											if sl, isSl := et.Underlying().(*types.Slice); isSl && !isConstLenZeroCap(b, g) {
												_ = sl
												elemWrites = append(elemWrites, "appended onto at "+b.posOf(x)+" (writes into the shared backing array while capacity lasts)")
											}
										}
									}
								}
							}
							follow(ld)
						})
					}
				}
				// a struct that holds references (a map, a slice, a pointer) or a lock, copied as a
				// whole: the copy shares what the variable refers to and has a lock of its own, so a
				// method with a value receiver writes the shared map under a lock nobody else holds
				if st, isStruct := et.Underlying().(*types.Struct); isStruct && !isSyncContainer(et) {
					holds := ""
					for fi := 0; fi < st.NumFields(); fi++ {
						ft := st.Field(fi).Type()
						switch ft.Underlying().(type) {
						case *types.Map, *types.Slice, *types.Pointer, *types.Chan:
							holds = st.Field(fi).Name()
						}
						if isSyncContainer(ft) || strings.HasPrefix(types.TypeString(ft, nil), "sync.") {
							holds = st.Field(fi).Name()
						}
					}
					if holds != "" {
						for _, fn := range a.fns {
							if fn.Name() == "init" && fn.Parent() == nil {
								continue
							}
							allInstrs(fn, func(i ssa.Instruction) {
								if ld, ok := i.(*ssa.UnOp); ok && ld.Op == token.MUL && ld.X == ssa.Value(g) {
									escapes = append(escapes, "copied as a whole at "+b.posOf(ld)+" (field "+holds+"): the copy shares what the variable refers to and carries a lock of its own — a value-receiver method writes shared memory unsynchronised")
								}
							})
						}
					}
				}
				if n, ok := et.(*types.Named); ok && isSyncContainer(et) && n.Obj().Name() == "Map" && extraGlobalsHook != nil {
					extraGlobalsHook(c, b, pkg, lab, g)
				}
				switch {
				case isSyncContainer(et):
					if len(lateStores)+len(escapes)+len(elemWrites) > 0 {
						l.add("R-GLOBALS", lab, key, b.rel(g.Pos()), Violated, "synchronised container used other than through its methods: "+strings.Join(append(append(lateStores, escapes...), elemWrites...), "; "), true)
					} else {
						l.add("R-GLOBALS", lab, key, b.rel(g.Pos()), Discharged, "class: synchronised container (sync."+et.(*types.Named).Obj().Name()+"), used only as the receiver of its methods", true)
					}
				case configGlobals[n] && pkg == b.Lib:
					if len(lateStores)+len(escapes)+len(elemWrites) > 0 {
						l.add("R-GLOBALS", lab, key, b.rel(g.Pos()), Violated, "library code writes the documented configuration variable: "+strings.Join(append(append(lateStores, escapes...), elemWrites...), "; "), true)
					} else {
						l.add("R-GLOBALS", lab, key, b.rel(g.Pos()), Discharged, "class: documented configuration; library (non-test) code only reads it", true)
					}
				default:
					if len(lateStores)+len(escapes)+len(elemWrites) > 0 {
						l.add("R-GLOBALS", lab, key, b.rel(g.Pos()), Violated, "mutable package-level state: "+strings.Join(append(append(lateStores, escapes...), elemWrites...), "; "), true)
					} else {
						l.add("R-GLOBALS", lab, key, b.rel(g.Pos()), Discharged, "class: immutable after package initialisation (no store outside init, no element or member write, address never escapes)", true)
					}
				}
			}
		}
	}
}

// ---- R-POOL -----------------------------------------------------------------------

func isPoolCall(c *ssa.CallCommon, name string) bool {
	f := c.StaticCallee()
	return f != nil && methodIs(f, "sync", "Pool", name)
}

// derivedFrom: v is computed from base through field addresses, loads,
// slicing, conversions, method calls on it (result may alias).
func derivedFrom(v, base ssa.Value, depth int) bool {
	if depth > 12 || v == nil {
		return false
	}
	if v == base {
		return true
	}
	if isErrorType(v.Type()) {
		return false // an error value does not carry a reference into the object's buffers
	}
	switch x := v.(type) {
	case *ssa.FieldAddr:
		return derivedFrom(x.X, base, depth+1)
	case *ssa.IndexAddr:
		return derivedFrom(x.X, base, depth+1)
	case *ssa.Slice:
		return derivedFrom(x.X, base, depth+1)
	case *ssa.UnOp:
		return derivedFrom(x.X, base, depth+1)
	case *ssa.ChangeType:
		return derivedFrom(x.X, base, depth+1)
	case *ssa.Convert:
		if bt, ok := x.X.Type().Underlying().(*types.Basic); ok && bt.Info()&types.IsString != 0 {
			return false
		}
		if bt, ok := x.Type().Underlying().(*types.Basic); ok && bt.Info()&types.IsString != 0 {
			return false // string(bytes) copies
		}
		return derivedFrom(x.X, base, depth+1)
	case *ssa.MakeInterface:
		return derivedFrom(x.X, base, depth+1)
	case *ssa.TypeAssert:
		return derivedFrom(x.X, base, depth+1)
	case *ssa.Phi:
		for _, e := range x.Edges {
			if derivedFrom(e, base, depth+1) {
				return true
			}
		}
	case *ssa.Extract:
		return derivedFrom(x.Tuple, base, depth+1)
	case *ssa.Call:
		if bi, ok := x.Call.Value.(*ssa.Builtin); ok {
			if bi.Name() == "append" {
				return derivedFrom(x.Call.Args[0], base, depth+1)
			}
			return false
		}
		// method on (something derived from) the object returning a reference type
		if !canAlias(x.Type()) {
			return false
		}
		for _, a := range callArgs(&x.Call) {
			if canAlias(a.Type()) && derivedFrom(a, base, depth+1) {
				return true
			}
		}
	}
	return false
}

func canAlias(t types.Type) bool {
	switch u := t.Underlying().(type) {
	case *types.Slice, *types.Pointer, *types.Map, *types.Interface, *types.Chan:
		return true
	case *types.Tuple:
		for i := 0; i < u.Len(); i++ {
			if canAlias(u.At(i).Type()) {
				return true
			}
		}
	case *types.Struct:
		return true
	}
	return false
}

func reachableAfter(b *Body, from ssa.Instruction) map[ssa.Instruction]bool {
	out := map[ssa.Instruction]bool{}
	blk := from.Block()
	past := false
	for _, i := range blk.Instrs {
		if past {
			out[i] = true
		}
		if i == from {
			past = true
		}
	}
	seen := map[*ssa.BasicBlock]bool{}
	var walk func(bb *ssa.BasicBlock)
	walk = func(bb *ssa.BasicBlock) {
		if seen[bb] {
			return
		}
		seen[bb] = true
		for _, i := range bb.Instrs {
			out[i] = true
		}
		for _, s := range bb.Succs {
			walk(s)
		}
	}
	for _, s := range blk.Succs {
		walk(s)
	}
	return out
}

func rulePool(c *Ctx) {
	for _, b := range c.bodies() {
		if b.Codec != nil {
			rulePoolOver(c, b, b.srcFuncs(b.Codec), "codec")
		}
		rulePoolOver(c, b, b.srcFuncs(b.Lib), b.Name)
	}
}

func rulePoolOver(c *Ctx, b *Body, fns []*ssa.Function, lab string) {
	l := c.L
	b.putThenUse(l, fns, lab)
	// the lastKeys exception is structural: see below
	// acquire functions: return (a type assertion of) a Pool.Get result; release
	// functions: hand a parameter to Pool.Put.
	acquire := map[*ssa.Function]string{}
	release := map[*ssa.Function]int{}
	for _, fn := range fns {
		allInstrs(fn, func(i ssa.Instruction) {
			call, ok := i.(*ssa.Call)
			if !ok {
				return
			}
			if isPoolCall(&call.Call, "Get") {
				for _, r := range liveReturns(fn) {
					for _, rv := range r.Results {
						if derivedFrom(rv, call, 0) {
							if gl, ok := call.Call.Args[0].(*ssa.Global); ok {
								acquire[fn] = gl.Name()
							} else {
								acquire[fn] = "?"
							}
						}
					}
				}
			}
			if isPoolCall(&call.Call, "Put") && len(call.Call.Args) == 2 {
				if p, ok := unwrapConv(call.Call.Args[1]).(*ssa.Parameter); ok {
					release[fn] = paramIdx(p)
				}
			}
		})
	}
	isRelease := func(com *ssa.CallCommon) (ssa.Value, bool) {
		if isPoolCall(com, "Put") && len(com.Args) == 2 {
			return com.Args[1], true
		}
		if f := com.StaticCallee(); f != nil {
			if pi, ok := release[f]; ok && pi < len(com.Args) {
				return com.Args[pi], true
			}
		}
		return nil, false
	}
	// a map or slice taken from a pool still holds what its last user left in it: it is emptied
	// before anything else is done with it (whatever that user did or failed to do before the Put)
	for _, fn := range fns {
		n := 0
		allInstrs(fn, func(i ssa.Instruction) {
			ta, ok := i.(*ssa.TypeAssert)
			if !ok {
				return
			}
			call, ok := ta.X.(*ssa.Call)
			if !ok || !isPoolCall(&call.Call, "Get") {
				return
			}
			var kind string
			switch ta.AssertedType.Underlying().(type) {
			case *types.Map:
				kind = "map"
			case *types.Slice:
				kind = "slice"
			default:
				return
			}
			n++
			key := fmt.Sprintf("%s: recycled %s #%d is emptied before it is used", fname(fn), kind, n)
			var obj ssa.Value = ta
			if ta.CommaOk {
				for _, ex := range extractOf(ta, 0) {
					obj = ex
				}
			}
			if why := emptiedFirst(obj, kind); why == "" {
				l.add("R-POOL", lab, key, b.posOf(ta), Discharged, "every use lies behind the loop that deletes all its members (or is the reslice to length 0)", true)
			} else {
				l.add("R-POOL", lab, key, b.posOf(ta), Violated, "a "+kind+" taken from a pool is used as it comes ("+why+"): whatever its last user left in it — a call that failed before its own clean-up included — becomes part of this call's data", true)
			}
		})
	}
	// what goes into a pool is an object of its own: the address of a field or element of another
	// object stays reachable through that object — which is still in use, or sits in a pool
	// itself — so two takers end up sharing it
	for _, fn := range fns {
		n := 0
		allInstrs(fn, func(i ssa.Instruction) {
			ci, ok := i.(ssa.CallInstruction)
			if !ok {
				return
			}
			rv, isRel := isRelease(ci.Common())
			if !isRel {
				return
			}
			n++
			key := fmt.Sprintf("%s: release #%d hands the pool an object of its own, not a part of another one", fname(fn), n)
			switch x := unwrapConv(rv).(type) {
			case *ssa.FieldAddr:
				l.add("R-POOL", lab, key, b.posOf(i), Violated, "the address of field "+fieldOfAddr(x).Field+" of "+roleOf(x.X)+" is put into a pool: the enclosing object keeps using it (or is pooled too), so the next taker shares it with that object's next user", true)
			case *ssa.IndexAddr:
				l.add("R-POOL", lab, key, b.posOf(i), Violated, "the address of an element is put into a pool: the slice or array it belongs to still refers to it", true)
			default:
				l.add("R-POOL", lab, key, b.posOf(i), Discharged, "released value is "+roleOf(rv), true)
			}
		})
	}
	for _, fn := range fns {
		var gets []*ssa.Call
		allInstrs(fn, func(i ssa.Instruction) {
			if call, ok := i.(*ssa.Call); ok {
				if isPoolCall(&call.Call, "Get") {
					gets = append(gets, call)
				} else if f := call.Call.StaticCallee(); f != nil && acquire[f] != "" {
					gets = append(gets, call)
				}
			}
		})
		for gi, g := range gets {
			pool := "?"
			if isPoolCall(&g.Call, "Get") {
				if gl, ok := g.Call.Args[0].(*ssa.Global); ok {
					pool = gl.Name()
				}
			} else {
				pool = acquire[g.Call.StaticCallee()] + " (through " + fname(g.Call.StaticCallee()) + ")"
			}
			// the object: the Get result and its type assertions
			objs := map[ssa.Value]bool{g: true}
			for changed := true; changed; {
				changed = false
				allInstrs(fn, func(i ssa.Instruction) {
					switch x := i.(type) {
					case *ssa.TypeAssert:
						if objs[x.X] && !objs[x] {
							objs[x] = true
							changed = true
						}
					case *ssa.Extract:
						if objs[x.Tuple] && !objs[x] {
							objs[x] = true
							changed = true
						}
					case *ssa.Phi:
						for _, e := range x.Edges {
							if objs[e] && !objs[x] {
								objs[x] = true
								changed = true
							}
						}
					}
				})
			}
			isObj := func(v ssa.Value) bool {
				for o := range objs {
					if derivedFrom(v, o, 0) {
						return true
					}
				}
				return false
			}
			base := fmt.Sprintf("%s: pool %s Get #%d", fname(fn), pool, gi+1)

			// a constructor that returns the pooled object hands ownership to its caller
			returnsObj := false
			for _, r := range liveReturns(fn) {
				for _, rv := range r.Results {
					if objs[rv] {
						returnsObj = true
					}
				}
			}
			if returnsObj {
				l.add("R-POOL", lab, base+": ownership", b.posOf(g), Discharged, "constructor: the pooled object is returned to the caller, whose own Get-window obligations are generated at its call sites (callers: "+strings.Join(b.callersOf(fn), ", ")+")", true)
				// treat callers of the constructor as Get sites
				continue
			}

			// use after Put
			var puts []ssa.Instruction
			deferred := false
			allInstrs(fn, func(i ssa.Instruction) {
				switch x := i.(type) {
				case *ssa.Defer:
					if v, ok := isRelease(&x.Call); ok && isObj(v) {
						deferred = true
					}
				case *ssa.Call:
					if v, ok := isRelease(&x.Call); ok && isObj(v) {
						puts = append(puts, x)
					}
				}
			})
			bad := ""
			for _, p := range puts {
				after := reachableAfter(b, p)
				for ins := range after {
					if ins == p {
						continue
					}
					if _, isDbg := ins.(*ssa.DebugRef); isDbg {
						continue
					}
					var ops []*ssa.Value
					for _, op := range ins.Operands(ops) {
						if *op != nil && isObj(*op) {
							if _, isPhi := ins.(*ssa.Phi); isPhi {
								continue
							}
							bad = "the object is used at " + b.posOf(ins) + " after it was handed back to the pool at " + b.posOf(p) + " (another call may already own it)"
						}
					}
				}
			}
			if deferred && len(puts) > 0 {
				bad = "the object is handed back at " + b.posOf(puts[0]) + " and again by the deferred Put when the function returns: the pool then holds it twice, and two later calls get the same object"
			}
			for _, p := range puts {
				after := reachableAfter(b, p)
				for _, q := range puts {
					if q != p && after[q] {
						bad = "the object is handed back at " + b.posOf(p) + " and again at " + b.posOf(q) + ": the pool then holds it twice, and two later calls get the same object"
					}
				}
			}
			key := base + ": no use after Put"
			switch {
			case bad != "":
				l.add("R-POOL", lab, key, b.posOf(g), Violated, bad, true)
			case deferred:
				l.add("R-POOL", lab, key, b.posOf(g), Discharged, "Put is deferred: it runs after the last use, on every exit", true)
			case len(puts) > 0:
				l.add("R-POOL", lab, key, b.posOf(g), Discharged, fmt.Sprintf("%d direct Put call(s); no instruction reachable after any of them uses the object", len(puts)), true)
			default:
				l.add("R-POOL", lab, key, b.posOf(g), Discharged, "the object is never Put back in this function (costs an allocation, shares nothing)", true)
			}

			// not stored anywhere that outlives the call
			bad = ""
			allInstrs(fn, func(i ssa.Instruction) {
				switch x := i.(type) {
				case *ssa.Store:
					if isObj(x.Val) && canAlias(x.Val.Type()) && !isObj(x.Addr) {
						if al, ok := rootOfAddr(x.Addr).(*ssa.Alloc); ok && !al.Heap {
							return
						}
						if _, ok := rootOfAddr(x.Addr).(*ssa.Alloc); ok {
							return // local (possibly escaping only through the deferred closure)
						}
						bad = "a reference into the pooled object is stored at " + b.posOf(i) + " into memory that outlives the Get/Put window"
					}
				case *ssa.MapUpdate:
					if isObj(x.Value) && !isObj(x.Map) {
						bad = "a reference into the pooled object is stored into a map at " + b.posOf(i)
					}
				}
			})
			key = base + ": not retained"
			if bad != "" {
				l.add("R-POOL", lab, key, b.posOf(g), Violated, bad, true)
			} else {
				l.add("R-POOL", lab, key, b.posOf(g), Discharged, "no store of the object (or of a reference derived from it) outside the object itself and locals", true)
			}

			// no returned value aliases the object
			for _, r := range liveReturns(fn) {
				for ri := range r.Results {
					rv := retVal(r, ri)
					if !canAlias(rv.Type()) || isErrorType(rv.Type()) {
						continue
					}
					key := fmt.Sprintf("%s: result %d of return #%s does not alias the pooled object", base, ri, b.retOrdinal(r))
					if isObj(rv) {
						if ok, why := b.lastKeysException(rv); ok {
							l.add("R-POOL", lab, key, b.posOf(r), Excepted, why, true)
						} else {
							l.add("R-POOL", lab, key, b.posOf(r), Violated, "the returned "+typeShort(rv.Type())+" refers to memory owned by the pooled object: the next call that gets the object overwrites the caller's result", true)
						}
					} else {
						l.add("R-POOL", lab, key, b.posOf(r), Discharged, "result is "+describeValue(rv)+", not derived from the pooled object", true)
					}
				}
			}
		}
	}
}

func (b *Body) callersOf(f *ssa.Function) []string {
	var out []string
	for _, fn := range b.srcFuncs(b.Lib, b.Codec) {
		if len(callsTo(fn, func(cc *ssa.CallCommon) bool { return cc.StaticCallee() == f })) > 0 {
			out = append(out, fname(fn))
		}
	}
	sort.Strings(out)
	return out
}

// lastKeysException: the returned value is the load of a []string field of
// the pooled decodeState all of whose stores (anywhere in the codec) are
// whole-header stores of a slice that is fresh in the storing function, and
// nothing appends to or indexes into the field in place: the header handed
// out is never written again, only replaced.
func (b *Body) lastKeysException(rv ssa.Value) (bool, string) {
	base, fr, ok := fieldLoad(rv)
	_ = base
	if !ok {
		// the result of a codec helper applied to the pooled object: each value the helper can
		// return must itself qualify (decodeIntoWithKeys returns d.lastKeys)
		var call *ssa.Call
		idx := 0
		switch x := rv.(type) {
		case *ssa.Extract:
			call, _ = x.Tuple.(*ssa.Call)
			idx = x.Index
		case *ssa.Call:
			call = x
		}
		if call == nil {
			return false, ""
		}
		f := call.Call.StaticCallee()
		if f == nil || f.Pkg != b.Codec || len(f.Blocks) == 0 {
			return false, ""
		}
		why := ""
		n := 0
		for _, r := range liveReturns(f) {
			if idx >= len(r.Results) {
				return false, ""
			}
			v := r.Results[idx]
			if isNilConst(v) {
				continue
			}
			ok2, w := b.lastKeysException(v)
			if !ok2 {
				return false, w
			}
			why = w
			n++
		}
		if n == 0 {
			return false, ""
		}
		return true, why + " (handed on by " + fname(f) + ")"
	}
	if _, isSlice := rv.Type().Underlying().(*types.Slice); !isSlice {
		return false, ""
	}
	nStores := 0
	for _, fn := range b.srcFuncs(b.Codec) {
		bad := ""
		allInstrs(fn, func(i ssa.Instruction) {
			switch x := i.(type) {
			case *ssa.Store:
				if fa, ok := x.Addr.(*ssa.FieldAddr); ok {
					f2 := fieldOfAddr(fa)
					if f2 == fr {
						nStores++
						// stored value must be fresh in fn: built by append chains from nil/make in this function
						if !freshSliceIn(x.Val, map[ssa.Value]bool{}) {
							bad = "store of a non-fresh slice into " + fr.Type + "." + fr.Field + " at " + b.posOf(i)
						}
					}
				}
				if ia, ok := x.Addr.(*ssa.IndexAddr); ok {
					if _, f2, ok := fieldLoad(ia.X); ok && f2 == fr {
						bad = "element store into " + fr.Field + " at " + b.posOf(i)
					}
				}
			case *ssa.Call:
				if bi, ok := x.Call.Value.(*ssa.Builtin); ok && bi.Name() == "append" {
					if _, f2, ok := fieldLoad(x.Call.Args[0]); ok && f2 == fr {
						bad = "append to " + fr.Field + " in place at " + b.posOf(i)
					}
				}
			}
		})
		if bad != "" {
			return false, bad
		}
	}
	if nStores == 0 {
		return false, ""
	}
	return true, fmt.Sprintf("reviewed exception: the result is the header held in %s.%s; all %d stores to that field are whole-header stores of a slice freshly built in the storing function, and nothing appends to or writes elements of the field in place, so the handed-out header is never written again (its staleness for non-object input is R-KEYS iv / R-POOLINIT's concern)", fr.Type, fr.Field, nStores)
}

// freshSliceIn: v is nil, a make, or append chains/phis over such values within one function.
func freshSliceIn(v ssa.Value, seen map[ssa.Value]bool) bool {
	if seen[v] {
		return true
	}
	seen[v] = true
	switch x := v.(type) {
	case *ssa.Const:
		return x.Value == nil
	case *ssa.MakeSlice:
		return true
	case *ssa.Phi:
		for _, e := range x.Edges {
			if !freshSliceIn(e, seen) {
				return false
			}
		}
		return true
	case *ssa.Call:
		if bi, ok := x.Call.Value.(*ssa.Builtin); ok && bi.Name() == "append" {
			return freshSliceIn(x.Call.Args[0], seen)
		}
	case *ssa.UnOp:
		if al, ok := x.X.(*ssa.Alloc); ok && x.Op == token.MUL {
			okAll := true
			for _, r := range *al.Referrers() {
				if st, ok := r.(*ssa.Store); ok && st.Addr == ssa.Value(al) {
					if !freshSliceIn(st.Val, seen) {
						okAll = false
					}
				}
			}
			return okAll
		}
	case *ssa.Slice:
		return freshSliceIn(x.X, seen)
	}
	return false
}

func isSliceOrMap(t types.Type) bool {
	switch t.Underlying().(type) {
	case *types.Slice, *types.Map:
		return true
	}
	return false
}

// isConstLenZeroCap: placeholder for globals known to have no spare capacity (none today).
func isConstLenZeroCap(b *Body, g *ssa.Global) bool { return false }

// handedOutReadOnly: fn is an unexported function that is only ever called directly, and what
// every call yields is used for reading alone (element or field loads, possibly through phis).
// Returns "" when that holds, else what stands against it.
func (a *effAn) handedOutReadOnly(fn *ssa.Function) string {
	if fn.Parent() != nil || token.IsExported(fn.Name()) || fn.Signature.Recv() != nil {
		return "the function is exported, a method or a closure: its callers are not all known"
	}
	var readOnly func(v ssa.Value, depth int) string
	readOnly = func(v ssa.Value, depth int) string {
		if depth > 4 {
			return "followed too far"
		}
		for _, r := range *v.Referrers() {
			switch x := r.(type) {
			case *ssa.DebugRef:
			case *ssa.UnOp:
				if x.Op != token.MUL {
					return "used by an operator at " + a.b.posOf(x)
				}
			case *ssa.IndexAddr, *ssa.FieldAddr:
				for _, r2 := range *x.(ssa.Value).Referrers() {
					switch y := r2.(type) {
					case *ssa.DebugRef:
					case *ssa.UnOp:
						if y.Op != token.MUL {
							return "element address used by an operator at " + a.b.posOf(y)
						}
					default:
						return "element address used by something other than a load at " + a.b.posOf(r2)
					}
				}
			case *ssa.Phi:
				if why := readOnly(x, depth+1); why != "" {
					return why
				}
			default:
				return fmt.Sprintf("the pointer is used by %T at %s", r, a.b.posOf(r))
			}
		}
		return ""
	}
	sites := 0
	for _, h := range a.fns {
		bad := ""
		allInstrs(h, func(j ssa.Instruction) {
			for _, op := range j.Operands(nil) {
				if *op != ssa.Value(fn) {
					continue
				}
				cj, isCall := j.(*ssa.Call)
				if !isCall || cj.Call.Value != ssa.Value(fn) {
					bad = "the function is used as a value at " + a.b.posOf(j)
					return
				}
				sites++
				if _, isTuple := cj.Type().(*types.Tuple); isTuple {
					bad = "several results"
					return
				}
				if why := readOnly(cj, 0); why != "" {
					bad = why
				}
			}
		})
		if bad != "" {
			return bad
		}
	}
	if sites == 0 {
		return "nothing calls the function"
	}
	return ""
}

// emptiedFirst: every use of the recycled map m lies behind a loop that ranges over m deleting
// each key (the loop's own instructions aside); for a slice, every use is the reslice [:0].
// Returns "" when that holds, else the first use that stands against it.
func emptiedFirst(m ssa.Value, kind string) string {
	refs := m.Referrers()
	if refs == nil {
		return ""
	}
	if kind == "slice" {
		for _, r := range *refs {
			switch x := r.(type) {
			case *ssa.DebugRef:
			case *ssa.Slice:
				if k, ok := intConst(x.High); !ok || k != 0 {
					return "resliced to something other than length 0"
				}
			default:
				return fmt.Sprintf("used by %T before being cut to length 0", r)
			}
		}
		return ""
	}
	// the clearing loop
	var header *ssa.BasicBlock
	loopInstr := map[ssa.Instruction]bool{}
	for _, r := range *refs {
		rg, ok := r.(*ssa.Range)
		if !ok {
			continue
		}
		for _, r2 := range *rg.Referrers() {
			nx, ok := r2.(*ssa.Next)
			if !ok {
				continue
			}
			// delete(m, key-of-this-next) somewhere in the loop
			for _, r3 := range *refs {
				del, ok := r3.(*ssa.Call)
				if !ok {
					continue
				}
				bi, isB := del.Call.Value.(*ssa.Builtin)
				if !isB || bi.Name() != "delete" || len(del.Call.Args) != 2 || del.Call.Args[0] != m {
					continue
				}
				if ex, ok := del.Call.Args[1].(*ssa.Extract); ok && ex.Tuple == ssa.Value(nx) && ex.Index == 1 {
					header = nx.Block()
					loopInstr[rg] = true
					loopInstr[del] = true
				}
			}
		}
	}
	if header == nil {
		return "no loop deletes its members"
	}
	body := naturalLoop(header)
	for _, r := range *refs {
		if loopInstr[r] {
			continue
		}
		if _, isDbg := r.(*ssa.DebugRef); isDbg {
			continue
		}
		if body[r.Block()] || !header.Dominates(r.Block()) {
			return fmt.Sprintf("used by %T before (or besides) the loop that empties it", r)
		}
	}
	return ""
}

// resultReachesExported: some caller of fn in the library returns what fn returned, and is
// exported (or hands it on the same way).
func (b *Body) resultReachesExported(fn *ssa.Function, depth int) bool {
	if fn == nil || depth > 3 {
		return false
	}
	found := false
	for _, g := range b.srcFuncs(b.Lib) {
		if found {
			break
		}
		allInstrs(g, func(i ssa.Instruction) {
			call, ok := i.(*ssa.Call)
			if !ok || call.Call.StaticCallee() != fn || found {
				return
			}
			returned := false
			var vals []ssa.Value
			vals = append(vals, call)
			for _, ex := range extractOf(call, 0) {
				vals = append(vals, ex)
			}
			for _, v := range vals {
				if v.Referrers() == nil {
					continue
				}
				for _, r := range *v.Referrers() {
					if _, isRet := r.(*ssa.Return); isRet {
						returned = true
					}
				}
			}
			if returned && (g.Parent() == nil && (token.IsExported(g.Name()) || b.resultReachesExported(g, depth+1))) {
				found = true
			}
		})
	}
	return found
}
