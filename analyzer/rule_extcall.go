package main

// R-PANIC, census of the callees outside the module: the library bodies hand values to the
// standard library only through functions that were reviewed as returning for every argument
// the library can give them. A call into a package that is not in the table (math/big, regexp,
// unsafe, …) or to an unreviewed function of a package reviewed function by function is
// reported: whether it can panic on some document is not something the other rules see.

import (
	"fmt"
	"sort"
	"strings"

	"golang.org/x/tools/go/ssa"
)

// packages all of whose functions the library may call: they panic only on arguments the
// rules bound elsewhere (negative counts and lengths: R-BOUNDS) or on resource exhaustion
var extPkgReviewed = map[string]string{
	"bytes":         "pure functions over byte slices and Buffer; Buffer panics only on exhaustion (ErrTooLarge)",
	"strings":       "pure functions over strings; Repeat with a negative count is covered by R-BOUNDS' make/count obligations",
	"strconv":       "conversions report errors through their result",
	"errors":        "New/Is/As/Unwrap",
	"fmt":           "formatting recovers from panics in Error/String methods",
	"unicode":       "table lookups",
	"unicode/utf8":  "total functions over bytes",
	"sort":          "sorting with the library's own comparison functions",
	"io":            "interfaces only",
	"sync":          "Pool / Map / WaitGroup used as documented",
	"sync/atomic":   "total",
	"math":          "total functions over numbers",
	"math/bits":     "total",
	"unicode/utf16": "total",
	"cmp":           "total",
	"os":            "command only",
	"flag":          "command only",
	"log":           "command only",
	"io/ioutil":     "command only",
}

// reviewed function by function
var extFnReviewed = map[string]string{
	"reflect.TypeOf":    "total (nil interface gives a nil Type, compared with !=)",
	"reflect.DeepEqual": "total",
	"slices.Contains":   "reads only", "slices.Index": "reads only", "slices.Equal": "reads only", "slices.Clone": "copies", "slices.IndexFunc": "reads only", "slices.ContainsFunc": "reads only",
	"maps.Clone": "copies", "maps.Keys": "reads only",
	"encoding/json.Unmarshal":                   "returns an error for ill-formed text (legacy body; C18/C19 trust the standard decoder)",
	"encoding/json.Marshal":                     "returns an error",
	"encoding/json.MarshalIndent":               "returns an error",
	"encoding/json.Valid":                       "total",
	"encoding/json.Compact":                     "returns an error",
	"encoding/json.Indent":                      "returns an error",
	"encoding/json.NewDecoder":                  "total",
	"encoding/json.NewEncoder":                  "total",
	"(*encoding/json.Decoder).Decode":           "returns an error",
	"(*encoding/json.Encoder).Encode":           "returns an error",
	"(*encoding/json.Encoder).SetEscapeHTML":    "total",
	"(*encoding/json.Decoder).UseNumber":        "total",
	"(encoding/json.RawMessage).MarshalJSON":    "total",
	"(*encoding/json.RawMessage).UnmarshalJSON": "reports a nil receiver as an error",
	"(encoding/json.Number).String":             "total",
}

func extName(f *ssa.Function) string {
	s := f.String()
	return s
}

func (b *Body) extCallCensus(l *Ledger, modPrefix string) {
	type use struct {
		pos string
		fn  string
	}
	perPkg := map[string]map[string][]use{}
	for _, fn := range b.srcFuncs(b.Lib) {
		allInstrs(fn, func(i ssa.Instruction) {
			ci, ok := i.(ssa.CallInstruction)
			if !ok {
				return
			}
			f := ci.Common().StaticCallee()
			if f == nil || f.Pkg == nil || f.Pkg.Pkg == nil {
				return
			}
			if f.Name() == "init" {
				return // package initialisation order, not a call with an argument
			}
			pp := f.Pkg.Pkg.Path()
			if strings.HasPrefix(pp, modPrefix) {
				return
			}
			if perPkg[pp] == nil {
				perPkg[pp] = map[string][]use{}
			}
			perPkg[pp][extName(f)] = append(perPkg[pp][extName(f)], use{b.posOf(i), fname(fn)})
		})
	}
	var pkgs []string
	for p := range perPkg {
		pkgs = append(pkgs, p)
	}
	sort.Strings(pkgs)
	for _, p := range pkgs {
		var fns []string
		for f := range perPkg[p] {
			fns = append(fns, f)
		}
		sort.Strings(fns)
		key := "callees in package " + p + " are reviewed as returning for every argument"
		if why, ok := extPkgReviewed[p]; ok {
			l.add("R-PANIC", b.Name, key, "", Discharged, fmt.Sprintf("%d function(s) used (%s): %s", len(fns), strings.Join(fns, ", "), why), true)
			continue
		}
		bad := ""
		badPos := ""
		for _, f := range fns {
			if _, ok := extFnReviewed[f]; !ok {
				u := perPkg[p][f][0]
				bad = fmt.Sprintf("%s, called in %s, is not among the reviewed callees: whether it returns for every value a document can put there (a nil result dereferenced, a panic on malformed input) is not covered by any rule", f, u.fn)
				badPos = u.pos
			}
		}
		if bad != "" {
			l.add("R-PANIC", b.Name, key, badPos, Violated, bad, true)
		} else {
			l.add("R-PANIC", b.Name, key, "", Discharged, fmt.Sprintf("%d function(s) used, each reviewed: %s", len(fns), strings.Join(fns, ", ")), true)
		}
	}
}
