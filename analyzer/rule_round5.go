package main

// Obligations added after the fifth round of seeded changes.

import (
	"fmt"
	"go/token"
	"go/types"
	"sort"
	"strings"

	"golang.org/x/tools/go/ssa"
)

// printsAddress: formatting a value of this type with %v / %s / %+v writes a heap address —
// a pointer to anything but a struct at the top level, or any pointer below the top level —
// unless the type formats itself (error, Stringer, Formatter).
func printsAddress(t types.Type, top bool, depth int) bool {
	if depth > 5 {
		return false
	}
	ms := types.NewMethodSet(t)
	for _, name := range []string{"Error", "String", "Format", "GoString"} {
		if ms.Lookup(nil, name) != nil {
			return false
		}
	}
	switch u := types.Unalias(t).Underlying().(type) {
	case *types.Pointer:
		if top {
			if _, isStruct := u.Elem().Underlying().(*types.Struct); isStruct {
				return printsAddress(u.Elem(), false, depth+1)
			}
		}
		return true
	case *types.Map:
		return printsAddress(u.Key(), false, depth+1) || printsAddress(u.Elem(), false, depth+1)
	case *types.Slice:
		return printsAddress(u.Elem(), false, depth+1)
	case *types.Array:
		return printsAddress(u.Elem(), false, depth+1)
	case *types.Struct:
		for i := 0; i < u.NumFields(); i++ {
			if printsAddress(u.Field(i).Type(), false, depth+1) {
				return true
			}
		}
	case *types.Chan, *types.Signature:
		return true
	}
	return false
}

// addressesInText (R-MAPORDER): no heap address is formatted into an error or a result. The
// text of an error is part of "the same error": a map of pointers printed with %v differs
// from call to call.
func (b *Body) addressesInText(l *Ledger) {
	n := 0
	for _, fn := range b.srcFuncs(b.Lib) {
		k := 0
		allInstrs(fn, func(i ssa.Instruction) {
			call, ok := i.(*ssa.Call)
			if !ok {
				return
			}
			f := call.Call.StaticCallee()
			if f == nil || f.Pkg == nil || f.Pkg.Pkg.Path() != "fmt" || len(call.Call.Args) == 0 {
				return
			}
			ops, ok := varargsOperands(call.Call.Args[len(call.Call.Args)-1])
			if !ok {
				return
			}
			n++
			for _, op := range ops {
				v := op
				if mi, isMI := v.(*ssa.MakeInterface); isMI {
					v = mi.X
				}
				if printsAddress(v.Type(), true, 0) {
					k++
					l.add("R-MAPORDER", b.Name, fmt.Sprintf("%s: formatted text #%d holds no heap address", fname(fn), k), b.posOf(call), Violated, "a value of type "+typeShort(v.Type())+" is formatted with fmt."+f.Name()+": its pointers are printed as addresses, so two identical calls produce different texts (the error of a rejected input is part of the outcome a caller compares)", true)
				}
			}
		})
	}
	l.add("R-MAPORDER", b.Name, "no heap address is formatted into an error or a result", "", Discharged, fmt.Sprintf("%d fmt call(s) with operands examined: every operand is a scalar, a string, bytes, or a type that formats itself", n), true)
}

// putThenUse (R-POOL): a function that hands its parameter back to a pool does not touch it
// afterwards — the next Get may already own it.
func (b *Body) putThenUse(l *Ledger, fns []*ssa.Function, lab string) {
	for _, fn := range fns {
		allInstrs(fn, func(i ssa.Instruction) {
			call, ok := i.(*ssa.Call)
			if !ok || !isPoolCall(&call.Call, "Put") || len(call.Call.Args) != 2 {
				return
			}
			p, ok := unwrapConv(call.Call.Args[1]).(*ssa.Parameter)
			if !ok {
				return
			}
			key := fmt.Sprintf("%s: parameter %s is not used after it was handed back to the pool", fname(fn), p.Name())
			bad := ""
			for ins := range reachableAfter(b, call) {
				if ins == ssa.Instruction(call) {
					continue
				}
				if _, isDbg := ins.(*ssa.DebugRef); isDbg {
					continue
				}
				var ops []*ssa.Value
				for _, op := range ins.Operands(ops) {
					if *op != nil && derivedFrom(*op, p, 0) {
						bad = "the object is used at " + b.posOf(ins) + " after the Put at " + b.posOf(call) + ": another goroutine's Get may already own it (a data race, and a state trimmed or reset under its new owner)"
					}
				}
			}
			if bad != "" {
				l.add("R-POOL", lab, key, b.posOf(call), Violated, bad, true)
			} else {
				l.add("R-POOL", lab, key, b.posOf(call), Discharged, "nothing reachable after the Put touches the parameter", true)
			}
		})
	}
}

// numberIntoString (R-NUM, codec): the text of a number literal is stored into a
// string-kinded destination only when the destination is the Number type itself. A decoder
// that keeps the text for every string kind accepts 1 where "1" is required (a patch whose
// path is a number decodes).
func (b *Body) numberIntoString(l *Ledger) {
	ls := b.method(b.Codec, "decodeState", "literalStore")
	if ls == nil || len(ls.Params) < 2 {
		return
	}
	item := ls.Params[1]
	n := 0
	allInstrs(ls, func(i ssa.Instruction) {
		call, ok := i.(*ssa.Call)
		if !ok {
			return
		}
		f := call.Call.StaticCallee()
		if f == nil || f.Name() != "SetString" || f.Pkg == nil || f.Pkg.Pkg.Path() != "reflect" || len(call.Call.Args) < 2 {
			return
		}
		cv, ok := call.Call.Args[1].(*ssa.Convert)
		if !ok || cv.X != ssa.Value(item) {
			return // the unquoted string of a string literal, not the raw text of the literal
		}
		n++
		key := fmt.Sprintf("literalStore: raw literal text stored as a string #%d only into a destination of type Number", n)
		ok2 := false
		for _, bb := range ls.Blocks {
			iff, isIf := lastInstr(bb).(*ssa.If)
			if !isIf {
				continue
			}
			bo, isBo := iff.Cond.(*ssa.BinOp)
			if !isBo || bo.Op != token.EQL {
				continue
			}
			isNumT := func(v ssa.Value) bool {
				g := loadedGlobal(v)
				return g != nil && strings.Contains(strings.ToLower(g.Name()), "number")
			}
			isTypeOf := func(v ssa.Value) bool {
				c, ok := v.(*ssa.Call)
				return ok && c.Call.StaticCallee() != nil && c.Call.StaticCallee().Name() == "Type"
			}
			if !((isNumT(bo.X) && isTypeOf(bo.Y)) || (isNumT(bo.Y) && isTypeOf(bo.X))) {
				continue
			}
			if edgeDominates(bb, 0, call.Block()) {
				ok2 = true
			}
		}
		if ok2 {
			l.add("R-NUM", "codec", key, b.posOf(call), Discharged, "dominated by the true edge of v.Type() == numberType", true)
		} else {
			l.add("R-NUM", "codec", key, b.posOf(call), Violated, "the literal's text is stored into a string-kinded value without the destination having been found to be the Number type: a number is accepted where a string is required (a patch with \"path\": 1 decodes, and Path() answers \"1\")", true)
		}
	})
}

// removeRefusals (R-OPTSCOPE): the object container's remove refuses for one reason only —
// the member is not there (or the container is not an object at all). Any other refusal
// (of a particular name, say) aborts a patch that AllowMissingPathOnRemove promises to carry on.
func (b *Body) removeRefusals(l *Ledger, field string) {
	rm := b.method(b.Lib, "partialDoc", "remove")
	if rm == nil {
		return
	}
	ei := errResultIndex(rm)
	if ei < 0 {
		return
	}
	key := "(*partialDoc).remove: every refusal is `no such member` under the option's control, or `not an object`"
	var bad []string
	n := 0
	for _, r := range liveReturns(rm) {
		if !b.definitelyNonNilErr(retVal(r, ei), r.Block(), 0) {
			continue
		}
		n++
		okR := false
		// behind a test of the option (its off edge, for an error)
		for _, bb := range rm.Blocks {
			iff, isIf := lastInstr(bb).(*ssa.If)
			if !isIf {
				continue
			}
			cv, _ := stripNot(iff.Cond)
			if _, fr, isF := fieldLoad(cv); isF && fr.Field == field {
				for si := range bb.Succs {
					if edgeDominates(bb, si, r.Block()) {
						okR = true
					}
				}
			}
		}
		for _, bb := range rm.Blocks {
			iff, isIf := lastInstr(bb).(*ssa.If)
			if !isIf {
				continue
			}
			if x, nnTrue, isNil := nilTestOfCond(iff.Cond); isNil {
				if base, _, isF := fieldLoad(x); isF && base == ssa.Value(rm.Params[0]) {
					nilSucc := 0
					if nnTrue {
						nilSucc = 1
					}
					if edgeDominates(bb, nilSucc, r.Block()) {
						okR = true // d.obj == nil: not an object
					}
				}
			}
		}
		if !okR {
			bad = append(bad, "the error return at "+b.posOf(r)+" depends neither on the option nor on the container being no object: a remove is refused for a reason other than the member's absence, and with AllowMissingPathOnRemove set the patch is aborted where it should go on")
		}
	}
	sort.Strings(bad)
	if len(bad) > 0 {
		l.add("R-OPTSCOPE", "v5", key, b.rel(rm.Pos()), Violated, bad[0], true)
	} else {
		l.add("R-OPTSCOPE", "v5", key, b.rel(rm.Pos()), Discharged, fmt.Sprintf("%d error return(s): each under the option's test or under obj == nil", n), true)
	}
}

// nestedEncodings (R-ESCSET, codec): an encoder that is given the options of the running
// encoding does not start a fresh one for a part of the value. Marshal(x) inside an encoder
// encodes x with the default options — HTML escaping on — whatever the caller asked for.
func (b *Body) nestedEncodings(l *Ledger) {
	n := 0
	var bad []string
	badPos := ""
	for _, fn := range b.srcFuncs(b.Codec) {
		var opts *ssa.Parameter
		for _, p := range fn.Params {
			if tn := derefNamed(p.Type()); tn != nil && tn.Obj().Name() == "encOpts" {
				opts = p
			} else if nt, ok := types.Unalias(p.Type()).(*types.Named); ok && nt.Obj().Name() == "encOpts" {
				opts = p
			}
		}
		if opts == nil {
			continue
		}
		allInstrs(fn, func(i ssa.Instruction) {
			call, ok := i.(*ssa.Call)
			if !ok {
				return
			}
			f := call.Call.StaticCallee()
			if f == nil || f.Pkg != b.Codec {
				return
			}
			n++
			if f.Signature.Recv() == nil && strings.HasPrefix(f.Name(), "Marshal") {
				bad = append(bad, fmt.Sprintf("%s calls %s at %s: a part of the value is encoded by a fresh encoding with that function's own options, not with the options of the encoding in progress (the escapeHTML flag the caller chose is lost below this point)", fname(fn), f.Name(), b.posOf(call)))
				badPos = b.posOf(call)
			}
		})
	}
	key := "encoders pass the options of the running encoding on: no fresh Marshal inside an encoder"
	sort.Strings(bad)
	if len(bad) > 0 {
		l.add("R-ESCSET", "codec", key, badPos, Violated, bad[0], true)
	} else {
		l.add("R-ESCSET", "codec", key, "", Discharged, fmt.Sprintf("%d call(s) inside functions that carry encOpts examined: none re-enters the package's Marshal functions", n), true)
	}
}

// closuresWriteCaptures (R-GLOBALS, codec): the encoder functions the codec builds are kept in
// a package-level cache and called by every goroutine that encodes a value of that type. A
// function that writes to what it captured (a sort buffer kept in the encoder object "for
// the next call") makes all those calls share that memory.
func (b *Body) closuresWriteCaptures(l *Ledger) {
	if b.Codec == nil {
		return
	}
	n := 0
	var bad []string
	badPos := ""
	var writesThrough func(fn *ssa.Function, root ssa.Value, depth int) string
	writesThrough = func(fn *ssa.Function, root ssa.Value, depth int) string {
		if depth > 3 || len(fn.Blocks) == 0 {
			return ""
		}
		why := ""
		allInstrs(fn, func(i ssa.Instruction) {
			if why != "" {
				return
			}
			switch x := i.(type) {
			case *ssa.Store:
				if x.Addr != root && derivedFrom(x.Addr, root, 0) {
					why = "store at " + b.posOf(x) + " in " + fname(fn)
				}
			case *ssa.MapUpdate:
				if derivedFrom(x.Map, root, 0) {
					why = "map update at " + b.posOf(x) + " in " + fname(fn)
				}
			case ssa.CallInstruction:
				g := x.Common().StaticCallee()
				if g == nil || g.Pkg != b.Codec {
					return
				}
				for ai, a := range x.Common().Args {
					if ai < len(g.Params) && a == root {
						if w := writesThrough(g, g.Params[ai], depth+1); w != "" {
							why = w
						}
					}
				}
			}
		})
		return why
	}
	for _, fn := range b.srcFuncs(b.Codec) {
		allInstrs(fn, func(i ssa.Instruction) {
			mc, ok := i.(*ssa.MakeClosure)
			if !ok {
				return
			}
			cf, ok := mc.Fn.(*ssa.Function)
			if !ok {
				return
			}
			for bi, bnd := range mc.Bindings {
				if bi >= len(cf.FreeVars) {
					continue
				}
				if _, isPtr := bnd.Type().Underlying().(*types.Pointer); !isPtr {
					continue // a captured copy: writes to it stay with this closure's own frame
				}
				// the captured cell of a local variable of the enclosing function is that
				// function's business (the hand-over rules of the cache check it); what is
				// looked for here is a captured *object* the closure mutates
				if al, isAl := bnd.(*ssa.Alloc); isAl {
					if _, isNamedT := types.Unalias(derefPtr(al.Type())).(*types.Named); !isNamedT {
						continue
					}
					if tn := derefNamed(al.Type()); tn != nil && tn.Obj().Pkg() != nil && tn.Obj().Pkg().Path() == "sync" {
						continue
					}
				}
				n++
				if w := writesThrough(cf, cf.FreeVars[bi], 0); w != "" {
					bad = append(bad, fmt.Sprintf("the function value made at %s (in %s) writes to the %s it captured: %s — the value is kept in the encoder cache and called from every goroutine, so the captured memory is shared between concurrent calls", b.posOf(mc), fname(fn), typeShort(bnd.Type()), w))
					badPos = b.posOf(mc)
				}
			}
		})
	}
	key := "function values built by the codec do not write to the objects they capture"
	sort.Strings(bad)
	if len(bad) > 0 {
		l.add("R-GLOBALS", "codec", key, badPos, Violated, bad[0], true)
	} else {
		l.add("R-GLOBALS", "codec", key, "", Discharged, fmt.Sprintf("%d captured pointer(s) examined: no store or map update through any of them, in the closure or in the codec functions it hands them to", n), true)
	}
}

// emptyPathIsRoot (R-DISPATCH, v5): the pointer "" is the whole document (RFC 6901); "/" is
// the member with the empty name. The resolver answers both with (root, ""), so a handler
// that resolves its path without having looked at it treats the whole document as that
// member: `add … path ""` would add a member "" instead of replacing the document, and a
// test of "" would compare that member. The handlers for which "" is inside the properties'
// domain (add, replace, test) compare the path they are given with "" first, and resolve it
// only on the other edge.
func (b *Body) emptyPathIsRoot(l *Ledger, ai *applyInfo) {
	for _, k := range rfc6902Kinds {
		h := ai.handlers[k]
		if h == nil {
			continue
		}
		// C01 and C13 place "" as the destination of copy and move and as the target of
		// remove outside their domain (today those act on the member with the empty name);
		// what those handlers do with it is not decided here
		if k == "copy" || k == "move" || k == "remove" {
			continue
		}
		var pathVal ssa.Value
		allInstrs(h, func(i ssa.Instruction) {
			call, ok := i.(*ssa.Call)
			if !ok {
				return
			}
			f := call.Call.StaticCallee()
			if f == nil || recvTypeName(f) != "Operation" || f.Name() != "Path" {
				return
			}
			for _, ex := range extractOf(call, 0) {
				pathVal = ex
			}
		})
		key := fmt.Sprintf("handler %q: the path \"\" is the whole document, not the member with the empty name", k)
		if pathVal == nil {
			l.add("R-DISPATCH", b.Name, key, b.rel(h.Pos()), Undecided, "the handler's call of Operation.Path was not found", false)
			continue
		}
		bad := ""
		n := 0
		allInstrs(h, func(i ssa.Instruction) {
			call, ok := i.(*ssa.Call)
			if !ok || !b.isFindObjectCall(&call.Call) || len(call.Call.Args) < 2 || call.Call.Args[1] != pathVal {
				return
			}
			n++
			guarded := false
			for _, f := range dominatingFacts(call.Block()) {
				if nonEmptyFact(f, pathVal) {
					guarded = true
				}
			}
			if !guarded {
				bad = "the path is resolved at " + b.posOf(call) + " without having been compared with \"\": for the empty pointer the resolver answers (root, \"\"), and the operation is carried out on the root's member with the empty name instead of on the document"
			}
		})
		if bad != "" {
			l.add("R-DISPATCH", b.Name, key, b.rel(h.Pos()), Violated, bad, true)
		} else {
			l.add("R-DISPATCH", b.Name, key, b.rel(h.Pos()), Discharged, fmt.Sprintf("%d resolution(s) of the path, each on the != \"\" edge of a comparison with the empty pointer", n), true)
		}
	}
}

// nonEmptyFact: the fact says that the string s is not "" — a comparison with the empty
// string, or of its length with 0 (or 1), with the outcome that excludes it.
func nonEmptyFact(f edgeFact, s ssa.Value) bool {
	bo, ok := f.V.(*ssa.BinOp)
	if !ok {
		return false
	}
	isLen := func(v ssa.Value) bool {
		c, ok := v.(*ssa.Call)
		if !ok || len(c.Call.Args) != 1 || c.Call.Args[0] != s {
			return false
		}
		bi, ok := c.Call.Value.(*ssa.Builtin)
		return ok && bi.Name() == "len"
	}
	x, y, op := bo.X, bo.Y, bo.Op
	if x != s && !isLen(x) {
		// constant on the left: mirror the comparison
		x, y = y, x
		switch op {
		case token.LSS:
			op = token.GTR
		case token.GTR:
			op = token.LSS
		case token.LEQ:
			op = token.GEQ
		case token.GEQ:
			op = token.LEQ
		}
	}
	if x == s {
		if k, isS := strConst(y); isS && k == "" {
			return (op == token.EQL && !f.True) || (op == token.NEQ && f.True)
		}
		return false
	}
	if !isLen(x) {
		return false
	}
	k, isK := intConst(y)
	if !isK {
		return false
	}
	switch {
	case k == 0 && op == token.EQL, k == 0 && op == token.LEQ, k == 1 && op == token.LSS:
		return !f.True
	case k == 0 && op == token.NEQ, k == 0 && op == token.GTR, k == 1 && op == token.GEQ:
		return f.True
	}
	return false
}

// rootOnlyForEmptyPointer (R-TYPESTATE, v5): a handler replaces the whole document only when
// the pointer it was given is "". The resolver answers (root, "") for "" and for "/" alike,
// so a handler that decides "the destination is the document" from what the resolver
// returned also takes the member with the empty name for the document and drops every other
// member. Each write of the root slot in a handler (its own store through the slot's
// pointer, or handing that pointer to a helper that stores through it) lies behind the fact
// `path == ""` — stated directly, or through a container variable that can only be nil
// there because its other definitions were tested non-nil.
func (b *Body) rootOnlyForEmptyPointer(l *Ledger, ai *applyInfo) {
	storesThrough := map[*ssa.Function]map[int]bool{}
	var storing func(f *ssa.Function, depth int) map[int]bool
	storing = func(f *ssa.Function, depth int) map[int]bool {
		if m, ok := storesThrough[f]; ok {
			return m
		}
		m := map[int]bool{}
		storesThrough[f] = m
		if f == nil || f.Blocks == nil || depth > 3 {
			return m
		}
		allInstrs(f, func(i ssa.Instruction) {
			switch x := i.(type) {
			case *ssa.Store:
				if p, ok := x.Addr.(*ssa.Parameter); ok && isRootSlotPtr(p.Type()) {
					m[paramIdx(p)] = true
				}
			case ssa.CallInstruction:
				g := x.Common().StaticCallee()
				if g == nil || g == f {
					return
				}
				for ai, a := range x.Common().Args {
					if p, ok := a.(*ssa.Parameter); ok && isRootSlotPtr(p.Type()) && storing(g, depth+1)[ai] {
						m[paramIdx(p)] = true
					}
				}
			}
		})
		return m
	}
	for _, k := range rfc6902Kinds {
		h := ai.handlers[k]
		if h == nil {
			continue
		}
		var pathVal ssa.Value
		allInstrs(h, func(i ssa.Instruction) {
			call, ok := i.(*ssa.Call)
			if !ok {
				return
			}
			f := call.Call.StaticCallee()
			if f == nil || recvTypeName(f) != "Operation" || f.Name() != "Path" {
				return
			}
			for _, ex := range extractOf(call, 0) {
				pathVal = ex
			}
		})
		key := fmt.Sprintf("handler %q: root slot written only for the empty pointer", k)
		type site struct {
			at   ssa.Instruction
			what string
		}
		var sites []site
		allInstrs(h, func(i ssa.Instruction) {
			switch x := i.(type) {
			case *ssa.Store:
				if p, ok := x.Addr.(*ssa.Parameter); ok && isRootSlotPtr(p.Type()) {
					sites = append(sites, site{i, "store through " + p.Name()})
				}
			case ssa.CallInstruction:
				g := x.Common().StaticCallee()
				if g == nil {
					return
				}
				for ai, a := range x.Common().Args {
					if p, ok := a.(*ssa.Parameter); ok && isRootSlotPtr(p.Type()) && storing(g, 0)[ai] {
						sites = append(sites, site{i, fname(g) + " stores through " + p.Name()})
					}
				}
			}
		})
		if len(sites) == 0 {
			l.add("R-TYPESTATE", b.Name, key, b.rel(h.Pos()), Discharged, "the handler never writes the root slot", true)
			continue
		}
		if pathVal == nil {
			l.add("R-TYPESTATE", b.Name, key, b.rel(h.Pos()), Undecided, "the handler writes the root slot but its call of Operation.Path was not found", true)
			continue
		}
		bad := ""
		for _, s := range sites {
			ok := false
			for _, f := range dominatingFacts(s.at.Block()) {
				if emptyFact(f, pathVal) || nilOnlyWhenEmpty(f, pathVal) {
					ok = true
				}
			}
			if !ok {
				bad = s.what + " at " + b.posOf(s.at) + " is not behind a comparison of the path with \"\": the resolver answers (root, \"\") for \"\" and for \"/\" alike, so what it returned cannot tell the document from its member with the empty name"
			}
		}
		if bad != "" {
			l.add("R-TYPESTATE", b.Name, key, b.rel(h.Pos()), Violated, bad, true)
		} else {
			l.add("R-TYPESTATE", b.Name, key, b.rel(h.Pos()), Discharged, fmt.Sprintf("%d write(s) of the root slot, each behind path == \"\"", len(sites)), true)
		}
	}
}

func isRootSlotPtr(t types.Type) bool {
	pt, ok := t.Underlying().(*types.Pointer)
	return ok && isNamed(pt.Elem(), "container")
}

// emptyFact: the fact says that the string s is "".
func emptyFact(f edgeFact, s ssa.Value) bool {
	return nonEmptyFact(edgeFact{f.V, !f.True}, s)
}

// nilOnlyWhenEmpty: the fact is `v == nil` for a variable v that go/ssa merged from the
// constant nil, arriving over an edge on which s == "" holds, and from values known to be
// non-nil where they arrive: v is nil only where s is "".
func nilOnlyWhenEmpty(f edgeFact, s ssa.Value) bool {
	v, nonNilOnTrue, ok := nilTestOfCond(f.V)
	if !ok || nonNilOnTrue == f.True {
		return false
	}
	phi, ok := v.(*ssa.Phi)
	if !ok {
		return false
	}
	sawNil := false
	for i, e := range phi.Edges {
		pred := phi.Block().Preds[i]
		if isNilConst(e) {
			behind := false
			for _, g := range dominatingFacts(pred) {
				if emptyFact(g, s) {
					behind = true
				}
			}
			for si, sx := range pred.Succs {
				if sx != phi.Block() || len(pred.Succs) != 2 || pred.Succs[0] == pred.Succs[1] {
					continue
				}
				for _, g := range factsOnEdge(pred, si) {
					if emptyFact(g, s) {
						behind = true
					}
				}
			}
			if !behind {
				return false
			}
			sawNil = true
			continue
		}
		if knownNonNilAt(e, pred) {
			continue
		}
		onEdge := false
		for _, t := range nilTests(pred.Parent(), e) {
			if t.Blk == pred && len(pred.Succs) == 2 && pred.Succs[0] != pred.Succs[1] && pred.Succs[t.NonNilSucc] == phi.Block() {
				onEdge = true
			}
		}
		if !onEdge {
			return false
		}
	}
	return sawNil
}
