package main

// Obligations added after the fifth round of seeded changes.

import (
	"fmt"
	"go/token"
	"go/types"
	"reflect"
	"sort"
	"strconv"
	"strings"

	"golang.org/x/tools/go/ssa"
)

// printsAddress: formatting a value of this type with %v / %s / %+v writes a heap address —
// a pointer to anything but a struct at the top level, or any pointer below the top level —
// unless the type formats itself (error, Stringer, Formatter).
func printsAddress(t types.Type, top bool, depth int) bool {
	if depth > 5 {
		return false
	}
	ms := types.NewMethodSet(t)
	for _, name := range []string{"Error", "String", "Format", "GoString"} {
		if ms.Lookup(nil, name) != nil {
			return false
		}
	}
	switch u := types.Unalias(t).Underlying().(type) {
	case *types.Pointer:
		if top {
			if _, isStruct := u.Elem().Underlying().(*types.Struct); isStruct {
				return printsAddress(u.Elem(), false, depth+1)
			}
		}
		return true
	case *types.Map:
		return printsAddress(u.Key(), false, depth+1) || printsAddress(u.Elem(), false, depth+1)
	case *types.Slice:
		return printsAddress(u.Elem(), false, depth+1)
	case *types.Array:
		return printsAddress(u.Elem(), false, depth+1)
	case *types.Struct:
		for i := 0; i < u.NumFields(); i++ {
			if printsAddress(u.Field(i).Type(), false, depth+1) {
				return true
			}
		}
	case *types.Chan, *types.Signature:
		return true
	}
	return false
}

// addressesInText (R-MAPORDER): no heap address is formatted into an error or a result. The
// text of an error is part of "the same error": a map of pointers printed with %v differs
// from call to call.
func (b *Body) addressesInText(l *Ledger) {
	n := 0
	for _, fn := range b.srcFuncs(b.Lib) {
		k := 0
		allInstrs(fn, func(i ssa.Instruction) {
			call, ok := i.(*ssa.Call)
			if !ok {
				return
			}
			f := call.Call.StaticCallee()
			if f == nil || f.Pkg == nil || f.Pkg.Pkg.Path() != "fmt" || len(call.Call.Args) == 0 {
				return
			}
			ops, ok := varargsOperands(call.Call.Args[len(call.Call.Args)-1])
			if !ok {
				return
			}
			n++
			for _, op := range ops {
				v := op
				if mi, isMI := v.(*ssa.MakeInterface); isMI {
					v = mi.X
				}
				if printsAddress(v.Type(), true, 0) {
					k++
					l.add("R-MAPORDER", b.Name, fmt.Sprintf("%s: formatted text #%d holds no heap address", fname(fn), k), b.posOf(call), Violated, "a value of type "+typeShort(v.Type())+" is formatted with fmt."+f.Name()+": its pointers are printed as addresses, so two identical calls produce different texts (the error of a rejected input is part of the outcome a caller compares)", true)
				}
			}
		})
	}
	l.add("R-MAPORDER", b.Name, "no heap address is formatted into an error or a result", "", Discharged, fmt.Sprintf("%d fmt call(s) with operands examined: every operand is a scalar, a string, bytes, or a type that formats itself", n), true)
}

// putThenUse (R-POOL): a function that hands its parameter back to a pool does not touch it
// afterwards — the next Get may already own it.
func (b *Body) putThenUse(l *Ledger, fns []*ssa.Function, lab string) {
	for _, fn := range fns {
		allInstrs(fn, func(i ssa.Instruction) {
			call, ok := i.(*ssa.Call)
			if !ok || !isPoolCall(&call.Call, "Put") || len(call.Call.Args) != 2 {
				return
			}
			p, ok := unwrapConv(call.Call.Args[1]).(*ssa.Parameter)
			if !ok {
				return
			}
			key := fmt.Sprintf("%s: parameter %s is not used after it was handed back to the pool", fname(fn), p.Name())
			bad := ""
			for ins := range reachableAfter(b, call) {
				if ins == ssa.Instruction(call) {
					continue
				}
				if _, isDbg := ins.(*ssa.DebugRef); isDbg {
					continue
				}
				var ops []*ssa.Value
				for _, op := range ins.Operands(ops) {
					if *op != nil && derivedFrom(*op, p, 0) {
						bad = "the object is used at " + b.posOf(ins) + " after the Put at " + b.posOf(call) + ": another goroutine's Get may already own it (a data race, and a state trimmed or reset under its new owner)"
					}
				}
			}
			if bad != "" {
				l.add("R-POOL", lab, key, b.posOf(call), Violated, bad, true)
			} else {
				l.add("R-POOL", lab, key, b.posOf(call), Discharged, "nothing reachable after the Put touches the parameter", true)
			}
		})
	}
}

// numberIntoString (R-NUM, codec): the text of a number literal is stored into a
// string-kinded destination only when the destination is the Number type itself. A decoder
// that keeps the text for every string kind accepts 1 where "1" is required (a patch whose
// path is a number decodes).
func (b *Body) numberIntoString(l *Ledger) {
	ls := b.method(b.Codec, "decodeState", "literalStore")
	if ls == nil || len(ls.Params) < 2 {
		return
	}
	item := ls.Params[1]
	n := 0
	allInstrs(ls, func(i ssa.Instruction) {
		call, ok := i.(*ssa.Call)
		if !ok {
			return
		}
		f := call.Call.StaticCallee()
		if f == nil || f.Name() != "SetString" || f.Pkg == nil || f.Pkg.Pkg.Path() != "reflect" || len(call.Call.Args) < 2 {
			return
		}
		cv, ok := call.Call.Args[1].(*ssa.Convert)
		if !ok || cv.X != ssa.Value(item) {
			return // the unquoted string of a string literal, not the raw text of the literal
		}
		n++
		key := fmt.Sprintf("literalStore: raw literal text stored as a string #%d only into a destination of type Number", n)
		ok2 := false
		for _, bb := range ls.Blocks {
			iff, isIf := lastInstr(bb).(*ssa.If)
			if !isIf {
				continue
			}
			bo, isBo := iff.Cond.(*ssa.BinOp)
			if !isBo || bo.Op != token.EQL {
				continue
			}
			isNumT := func(v ssa.Value) bool {
				g := loadedGlobal(v)
				return g != nil && strings.Contains(strings.ToLower(g.Name()), "number")
			}
			isTypeOf := func(v ssa.Value) bool {
				c, ok := v.(*ssa.Call)
				return ok && c.Call.StaticCallee() != nil && c.Call.StaticCallee().Name() == "Type"
			}
			if !((isNumT(bo.X) && isTypeOf(bo.Y)) || (isNumT(bo.Y) && isTypeOf(bo.X))) {
				continue
			}
			if edgeDominates(bb, 0, call.Block()) {
				ok2 = true
			}
		}
		if ok2 {
			l.add("R-NUM", "codec", key, b.posOf(call), Discharged, "dominated by the true edge of v.Type() == numberType", true)
		} else {
			l.add("R-NUM", "codec", key, b.posOf(call), Violated, "the literal's text is stored into a string-kinded value without the destination having been found to be the Number type: a number is accepted where a string is required (a patch with \"path\": 1 decodes, and Path() answers \"1\")", true)
		}
	})
}

// removeRefusals (R-OPTSCOPE): the object container's remove refuses for one reason only —
// the member is not there (or the container is not an object at all). Any other refusal
// (of a particular name, say) aborts a patch that AllowMissingPathOnRemove promises to carry on.
func (b *Body) removeRefusals(l *Ledger, field string) {
	rm := b.method(b.Lib, "partialDoc", "remove")
	if rm == nil {
		return
	}
	ei := errResultIndex(rm)
	if ei < 0 {
		return
	}
	key := "(*partialDoc).remove: every refusal is `no such member` under the option's control, or `not an object`"
	var bad []string
	n := 0
	for _, r := range liveReturns(rm) {
		if !b.definitelyNonNilErr(retVal(r, ei), r.Block(), 0) {
			continue
		}
		n++
		okR := false
		// behind a test of the option (its off edge, for an error)
		for _, bb := range rm.Blocks {
			iff, isIf := lastInstr(bb).(*ssa.If)
			if !isIf {
				continue
			}
			cv, _ := stripNot(iff.Cond)
			if _, fr, isF := fieldLoad(cv); isF && fr.Field == field {
				for si := range bb.Succs {
					if edgeDominates(bb, si, r.Block()) {
						okR = true
					}
				}
			}
		}
		for _, bb := range rm.Blocks {
			iff, isIf := lastInstr(bb).(*ssa.If)
			if !isIf {
				continue
			}
			if x, nnTrue, isNil := nilTestOfCond(iff.Cond); isNil {
				if base, _, isF := fieldLoad(x); isF && base == ssa.Value(rm.Params[0]) {
					nilSucc := 0
					if nnTrue {
						nilSucc = 1
					}
					if edgeDominates(bb, nilSucc, r.Block()) {
						okR = true // d.obj == nil: not an object
					}
				}
			}
		}
		if !okR {
			bad = append(bad, "the error return at "+b.posOf(r)+" depends neither on the option nor on the container being no object: a remove is refused for a reason other than the member's absence, and with AllowMissingPathOnRemove set the patch is aborted where it should go on")
		}
	}
	sort.Strings(bad)
	if len(bad) > 0 {
		l.add("R-OPTSCOPE", "v5", key, b.rel(rm.Pos()), Violated, bad[0], true)
	} else {
		l.add("R-OPTSCOPE", "v5", key, b.rel(rm.Pos()), Discharged, fmt.Sprintf("%d error return(s): each under the option's test or under obj == nil", n), true)
	}
}

// nestedEncodings (R-ESCSET, codec): an encoder that is given the options of the running
// encoding does not start a fresh one for a part of the value. Marshal(x) inside an encoder
// encodes x with the default options — HTML escaping on — whatever the caller asked for.
func (b *Body) nestedEncodings(l *Ledger) {
	n := 0
	var bad []string
	badPos := ""
	for _, fn := range b.srcFuncs(b.Codec) {
		var opts *ssa.Parameter
		for _, p := range fn.Params {
			if tn := derefNamed(p.Type()); tn != nil && tn.Obj().Name() == "encOpts" {
				opts = p
			} else if nt, ok := types.Unalias(p.Type()).(*types.Named); ok && nt.Obj().Name() == "encOpts" {
				opts = p
			}
		}
		if opts == nil {
			continue
		}
		allInstrs(fn, func(i ssa.Instruction) {
			call, ok := i.(*ssa.Call)
			if !ok {
				return
			}
			f := call.Call.StaticCallee()
			if f == nil || f.Pkg != b.Codec {
				return
			}
			n++
			if f.Signature.Recv() == nil && strings.HasPrefix(f.Name(), "Marshal") {
				bad = append(bad, fmt.Sprintf("%s calls %s at %s: a part of the value is encoded by a fresh encoding with that function's own options, not with the options of the encoding in progress (the escapeHTML flag the caller chose is lost below this point)", fname(fn), f.Name(), b.posOf(call)))
				badPos = b.posOf(call)
			}
		})
	}
	key := "encoders pass the options of the running encoding on: no fresh Marshal inside an encoder"
	sort.Strings(bad)
	if len(bad) > 0 {
		l.add("R-ESCSET", "codec", key, badPos, Violated, bad[0], true)
	} else {
		l.add("R-ESCSET", "codec", key, "", Discharged, fmt.Sprintf("%d call(s) inside functions that carry encOpts examined: none re-enters the package's Marshal functions", n), true)
	}
}

// closuresWriteCaptures (R-GLOBALS, codec): the encoder functions the codec builds are kept in
// a package-level cache and called by every goroutine that encodes a value of that type. A
// function that writes to what it captured (a sort buffer kept in the encoder object "for
// the next call") makes all those calls share that memory.
func (b *Body) closuresWriteCaptures(l *Ledger) {
	if b.Codec == nil {
		return
	}
	n := 0
	var bad []string
	badPos := ""
	var writesThrough func(fn *ssa.Function, root ssa.Value, depth int) string
	writesThrough = func(fn *ssa.Function, root ssa.Value, depth int) string {
		if depth > 3 || len(fn.Blocks) == 0 {
			return ""
		}
		why := ""
		allInstrs(fn, func(i ssa.Instruction) {
			if why != "" {
				return
			}
			switch x := i.(type) {
			case *ssa.Store:
				if x.Addr != root && derivedFrom(x.Addr, root, 0) {
					why = "store at " + b.posOf(x) + " in " + fname(fn)
				}
			case *ssa.MapUpdate:
				if derivedFrom(x.Map, root, 0) {
					why = "map update at " + b.posOf(x) + " in " + fname(fn)
				}
			case ssa.CallInstruction:
				g := x.Common().StaticCallee()
				if g == nil || g.Pkg != b.Codec {
					return
				}
				for ai, a := range x.Common().Args {
					if ai < len(g.Params) && a == root {
						if w := writesThrough(g, g.Params[ai], depth+1); w != "" {
							why = w
						}
					}
				}
			}
		})
		return why
	}
	for _, fn := range b.srcFuncs(b.Codec) {
		allInstrs(fn, func(i ssa.Instruction) {
			mc, ok := i.(*ssa.MakeClosure)
			if !ok {
				return
			}
			cf, ok := mc.Fn.(*ssa.Function)
			if !ok {
				return
			}
			for bi, bnd := range mc.Bindings {
				if bi >= len(cf.FreeVars) {
					continue
				}
				if _, isPtr := bnd.Type().Underlying().(*types.Pointer); !isPtr {
					continue // a captured copy: writes to it stay with this closure's own frame
				}
				// the captured cell of a local variable of the enclosing function is that
				// function's business (the hand-over rules of the cache check it); what is
				// looked for here is a captured *object* the closure mutates
				if al, isAl := bnd.(*ssa.Alloc); isAl {
					if _, isNamedT := types.Unalias(derefPtr(al.Type())).(*types.Named); !isNamedT {
						continue
					}
					if tn := derefNamed(al.Type()); tn != nil && tn.Obj().Pkg() != nil && tn.Obj().Pkg().Path() == "sync" {
						continue
					}
				}
				n++
				if w := writesThrough(cf, cf.FreeVars[bi], 0); w != "" {
					bad = append(bad, fmt.Sprintf("the function value made at %s (in %s) writes to the %s it captured: %s — the value is kept in the encoder cache and called from every goroutine, so the captured memory is shared between concurrent calls", b.posOf(mc), fname(fn), typeShort(bnd.Type()), w))
					badPos = b.posOf(mc)
				}
			}
		})
	}
	key := "function values built by the codec do not write to the objects they capture"
	sort.Strings(bad)
	if len(bad) > 0 {
		l.add("R-GLOBALS", "codec", key, badPos, Violated, bad[0], true)
	} else {
		l.add("R-GLOBALS", "codec", key, "", Discharged, fmt.Sprintf("%d captured pointer(s) examined: no store or map update through any of them, in the closure or in the codec functions it hands them to", n), true)
	}
}

// emptyPathIsRoot (R-DISPATCH, v5): the pointer "" is the whole document (RFC 6901); "/" is
// the member with the empty name. The resolver answers both with (root, ""), so a handler
// that resolves its path without having looked at it treats the whole document as that
// member: `add … path ""` would add a member "" instead of replacing the document, and a
// test of "" would compare that member. The handlers for which "" is inside the properties'
// domain (add, replace, test) compare the path they are given with "" first, and resolve it
// only on the other edge.
func (b *Body) emptyPathIsRoot(l *Ledger, ai *applyInfo) {
	for _, k := range rfc6902Kinds {
		h := ai.handlers[k]
		if h == nil {
			continue
		}
		// C01 and C13 place "" as the destination of copy and move and as the target of
		// remove outside their domain (today those act on the member with the empty name);
		// what those handlers do with it is not decided here
		if k == "copy" || k == "move" || k == "remove" {
			continue
		}
		var pathVal ssa.Value
		allInstrs(h, func(i ssa.Instruction) {
			call, ok := i.(*ssa.Call)
			if !ok {
				return
			}
			f := call.Call.StaticCallee()
			if f == nil || recvTypeName(f) != "Operation" || f.Name() != "Path" {
				return
			}
			for _, ex := range extractOf(call, 0) {
				pathVal = ex
			}
		})
		key := fmt.Sprintf("handler %q: the path \"\" is the whole document, not the member with the empty name", k)
		if pathVal == nil {
			l.add("R-DISPATCH", b.Name, key, b.rel(h.Pos()), Undecided, "the handler's call of Operation.Path was not found", false)
			continue
		}
		bad := ""
		n := 0
		allInstrs(h, func(i ssa.Instruction) {
			call, ok := i.(*ssa.Call)
			if !ok || !b.isFindObjectCall(&call.Call) || len(call.Call.Args) < 2 || call.Call.Args[1] != pathVal {
				return
			}
			n++
			guarded := false
			for _, f := range dominatingFacts(call.Block()) {
				if nonEmptyFact(f, pathVal) {
					guarded = true
				}
			}
			if !guarded {
				bad = "the path is resolved at " + b.posOf(call) + " without having been compared with \"\": for the empty pointer the resolver answers (root, \"\"), and the operation is carried out on the root's member with the empty name instead of on the document"
			}
		})
		if bad != "" {
			l.add("R-DISPATCH", b.Name, key, b.rel(h.Pos()), Violated, bad, true)
		} else {
			l.add("R-DISPATCH", b.Name, key, b.rel(h.Pos()), Discharged, fmt.Sprintf("%d resolution(s) of the path, each on the != \"\" edge of a comparison with the empty pointer", n), true)
		}
	}
}

// nonEmptyFact: the fact says that the string s is not "" — a comparison with the empty
// string, or of its length with 0 (or 1), with the outcome that excludes it.
func nonEmptyFact(f edgeFact, s ssa.Value) bool {
	bo, ok := f.V.(*ssa.BinOp)
	if !ok {
		return false
	}
	isLen := func(v ssa.Value) bool {
		c, ok := v.(*ssa.Call)
		if !ok || len(c.Call.Args) != 1 || c.Call.Args[0] != s {
			return false
		}
		bi, ok := c.Call.Value.(*ssa.Builtin)
		return ok && bi.Name() == "len"
	}
	x, y, op := bo.X, bo.Y, bo.Op
	if x != s && !isLen(x) {
		// constant on the left: mirror the comparison
		x, y = y, x
		switch op {
		case token.LSS:
			op = token.GTR
		case token.GTR:
			op = token.LSS
		case token.LEQ:
			op = token.GEQ
		case token.GEQ:
			op = token.LEQ
		}
	}
	if x == s {
		if k, isS := strConst(y); isS && k == "" {
			return (op == token.EQL && !f.True) || (op == token.NEQ && f.True)
		}
		return false
	}
	if !isLen(x) {
		return false
	}
	k, isK := intConst(y)
	if !isK {
		return false
	}
	switch {
	case k == 0 && op == token.EQL, k == 0 && op == token.LEQ, k == 1 && op == token.LSS:
		return !f.True
	case k == 0 && op == token.NEQ, k == 0 && op == token.GTR, k == 1 && op == token.GEQ:
		return f.True
	}
	return false
}

// rootOnlyForEmptyPointer (R-TYPESTATE, v5): a handler replaces the whole document only when
// the pointer it was given is "". The resolver answers (root, "") for "" and for "/" alike,
// so a handler that decides "the destination is the document" from what the resolver
// returned also takes the member with the empty name for the document and drops every other
// member. Each write of the root slot in a handler (its own store through the slot's
// pointer, or handing that pointer to a helper that stores through it) lies behind the fact
// `path == ""` — stated directly, or through a container variable that can only be nil
// there because its other definitions were tested non-nil.
func (b *Body) rootOnlyForEmptyPointer(l *Ledger, ai *applyInfo) {
	storesThrough := map[*ssa.Function]map[int]bool{}
	var storing func(f *ssa.Function, depth int) map[int]bool
	storing = func(f *ssa.Function, depth int) map[int]bool {
		if m, ok := storesThrough[f]; ok {
			return m
		}
		m := map[int]bool{}
		storesThrough[f] = m
		if f == nil || f.Blocks == nil || depth > 3 {
			return m
		}
		allInstrs(f, func(i ssa.Instruction) {
			switch x := i.(type) {
			case *ssa.Store:
				if p, ok := x.Addr.(*ssa.Parameter); ok && isRootSlotPtr(p.Type()) {
					m[paramIdx(p)] = true
				}
			case ssa.CallInstruction:
				g := x.Common().StaticCallee()
				if g == nil || g == f {
					return
				}
				for ai, a := range x.Common().Args {
					if p, ok := a.(*ssa.Parameter); ok && isRootSlotPtr(p.Type()) && storing(g, depth+1)[ai] {
						m[paramIdx(p)] = true
					}
				}
			}
		})
		return m
	}
	for _, k := range rfc6902Kinds {
		h := ai.handlers[k]
		if h == nil {
			continue
		}
		var pathVal ssa.Value
		allInstrs(h, func(i ssa.Instruction) {
			call, ok := i.(*ssa.Call)
			if !ok {
				return
			}
			f := call.Call.StaticCallee()
			if f == nil || recvTypeName(f) != "Operation" || f.Name() != "Path" {
				return
			}
			for _, ex := range extractOf(call, 0) {
				pathVal = ex
			}
		})
		key := fmt.Sprintf("handler %q: root slot written only for the empty pointer", k)
		type site struct {
			at   ssa.Instruction
			what string
		}
		var sites []site
		allInstrs(h, func(i ssa.Instruction) {
			switch x := i.(type) {
			case *ssa.Store:
				if p, ok := x.Addr.(*ssa.Parameter); ok && isRootSlotPtr(p.Type()) {
					sites = append(sites, site{i, "store through " + p.Name()})
				}
			case ssa.CallInstruction:
				g := x.Common().StaticCallee()
				if g == nil {
					return
				}
				for ai, a := range x.Common().Args {
					if p, ok := a.(*ssa.Parameter); ok && isRootSlotPtr(p.Type()) && storing(g, 0)[ai] {
						sites = append(sites, site{i, fname(g) + " stores through " + p.Name()})
					}
				}
			}
		})
		if len(sites) == 0 {
			l.add("R-TYPESTATE", b.Name, key, b.rel(h.Pos()), Discharged, "the handler never writes the root slot", true)
			continue
		}
		if pathVal == nil {
			l.add("R-TYPESTATE", b.Name, key, b.rel(h.Pos()), Undecided, "the handler writes the root slot but its call of Operation.Path was not found", true)
			continue
		}
		bad := ""
		for _, s := range sites {
			ok := false
			for _, f := range dominatingFacts(s.at.Block()) {
				if emptyFact(f, pathVal) || nilOnlyWhenEmpty(f, pathVal) {
					ok = true
				}
			}
			if !ok {
				bad = s.what + " at " + b.posOf(s.at) + " is not behind a comparison of the path with \"\": the resolver answers (root, \"\") for \"\" and for \"/\" alike, so what it returned cannot tell the document from its member with the empty name"
			}
		}
		if bad != "" {
			l.add("R-TYPESTATE", b.Name, key, b.rel(h.Pos()), Violated, bad, true)
		} else {
			l.add("R-TYPESTATE", b.Name, key, b.rel(h.Pos()), Discharged, fmt.Sprintf("%d write(s) of the root slot, each behind path == \"\"", len(sites)), true)
		}
	}
}

func isRootSlotPtr(t types.Type) bool {
	pt, ok := t.Underlying().(*types.Pointer)
	return ok && isNamed(pt.Elem(), "container")
}

// emptyFact: the fact says that the string s is "".
func emptyFact(f edgeFact, s ssa.Value) bool {
	return nonEmptyFact(edgeFact{f.V, !f.True}, s)
}

// nilOnlyWhenEmpty: the fact is `v == nil` for a variable v that go/ssa merged from the
// constant nil, arriving over an edge on which s == "" holds, and from values known to be
// non-nil where they arrive: v is nil only where s is "".
func nilOnlyWhenEmpty(f edgeFact, s ssa.Value) bool {
	v, nonNilOnTrue, ok := nilTestOfCond(f.V)
	if !ok || nonNilOnTrue == f.True {
		return false
	}
	phi, ok := v.(*ssa.Phi)
	if !ok {
		return false
	}
	sawNil := false
	for i, e := range phi.Edges {
		pred := phi.Block().Preds[i]
		if isNilConst(e) {
			behind := false
			for _, g := range dominatingFacts(pred) {
				if emptyFact(g, s) {
					behind = true
				}
			}
			for si, sx := range pred.Succs {
				if sx != phi.Block() || len(pred.Succs) != 2 || pred.Succs[0] == pred.Succs[1] {
					continue
				}
				for _, g := range factsOnEdge(pred, si) {
					if emptyFact(g, s) {
						behind = true
					}
				}
			}
			if !behind {
				return false
			}
			sawNil = true
			continue
		}
		if knownNonNilAt(e, pred) {
			continue
		}
		onEdge := false
		for _, t := range nilTests(pred.Parent(), e) {
			if t.Blk == pred && len(pred.Succs) == 2 && pred.Succs[0] != pred.Succs[1] && pred.Succs[t.NonNilSucc] == phi.Block() {
				onEdge = true
			}
		}
		if !onEdge {
			return false
		}
	}
	return sawNil
}

// arrayStaysArray (R-SUCCESS): what a container method stores as the array's element list is
// never a nil slice. The encoder spells a nil slice `null`, so an array that loses its last
// element through `var s []T; s = append(s, rest...)` leaves the document as null instead of
// []. Every store of the element list (the nodes field in v5, the slice behind the pointer in
// the legacy package) is of a slice that cannot be nil: made, a literal, an append of at least
// one element or onto such a slice, or a reslice of the array's own non-empty storage.
func (b *Body) arrayStaysArray(l *Ledger) {
	n := 0
	for _, fn := range b.srcFuncs(b.Lib) {
		if recvTypeName(fn) != "partialArray" {
			continue
		}
		allInstrs(fn, func(i ssa.Instruction) {
			st, ok := i.(*ssa.Store)
			if !ok {
				return
			}
			isList := false
			if fa, ok := st.Addr.(*ssa.FieldAddr); ok {
				if fr := fieldOfAddr(fa); fr.Type == "partialArray" {
					if _, isSl := derefPtr(fa.Type()).Underlying().(*types.Slice); isSl {
						isList = true
					}
				}
			} else if isPtrToNamed(st.Addr.Type(), "partialArray") {
				if _, isSl := derefPtr(st.Addr.Type()).Underlying().(*types.Slice); isSl {
					isList = true
				}
			}
			if !isList {
				return
			}
			n++
			key := fmt.Sprintf("%s: array storage #%d stored is never a nil slice (an emptied array stays [])", fname(fn), n)
			if why := nonNilSlice(st.Val, fn, 0); why != "" {
				l.add("R-SUCCESS", b.Name, key, b.posOf(st), Discharged, why, true)
			} else {
				l.add("R-SUCCESS", b.Name, key, b.posOf(st), Violated, "the element list stored here can be a nil slice (built by appending the remaining elements, possibly none, to a nil slice): an array that loses its last element is written out as null instead of []", true)
			}
		})
	}
}

// nonNilSlice: why v cannot be a nil slice ("" when that is not established).
func nonNilSlice(v ssa.Value, fn *ssa.Function, depth int) string {
	if depth > 6 {
		return ""
	}
	switch x := v.(type) {
	case *ssa.MakeSlice:
		return "made with make"
	case *ssa.ChangeType:
		return nonNilSlice(x.X, fn, depth+1)
	case *ssa.Convert:
		return nonNilSlice(x.X, fn, depth+1)
	case *ssa.Slice:
		if _, isAlloc := x.X.(*ssa.Alloc); isAlloc {
			return "a slice literal"
		}
		if _, isSl := x.X.Type().Underlying().(*types.Slice); isSl {
			if w := nonNilSlice(x.X, fn, depth+1); w != "" {
				return "a reslice of " + w
			}
			// the array's own storage, of which an element has just been addressed
			if ownStorage(x.X, fn) {
				return "a reslice of the array's own storage, which holds the element addressed"
			}
		}
	case *ssa.Phi:
		why := ""
		for _, e := range x.Edges {
			w := nonNilSlice(e, fn, depth+1)
			if w == "" {
				return ""
			}
			why = w
		}
		return why
	case *ssa.Call:
		bi, ok := x.Call.Value.(*ssa.Builtin)
		if !ok || bi.Name() != "append" || len(x.Call.Args) < 2 {
			return ""
		}
		if w := nonNilSlice(x.Call.Args[0], fn, depth+1); w != "" {
			return "an append onto " + w
		}
		// append(s, v): go/ssa passes a slice of a new one-element array
		if sl, ok := x.Call.Args[1].(*ssa.Slice); ok {
			if al, ok := sl.X.(*ssa.Alloc); ok {
				if at, ok := derefPtr(al.Type()).Underlying().(*types.Array); ok && at.Len() >= 1 {
					return "an append of at least one element"
				}
			}
		}
	}
	return ""
}

// ownStorage: v is a load of the receiver's element list (or of the receiver itself, where
// the array type is the slice).
func ownStorage(v ssa.Value, fn *ssa.Function) bool {
	if len(fn.Params) == 0 {
		return false
	}
	recv := ssa.Value(fn.Params[0])
	ld, ok := v.(*ssa.UnOp)
	if !ok || ld.Op != token.MUL {
		return false
	}
	if ld.X == recv {
		return true
	}
	if fa, ok := ld.X.(*ssa.FieldAddr); ok && fa.X == recv {
		return true
	}
	return false
}

// refusalReasons (R-SUCCESS): an operation fails only for a reason it can fail for. Every
// error return of a handler is taken on an edge decided by something that can make the
// operation inapplicable: a lookup or a call that yielded nothing or failed (a comparison with
// nil, an error's identity), the empty pointer or another constant, an option or the copy
// limit, the verdict of a node's own comparison or probe, the dynamic type of the container.
// A refusal decided by anything else — a string function over the two pointers, the identity
// of the container the resolver returned — turns applicable patches away (`move /a -> /ab`
// refused as a move into its own child; `remove /` refused as the removal of the document).
func (b *Body) refusalReasons(l *Ledger, ai *applyInfo) {
	for _, k := range rfc6902Kinds {
		h := ai.handlers[k]
		if h == nil {
			continue
		}
		ei := errResultIndex(h)
		if ei < 0 {
			continue
		}
		n := 0
		for _, r := range liveReturns(h) {
			if isNilConst(retVal(r, ei)) {
				continue
			}
			n++
			key := fmt.Sprintf("handler %q: error return #%d is taken for a reason the operation can fail for", k, n)
			bad := ""
			var reasons []string
			// the deciding edges: those the return is control dependent on, and — where such an
			// edge leaves a block that does nothing but evaluate the next operand of a compound
			// condition — the edges that block depends on in turn (`a && b` is two branches)
			bad, reasons = b.refusalVerdict(r, func(v ssa.Value) string {
				// null is a value: add and replace do not turn an operation away because its
				// value (or the text of it) is nil — that is how "value": null arrives
				if k == "add" || k == "replace" {
					c0, _ := stripNot(v)
					if x, _, isNil := nilTestOfCond(c0); isNil {
						// (the node itself being nil says the member is absent: that is a reason)
						if ld, ok := unwrapConv(x).(*ssa.UnOp); ok && ld.Op == token.MUL {
							if fa, ok := ld.X.(*ssa.FieldAddr); ok && fromOperationValue(fa.X, 0) {
								return ""
							}
						}
					}
				}
				return b.admissibleReason(v, 0)
			})
			if bad != "" {
				bad += ": an applicable operation can be turned away"
			}
			if bad != "" {
				l.add("R-SUCCESS", b.Name, key, b.posOf(r), Violated, bad, true)
			} else {
				l.add("R-SUCCESS", b.Name, key, b.posOf(r), Discharged, "decided by: "+strings.Join(dedup(reasons), "; "), true)
			}
		}
	}
}

// refusalVerdict: the edges a refusing return is control dependent on — and, where such an
// edge leaves a block that does nothing but evaluate the next operand of a compound condition,
// the edges that block depends on in turn (`a && b` is two branches) — are each decided by
// something admit names a reason for.
func (b *Body) refusalVerdict(r *ssa.Return, admit func(ssa.Value) string) (bad string, reasons []string) {
	deps := b.controlDeps(r.Block())
	seenDep := map[edge]bool{}
	for i := 0; i < len(deps) && i < 16; i++ {
		e := deps[i]
		if seenDep[e] {
			continue
		}
		seenDep[e] = true
		if len(e.From.Preds) == 1 && operandBlock(e.From) {
			deps = append(deps, b.controlDeps(e.From)...)
		}
	}
	done := map[edge]bool{}
	for _, e := range deps {
		if done[e] {
			continue
		}
		done[e] = true
		iff, ok := lastInstr(e.From).(*ssa.If)
		if !ok {
			continue
		}
		why := ""
		atoms := condAtoms(iff.Cond, e.Succ == 0, 0)
		allOK := true
		for _, at := range atoms {
			if _, isPhi := at.V.(*ssa.Phi); isPhi && len(atoms) > 1 {
				continue // the conjunction itself; its operands follow
			}
			if w := admit(at.V); w != "" {
				why = w
			} else {
				allOK = false
			}
		}
		if !allOK {
			why = ""
		}
		if why == "" {
			bad = "the refusal at " + b.posOf(r) + " is decided by the condition at " + b.posOf(iff) + " (" + describeValue(iff.Cond) + "), which is neither a failed lookup or call, nor a constant, an option, a node's verdict or a container's type"
		} else {
			reasons = append(reasons, why)
		}
	}
	return bad, reasons
}

// lengthDerived: a length, or a length plus or minus a constant.
func lengthDerived(v ssa.Value) bool {
	v = unwrapConv(v)
	switch x := v.(type) {
	case *ssa.Call:
		if bi, ok := x.Call.Value.(*ssa.Builtin); ok && (bi.Name() == "len" || bi.Name() == "cap") {
			return true
		}
	case *ssa.BinOp:
		if x.Op == token.ADD || x.Op == token.SUB {
			if _, ok := x.Y.(*ssa.Const); ok {
				return lengthDerived(x.X)
			}
			if _, ok := x.X.(*ssa.Const); ok {
				return lengthDerived(x.Y)
			}
		}
	}
	return false
}

// sizeCap: a length compared with a constant larger than 2 — not an emptiness or has-a-token
// test but a cap on how much there may be.
func sizeCap(x *ssa.BinOp) bool {
	for _, p := range [][2]ssa.Value{{x.X, x.Y}, {x.Y, x.X}} {
		if k, ok := intConst(p[0]); ok && (k > 2 || k < -2) && lengthDerived(p[1]) {
			return true
		}
	}
	return false
}

// resolverAndMergeRefusals: the same discipline for the two other places that can turn a
// request away. (R-SUCCESS) The resolver answers "no such container" only where a lookup
// yielded nothing or failed, a conversion failed, or the pointer is not a pointer at all — not
// on the number of reference tokens (documents grow deeper than any text the decoder accepts,
// one add at a time). (R-GATE) CreateMergePatch and the two functions it hands over to refuse
// only on the verdict of the gate or of the library's own look at the texts, on a decoder's
// error, on a decoded nil or on the two lists differing in length — not on a property of the
// bytes RFC 8259 does not ask for (UTF-8 validity, a length).
func (b *Body) resolverAndMergeRefusals(l *Ledger, rule string) {
	// what a function of the library (or the codec) answered, as such or as one of its results
	libVerdict := func(v ssa.Value) *ssa.Function {
		v = unwrapConv(v)
		if ex, ok := v.(*ssa.Extract); ok {
			v = ex.Tuple
		}
		if call, ok := v.(*ssa.Call); ok {
			if f := call.Call.StaticCallee(); f != nil && (f.Pkg == b.Lib || (b.Codec != nil && f.Pkg == b.Codec)) {
				return f
			}
		}
		return nil
	}
	admit := func(v ssa.Value) string {
		c, _ := stripNot(v)
		if x, ok := c.(*ssa.BinOp); ok {
			if sizeCap(x) {
				return ""
			}
			// the walk's own loop: an induction variable against the length of what is walked
			if _, isPhi := unwrapConv(x.X).(*ssa.Phi); isPhi && lengthDerived(x.Y) {
				return "the walk's loop"
			}
			if lengthDerived(x.X) && lengthDerived(x.Y) {
				return "two lengths compared"
			}
		}
		if f := libVerdict(c); f != nil {
			return "the verdict of " + fname(f)
		}
		if x, ok := c.(*ssa.BinOp); ok && (x.Op == token.EQL || x.Op == token.NEQ) {
			if f, g := libVerdict(x.X), libVerdict(x.Y); f != nil && g != nil {
				return "two verdicts of " + fname(f) + " compared"
			}
		}
		return b.admissibleReason(v, 0)
	}
	if rule == "R-SUCCESS" {
		fo := b.roleFn("findObject")
		if fo == nil || len(fo.Blocks) == 0 {
			return
		}
		n := 0
		bad := ""
		var reasons []string
		for _, r := range liveReturns(fo) {
			if len(r.Results) == 0 || !isNilConst(r.Results[0]) {
				continue
			}
			n++
			w, rs := b.refusalVerdict(r, admit)
			if w != "" {
				bad = w + ": a location that exists is reported as absent"
			}
			reasons = append(reasons, rs...)
		}
		key := "findObject: answers with no container only for a reason a pointer can lead nowhere for"
		if bad != "" {
			l.add(rule, b.Name, key, b.rel(fo.Pos()), Violated, bad, true)
		} else if n > 0 {
			l.add(rule, b.Name, key, b.rel(fo.Pos()), Discharged, fmt.Sprintf("%d nil answer(s), decided by: %s", n, strings.Join(dedup(reasons), "; ")), true)
		}
		return
	}
	for _, name := range []string{"CreateMergePatch", "createObjectMergePatch", "createArrayMergePatch"} {
		fn := fnOf(b.Lib, name)
		if fn == nil || len(fn.Blocks) == 0 {
			continue
		}
		ei := errResultIndex(fn)
		if ei < 0 {
			continue
		}
		n := 0
		bad := ""
		var reasons []string
		for _, r := range liveReturns(fn) {
			rv := retVal(r, ei)
			if isNilConst(rv) {
				continue
			}
			// the error of a call, handed on
			if _, _, ok := asResult(rootErr(rv)); ok {
				continue
			}
			n++
			w, rs := b.refusalVerdict(r, admit)
			if w != "" {
				bad = w + ": two well-formed documents are refused on a ground the grammar does not name"
			}
			reasons = append(reasons, rs...)
		}
		if n == 0 {
			continue
		}
		key := name + ": refuses only what the gate, a decoder or the library's own look at the texts refused"
		if bad != "" {
			l.add(rule, b.Name, key, b.rel(fn.Pos()), Violated, bad, true)
		} else {
			l.add(rule, b.Name, key, b.rel(fn.Pos()), Discharged, fmt.Sprintf("%d refusal(s), decided by: %s", n, strings.Join(dedup(reasons), "; ")), true)
		}
	}
}

func (b *Body) admissibleReason(v ssa.Value, depth int) string {
	c, _ := stripNot(v)
	if _, _, ok := nilTestOfCond(c); ok {
		return "a comparison with nil"
	}
	switch x := c.(type) {
	case *ssa.Phi:
		// a verdict held in a variable: each value it can hold is a constant or a reason
		if depth > 3 {
			return ""
		}
		why := ""
		for _, e := range x.Edges {
			if _, isK := boolConst(e); isK {
				continue
			}
			w := b.admissibleReason(e, depth+1)
			if w == "" {
				return ""
			}
			why = w
		}
		return why
	case *ssa.BinOp:
		if sizeCap(x) {
			return ""
		}
		for _, o := range []ssa.Value{x.X, x.Y} {
			if _, isK := o.(*ssa.Const); isK {
				return "a comparison with a constant"
			}
			if g := sentinelGlobal(o); g != nil {
				return "an error's identity (" + g.Name() + ")"
			}
			if b.limitSource(o) != "" {
				return "an option or package setting"
			}
		}
	case *ssa.UnOp:
		if x.Op == token.MUL && b.limitSource(x) != "" {
			return "an option or package setting"
		}
	case *ssa.Extract:
		switch t := x.Tuple.(type) {
		case *ssa.TypeAssert:
			return "the container's dynamic type"
		case *ssa.Lookup:
			return "a member lookup"
		case *ssa.Call:
			if w := b.admissibleCall(t); w != "" {
				return w
			}
		}
	case *ssa.Call:
		return b.admissibleCall(x)
	}
	return ""
}

func (b *Body) admissibleCall(call *ssa.Call) string {
	f := call.Call.StaticCallee()
	if f == nil {
		if call.Call.IsInvoke() {
			return "the answer of a container method"
		}
		return ""
	}
	switch stdName(f) {
	case "errors.Is", "errors.As":
		return "an error's identity"
	}
	if f.Pkg == b.Lib || (b.Codec != nil && f.Pkg == b.Codec) {
		// a verdict of the library's own: a node's comparison or probe, the well-formedness gate
		for _, a := range call.Call.Args {
			if isPtrToNamed(a.Type(), "lazyNode") || isNamed(a.Type(), "container") {
				return "the verdict of " + fname(f)
			}
		}
		if strings.HasPrefix(f.Name(), "Valid") {
			return "the well-formedness gate"
		}
		// a classification of an error by the library itself
		if len(call.Call.Args) == 1 && isErrorType(call.Call.Args[0].Type()) {
			return "an error's identity (" + fname(f) + ")"
		}
	}
	return ""
}

// operandBlock: the block only computes a condition (loads, comparisons, len) and branches.
func operandBlock(bb *ssa.BasicBlock) bool {
	for _, ins := range bb.Instrs {
		switch x := ins.(type) {
		case *ssa.BinOp, *ssa.UnOp, *ssa.FieldAddr, *ssa.IndexAddr, *ssa.If, *ssa.DebugRef, *ssa.Convert, *ssa.ChangeType:
		case *ssa.Call:
			if bi, ok := x.Call.Value.(*ssa.Builtin); !ok || bi.Name() != "len" {
				return false
			}
		default:
			return false
		}
	}
	return true
}

// mergeNamesLiteral (R-MERGESHAPE M6): the member names of a merge patch are names, not JSON
// pointer tokens. Nothing that mergeDocs reaches — the object container's set, remove and
// lookups included — applies the RFC 6901 token decoder: a name such as "a~1b" must arrive
// in the target as it is spelled (moving the decoder from the resolver into the container's
// methods makes MergePatch rename such members to "a/b").
func (b *Body) mergeNamesLiteral(l *Ledger, mergeDocs *ssa.Function) {
	key := "(M8) mergeDocs: member names reach the target as they are (no JSON-pointer decoding on the way)"
	dec := b.roleFn("decodePatchKey")
	isDecoder := func(f *ssa.Function, cc *ssa.CallCommon) bool {
		if f != nil && dec != nil && f == dec {
			return true
		}
		if f != nil && stdName(f) == "strings.(*Replacer).Replace" && len(cc.Args) > 0 {
			if g := loadedGlobal(cc.Args[0]); g != nil && g.Pkg == b.Lib {
				return true
			}
		}
		return false
	}
	seen := map[*ssa.Function]bool{mergeDocs: true}
	queue := []*ssa.Function{mergeDocs}
	from := map[*ssa.Function]*ssa.Function{}
	bad := ""
	for len(queue) > 0 && bad == "" {
		fn := queue[0]
		queue = queue[1:]
		allInstrs(fn, func(i ssa.Instruction) {
			ci, ok := i.(ssa.CallInstruction)
			if !ok || bad != "" {
				return
			}
			cc := ci.Common()
			for _, g := range b.callees(cc) {
				if isDecoder(g, cc) {
					path := fname(fn)
					for p := from[fn]; p != nil; p = from[p] {
						path = fname(p) + " → " + path
					}
					bad = "the token decoder is applied at " + b.posOf(i) + ", reached from the merge walk through " + path + ": a member name holding ~0 or ~1 is rewritten (\"a~1b\" becomes \"a/b\") when a merge patch is applied or composed"
					return
				}
				if g == nil || g.Pkg != b.Lib || seen[g] || len(g.Blocks) == 0 {
					continue
				}
				seen[g] = true
				from[g] = fn
				queue = append(queue, g)
			}
		})
	}
	if bad != "" {
		l.add("R-MERGESHAPE", b.Name, key, b.rel(mergeDocs.Pos()), Violated, bad, true)
	} else {
		l.add("R-MERGESHAPE", b.Name, key, b.rel(mergeDocs.Pos()), Discharged, fmt.Sprintf("%d library function(s) reachable from the merge walk, none applies the RFC 6901 decoder", len(seen)), true)
	}
}

// textlessNullOnlyWhenRaw (R-NULLSPELL): "no text" spells null only for a node that has not
// been decoded. The node the test handler builds for the whole document, and any node put
// together from a container, is text-less *and* holds a value; a null test that answers from
// `raw == nil` before looking at the node's kind takes the whole document for null (`test ""
// null` passes, `test ""` against the document fails). Every bool method of the node that
// answers true on a raw == nil edge does so under which == eRaw — tested in the method, or
// at every one of its call sites, or on a node that was just made from a text.
func (b *Body) textlessNullOnlyWhenRaw(l *Ledger) {
	eRaw := int64(-1)
	if nc, ok := b.Lib.Members["eRaw"].(*ssa.NamedConst); ok {
		if k, ok := intConst(nc.Value); ok {
			eRaw = k
		}
	}
	rawFact := func(f edgeFact, recv ssa.Value) bool {
		bo, ok := f.V.(*ssa.BinOp)
		if !ok || (bo.Op != token.EQL && bo.Op != token.NEQ) {
			return false
		}
		k, isK := intConst(bo.Y)
		if !isK || k != eRaw {
			return false
		}
		base, fr, ok := fieldLoad(bo.X)
		if !ok || fr.Field != "which" || base != recv {
			return false
		}
		return (bo.Op == token.EQL) == f.True
	}
	for _, f := range b.srcFuncs(b.Lib) {
		if f.Signature.Recv() == nil || !isPtrToNamed(f.Signature.Recv().Type(), "lazyNode") || f.Signature.Params().Len() != 0 || f.Signature.Results().Len() != 1 || typeShort(f.Signature.Results().At(0).Type()) != "bool" {
			continue
		}
		recv := ssa.Value(f.Params[0])
		// a null test: looks at whether the node has a text, and writes nothing into the node
		testsRaw, writes := false, false
		allInstrs(f, func(i ssa.Instruction) {
			switch x := i.(type) {
			case *ssa.Store:
				if fa, ok := x.Addr.(*ssa.FieldAddr); ok && fa.X == recv {
					writes = true
				}
			case *ssa.BinOp:
				if v, _, ok := nilTestOfCond(x); ok {
					if base, fr, isLd := fieldLoad(v); isLd && fr.Field == "raw" && base == recv {
						testsRaw = true
					}
				}
			}
		})
		if !testsRaw || writes {
			continue
		}
		// returns that can say true for a node that exists
		var open []*ssa.Return
		any := false
		for _, r := range liveReturns(f) {
			v := retVal(r, 0)
			if k, isK := boolConst(v); isK && !k {
				continue
			}
			facts := dominatingFacts(r.Block())
			facts = append(facts, condAtoms(v, true, 0)...)
			guarded, recvNil := false, false
			for _, ft := range facts {
				if x, nn, ok := nilTestOfCond(ft.V); ok {
					if x == recv && nn != ft.True {
						recvNil = true
					}
				}
				if rawFact(ft, recv) {
					guarded = true
				}
			}
			if recvNil {
				continue
			}
			any = true
			if !guarded {
				open = append(open, r)
			}
		}
		if !any {
			continue
		}
		key := fname(f) + ": a node without text counts as null only while it is undecoded (which == eRaw)"
		if len(open) == 0 {
			l.add("R-NULLSPELL", b.Name, key, b.rel(f.Pos()), Discharged, "every return that says true for raw == nil lies behind which == eRaw in the method itself", true)
			continue
		}
		// … or at every call site
		bad := ""
		sites := 0
		for _, g := range b.srcFuncs(b.Lib) {
			for _, cs := range callsTo(g, func(cc *ssa.CallCommon) bool { return cc.StaticCallee() == f }) {
				sites++
				arg := cs.Common().Args[0]
				ok := false
				for _, ft := range dominatingFacts(cs.Block()) {
					if rawFact(ft, arg) {
						ok = true
					}
				}
				if call, isCall := arg.(*ssa.Call); isCall {
					if cf := call.Call.StaticCallee(); cf != nil && (cf == b.roleFn("newLazyNode") || (recvTypeName(cf) == "Operation" && cf.Name() == "value")) {
						ok = true // just made from a text
					}
				}
				if !ok {
					bad = "the return at " + b.posOf(open[0]) + " says null for any node without text, and the call at " + b.posOf(cs) + " in " + fname(g) + " asks it about a node that may be decoded: the node built for the whole document (no text, kind object or array) is taken for null"
				}
			}
		}
		if bad != "" {
			l.add("R-NULLSPELL", b.Name, key, b.posOf(open[0]), Violated, bad, true)
		} else {
			l.add("R-NULLSPELL", b.Name, key, b.rel(f.Pos()), Discharged, fmt.Sprintf("the method answers from raw == nil alone, and each of its %d call site(s) asks it only under which == eRaw or about a node just made from a text", sites), true)
		}
	}
}

// memberHelper: g looks up the member named by one of its string parameters in the operation
// and hands back (string, present bool[, error]) such that
//   - present is true only where the lookup found the member and it is not null,
//   - the string handed back with present == true is what the codec's decoder made of the
//     member's text, and the error is that decoder's.
//
// Accessors that go through such a helper are judged on the helper's results.
type memberHelperInfo struct {
	nameIdx, strIdx, presentIdx, errIdx int
	errIsPresence                       bool // (string, error): a nil error says the member was there, not null and decoded
}

func (b *Body) memberHelper(g *ssa.Function) (*memberHelperInfo, bool) {
	if g == nil || len(g.Blocks) == 0 || g.Pkg != b.Lib {
		return nil, false
	}
	res := g.Signature.Results()
	info := &memberHelperInfo{nameIdx: -1, strIdx: -1, presentIdx: -1, errIdx: -1}
	for i := 0; i < res.Len(); i++ {
		t := res.At(i).Type()
		switch {
		case isErrorType(t):
			info.errIdx = i
		case isStringType(t):
			info.strIdx = i
		case typeShort(t) == "bool":
			info.presentIdx = i
		default:
			return nil, false
		}
	}
	if info.strIdx < 0 || (info.presentIdx < 0 && info.errIdx < 0) {
		return nil, false
	}
	info.errIsPresence = info.presentIdx < 0
	var lk *ssa.Lookup
	n := 0
	allInstrs(g, func(i ssa.Instruction) {
		x, ok := i.(*ssa.Lookup)
		if !ok {
			return
		}
		if p, isP := x.Index.(*ssa.Parameter); isP && isStringType(p.Type()) {
			if mt, isM := x.X.Type().Underlying().(*types.Map); isM {
				if _, isPtr := mt.Elem().Underlying().(*types.Pointer); isPtr {
					lk = x
					info.nameIdx = paramIdx(p)
					n++
				}
			}
		}
	})
	if n != 1 {
		return nil, false
	}
	var okv, objv ssa.Value
	if lk.CommaOk {
		for _, ex := range extractOf(lk, 1) {
			okv = ex
		}
		for _, ex := range extractOf(lk, 0) {
			objv = ex
		}
	} else {
		objv = lk
	}
	if objv == nil {
		return nil, false
	}
	for _, r := range liveReturns(g) {
		if info.errIsPresence {
			if b.definitelyNonNilErr(retVal(r, info.errIdx), r.Block(), 0) {
				continue
			}
		} else {
			pv := retVal(r, info.presentIdx)
			if k, isK := boolConst(pv); isK && !k {
				continue
			}
		}
		// may say present: found and not null …
		found := !lk.CommaOk
		for _, f := range dominatingFacts(r.Block()) {
			if okv != nil && f.V == okv && f.True {
				found = true
			}
		}
		if !found || !knownNonNilAt(objv, r.Block()) {
			return nil, false
		}
		// … the string is the decoder's, from the member's text …
		if why := b.decodedString(retVal(r, info.strIdx), objv); why != "" {
			return nil, false
		}
		// … and so is the error
		if info.errIdx >= 0 {
			ev := retVal(r, info.errIdx)
			if !isNilConst(ev) {
				call, _, isRes := asResult(ev)
				if !isRes || !b.codecDecodeWrapper(call.Call.StaticCallee(), 0) {
					return nil, false
				}
			} else if info.errIsPresence {
				// the constant nil says "decoded": only behind the decoder's success
				decoded := false
				allInstrs(g, func(i ssa.Instruction) {
					if call, isCall := i.(*ssa.Call); isCall && b.codecDecodeWrapper(call.Call.StaticCallee(), 0) {
						if ok, _ := b.successDominates(call, r); ok {
							decoded = true
						}
					}
				})
				if !decoded {
					return nil, false
				}
			}
		}
	}
	return info, true
}

// viaMemberHelper: fn obtains the member called `member` through a member helper; the values
// standing for (present, string, error) of that call.
func (b *Body) viaMemberHelper(fn *ssa.Function, member string) (hc *ssa.Call, okv, strv, errv ssa.Value, ok bool) {
	allInstrs(fn, func(i ssa.Instruction) {
		call, isCall := i.(*ssa.Call)
		if !isCall || ok {
			return
		}
		g := call.Call.StaticCallee()
		info, isH := b.memberHelper(g)
		if !isH || info.nameIdx >= len(call.Call.Args) {
			return
		}
		if k, isK := strConst(call.Call.Args[info.nameIdx]); !isK || k != member {
			return
		}
		hc = call
		if !info.errIsPresence {
			for _, rv := range resultsOf(call, info.presentIdx) {
				okv = rv
			}
		}
		for _, rv := range resultsOf(call, info.strIdx) {
			strv = rv
		}
		if info.errIdx >= 0 {
			for _, rv := range resultsOf(call, info.errIdx) {
				errv = rv
			}
		}
		ok = okv != nil || (info.errIsPresence && errv != nil)
	})
	return
}

// decoderEntryOnFreshNodes (R-STALERAW): (*lazyNode).UnmarshalJSON installs a text and marks the
// node undecoded without clearing what an earlier decode left in doc/ary: it is the codec's
// entry point for nodes it has just made. Library code that calls it directly does so on a
// node created in the same function — loading a new text into a node of the document that
// has been decoded before makes the next decode merge the new members into the old ones.
func (b *Body) decoderEntryOnFreshNodes(l *Ledger, a *nilAn) {
	um := b.method(b.Lib, "lazyNode", "UnmarshalJSON")
	if um == nil {
		return
	}
	n := 0
	for _, fn := range b.srcFuncs(b.Lib) {
		for _, cs := range callsTo(fn, func(cc *ssa.CallCommon) bool { return cc.StaticCallee() == um }) {
			n++
			key := fmt.Sprintf("%s: direct call #%d of (*lazyNode).UnmarshalJSON is on a node made in this function", fname(fn), n)
			recv := cs.Common().Args[0]
			if a.freshValue(recv) {
				l.add("R-STALERAW", b.Name, key, b.posOf(cs), Discharged, "receiver is "+roleOf(recv), true)
			} else {
				l.add("R-STALERAW", b.Name, key, b.posOf(cs), Violated, "a new text is loaded into "+roleOf(recv)+", which may have been decoded already: its old members stay behind the new text and come back with the next decode", true)
			}
		}
	}
	if n == 0 {
		l.add("R-STALERAW", b.Name, "no direct call of (*lazyNode).UnmarshalJSON in the library (the codec calls it on nodes it makes)", "", Discharged, "call census", false)
	}
}

// oneOperationPerStep (R-DISPATCH): the apply loop takes the operations one at a time. Inside
// the dispatch loop the patch is read only at the loop's own index: no look-ahead at the next
// operation, no second index. Fusing `remove X; add X` into a replace, or skipping an
// operation the previous one "already covered", needs exactly such a read — and changes what
// the sequence does (a member re-created by add keeps the old position).
func (b *Body) oneOperationPerStep(l *Ledger, ai *applyInfo) {
	fn := ai.loopFn
	key := "apply: one operation per iteration, read at the loop's own index (no look-ahead)"
	ds := ai.dispatchSite()
	if ds == nil {
		return
	}
	h := innermostLoopHeader(ds.Block())
	if h == nil {
		return
	}
	bad := ""
	n := 0
	allInstrs(fn, func(i ssa.Instruction) {
		var x, idx ssa.Value
		switch e := i.(type) {
		case *ssa.IndexAddr:
			x, idx = e.X, e.Index
		case *ssa.Index:
			x, idx = e.X, e.Index
		default:
			return
		}
		if !isNamed(unwrapConv(x).Type(), "Patch") {
			return
		}
		if hh := innermostLoopHeader(i.Block()); hh == nil || !(hh == h || h.Dominates(hh)) || !naturalLoop(h)[i.Block()] {
			return // outside the dispatch loop (a count, a validation pass: judged elsewhere)
		}
		n++
		if !isRangeIndex(h, idx, x) {
			bad = "the patch is read at " + b.posOf(i) + " with an index that is not the dispatch loop's own: an operation other than the current one is looked at (or skipped)"
		}
		// … and the loop runs over the whole patch, from its first operation: a part of it
		// (the operations from the last root replacement on, say) leaves out operations whose
		// failure is the patch's outcome
		if sl, ok := unwrapConv(x).(*ssa.Slice); ok && (sl.Low != nil || sl.High != nil) {
			bad = "the dispatch loop runs over " + describeValue(sl) + " (" + b.posOf(sl) + "), a part of the patch: the operations outside it are never applied, so one of them that cannot be applied no longer fails the patch"
		}
	})
	if bad != "" {
		l.add("R-DISPATCH", b.Name, key, b.rel(fn.Pos()), Violated, bad, true)
	} else {
		l.add("R-DISPATCH", b.Name, key, b.rel(fn.Pos()), Discharged, fmt.Sprintf("%d read(s) of the patch inside the dispatch loop, each at the loop index", n), true)
	}
}

// decodeRefusals: the functions that turn a text into the library's own form fail only when
// what they called failed. (R-DISPATCH) DecodePatch refuses a text only on the verdict of the
// well-formedness gate, on the decoder's error or on the validator's error — not on the size
// or shape of what was decoded (`[]` is a patch). (R-GATE) The decode hooks of the container
// types (UnmarshalJSON of the node, the object and the array) hand back only errors of the
// codec calls they make: a second check there refuses documents the grammar accepts.
func (b *Body) decodeRefusals(l *Ledger, rule string, fns []*ssa.Function) {
	for _, fn := range fns {
		if fn == nil || len(fn.Blocks) == 0 {
			continue
		}
		ei := errResultIndex(fn)
		if ei < 0 {
			continue
		}
		n := 0
		bad := ""
		for _, r := range liveReturns(fn) {
			rv := retVal(r, ei)
			if isNilConst(rv) {
				continue
			}
			n++
			// the error of a call, handed on (or wrapped) …
			if call, _, ok := asResult(rootErr(rv)); ok {
				if f := call.Call.StaticCallee(); f != nil && (f.Pkg == b.Lib || (b.Codec != nil && f.Pkg == b.Codec) || (f.Pkg != nil && f.Pkg.Pkg.Path() == "encoding/json")) {
					continue
				}
			}
			// … or a refusal decided by such a call's verdict
			okDep := false
			for _, e := range b.controlDeps(r.Block()) {
				iff, isIf := lastInstr(e.From).(*ssa.If)
				if !isIf {
					continue
				}
				c0, _ := stripNot(iff.Cond)
				if x, _, isNil := nilTestOfCond(c0); isNil && isErrorType(x.Type()) {
					okDep = true
				}
				if call, isCall := c0.(*ssa.Call); isCall {
					if f := call.Call.StaticCallee(); f != nil && b.Codec != nil && (f.Pkg == b.Codec || f.Pkg == b.Lib) {
						okDep = true
					}
				}
			}
			if !okDep {
				bad = "the error return at " + b.posOf(r) + " is not the failure of a call made here, nor decided by the gate's or a decoder's verdict: a text that is well-formed (and, for a patch, valid) is refused on some other ground"
			}
		}
		if n == 0 {
			continue
		}
		key := fname(fn) + ": refuses only what the gate, the decoder or the validator refused"
		if bad != "" {
			l.add(rule, b.Name, key, b.rel(fn.Pos()), Violated, bad, true)
		} else {
			l.add(rule, b.Name, key, b.rel(fn.Pos()), Discharged, fmt.Sprintf("%d error return(s), each the failure or the verdict of a call", n), true)
		}
	}
}

// rootErr: the error value behind fmt.Errorf("…%w", e) wrappings and conversions.
func rootErr(v ssa.Value) ssa.Value {
	for d := 0; d < 4; d++ {
		v = unwrapConv(v)
		call, ok := v.(*ssa.Call)
		if !ok || !staticCalleeIs(&call.Call, "fmt", "Errorf") {
			return v
		}
		ops := errorfWrapOperands(call)
		if len(ops) != 1 {
			return v
		}
		v = ops[0]
	}
	return v
}

// unescapeTable (R-TABLES, codec): the decoder's string unquoting maps the single-character
// escapes as RFC 8259 §7 says — \" \\ \/ to themselves, \b \f \n \r \t to 08 0C 0A 0D 09 —
// whether it is written as a switch with one constant store per case or as a look-up in a
// constant byte table. (The inherited code also takes \' for an apostrophe; the scanner in
// front of it never lets that through, so it is tolerated here and nothing else is.)
func (b *Body) unescapeTable(l *Ledger) {
	if b.Codec == nil {
		return
	}
	fn := fnOf(b.Codec, "unquoteBytes")
	key := "unquoteBytes: the single-character escapes decode to the bytes RFC 8259 names"
	if fn == nil || len(fn.Params) == 0 {
		l.add("R-TABLES", "codec", key, "", Undecided, "unquoteBytes not found", false)
		return
	}
	src := ssa.Value(fn.Params[0])
	fromSrc := taintClosure(fn, []ssa.Value{src}, nil)
	// byte loads from the input, and stores of one byte into a slice made here
	var loads []*ssa.UnOp
	var stores []*ssa.Store
	allInstrs(fn, func(i ssa.Instruction) {
		switch x := i.(type) {
		case *ssa.UnOp:
			if ia, ok := x.X.(*ssa.IndexAddr); ok && x.Op == token.MUL && (ia.X == src || fromSrc[ia.X]) && isByteSlice(ia.X.Type()) {
				loads = append(loads, x)
			}
		case *ssa.Store:
			if ia, ok := x.Addr.(*ssa.IndexAddr); ok && isByteSlice(ia.X.Type()) {
				stores = append(stores, x)
			}
		}
	})
	byteTables := map[*ssa.Global]*[256]int64{}
	tableOf := func(g *ssa.Global) *[256]int64 {
		if t, ok := byteTables[g]; ok {
			return t
		}
		var t [256]int64
		ok := false
		if init := g.Pkg.Func("init"); init != nil {
			ok = true
			allInstrs(init, func(i ssa.Instruction) {
				st, isSt := i.(*ssa.Store)
				if !isSt {
					return
				}
				ia, isIA := st.Addr.(*ssa.IndexAddr)
				if !isIA || ia.X != ssa.Value(g) {
					return
				}
				idx, okI := intConst(ia.Index)
				v, okV := intConst(st.Val)
				if !okI || !okV || idx < 0 || idx > 255 {
					ok = false
					return
				}
				t[idx] = v
			})
		}
		if !ok {
			byteTables[g] = nil
			return nil
		}
		byteTables[g] = &t
		return &t
	}
	// the escape byte: the load under which constant stores are selected
	want := map[int]int64{'"': '"', '\\': '\\', '/': '/', 'b': 8, 'f': 12, 'n': 10, 'r': 13, 't': 9}
	var best map[int]int64
	bestWhy := ""
	bestConst := 0
	for _, ld := range loads {
		got := map[int]int64{}
		sawConst := false
		bad := ""
		for _, st := range stores {
			set, err := b.reachSet(fn, ld, map[ssa.Value]bool{}, nil, st)
			if err != "" {
				continue
			}
			full := true
			any := false
			for c := 0; c < 256; c++ {
				if set.has(c) {
					any = true
				} else {
					full = false
				}
			}
			if !any || full {
				continue // not selected by this byte
			}
			for c := 0; c < 256; c++ {
				if !set.has(c) {
					continue
				}
				var v int64 = -1
				val := unwrapConv(st.Val)
				if k, ok := intConst(val); ok {
					v = k
					sawConst = true
				} else if u, ok := val.(*ssa.UnOp); ok && u.Op == token.MUL {
					if ia, ok := u.X.(*ssa.IndexAddr); ok {
						if ia0, ok0 := ld.X.(*ssa.IndexAddr); ok0 && ia.X == ia0.X && ia.Index == ia0.Index {
							v = int64(c) // the escape byte itself
						} else if g, isG := ia.X.(*ssa.Global); isG && (unwrapConv(ia.Index) == ssa.Value(ld)) {
							if t := tableOf(g); t != nil {
								v = t[c]
								sawConst = true
							}
						}
					}
				} else if val == ssa.Value(ld) {
					v = int64(c)
				} else if u2, ok := val.(*ssa.UnOp); ok && u2.Op == token.MUL {
					_ = u2
				}
				// a value read from a table into a variable first (v := tbl[c]; if v != 0 { b[w] = v })
				if v < 0 {
					if u, ok := val.(*ssa.UnOp); ok && u.Op == token.MUL {
						if ia, ok := u.X.(*ssa.IndexAddr); ok {
							if g, isG := ia.X.(*ssa.Global); isG {
								if t := tableOf(g); t != nil {
									v = t[c]
									sawConst = true
								}
							}
						}
					}
				}
				if v < 0 {
					bad = "the byte stored at " + b.posOf(st) + " for the escape character " + strconv.QuoteRune(rune(c)) + " is not a constant, a table entry or the character itself"
					continue
				}
				if old, dup := got[c]; dup && old != v {
					bad = fmt.Sprintf("two different bytes are stored for the escape character %q", rune(c))
				}
				got[c] = v
			}
		}
		// the escape byte is the one whose values select the constant stores one by one: a byte
		// under which two constants land on the same value (the backslash test of the outer
		// loop) is not it
		conflict := strings.HasPrefix(bad, "two different bytes")
		nConst := 0
		for c, v := range got {
			if v != int64(c) {
				nConst++
			}
		}
		if sawConst && !conflict && nConst > bestConst {
			best, bestWhy, bestConst = got, bad, nConst
		}
	}
	if best == nil {
		l.add("R-TABLES", "codec", key, b.rel(fn.Pos()), Undecided, "no byte of the input selects constant stores: the escape dispatch was not recognised", true)
		return
	}
	bad := bestWhy
	for c, v := range want {
		if g, ok := best[c]; !ok {
			bad = fmt.Sprintf("the escape \\%c is not decoded", rune(c))
		} else if g != v {
			bad = fmt.Sprintf("the escape \\%c decodes to byte 0x%02x, RFC 8259 says 0x%02x", rune(c), g, v)
		}
	}
	for c, v := range best {
		if _, ok := want[c]; ok || c == '\'' || c == 'u' {
			continue
		}
		if v != 0 {
			bad = fmt.Sprintf("\\%c is decoded (to 0x%02x) although JSON has no such escape", rune(c), v)
		}
	}
	if bad != "" {
		l.add("R-TABLES", "codec", key, b.rel(fn.Pos()), Violated, bad, true)
	} else {
		l.add("R-TABLES", "codec", key, b.rel(fn.Pos()), Discharged, fmt.Sprintf("%d escape characters mapped: \" \\ / to themselves, b f n r t to 08 0C 0A 0D 09", len(want)), true)
	}
}

// noUnsafe (R-EFFECT): neither the library nor the codec imports package unsafe. A string made
// over a byte slice without copying (`*(*string)(unsafe.Pointer(&b))`) is a view of memory
// that is written again later — the decoder's input buffer, a pooled buffer — so a value
// handed out changes after the fact; Go's own aliasing guarantees, which every other
// obligation of this rule relies on, end where unsafe begins.
func (b *Body) noUnsafe(l *Ledger) {
	for _, pkg := range []*ssa.Package{b.Lib, b.Codec} {
		if pkg == nil {
			continue
		}
		lab := b.Name
		if pkg == b.Codec {
			lab = "codec"
		}
		key := "package " + pkg.Pkg.Name() + " does not import unsafe"
		bad := ""
		for _, imp := range pkg.Pkg.Imports() {
			if imp.Path() == "unsafe" {
				bad = "package unsafe is imported"
			}
		}
		for _, fn := range b.srcFuncs(pkg) {
			allInstrs(fn, func(i ssa.Instruction) {
				if cv, ok := i.(*ssa.Convert); ok {
					if bt, isB := cv.Type().Underlying().(*types.Basic); isB && bt.Kind() == types.UnsafePointer {
						bad = "conversion to unsafe.Pointer in " + fname(fn) + " at " + b.posOf(i)
					}
					if bt, isB := cv.X.Type().Underlying().(*types.Basic); isB && bt.Kind() == types.UnsafePointer {
						bad = "conversion from unsafe.Pointer in " + fname(fn) + " at " + b.posOf(i)
					}
				}
			})
		}
		if bad != "" {
			l.add("R-EFFECT", lab, key, "", Violated, bad+": memory is reinterpreted without a copy, so a value that was handed out can change when the bytes behind it are written again", true)
		} else {
			l.add("R-EFFECT", lab, key, "", Discharged, "no import of unsafe and no unsafe.Pointer conversion", true)
		}
	}
}

// noGoroutines (R-GLOBALS): the library and the codec start no goroutines. What a call returns
// is computed on the caller's goroutine in program order; work handed to goroutines comes
// back in completion order (an array of element patches permuted) or needs shared state.
func (b *Body) noGoroutines(l *Ledger) {
	for _, pkg := range []*ssa.Package{b.Lib, b.Codec} {
		if pkg == nil {
			continue
		}
		lab := b.Name
		if pkg == b.Codec {
			lab = "codec"
		}
		key := "package " + pkg.Pkg.Name() + " starts no goroutine"
		bad := ""
		for _, fn := range b.srcFuncs(pkg) {
			allInstrs(fn, func(i ssa.Instruction) {
				if _, ok := i.(*ssa.Go); ok {
					bad = "go statement in " + fname(fn) + " at " + b.posOf(i) + ": results assembled by goroutines depend on their schedule"
				}
			})
		}
		if bad != "" {
			l.add("R-GLOBALS", lab, key, "", Violated, bad, true)
		} else {
			l.add("R-GLOBALS", lab, key, "", Discharged, "no go statement", true)
		}
	}
}

// marshalerOutputCompacted (R-ESCSET, codec): what a MarshalJSON method hands back reaches the
// output only through compact, under the caller's escapeHTML flag. compact is where the text of
// a raw message is checked, stripped of white space and escaped; writing the bytes as they are
// makes the flag decide more than the spelling of < > & U+2028/9 (white space inside untouched
// values stays or goes with it).
func (b *Body) marshalerOutputCompacted(l *Ledger) {
	if b.Codec == nil {
		return
	}
	n := 0
	for _, fn := range b.srcFuncs(b.Codec) {
		allInstrs(fn, func(i ssa.Instruction) {
			call, ok := i.(*ssa.Call)
			if !ok || !call.Call.IsInvoke() || call.Call.Method.Name() != "MarshalJSON" {
				return
			}
			n++
			key := fmt.Sprintf("%s: output of MarshalJSON #%d goes to the buffer through compact only", fname(fn), n)
			bad := ""
			nCompact := 0
			for _, ex := range extractOf(call, 0) {
				for _, r := range *ex.Referrers() {
					switch x := r.(type) {
					case *ssa.DebugRef:
					case *ssa.Call:
						f := x.Call.StaticCallee()
						if f != nil && f.Pkg == b.Codec && strings.Contains(strings.ToLower(f.Name()), "compact") {
							nCompact++
							continue
						}
						if bi, isB := x.Call.Value.(*ssa.Builtin); isB && bi.Name() == "len" {
							continue
						}
						bad = "the bytes are handed to " + calleeLabel(&x.Call) + " at " + b.posOf(x) + " without passing compact"
					default:
						bad = fmt.Sprintf("the bytes are used by %T at %s", r, b.posOf(r))
					}
				}
			}
			if bad == "" && nCompact == 0 {
				bad = "the bytes never reach compact"
			}
			if bad != "" {
				l.add("R-ESCSET", "codec", key, b.posOf(call), Violated, bad, true)
			} else {
				l.add("R-ESCSET", "codec", key, b.posOf(call), Discharged, "compact is the only consumer of the bytes", true)
			}
		})
	}
}

// handlersGetTheRootSlot (R-DISPATCH): the container pointer the handlers are given is the apply
// function's own root variable. When the dispatch sits in a helper, the helper takes that pointer
// and passes it on; a helper that takes the container by value hands the handlers the address of
// its copy, and a replacement of the whole document is lost when the helper returns.
func (b *Body) handlersGetTheRootSlot(l *Ledger, ai *applyInfo) {
	key := "apply dispatch: the handlers are given the apply function's own root slot"
	bad := ""
	n := 0
	for _, k := range rfc6902Kinds {
		call := ai.cases[k]
		if call == nil {
			continue
		}
		for _, a := range call.Call.Args {
			if !isRootSlotPtr(a.Type()) {
				continue
			}
			n++
			switch x := a.(type) {
			case *ssa.Alloc:
				if call.Parent() != ai.loopFn {
					bad = "handler " + k + " is given the address of a local of " + fname(call.Parent()) + ", which is not the function that holds the document: what the handler stores there is dropped when " + fname(call.Parent()) + " returns"
				}
			case *ssa.Parameter:
				if ai.viaCall == nil || x.Parent() != ai.fn {
					bad = "handler " + k + " is given a parameter of " + fname(x.Parent()) + " that is not traced to the apply loop"
				} else if pi := paramIdx(x); pi < len(ai.viaCall.Call.Args) {
					if _, isAl := ai.viaCall.Call.Args[pi].(*ssa.Alloc); !isAl {
						bad = "the root slot handed to the dispatch helper is " + describeValue(ai.viaCall.Call.Args[pi]) + ", not the address of the apply function's root variable"
					}
				}
			default:
				bad = "handler " + k + " is given " + describeValue(a) + " as the root slot"
			}
		}
	}
	if n == 0 {
		return
	}
	if bad != "" {
		l.add("R-DISPATCH", b.Name, key, b.rel(ai.fn.Pos()), Violated, bad, true)
	} else {
		l.add("R-DISPATCH", b.Name, key, b.rel(ai.fn.Pos()), Discharged, fmt.Sprintf("%d handler call(s), each with the address of the root variable of %s (handed through the dispatch helper where there is one)", n, fname(ai.loopFn)), true)
	}
}

// commandOptionsAndFiles (R-CMD): (ix) when the command applies a patch with explicit options,
// those options come from NewApplyOptions() — a composite literal leaves every switch the
// command does not name at its zero value (SupportNegativeIndices and EscapeHTML off), so the
// command no longer prints what the library's Apply gives; (x) inside the loop over the -p
// values every iteration reaches DecodePatch: a file is decoded or the command fails — an
// iteration that moves on without decoding (an "empty file" shortcut) applies fewer patches
// than were named, and exits 0.
func (b *Body) commandOptionsAndFiles(l *Ledger, lab string, fns []*ssa.Function) {
	var optCalls, decodes []*ssa.Call
	for _, fn := range fns {
		allInstrs(fn, func(i ssa.Instruction) {
			call, ok := i.(*ssa.Call)
			if !ok {
				return
			}
			f := call.Call.StaticCallee()
			if f == nil || f.Pkg != b.Lib {
				return
			}
			if recvTypeName(f) == "Patch" && strings.HasSuffix(f.Name(), "WithOptions") {
				optCalls = append(optCalls, call)
			}
			if f.Name() == "DecodePatch" {
				decodes = append(decodes, call)
			}
		})
	}
	for n, call := range optCalls {
		key := fmt.Sprintf("(ix) options #%d handed to the library start from NewApplyOptions()", n+1)
		opt := call.Call.Args[len(call.Call.Args)-1]
		ok := false
		var walk func(v ssa.Value, d int)
		walk = func(v ssa.Value, d int) {
			if d > 4 {
				return
			}
			switch x := v.(type) {
			case *ssa.Call:
				if f := x.Call.StaticCallee(); f != nil && f.Pkg == b.Lib && f.Name() == "NewApplyOptions" {
					ok = true
				}
			case *ssa.Phi:
				for _, e := range x.Edges {
					walk(e, d+1)
				}
			case *ssa.UnOp:
				if al, isAl := x.X.(*ssa.Alloc); isAl {
					for _, r := range *al.Referrers() {
						if st, isSt := r.(*ssa.Store); isSt && st.Addr == ssa.Value(al) {
							walk(st.Val, d+1)
						}
					}
				}
			}
		}
		walk(opt, 0)
		if ok {
			l.add("R-CMD", lab, key, b.posOf(call), Discharged, "the options value is the result of NewApplyOptions()", true)
		} else {
			l.add("R-CMD", lab, key, b.posOf(call), Violated, "the options are "+describeValue(opt)+", not the result of NewApplyOptions(): switches the command does not set are false instead of the library's defaults (negative indices, HTML escaping), so the command's output differs from the library's Apply", true)
		}
	}
	for n, dc := range decodes {
		h := innermostLoopHeader(dc.Block())
		if h == nil {
			continue
		}
		key := fmt.Sprintf("(x) DecodePatch #%d runs for every -p value: no iteration moves on without it", n+1)
		bad := ""
		for _, p := range h.Preds {
			if h.Dominates(p) && !dc.Block().Dominates(p) {
				bad = "the loop can start its next iteration (from " + b.posOf(lastInstr(p)) + ") without having decoded the current file: a patch file that was named is not applied, and the command still exits 0"
			}
		}
		if bad != "" {
			l.add("R-CMD", lab, key, b.posOf(dc), Violated, bad, true)
		} else {
			l.add("R-CMD", lab, key, b.posOf(dc), Discharged, "the call dominates the loop's back edge", true)
		}
		// (xi) what is decoded is what was read: the bytes handed to DecodePatch are the
		// file's bytes as the read call returned them (a file the library would refuse — a
		// lone operation object, say — is not made acceptable on the way)
		key = fmt.Sprintf("(xi) DecodePatch #%d is handed the bytes of the file as they were read", n+1)
		arg := unwrapConv(dc.Call.Args[0])
		if ex, ok := arg.(*ssa.Extract); ok && ex.Index == 0 {
			if rc, ok := ex.Tuple.(*ssa.Call); ok && rc.Call.StaticCallee() != nil && strings.Contains(rc.Call.StaticCallee().Name(), "Read") {
				l.add("R-CMD", lab, key, b.posOf(dc), Discharged, "the argument is result 0 of "+calleeLabel(&rc.Call), true)
				continue
			}
		}
		l.add("R-CMD", lab, key, b.posOf(dc), Violated, "the argument is "+describeValue(arg)+", not the bytes a read call returned: the command decodes something other than the patch file's content", true)
	}
	// (xiii) the command leaves the library's package settings alone: what it prints is what the
	// library produces with its defaults (a copy-size limit of the command's own refuses
	// patches the library applies)
	{
		key := "(xiii) the command stores nothing into the library's package variables"
		bad := ""
		for _, fn := range fns {
			allInstrs(fn, func(i ssa.Instruction) {
				st, ok := i.(*ssa.Store)
				if !ok {
					return
				}
				if g, isG := rootOfAddr(st.Addr).(*ssa.Global); isG && g.Pkg == b.Lib {
					bad = "the command writes the library's " + g.Name() + " at " + b.posOf(st) + ": it no longer applies patches the way the library does by default"
				}
			})
		}
		if bad != "" {
			l.add("R-CMD", lab, key, "", Violated, bad, true)
		} else {
			l.add("R-CMD", lab, key, "", Discharged, "no store into a package-level variable of the library", true)
		}
	}
	// (xii) no -p value is demanded: without patch files the document passes through
	if len(fns) > 0 && fns[0].Pkg != nil {
		key := "(xii) the -p option is not required: with no patch file the document is printed as the library leaves it"
		bad := ""
		n := 0
		sc := fns[0].Pkg.Pkg.Scope()
		for _, name := range sc.Names() {
			tn, ok := sc.Lookup(name).(*types.TypeName)
			if !ok {
				continue
			}
			st, ok := tn.Type().Underlying().(*types.Struct)
			if !ok {
				continue
			}
			for i := 0; i < st.NumFields(); i++ {
				tag := reflect.StructTag(st.Tag(i))
				if tag.Get("long") == "" && tag.Get("short") == "" {
					continue
				}
				n++
				if r := tag.Get("required"); r != "" && r != "false" && r != "no" {
					bad = "option " + st.Field(i).Name() + " of " + name + " is tagged required:\"" + r + "\": a run without it is refused by the flag parser before stdin is read"
				}
			}
		}
		if bad != "" {
			l.add("R-CMD", lab, key, "", Violated, bad, true)
		} else if n > 0 {
			l.add("R-CMD", lab, key, "", Discharged, fmt.Sprintf("%d option field(s), none tagged required", n), true)
		}
	}
}

// rescanNumberBytes (R-TABLES, codec): the decoder finds the end of a number literal by
// skipping the bytes a number can hold. The validity-assuming decoder relies on that loop
// stopping exactly where the scanner's number ended: the set of bytes it runs over is the ten
// digits and . e E + - whether it is spelled as a switch or as a look-up in a constant table.
// (A set that lacks E ends the literal 1E5 after the 1: the decoder is out of step with the
// text it was promised to be well-formed, and panics or reads another value.)
func (b *Body) rescanNumberBytes(l *Ledger) {
	if b.Codec == nil {
		return
	}
	key := "rescanLiteral: a number literal is skipped over exactly the bytes a number can hold"
	fn := b.method(b.Codec, "decodeState", "rescanLiteral")
	if fn == nil || len(fn.Blocks) == 0 {
		l.add("R-TABLES", "codec", key, "", Undecided, "rescanLiteral not found", false)
		return
	}
	tables := map[*ssa.Global]*[256]bool{}
	for name, m := range b.Codec.Members {
		if g, ok := m.(*ssa.Global); ok {
			if at, isArr := g.Type().(*types.Pointer).Elem().Underlying().(*types.Array); isArr {
				if bt, isB := at.Elem().Underlying().(*types.Basic); isB && bt.Kind() == types.Bool && at.Len() <= 256 {
					if t, _, ok := b.boolTable(b.Codec, name); ok {
						tt := t
						tables[g] = &tt
					}
				}
			}
		}
	}
	want := setOf('0', '1', '2', '3', '4', '5', '6', '7', '8', '9', '.', 'e', 'E', '+', '-')
	found, bestSize := 0, 0
	bad := ""
	var pos string
	allInstrs(fn, func(i ssa.Instruction) {
		ld, ok := i.(*ssa.UnOp)
		if !ok || ld.Op != token.MUL {
			return
		}
		ia, ok := ld.X.(*ssa.IndexAddr)
		if !ok || !isByteSlice(ia.X.Type()) {
			return
		}
		h := innermostLoopHeader(ld.Block())
		if h == nil {
			return
		}
		var got bset
		for _, p := range h.Preds {
			if !h.Dominates(p) || len(p.Instrs) == 0 {
				continue
			}
			s, err := b.reachSet(fn, ld, nil, tables, p.Instrs[0])
			if err != "" {
				return
			}
			got = got.or(s)
		}
		digits := true
		for c := '0'; c <= '9'; c++ {
			if !got.has(int(c)) {
				digits = false
			}
		}
		if !digits {
			return
		}
		// of the loops that run over the digits (the string scan does, too) the number scan
		// is the one with the smallest set
		size := 0
		for c := 0; c < 256; c++ {
			if got.has(c) {
				size++
			}
		}
		if found > 0 && size >= bestSize {
			return
		}
		found++
		bestSize = size
		pos = b.posOf(ld)
		bad = ""
		if got != want {
			bad = "the loop over the byte read at " + b.posOf(ld) + " runs over " + got.String() + ", a number holds " + want.String() + ": the decoder ends (or extends) a number literal where the scanner did not"
		}
	})
	switch {
	case found == 0:
		l.add("R-TABLES", "codec", key, b.rel(fn.Pos()), Undecided, "no loop of rescanLiteral runs over the digits: the number scan was not recognised", true)
	case bad != "":
		l.add("R-TABLES", "codec", key, pos, Violated, bad, true)
	default:
		l.add("R-TABLES", "codec", key, pos, Discharged, "continue set of the number loop computed by byte-path enumeration: "+want.String(), true)
	}
}

// surrogatePairs (R-TABLES, codec): what the string decoder writes for \uXXXX is a code point
// that came out of the standard library or straight out of the four hex digits — the pair
// \uD83D\uDE00 through utf16.DecodeRune, a single escape through getu4, raw text through
// utf8.DecodeRune, or the replacement character. A rune computed by arithmetic of the
// decoder's own is not decided here (hand-written range tests for the two halves are where
// off-by-one errors live: a low half bounded by < 0xDFFF loses every pair ending in DFFF).
func (b *Body) surrogatePairs(l *Ledger) {
	if b.Codec == nil {
		return
	}
	fn := fnOf(b.Codec, "unquoteBytes")
	key := "unquoteBytes: every rune written comes from utf16.DecodeRune, utf8.DecodeRune, the four hex digits or a constant"
	if fn == nil || len(fn.Blocks) == 0 {
		l.add("R-TABLES", "codec", key, "", Undecided, "unquoteBytes not found", false)
		return
	}
	getu4 := fnOf(b.Codec, "getu4")
	var admissible func(v ssa.Value, d int) bool
	admissible = func(v ssa.Value, d int) bool {
		if d > 6 {
			return false
		}
		v = unwrapConv(v)
		switch x := v.(type) {
		case *ssa.Const:
			return true
		case *ssa.Phi:
			for _, e := range x.Edges {
				if !admissible(e, d+1) {
					return false
				}
			}
			return true
		case *ssa.Extract:
			if call, ok := x.Tuple.(*ssa.Call); ok {
				switch stdName(call.Call.StaticCallee()) {
				case "unicode/utf8.DecodeRune", "unicode/utf8.DecodeRuneInString":
					return x.Index == 0
				}
			}
		case *ssa.Call:
			f := x.Call.StaticCallee()
			if f == nil {
				return false
			}
			if getu4 != nil && f == getu4 {
				return true
			}
			if stdName(f) == "unicode/utf16.DecodeRune" {
				for _, a := range x.Call.Args {
					c, ok := unwrapConv(a).(*ssa.Call)
					if !ok || c.Call.StaticCallee() != getu4 {
						return false
					}
				}
				return true
			}
		}
		return false
	}
	n, pairs := 0, 0
	bad := ""
	allInstrs(fn, func(i ssa.Instruction) {
		call, ok := i.(*ssa.Call)
		if !ok {
			return
		}
		switch stdName(call.Call.StaticCallee()) {
		case "unicode/utf16.DecodeRune":
			pairs++
		case "unicode/utf8.EncodeRune", "unicode/utf8.AppendRune":
			n++
			if !admissible(call.Call.Args[1], 0) {
				bad = "the rune written at " + b.posOf(call) + " is " + describeValue(call.Call.Args[1]) + ", computed by the decoder itself: the pairing of surrogate halves is not the standard library's and is not decided here"
			}
		}
	})
	switch {
	case bad != "":
		l.add("R-TABLES", "codec", key, b.rel(fn.Pos()), Violated, bad, true)
	case n == 0 || pairs == 0:
		l.add("R-TABLES", "codec", key, b.rel(fn.Pos()), Undecided, fmt.Sprintf("%d rune write(s), %d utf16.DecodeRune call(s): the decoding of escapes was not recognised", n, pairs), true)
	default:
		l.add("R-TABLES", "codec", key, b.rel(fn.Pos()), Discharged, fmt.Sprintf("%d rune write(s); the surrogate pair goes through utf16.DecodeRune on two getu4 results", n), true)
	}
}

// decodedSidesTestedFirst (R-MERGESHAPE M10): in doMergePatch each of the two decoded sides —
// an object container decoded in place, whose member map stays nil when the text was null —
// is handed to the merge walk, the pruning or the encoder only after its member map was
// tested: the test (with the error test it is combined with) comes before every such use on
// every path, and its nil edge leaves the function. Moving the tests into the branch where
// both sides decoded lets a null patch reach the pruning of a non-object document's
// replacement, where it fails at the encoder instead of replacing the document.
func (b *Body) decodedSidesTestedFirst(l *Ledger) {
	fn := fnOf(b.Lib, "doMergePatch")
	if fn == nil || len(fn.Blocks) == 0 || b.Name != "v5" {
		return // the legacy package decodes into a map type: null is a nil map that every use tests
	}
	key := "(M10) doMergePatch: a decoded side reaches the merge walk, the pruning and the encoder only after its member map was tested"
	n := 0
	bad := ""
	allInstrs(fn, func(i ssa.Instruction) {
		al, ok := i.(*ssa.Alloc)
		if !ok || !isNamed(derefPtr(al.Type()), "partialDoc") {
			return
		}
		n++
		// the values that can be this side: the allocation and the phis it flows into
		is := map[ssa.Value]bool{al: true}
		for changed := true; changed; {
			changed = false
			allInstrs(fn, func(j ssa.Instruction) {
				if ph, ok := j.(*ssa.Phi); ok && !is[ph] {
					for _, e := range ph.Edges {
						if is[e] {
							is[ph] = true
							changed = true
						}
					}
				}
			})
		}
		// the test of its member map
		var test *ssa.BasicBlock
		allInstrs(fn, func(j ssa.Instruction) {
			iff, ok := j.(*ssa.If)
			if !ok {
				return
			}
			x, nonNilOnTrue, ok := nilTestOfCond(iff.Cond)
			if !ok {
				return
			}
			ld, ok := x.(*ssa.UnOp)
			if !ok {
				return
			}
			fa, ok := ld.X.(*ssa.FieldAddr)
			if !ok || fa.X != ssa.Value(al) || fieldOfAddr(fa).Field != "obj" {
				return
			}
			nilSucc := 0
			if nonNilOnTrue {
				nilSucc = 1
			}
			if _, isRet := lastInstr(iff.Block().Succs[nilSucc]).(*ssa.Return); !isRet {
				return
			}
			// the head of the compound condition the test is an operand of: `e == nil && m == nil`
			// is two branches that share the exit taken when the condition fails
			t := iff.Block()
			for len(t.Preds) == 1 && operandBlock(t) {
				p := t.Preds[0]
				shared := false
				for _, ps := range p.Succs {
					if ps == t {
						continue
					}
					for _, ts := range t.Succs {
						if ps == ts {
							shared = true
						}
					}
				}
				if !shared {
					break
				}
				t = p
			}
			if test == nil || t.Dominates(test) {
				test = t
			}
		})
		if test == nil {
			bad = "the member map of the side allocated at " + b.posOf(al) + " is never tested with an exit on nil: a null text is taken for an object without members"
			return
		}
		allInstrs(fn, func(j ssa.Instruction) {
			call, ok := j.(*ssa.Call)
			if !ok {
				return
			}
			for ai, a := range call.Call.Args {
				if !is[a] {
					if mi, ok := a.(*ssa.MakeInterface); !ok || !is[mi.X] {
						continue
					}
				}
				if f := call.Call.StaticCallee(); f != nil && ai == 0 && f.Signature.Recv() != nil && strings.HasPrefix(f.Name(), "Unmarshal") {
					continue // the decode itself
				}
				if !test.Dominates(call.Block()) || test == call.Block() {
					bad = "the side allocated at " + b.posOf(al) + " is handed to " + describeCallee(call) + " at " + b.posOf(call) + " on a path that has not passed the test of its member map (" + b.posOf(lastInstr(test)) + "): null — a decoded side without a member map — is treated as an object there"
				}
			}
		})
	})
	if n == 0 {
		return
	}
	if bad != "" {
		l.add("R-MERGESHAPE", b.Name, key, b.rel(fn.Pos()), Violated, bad, true)
	} else {
		l.add("R-MERGESHAPE", b.Name, key, b.rel(fn.Pos()), Discharged, fmt.Sprintf("%d decoded side(s); the nil test of each member map (exit on nil) dominates every call that is handed that side", n), true)
	}
}

func describeCallee(call *ssa.Call) string {
	if f := call.Call.StaticCallee(); f != nil {
		return fname(f)
	}
	if call.Call.IsInvoke() {
		return call.Call.Method.Name()
	}
	return "a function value"
}

// hooksSucceedBehindDecoder (R-GATE): the decode hooks of the two containers report success
// only where the codec's decoder did: every return with a nil error is the decoder call's own
// result or lies on the nil edge of its error. A shortcut that returns early for a text it
// recognises ("[]" has no elements to decode) leaves the container as it was allocated — a
// nil element list, which is how null is held — and the empty array is written out as null.
func (b *Body) hooksSucceedBehindDecoder(l *Ledger) {
	for _, tn := range []string{"partialDoc", "partialArray"} {
		fn := b.method(b.Lib, tn, "UnmarshalJSON")
		if fn == nil || len(fn.Blocks) == 0 {
			continue
		}
		ei := errResultIndex(fn)
		if ei < 0 {
			continue
		}
		key := fname(fn) + ": succeeds only where the codec's decoder succeeded"
		var decs []*ssa.Call
		allInstrs(fn, func(i ssa.Instruction) {
			if call, ok := i.(*ssa.Call); ok {
				if f := call.Call.StaticCallee(); f != nil && b.Codec != nil && f.Pkg == b.Codec && strings.HasPrefix(f.Name(), "Unmarshal") {
					decs = append(decs, call)
				}
			}
		})
		bad := ""
		n := 0
		for _, r := range liveReturns(fn) {
			rv := retVal(r, ei)
			n++
			if call, _, ok := asResult(rootErr(rv)); ok {
				isDec := false
				for _, d := range decs {
					if d == call {
						isDec = true
					}
				}
				if isDec {
					continue
				}
			}
			if !isNilConst(rv) {
				continue // a refusal: decodeRefusals judges those
			}
			behind := false
			for _, d := range decs {
				for _, e := range errResultOf(d) {
					for _, t := range errChecks(e) {
						if !t.Chain && (t.Blk.Succs[1-t.NonNilSucc] == r.Block() || edgeDominates(t.Blk, 1-t.NonNilSucc, r.Block())) {
							behind = true
						}
					}
				}
			}
			if !behind {
				bad = "the return at " + b.posOf(r) + " reports success without the decoder having run successfully: the container stays as it was allocated (no member map / no element list — the spelling of null)"
			}
		}
		if len(decs) == 0 {
			bad = "no call of the codec's decoder found"
		}
		if bad != "" {
			l.add("R-GATE", b.Name, key, b.rel(fn.Pos()), Violated, bad, true)
		} else {
			l.add("R-GATE", b.Name, key, b.rel(fn.Pos()), Discharged, fmt.Sprintf("%d return(s): the decoder's own result, or behind the nil edge of its error", n), true)
		}
	}
}

// onlyTheEncoderFailsAfterTheLoop (R-SUCCESS): once every operation has been applied the
// apply function fails only if writing the result does: every error return behind the
// dispatch loop hands on the error of a call made there (the encoder, the indenter). A second
// look at the result (is it nested deeper than the scanner reads?) turns a patch whose every
// operation applied into a failure.
func (b *Body) onlyTheEncoderFailsAfterTheLoop(l *Ledger, ai *applyInfo) {
	fn := ai.loopFn
	ds := ai.dispatchSite()
	if fn == nil || ds == nil {
		return
	}
	h := innermostLoopHeader(ds.Block())
	if h == nil {
		return
	}
	ei := errResultIndex(fn)
	if ei < 0 {
		return
	}
	loop := naturalLoop(h)
	key := "apply: after the last operation only the failure of a call made there (encoder, indenter) is reported"
	n := 0
	bad := ""
	for _, r := range liveReturns(fn) {
		if loop[r.Block()] || !h.Dominates(r.Block()) {
			continue
		}
		rv := retVal(r, ei)
		if isNilConst(rv) {
			continue
		}
		// the exit of the loop on a handler's error is part of the loop's business
		fromLoop := false
		for _, e := range b.controlDeps(r.Block()) {
			if loop[e.From] && e.From != h {
				fromLoop = true
			}
		}
		if fromLoop {
			continue
		}
		n++
		if call, _, ok := asResult(rootErr(rv)); ok && !loop[call.Block()] && h.Dominates(call.Block()) {
			continue
		}
		bad = "the error return at " + b.posOf(r) + " behind the operation loop is not the failure of a call made there: a patch whose operations all applied is reported as failed"
	}
	if bad != "" {
		l.add("R-SUCCESS", b.Name, key, b.rel(fn.Pos()), Violated, bad, true)
	} else if n > 0 {
		l.add("R-SUCCESS", b.Name, key, b.rel(fn.Pos()), Discharged, fmt.Sprintf("%d error return(s) behind the loop, each the error of a call made behind the loop", n), true)
	}
}

// fromOperationValue: v is what Operation.value() answered, or a field of it.
func fromOperationValue(v ssa.Value, d int) bool {
	if d > 4 {
		return false
	}
	switch x := unwrapConv(v).(type) {
	case *ssa.Call:
		f := x.Call.StaticCallee()
		return f != nil && recvTypeName(f) == "Operation" && f.Name() == "value"
	case *ssa.UnOp:
		if x.Op == token.MUL {
			return fromOperationValue(x.X, d+1)
		}
	case *ssa.FieldAddr:
		return fromOperationValue(x.X, d+1)
	case *ssa.Phi:
		for _, e := range x.Edges {
			if fromOperationValue(e, d+1) {
				return true
			}
		}
	}
	return false
}

// optionsHandedOn (R-ESCSET, codec): the encoders hand the options they were given on to the
// encoders they call. Every argument of the options type in a function that has an options
// parameter is that parameter, or a local copy of it in which the escaping switch was not
// written. A fresh options value ("the ,string option is not handed down to elements") drops
// the switch with it: with EscapeHTML on, strings inside arrays come out unescaped.
func (b *Body) optionsHandedOn(l *Ledger) {
	if b.Codec == nil {
		return
	}
	key := "encoders hand the options they were given on to the encoders they call (the escaping switch is never dropped on the way)"
	n := 0
	bad := ""
	for _, fn := range b.srcFuncs(b.Codec) {
		var param *ssa.Parameter
		for _, p := range fn.Params {
			if isNamed(p.Type(), "encOpts") {
				param = p
			}
		}
		if param == nil {
			continue
		}
		okArg := func(v ssa.Value) bool {
			if v == ssa.Value(param) {
				return true
			}
			ld, ok := v.(*ssa.UnOp)
			if !ok || ld.Op != token.MUL {
				return false
			}
			al, ok := ld.X.(*ssa.Alloc)
			if !ok || al.Referrers() == nil {
				return false
			}
			fromParam := false
			for _, r := range *al.Referrers() {
				switch x := r.(type) {
				case *ssa.Store:
					if x.Addr == ssa.Value(al) {
						if x.Val != ssa.Value(param) {
							return false
						}
						fromParam = true
					}
				case *ssa.FieldAddr:
					if fieldOfAddr(x).Field == "escapeHTML" && x.Referrers() != nil {
						for _, r2 := range *x.Referrers() {
							if _, isSt := r2.(*ssa.Store); isSt {
								return false
							}
						}
					}
				}
			}
			return fromParam
		}
		allInstrs(fn, func(i ssa.Instruction) {
			ci, ok := i.(ssa.CallInstruction)
			if !ok {
				return
			}
			for _, a := range ci.Common().Args {
				if !isNamed(a.Type(), "encOpts") {
					continue
				}
				n++
				if !okArg(a) {
					bad = "the options handed on at " + b.posOf(i) + " in " + fname(fn) + " are " + describeValue(a) + ", not the options this encoder was given: the HTML-escaping switch of the call is lost for everything below"
				}
			}
		})
	}
	if bad != "" {
		l.add("R-ESCSET", "codec", key, "", Violated, bad, true)
	} else if n > 0 {
		l.add("R-ESCSET", "codec", key, "", Discharged, fmt.Sprintf("%d call(s) that pass options on, each the parameter itself or a local copy of it with the switch untouched", n), true)
	}
}

// escapersWalkTheirInput (R-ESCSET, codec): compact and HTMLEscape decide byte by byte; neither
// returns before its loop over the input (a shortcut such as "no <, > or & in here: nothing to
// escape" forgets the line and paragraph separators, which are escaped whatever else the text
// holds).
func (b *Body) escapersWalkTheirInput(l *Ledger) {
	if b.Codec == nil {
		return
	}
	for _, name := range []string{"compact", "HTMLEscape"} {
		fn := fnOf(b.Codec, name)
		if fn == nil || len(fn.Blocks) == 0 {
			continue
		}
		var src *ssa.Parameter
		for _, p := range fn.Params {
			if isByteSlice(p.Type()) {
				src = p
			}
		}
		if src == nil {
			continue
		}
		key := name + ": every return lies behind the walk over the input bytes"
		var header *ssa.BasicBlock
		for _, ld := range loopBytes(fn, src) {
			if ins, ok := ld.(ssa.Instruction); ok {
				if h := innermostLoopHeader(ins.Block()); h != nil {
					header = h
				}
			}
		}
		if header == nil {
			l.add("R-ESCSET", "codec", key, b.rel(fn.Pos()), Undecided, "no loop over the input found", true)
			continue
		}
		bad := ""
		ei := errResultIndex(fn)
		for _, r := range liveReturns(fn) {
			if ei >= 0 && !isNilConst(retVal(r, ei)) {
				continue // a failure may come early
			}
			if !header.Dominates(r.Block()) {
				bad = "the return at " + b.posOf(r) + " is reached without entering the loop over the input: what is escaped is decided by a test of the whole text, not byte by byte"
			}
		}
		if bad != "" {
			l.add("R-ESCSET", "codec", key, b.rel(fn.Pos()), Violated, bad, true)
		} else {
			l.add("R-ESCSET", "codec", key, b.rel(fn.Pos()), Discharged, "the loop header dominates every successful return", true)
		}
	}
}
