package main

// A-NIL: may-be-nil analysis for the repo-specific nil-able types, with
// dominating-guard facts (SSA-value facts and access-path facts with a kill
// check), typestate facts on lazyNode.which, and per-function summaries
// computed to a fixpoint.

import (
	"fmt"
	"go/token"
	"go/types"
	"sort"
	"strings"

	"golang.org/x/tools/go/ssa"
)

type fieldRef struct {
	Type  string // named struct type
	Field string
}

type pathKey struct {
	Base  ssa.Value
	Field string
}

type factKind int

const (
	fNonNil factKind = iota
	fIsNil
	fEqInt
	fNeInt
)

type pathFact struct {
	Key  pathKey
	Kind factKind
	Val  int64
	Blk  *ssa.BasicBlock
	Succ int
}

type writeRef struct {
	Param int // -1 = unknown base
	F     fieldRef
}

type nilAn struct {
	b    *Body
	fns  []*ssa.Function
	inFn map[*ssa.Function]bool

	derefsParam        map[*ssa.Function]map[int]string
	mayRetNil          map[*ssa.Function]map[int]string
	nilOnlyWithErr     map[*ssa.Function]map[int]bool
	falseNonNil        map[*ssa.Function]map[int]bool    // f(arg)==false ⇒ arg != nil
	trueFieldNN        map[*ssa.Function]map[string]bool // f(recv)==true ⇒ recv.<field> != nil
	writes             map[*ssa.Function]map[writeRef]bool
	writesOnlyWhenTrue map[*ssa.Function]map[writeRef]bool
	fresh              map[*ssa.Function]bool // returns a fresh allocation as result 0

	eDoc, eAry, eRaw int64
	valueNonNilIn    map[*ssa.Function]string // handler -> reason (R-DISPATCH import)

	factCache map[*ssa.Function][]pathFact
	sites     int
}

var nilableNamed = map[string]bool{"lazyNode": true, "partialDoc": true, "partialArray": true, "RawMessage": true}

func nilableType(t types.Type) bool {
	switch u := t.(type) {
	case *types.Pointer:
		switch n := u.Elem().(type) {
		case *types.Named:
			return nilableNamed[n.Obj().Name()]
		case *types.Alias:
			return nilableNamed[n.Obj().Name()]
		}
	case *types.Named:
		if u.Obj().Name() == "container" {
			_, ok := u.Underlying().(*types.Interface)
			return ok
		}
	}
	return false
}

func newNilAn(b *Body, valueNonNil map[*ssa.Function]string) *nilAn {
	a := &nilAn{b: b, inFn: map[*ssa.Function]bool{},
		derefsParam: map[*ssa.Function]map[int]string{}, mayRetNil: map[*ssa.Function]map[int]string{},
		nilOnlyWithErr: map[*ssa.Function]map[int]bool{}, falseNonNil: map[*ssa.Function]map[int]bool{},
		trueFieldNN: map[*ssa.Function]map[string]bool{},
		writes:      map[*ssa.Function]map[writeRef]bool{}, fresh: map[*ssa.Function]bool{},
		writesOnlyWhenTrue: map[*ssa.Function]map[writeRef]bool{},
		valueNonNilIn:      valueNonNil, factCache: map[*ssa.Function][]pathFact{}}
	a.fns = b.srcFuncs(b.Lib)
	for _, f := range a.fns {
		a.inFn[f] = true
	}
	a.eRaw, a.eDoc, a.eAry = 0, 1, 2
	for name, dst := range map[string]*int64{"eRaw": &a.eRaw, "eDoc": &a.eDoc, "eAry": &a.eAry} {
		if c, ok := b.Lib.Members[name].(*ssa.NamedConst); ok {
			if n, ok := intConst(c.Value); ok {
				*dst = n
			}
		}
	}
	a.computeFresh()
	a.computeWrites()
	a.computeCondWrites()
	a.fixpoint()
	return a
}

// ---- field helpers -------------------------------------------------------------

// fieldLoad decodes v = *(&base.field).
func fieldLoad(v ssa.Value) (base ssa.Value, fr fieldRef, ok bool) {
	u, isU := v.(*ssa.UnOp)
	if !isU || u.Op != token.MUL {
		return nil, fieldRef{}, false
	}
	fa, isFA := u.X.(*ssa.FieldAddr)
	if !isFA {
		return nil, fieldRef{}, false
	}
	return fa.X, fieldOfAddr(fa), true
}

func fieldOfAddr(fa *ssa.FieldAddr) fieldRef {
	t := fa.X.Type()
	if p, ok := t.Underlying().(*types.Pointer); ok {
		t = p.Elem()
	}
	name := ""
	if n, ok := t.(*types.Named); ok {
		name = n.Obj().Name()
	}
	return fieldRef{name, fieldName(t, fa.Field)}
}

// ---- fresh / writes summaries ----------------------------------------------------

func (a *nilAn) computeFresh() {
	for _, f := range a.fns {
		rets := returnsOf(f)
		if len(rets) == 0 {
			continue
		}
		ok := true
		for _, r := range rets {
			if len(r.Results) == 0 {
				ok = false
				break
			}
			if _, isAlloc := r.Results[0].(*ssa.Alloc); !isAlloc {
				ok = false
			}
		}
		if ok {
			a.fresh[f] = true
		}
	}
}

// roots of a pointer value: parameters it may be, or -1 for anything that is
// not a parameter and not fresh in this function.
func (a *nilAn) roots(v ssa.Value, seen map[ssa.Value]bool, out map[int]bool) {
	if seen[v] {
		return
	}
	seen[v] = true
	switch x := v.(type) {
	case *ssa.Parameter:
		for i, p := range x.Parent().Params {
			if p == x {
				out[i] = true
			}
		}
	case *ssa.Alloc, *ssa.MakeSlice, *ssa.MakeMap:
		// fresh
	case *ssa.Phi:
		for _, e := range x.Edges {
			a.roots(e, seen, out)
		}
	case *ssa.ChangeType:
		a.roots(x.X, seen, out)
	case *ssa.FieldAddr:
		a.roots(x.X, seen, out)
	case *ssa.IndexAddr:
		a.roots(x.X, seen, out)
	case *ssa.Call:
		if f := x.Call.StaticCallee(); f != nil && a.fresh[f] {
			return
		}
		out[-1] = true
	default:
		out[-1] = true
	}
}

func (a *nilAn) addWrite(f *ssa.Function, w writeRef) bool {
	if a.writes[f] == nil {
		a.writes[f] = map[writeRef]bool{}
	}
	if a.writes[f][w] {
		return false
	}
	a.writes[f][w] = true
	return true
}

func (a *nilAn) computeWrites() {
	for changed := true; changed; {
		changed = false
		for _, f := range a.fns {
			rec := func(base ssa.Value, fr fieldRef) {
				rs := map[int]bool{}
				a.roots(base, map[ssa.Value]bool{}, rs)
				for r := range rs {
					if a.addWrite(f, writeRef{r, fr}) {
						changed = true
					}
				}
			}
			allInstrs(f, func(i ssa.Instruction) {
				switch x := i.(type) {
				case *ssa.Store:
					if fa, ok := x.Addr.(*ssa.FieldAddr); ok {
						rec(fa.X, fieldOfAddr(fa))
					}
				case ssa.CallInstruction:
					com := x.Common()
					args := callArgs(com)
					// an address of a field handed to any call may be written through
					for _, arg := range args {
						if fa, ok := unwrapConv(arg).(*ssa.FieldAddr); ok {
							rec(fa.X, fieldOfAddr(fa))
						}
					}
					for _, g := range a.b.callees(com) {
						for w := range a.writes[g] {
							if w.Param < 0 {
								if a.addWrite(f, w) {
									changed = true
								}
								continue
							}
							if w.Param < len(args) {
								rec(args[w.Param], w.F)
							}
						}
					}
				}
			})
		}
	}
}

// computeCondWrites: for bool functions, a direct field store through
// parameter i that can only be followed by `return true` is a write "only
// when true". (Only direct stores qualify; writes through callees do not.)
func (a *nilAn) computeCondWrites() {
	for _, f := range a.fns {
		res := f.Signature.Results()
		if res.Len() != 1 {
			continue
		}
		if bt, ok := res.At(0).Type().Underlying().(*types.Basic); !ok || bt.Kind() != types.Bool {
			continue
		}
		direct := map[writeRef][]*ssa.Store{}
		indirect := map[writeRef]bool{}
		allInstrs(f, func(i ssa.Instruction) {
			switch x := i.(type) {
			case *ssa.Store:
				if fa, ok := x.Addr.(*ssa.FieldAddr); ok {
					if pi, ok := paramIndex(fa.X); ok {
						w := writeRef{pi, fieldOfAddr(fa)}
						direct[w] = append(direct[w], x)
					}
				}
			case ssa.CallInstruction:
				com := x.Common()
				args := callArgs(com)
				for _, arg := range args {
					if fa, ok := unwrapConv(arg).(*ssa.FieldAddr); ok {
						if pi, ok := paramIndex(fa.X); ok {
							indirect[writeRef{pi, fieldOfAddr(fa)}] = true
						}
					}
				}
				for _, g := range a.b.callees(com) {
					for w := range a.writes[g] {
						if w.Param >= 0 && w.Param < len(args) {
							if pi, ok := paramIndex(args[w.Param]); ok {
								indirect[writeRef{pi, w.F}] = true
							}
						}
					}
				}
			}
		})
		for w, sts := range direct {
			if indirect[w] {
				continue
			}
			ok := true
			for _, st := range sts {
				// every return reachable from the store returns constant true
				seen := map[*ssa.BasicBlock]bool{}
				work := []*ssa.BasicBlock{st.Block()}
				for len(work) > 0 {
					bb := work[len(work)-1]
					work = work[:len(work)-1]
					if seen[bb] {
						continue
					}
					seen[bb] = true
					if r, isRet := bb.Instrs[len(bb.Instrs)-1].(*ssa.Return); isRet {
						if bv, isC := boolConst(r.Results[0]); !isC || !bv {
							ok = false
						}
					}
					work = append(work, bb.Succs...)
				}
			}
			if ok {
				if a.writesOnlyWhenTrue[f] == nil {
					a.writesOnlyWhenTrue[f] = map[writeRef]bool{}
				}
				a.writesOnlyWhenTrue[f][w] = true
			}
		}
	}
}

// onFalseEdgeOf: use is dominated by the edge on which call c returned false.
func (a *nilAn) onFalseEdgeOf(c *ssa.Call, use ssa.Instruction) bool {
	fn := c.Parent()
	for _, bb := range fn.Blocks {
		iff, ok := bb.Instrs[len(bb.Instrs)-1].(*ssa.If)
		if !ok {
			continue
		}
		cond, neg := stripNot(iff.Cond)
		if cond != ssa.Value(c) {
			continue
		}
		succ := 1
		if neg {
			succ = 0
		}
		if edgeDominates(bb, succ, use.Block()) {
			return true
		}
	}
	return false
}

// ---- facts -------------------------------------------------------------------------

func (a *nilAn) pathFacts(fn *ssa.Function) []pathFact {
	if fs, ok := a.factCache[fn]; ok {
		return fs
	}
	var out []pathFact
	for _, bb := range fn.Blocks {
		iff, ok := bb.Instrs[len(bb.Instrs)-1].(*ssa.If)
		if !ok {
			continue
		}
		cond, neg := stripNot(iff.Cond)
		bo, ok := cond.(*ssa.BinOp)
		if !ok || (bo.Op != token.EQL && bo.Op != token.NEQ) {
			continue
		}
		x, y := bo.X, bo.Y
		if _, isC := x.(*ssa.Const); isC {
			x, y = y, x
		}
		base, fr, ok := fieldLoad(x)
		if !ok {
			continue
		}
		eqOnTrue := bo.Op == token.EQL
		if neg {
			eqOnTrue = !eqOnTrue
		}
		key := pathKey{base, fr.Field}
		if isNilConst(y) {
			for si := 0; si < 2; si++ {
				k := fIsNil
				if (si == 0) != eqOnTrue {
					k = fNonNil
				}
				out = append(out, pathFact{key, k, 0, bb, si})
			}
		} else if n, ok := intConst(y); ok {
			for si := 0; si < 2; si++ {
				k := fEqInt
				if (si == 0) != eqOnTrue {
					k = fNeInt
				}
				out = append(out, pathFact{key, k, n, bb, si})
			}
		}
	}
	a.factCache[fn] = out
	return out
}

// killedBetween: some write to base.field can execute on a path from the
// entry of block from to instruction use.
func (a *nilAn) killedBetween(from *ssa.BasicBlock, use ssa.Instruction, key pathKey, typeName string) (bool, string) {
	fn := from.Parent()
	ub := use.Block()
	// A fact on an SSA value that is (re)defined inside a loop speaks about this iteration's
	// object only: a path that passes through the defining block again starts a new iteration,
	// where the value is another object and the guard is evaluated anew. Such paths are not
	// "between" the guard and the use.
	var defBlk *ssa.BasicBlock
	if di, ok := key.Base.(ssa.Instruction); ok && di.Block() != nil && di.Block() != from && di.Block() != ub {
		defBlk = di.Block()
	}
	// forward reach from `from`
	fwd := map[*ssa.BasicBlock]bool{}
	var work []*ssa.BasicBlock
	work = append(work, from)
	fwd[from] = true
	for len(work) > 0 {
		x := work[len(work)-1]
		work = work[:len(work)-1]
		for _, s := range x.Succs {
			if s == defBlk {
				continue
			}
			if !fwd[s] {
				fwd[s] = true
				work = append(work, s)
			}
		}
	}
	// backward reach to ub
	bwd := map[*ssa.BasicBlock]bool{ub: true}
	work = append(work[:0], ub)
	for len(work) > 0 {
		x := work[len(work)-1]
		work = work[:len(work)-1]
		for _, p := range x.Preds {
			if p == defBlk {
				continue
			}
			if !bwd[p] {
				bwd[p] = true
				work = append(work, p)
			}
		}
	}
	// is ub on a cycle inside the region?
	cyc := false
	for _, s := range ub.Succs {
		if fwd[s] && bwd[s] {
			cyc = true
		}
	}
	_ = fn
	kills := func(ins ssa.Instruction) (bool, string) {
		switch x := ins.(type) {
		case *ssa.Store:
			if fa, ok := x.Addr.(*ssa.FieldAddr); ok {
				fr := fieldOfAddr(fa)
				if fr.Field == key.Field && fr.Type == typeName && mayBeSame(fa.X, key.Base) {
					return true, "store at " + a.b.posOf(ins)
				}
			}
		case ssa.CallInstruction:
			com := x.Common()
			args := callArgs(com)
			for _, arg := range args {
				if fa, ok := unwrapConv(arg).(*ssa.FieldAddr); ok {
					fr := fieldOfAddr(fa)
					if fr.Field == key.Field && fr.Type == typeName && mayBeSame(fa.X, key.Base) {
						return true, "address passed to call at " + a.b.posOf(ins)
					}
				}
			}
			for _, g := range a.b.callees(com) {
				for w := range a.writes[g] {
					if w.F.Field != key.Field || w.F.Type != typeName {
						continue
					}
					if w.Param < 0 {
						// writes to objects the callee reaches through loads (children of
						// its arguments): tree-shaped ownership assumption — such objects
						// are distinct from the SSA values the caller holds facts on.
						continue
					}
					if w.Param < len(args) && mayBeSame(args[w.Param], key.Base) {
						// a predicate that writes the field only on its true-return path
						// does not kill the fact on the false edge of its own result
						if a.writesOnlyWhenTrue[g][w] {
							if c, ok := ins.(*ssa.Call); ok && a.onFalseEdgeOf(c, use) {
								continue
							}
						}
						return true, "call of " + fname(g) + " at " + a.b.posOf(ins) + " writes the field of this object"
					}
				}
			}
		}
		return false, ""
	}
	for _, bb := range fn.Blocks {
		if !fwd[bb] || !bwd[bb] {
			continue
		}
		for _, ins := range bb.Instrs {
			if bb == ub && !cyc && a.b.idx(ins) >= a.b.idx(use) {
				break
			}
			if k, why := kills(ins); k {
				return true, why
			}
		}
	}
	return false, ""
}

// mayBeSame: two pointer values may denote the same object. Distinct SSA
// values are assumed NOT to alias unless one is a phi/conversion of the
// other (documented assumption of R-NIL/R-TYPESTATE).
func mayBeSame(x, y ssa.Value) bool {
	if x == y {
		return true
	}
	seen := map[ssa.Value]bool{}
	var flows func(v, target ssa.Value) bool
	flows = func(v, target ssa.Value) bool {
		if v == target {
			return true
		}
		if seen[v] {
			return false
		}
		seen[v] = true
		switch p := v.(type) {
		case *ssa.Phi:
			for _, e := range p.Edges {
				if flows(e, target) {
					return true
				}
			}
		case *ssa.ChangeType:
			return flows(p.X, target)
		}
		return false
	}
	if flows(x, y) {
		return true
	}
	seen = map[ssa.Value]bool{}
	return flows(y, x)
}

// holdsPathFact: a fact of the wanted kind on key dominates use and is not killed.
func (a *nilAn) holdsPathFact(use ssa.Instruction, key pathKey, typeName string, want func(pathFact) bool) (bool, string) {
	for _, f := range a.pathFacts(use.Parent()) {
		if f.Key != key || !want(f) {
			continue
		}
		if !edgeDominates(f.Blk, f.Succ, use.Block()) {
			continue
		}
		if k, _ := a.killedBetween(f.Blk.Succs[f.Succ], use, key, typeName); k {
			continue
		}
		return true, "guard at " + a.b.posOf(f.Blk.Instrs[len(f.Blk.Instrs)-1])
	}
	return false, ""
}

// ---- guards on SSA values -----------------------------------------------------------

// guardedNonNil: value v is known non-nil at instruction use.
func (a *nilAn) guardedNonNil(v ssa.Value, use ssa.Instruction) (bool, string) {
	at := use.Block()
	v0 := v
	for {
		if ct, ok := v.(*ssa.ChangeType); ok {
			v = ct.X
			continue
		}
		break
	}
	if knownNonNilAt(v, at) {
		return true, "dominating nil test of the same value"
	}
	for _, e := range a.pureEquivalents(v) {
		if knownNonNilAt(e, at) {
			return true, "dominating nil test of another call of the pure lookup " + roleOf(e) + " on the same receiver (operations are never mutated: R-EFFECT)"
		}
	}
	_ = v0
	fn := at.Parent()
	// predicate facts: f(v) == false on a dominating edge where f is falseImpliesNonNil
	for _, bb := range fn.Blocks {
		iff, ok := bb.Instrs[len(bb.Instrs)-1].(*ssa.If)
		if !ok {
			continue
		}
		cond, neg := stripNot(iff.Cond)
		call, ok := cond.(*ssa.Call)
		if !ok {
			continue
		}
		f := call.Call.StaticCallee()
		if f == nil {
			continue
		}
		args := callArgs(&call.Call)
		for i, arg := range args {
			if arg != v {
				continue
			}
			if a.falseNonNil[f][i] {
				succ := 1
				if neg {
					succ = 0
				}
				if edgeDominates(bb, succ, at) {
					return true, "false edge of nil-safe predicate " + fname(f)
				}
			}
		}
	}
	// err-coupled results: v = Extract(call, k), callee returns nil only with an error,
	// and err == nil dominates
	if ex, ok := v.(*ssa.Extract); ok {
		if call, ok := ex.Tuple.(*ssa.Call); ok {
			all := true
			cs := a.b.callees(&call.Call)
			if len(cs) == 0 {
				all = false
			}
			for _, f := range cs {
				if !a.nilOnlyWithErr[f][ex.Index] {
					all = false
				}
			}
			if all {
				for _, e := range errResultOf(call) {
					if knownNilAt(e, at) {
						return true, "callee returns nil only together with an error, and err == nil dominates"
					}
				}
			}
		}
	}
	// access-path facts
	if base, fr, ok := fieldLoad(v); ok {
		key := pathKey{base, fr.Field}
		if ok, why := a.holdsPathFact(use, key, fr.Type, func(f pathFact) bool { return f.Kind == fNonNil }); ok {
			return true, "path fact " + fr.Type + "." + fr.Field + " != nil: " + why
		}
		// typestate: which == eDoc ⇒ doc != nil
		if fr.Type == "lazyNode" && fr.Field == "doc" {
			wk := pathKey{base, "which"}
			if ok, why := a.holdsPathFact(use, wk, "lazyNode", func(f pathFact) bool { return f.Kind == fEqInt && f.Val == a.eDoc }); ok {
				return true, "typestate which == eDoc ⇒ doc != nil (R-TYPESTATE producer side): " + why
			}
		}
		// typestate: which == eAry ⇒ ary != nil for document nodes (R-TYPESTATE T4);
		// scratch nodes (created in this function) are excluded: equal may hold a
		// scratch node in state eAry with a nil array.
		if fr.Type == "lazyNode" && fr.Field == "ary" && !a.mayBeScratch(base) {
			wk := pathKey{base, "which"}
			if ok, why := a.holdsPathFact(use, wk, "lazyNode", func(f pathFact) bool { return f.Kind == fEqInt && f.Val == a.eAry }); ok {
				return true, "typestate which == eAry ⇒ ary != nil for document nodes (R-TYPESTATE: nil-array producers are confined to scratch nodes): " + why
			}
		}
		// true edge of a predicate that implies the field is non-nil (tryDoc)
		for _, bb := range fn.Blocks {
			iff, ok := bb.Instrs[len(bb.Instrs)-1].(*ssa.If)
			if !ok {
				continue
			}
			cond, neg := stripNot(iff.Cond)
			call, ok := cond.(*ssa.Call)
			if !ok {
				continue
			}
			f := call.Call.StaticCallee()
			if f == nil || !a.trueFieldNN[f][fr.Field] {
				continue
			}
			args := callArgs(&call.Call)
			if len(args) == 0 || args[0] != base {
				continue
			}
			succ := 0
			if neg {
				succ = 1
			}
			if edgeDominates(bb, succ, at) {
				if k, _ := a.killedBetween(bb.Succs[succ], use, key, fr.Type); !k {
					return true, "true edge of " + fname(f) + " implies " + fr.Field + " != nil"
				}
			}
		}
	}
	return false, ""
}

// pureEquivalents: other calls, in the same function, of the pure lookup
// Operation.value on the same receiver value.
func (a *nilAn) pureEquivalents(v ssa.Value) []ssa.Value {
	call, ok := v.(*ssa.Call)
	if !ok {
		return nil
	}
	f := call.Call.StaticCallee()
	if f == nil || f.Name() != "value" || recvTypeName(f) != "Operation" || len(call.Call.Args) != 1 {
		return nil
	}
	var out []ssa.Value
	allInstrs(call.Parent(), func(i ssa.Instruction) {
		c2, ok := i.(*ssa.Call)
		if !ok || c2 == call || c2.Call.StaticCallee() != f {
			return
		}
		if c2.Call.Args[0] == call.Call.Args[0] {
			out = append(out, c2)
		}
	})
	return out
}

func (a *nilAn) mayBeScratch(v ssa.Value) bool {
	switch x := v.(type) {
	case *ssa.Alloc:
		return true
	case *ssa.Call:
		return true
	case *ssa.Phi:
		for _, e := range x.Edges {
			if _, isParam := e.(*ssa.Parameter); !isParam {
				return true
			}
		}
	}
	return false
}

// ---- may-nil origins ------------------------------------------------------------------

// mayNil returns a reason why v may be nil where it is used ("" = cannot, by
// the declared nil sources). use is the consuming instruction (for phi edges
// the facts are evaluated at the predecessor).
func (a *nilAn) mayNil(v ssa.Value, use ssa.Instruction, seen map[ssa.Value]bool) string {
	if seen[v] {
		return ""
	}
	seen[v] = true
	if ok, _ := a.guardedNonNil(v, use); ok {
		return ""
	}
	switch x := v.(type) {
	case *ssa.Const:
		if x.Value == nil {
			return "nil literal"
		}
	case *ssa.Parameter:
		return ""
	case *ssa.Alloc, *ssa.FieldAddr, *ssa.IndexAddr, *ssa.MakeSlice, *ssa.MakeMap, *ssa.MakeClosure:
		return ""
	case *ssa.MakeInterface:
		return ""
	case *ssa.Phi:
		for i, e := range x.Edges {
			pred := x.Block().Preds[i]
			last := pred.Instrs[len(pred.Instrs)-1]
			if r := a.mayNil(e, last, seen); r != "" {
				// the edge itself may carry a fact (branch in pred)
				if a.edgeImpliesNonNil(pred, x.Block(), e) {
					continue
				}
				return r
			}
		}
	case *ssa.ChangeType:
		return a.mayNil(x.X, use, seen)
	case *ssa.TypeAssert:
		if isPtrToNamed(x.AssertedType, "partialArray") && a.b.Name == "v5" {
			return "type assertion to *partialArray (the root slot may hold a nil array after `replace \"\" null`)"
		}
		return ""
	case *ssa.UnOp:
		if x.Op != token.MUL {
			return ""
		}
		switch p := x.X.(type) {
		case *ssa.IndexAddr:
			return "element of " + typeShort(p.X.Type()) + " (a decoded null is a nil node)"
		case *ssa.FieldAddr:
			fr := fieldOfAddr(p)
			switch {
			case fr.Field == "self":
				return "field self (nil for nested containers)"
			case fr.Type == "lazyNode" && (fr.Field == "doc" || fr.Field == "ary") && a.b.Name == "v5":
				return "field " + fr.Field + " of a node (nil unless parsed; ary may be nil even when which == eAry)"
			case fr.Type == "lazyNode" && fr.Field == "raw":
				return "" // R-RAW's business
			}
			return ""
		case *ssa.Alloc:
			for _, ref := range *p.Referrers() {
				if st, ok := ref.(*ssa.Store); ok && st.Addr == ssa.Value(p) {
					if r := a.mayNil(st.Val, st, seen); r != "" {
						// `v, err := f()` into a local whose address is taken: the value is stored
						// before err is tested; what counts is what is known where it is loaded —
						// provided this store is the only one and comes before the load
						if use != nil && a.b.instrDominates(st, use) && singleStore(p) {
							if ok, _ := a.guardedNonNil(st.Val, use); ok {
								continue
							}
						}
						return "local: " + r
					}
				}
			}
			return ""
		}
		return ""
	case *ssa.Lookup:
		if !x.CommaOk {
			return "map lookup in " + typeShort(x.X.Type()) + " (absent key or decoded null)"
		}
	case *ssa.Extract:
		switch t := x.Tuple.(type) {
		case *ssa.Lookup:
			if x.Index == 0 {
				return "map lookup in " + typeShort(t.X.Type()) + " (absent key or decoded null)"
			}
		case *ssa.Next:
			return "range value of a map (decoded null)"
		case *ssa.TypeAssert:
			if x.Index == 0 && isPtrToNamed(t.AssertedType, "partialArray") && a.b.Name == "v5" {
				return "type assertion to *partialArray (the root slot may hold a nil array)"
			}
			return ""
		case *ssa.Call:
			return a.callResultMayNil(t, x.Index)
		}
	case *ssa.Call:
		return a.callResultMayNil(x, 0)
	}
	return ""
}

func (a *nilAn) edgeImpliesNonNil(pred, succ *ssa.BasicBlock, v ssa.Value) bool {
	iff, ok := pred.Instrs[len(pred.Instrs)-1].(*ssa.If)
	if !ok {
		return false
	}
	x, nnTrue, ok := nilTestOfCond(iff.Cond)
	if !ok || x != v {
		return false
	}
	for si, s := range pred.Succs {
		if s == succ {
			if (si == 0) == nnTrue {
				return true
			}
		}
	}
	return false
}

func (a *nilAn) callResultMayNil(call *ssa.Call, idx int) string {
	if f := call.Call.StaticCallee(); f != nil {
		if f.Name() == "value" && recvTypeName(f) == "Operation" {
			if why, ok := a.valueNonNilIn[call.Parent()]; ok && why != "" {
				return ""
			}
		}
	}
	for _, f := range a.b.callees(&call.Call) {
		if r, ok := a.mayRetNil[f][idx]; ok {
			return "result " + fmt.Sprint(idx) + " of " + fname(f) + " (" + r + ")"
		}
	}
	return ""
}

// ---- summaries fixpoint ---------------------------------------------------------------

type derefSite struct {
	Ins  ssa.Instruction
	V    ssa.Value
	What string
}

// derefSites lists the dereferences of nil-able typed values in fn.
func (a *nilAn) derefSites(fn *ssa.Function) []derefSite {
	var out []derefSite
	allInstrs(fn, func(i ssa.Instruction) {
		switch x := i.(type) {
		case *ssa.FieldAddr:
			if nilableType(x.X.Type()) {
				out = append(out, derefSite{i, x.X, "field " + fieldOfAddr(x).Field + " of"})
			}
		case *ssa.Field:
			// value struct: no deref
		case *ssa.UnOp:
			if x.Op == token.MUL && nilableType(x.X.Type()) {
				out = append(out, derefSite{i, x.X, "load through"})
			}
		case *ssa.Store:
			if nilableType(x.Addr.Type()) {
				out = append(out, derefSite{i, x.Addr, "store through"})
			}
		}
		if ci, ok := i.(ssa.CallInstruction); ok {
			com := ci.Common()
			if com.IsInvoke() && nilableType(com.Value.Type()) {
				out = append(out, derefSite{i, com.Value, "method " + com.Method.Name() + " invoked on"})
			}
			args := callArgs(com)
			for _, g := range a.b.callees(com) {
				for pi, why := range a.derefsParam[g] {
					if com.IsInvoke() && pi == 0 {
						continue // typed pointer inside the interface: see R-TYPESTATE
					}
					if pi < len(args) && nilableType(args[pi].Type()) {
						out = append(out, derefSite{i, args[pi], "argument passed to " + fname(g) + " (which dereferences it: " + why + ") is"})
					}
				}
			}
		}
	})
	return out
}

func paramIndex(v ssa.Value) (int, bool) {
	for {
		if ct, ok := v.(*ssa.ChangeType); ok {
			v = ct.X
			continue
		}
		break
	}
	p, ok := v.(*ssa.Parameter)
	if !ok {
		return 0, false
	}
	for i, q := range p.Parent().Params {
		if q == p {
			return i, true
		}
	}
	return 0, false
}

func (a *nilAn) fixpoint() {
	for round := 0; round < 20; round++ {
		changed := false
		for _, fn := range a.fns {
			// derefsParam
			for _, s := range a.derefSites(fn) {
				pi, ok := paramIndex(s.V)
				if !ok {
					continue
				}
				if g, _ := a.guardedNonNil(s.V, s.Ins); g {
					continue
				}
				if a.derefsParam[fn] == nil {
					a.derefsParam[fn] = map[int]string{}
				}
				if _, seen := a.derefsParam[fn][pi]; !seen {
					a.derefsParam[fn][pi] = s.What + " parameter " + fn.Params[pi].Name() + " at " + a.b.posOf(s.Ins)
					changed = true
				}
			}
			// mayRetNil / nilOnlyWithErr
			res := fn.Signature.Results()
			errIdx := -1
			if res.Len() > 0 && isErrorType(res.At(res.Len()-1).Type()) {
				errIdx = res.Len() - 1
			}
			for k := 0; k < res.Len(); k++ {
				if !nilableType(res.At(k).Type()) {
					continue
				}
				onlyWithErr := errIdx >= 0
				for _, r := range liveReturns(fn) {
					v := retVal(r, k)
					why := a.mayNil(v, r, map[ssa.Value]bool{})
					if why == "" {
						continue
					}
					if a.mayRetNil[fn] == nil {
						a.mayRetNil[fn] = map[int]string{}
					}
					if _, seen := a.mayRetNil[fn][k]; !seen {
						a.mayRetNil[fn][k] = why
						changed = true
					}
					if errIdx >= 0 && !a.b.definitelyNonNilErr(retVal(r, errIdx), r.Block(), 0) && !a.errNonNilWhereResultNil(retVal(r, errIdx), r.Block()) {
						onlyWithErr = false
					}
				}
				if a.nilOnlyWithErr[fn] == nil {
					a.nilOnlyWithErr[fn] = map[int]bool{}
				}
				if a.nilOnlyWithErr[fn][k] != onlyWithErr {
					a.nilOnlyWithErr[fn][k] = onlyWithErr
					changed = true
				}
			}
			// predicates
			if res.Len() == 1 {
				if bt, ok := res.At(0).Type().Underlying().(*types.Basic); ok && bt.Kind() == types.Bool {
					for pi, p := range fn.Params {
						if !nilableType(p.Type()) {
							continue
						}
						ok := true
						for _, r := range returnsOf(fn) {
							if bv, isC := boolConst(r.Results[0]); isC && bv {
								continue
							}
							if !knownNonNilAt(p, r.Block()) {
								ok = false
							}
						}
						if a.falseNonNil[fn] == nil {
							a.falseNonNil[fn] = map[int]bool{}
						}
						if a.falseNonNil[fn][pi] != ok {
							a.falseNonNil[fn][pi] = ok
							changed = true
						}
					}
					// true ⇒ recv.field != nil
					if len(fn.Params) > 0 && nilableType(fn.Params[0].Type()) {
						for _, fld := range []string{"doc", "ary", "raw"} {
							ok := true
							any := false
							for _, r := range returnsOf(fn) {
								if bv, isC := boolConst(r.Results[0]); isC && !bv {
									continue
								}
								any = true
								key := pathKey{fn.Params[0], fld}
								if h, _ := a.holdsPathFact(r, key, "lazyNode", func(f pathFact) bool { return f.Kind == fNonNil }); !h {
									ok = false
								}
							}
							if a.trueFieldNN[fn] == nil {
								a.trueFieldNN[fn] = map[string]bool{}
							}
							v := ok && any
							if a.trueFieldNN[fn][fld] != v {
								a.trueFieldNN[fn][fld] = v
								changed = true
							}
						}
					}
				}
			}
		}
		if !changed {
			return
		}
	}
}

func (a *nilAn) summaryStrings() (derefs, retnil, preds []string) {
	for f, m := range a.derefsParam {
		for i := range m {
			derefs = append(derefs, fmt.Sprintf("%s(%s)", fname(f), f.Params[i].Name()))
		}
	}
	for f, m := range a.mayRetNil {
		for i := range m {
			s := fmt.Sprintf("%s#%d", fname(f), i)
			if a.nilOnlyWithErr[f][i] {
				s += " (only with error)"
			}
			retnil = append(retnil, s)
		}
	}
	for f, m := range a.falseNonNil {
		for i, ok := range m {
			if ok {
				preds = append(preds, fmt.Sprintf("!%s(%s) ⇒ non-nil", fname(f), f.Params[i].Name()))
			}
		}
	}
	for f, m := range a.trueFieldNN {
		for fld, ok := range m {
			if ok {
				preds = append(preds, fmt.Sprintf("%s() ⇒ .%s != nil", fname(f), fld))
			}
		}
	}
	sort.Strings(derefs)
	sort.Strings(retnil)
	sort.Strings(preds)
	return
}

func joinShort(ss []string) string { return strings.Join(ss, ", ") }

// singleStore: the local is assigned exactly once.
func singleStore(al *ssa.Alloc) bool {
	n := 0
	for _, ref := range *al.Referrers() {
		if st, ok := ref.(*ssa.Store); ok && st.Addr == ssa.Value(al) {
			n++
		}
	}
	return n == 1
}

// errNonNilWhereResultNil: errV is the error a callee handed back together with a result that
// it hands back nil only with an error, and blk lies where that result was tested and found
// nil: the error is not nil there (`doc, err := n.decode(); if doc == nil { return nil, err }`).
func (a *nilAn) errNonNilWhereResultNil(errV ssa.Value, blk *ssa.BasicBlock) bool {
	ex, ok := errV.(*ssa.Extract)
	if !ok {
		return false
	}
	call, ok := ex.Tuple.(*ssa.Call)
	if !ok {
		return false
	}
	f := call.Call.StaticCallee()
	if f == nil {
		return false
	}
	for j, only := range a.nilOnlyWithErr[f] {
		if !only || j == ex.Index {
			continue
		}
		for _, ex0 := range extractOf(call, j) {
			for _, t := range nilTests(blk.Parent(), ex0) {
				nilSucc := t.Blk.Succs[1-t.NonNilSucc]
				if nilSucc == blk || edgeDominates(t.Blk, 1-t.NonNilSucc, blk) {
					return true
				}
			}
		}
	}
	return false
}
