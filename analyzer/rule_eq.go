package main

// R-EQSHAPE: the shape of the recursive structural comparison behind Equal
// and the test operation. What is decided is the part of "Equal is true
// exactly when both texts denote the same value" that is visible in the code
// of the comparison itself:
//
//   (Q1) every branch of the comparison tests the two operands only — no
//        verdict depends on a counter, an option or any other state;
//   (Q2) strings are compared after being unescaped by the JSON decoder of
//        the embedded codec, each side from its own compacted text;
//   (Q3) every computed (non-constant) verdict is computed from both
//        operands; a byte comparison compares the compacted texts;
//   (Q4) the recursion pairs element i with element i (same index value,
//        under a preceding length comparison) and member k with member k
//        (same key value, under a preceding size comparison); a false
//        answer of the recursion is answered false, and the loop runs over
//        all of the first operand's elements / members.

import (
	"fmt"
	"go/token"
	"go/types"
	"sort"
	"strings"

	"golang.org/x/tools/go/ssa"
)

func init() {
	register(&Rule{ID: "R-EQSHAPE", Doc: "shape of the recursive comparison (*lazyNode).equal: branches test the two operands only; strings are unescaped by the codec's decoder, each side from its own compacted text; computed verdicts use both operands and byte comparisons compare compacted texts; the recursion pairs element i with element i and member k with member k under a length/size comparison, answers false when the recursion does, and covers every element / member",
		Run: ruleEqShape, Min: map[string]int{"v5": 8, "legacy": 5}})
}

type eqAn struct {
	b    *Body
	fn   *ssa.Function
	oIdx int
	memo map[ssa.Value]map[string]bool
}

// sides: which operands ("N", "O") and which foreign inputs ("X:<what>") the
// value v is computed from.
func (a *eqAn) sides(v ssa.Value) map[string]bool {
	if v == nil {
		return nil
	}
	if m, ok := a.memo[v]; ok {
		return m
	}
	out := map[string]bool{}
	a.memo[v] = out // cycles (phis) see the partial set; a second pass below completes it
	add := func(m map[string]bool) {
		for k := range m {
			out[k] = true
		}
	}
	switch x := v.(type) {
	case *ssa.Parameter:
		switch paramIdx(x) {
		case 0:
			out["N"] = true
		case a.oIdx:
			out["O"] = true
		default:
			out["X:parameter "+x.Name()] = true
		}
	case *ssa.Const, *ssa.Builtin, *ssa.Function:
	case *ssa.Global:
		// package-level state: immutable tables are decided by R-GLOBALS; a
		// comparison consulting configuration is still a foreign input
		if et, ok := x.Type().(*types.Pointer); ok {
			if _, isPtr := et.Elem().Underlying().(*types.Pointer); !isPtr {
				if bt, isB := et.Elem().Underlying().(*types.Basic); isB && bt.Kind() != types.String {
					out["X:package variable "+x.Name()] = true
				}
			}
		}
	case *ssa.FreeVar:
		out["X:captured variable "+x.Name()] = true
	case *ssa.Alloc:
		for _, r := range *x.Referrers() {
			switch y := r.(type) {
			case *ssa.Store:
				if y.Addr == ssa.Value(x) {
					add(a.sides(y.Val))
				}
			case *ssa.MakeInterface:
				for _, r2 := range *y.Referrers() {
					if c, ok := r2.(ssa.CallInstruction); ok {
						for _, arg := range callArgs(c.Common()) {
							if arg != ssa.Value(y) {
								add(a.sides(arg))
							}
						}
					}
				}
			case ssa.CallInstruction:
				for _, arg := range callArgs(y.Common()) {
					if arg != ssa.Value(x) {
						add(a.sides(arg))
					}
				}
			}
		}
	case *ssa.Phi:
		for _, e := range x.Edges {
			add(a.sides(e))
		}
		// which edge is taken is decided by the branches between the
		// immediate dominator and the predecessors (&&, ||, if/else joins)
		d := x.Block().Idom()
		for _, p := range x.Block().Preds {
			for y := p; y != nil; y = y.Idom() {
				if iff, ok := y.Instrs[len(y.Instrs)-1].(*ssa.If); ok {
					add(a.sides(iff.Cond))
				}
				if y == d {
					break
				}
			}
		}
	case ssa.Instruction:
		var ops []*ssa.Value
		for _, op := range x.Operands(ops) {
			if *op != nil {
				add(a.sides(*op))
			}
		}
	}
	return out
}

func (a *eqAn) sidesOf(v ssa.Value) map[string]bool {
	// two passes so that phis in loops converge
	a.memo = map[ssa.Value]map[string]bool{}
	a.sides(v)
	first := a.memo
	a.memo = map[ssa.Value]map[string]bool{}
	for k, m := range first {
		if _, isPhi := k.(*ssa.Phi); isPhi {
			_ = m
		}
	}
	return a.sides(v)
}

func sideList(m map[string]bool) string {
	var out []string
	for k := range m {
		out = append(out, k)
	}
	sort.Strings(out)
	return strings.Join(out, ",")
}

func foreignOf(m map[string]bool) string {
	var out []string
	for k := range m {
		if strings.HasPrefix(k, "X:") {
			out = append(out, k[2:])
		}
	}
	sort.Strings(out)
	return strings.Join(out, ", ")
}

// path renders the access path of v from an operand: "N.ary.nodes".
func (a *eqAn) path(v ssa.Value, depth int) string {
	if depth > 12 {
		return "?"
	}
	switch x := v.(type) {
	case *ssa.Parameter:
		switch paramIdx(x) {
		case 0:
			return "N"
		case a.oIdx:
			return "O"
		}
		return "?"
	case *ssa.Phi:
		// the operand or its scratch replacement
		s := a.sidesOf(x)
		if len(s) == 1 && isPtrToNamed(x.Type(), "lazyNode") {
			for k := range s {
				if k == "N" || k == "O" {
					return k
				}
			}
		}
		return "?"
	case *ssa.UnOp:
		if x.Op == token.MUL {
			return a.path(x.X, depth+1)
		}
	case *ssa.FieldAddr:
		return a.path(x.X, depth+1) + "." + fieldName(x.X.Type(), x.Field)
	case *ssa.Field:
		return a.path(x.X, depth+1) + "." + fieldName(x.X.Type(), x.Field)
	}
	return "?"
}

func swapSide(p string) string {
	if strings.HasPrefix(p, "N") {
		return "O" + p[1:]
	}
	if strings.HasPrefix(p, "O") {
		return "N" + p[1:]
	}
	return p
}

// returnsFalse: block bb returns the constant false.
func returnsConst(bb *ssa.BasicBlock, want bool) bool {
	if len(bb.Instrs) == 0 {
		return false
	}
	// skip through empty jump blocks
	for i := 0; i < 3; i++ {
		if j, ok := bb.Instrs[len(bb.Instrs)-1].(*ssa.Jump); ok && len(bb.Instrs) == 1 {
			_ = j
			bb = bb.Succs[0]
			continue
		}
		break
	}
	r, ok := bb.Instrs[len(bb.Instrs)-1].(*ssa.Return)
	if !ok || len(r.Results) != 1 {
		return false
	}
	c, ok := boolConst(r.Results[0])
	return ok && c == want
}

// lenCheckDominates: a comparison len(pathN) != len(pathO) whose "different"
// edge returns false dominates bb.
func (a *eqAn) lenCheckDominates(bb *ssa.BasicBlock, pN string) (bool, string) {
	for _, blk := range a.fn.Blocks {
		iff, ok := blk.Instrs[len(blk.Instrs)-1].(*ssa.If)
		if !ok || !blk.Dominates(bb) {
			continue
		}
		bo, ok := iff.Cond.(*ssa.BinOp)
		if !ok || (bo.Op != token.NEQ && bo.Op != token.EQL) {
			continue
		}
		lx, okx := lenArg(bo.X)
		ly, oky := lenArg(bo.Y)
		if !okx || !oky {
			continue
		}
		px, py := a.path(lx, 0), a.path(ly, 0)
		if !((px == pN && py == swapSide(pN)) || (py == pN && px == swapSide(pN))) {
			continue
		}
		diffEdge := 0
		if bo.Op == token.EQL {
			diffEdge = 1
		}
		if !returnsConst(blk.Succs[diffEdge], false) {
			continue
		}
		if edgeDominates(blk, 1-diffEdge, bb) {
			return true, a.b.posOf(iff)
		}
	}
	return false, ""
}

func lenArg(v ssa.Value) (ssa.Value, bool) {
	c, ok := v.(*ssa.Call)
	if !ok {
		return nil, false
	}
	bi, ok := c.Call.Value.(*ssa.Builtin)
	if !ok || bi.Name() != "len" {
		return nil, false
	}
	return c.Call.Args[0], true
}

func ruleEqShape(c *Ctx) {
	for _, b := range c.bodies() {
		ruleEqShapeBody(c, b)
	}
}

// equalEntry: the exported Equal answers with the verdict of the recursive comparison and
// with nothing else: every return is the constant false (ill-formed input) or the result of
// the comparison applied to nodes over the two texts. A second way of answering (compacted
// bytes for deep or long texts, a cache, …) is a second notion of equality.
func equalEntry(c *Ctx, b *Body, eq *ssa.Function) {
	l := c.L
	ent := fnOf(b.Lib, "Equal")
	if ent == nil || len(ent.Params) != 2 {
		return
	}
	key := "Equal: every answer is false for ill-formed input or the verdict of the recursive comparison"
	bad := ""
	n := 0
	for _, r := range returnsOf(ent) {
		n++
		v := r.Results[0]
		if k, ok := boolConst(v); ok && !k {
			continue
		}
		call, ok := v.(*ssa.Call)
		// … possibly through a helper of the library that is handed the two texts and every
		// answer of which is the recursive comparison
		if ok && call.Call.StaticCallee() != eq {
			if h := call.Call.StaticCallee(); h != nil && h.Pkg == b.Lib && len(h.Blocks) > 0 && h.Signature.Recv() == nil {
				allEq, nh := true, 0
				for _, hr := range returnsOf(h) {
					nh++
					hv := hr.Results[0]
					if k, isK := boolConst(hv); isK && !k {
						continue
					}
					hc, isCall := hv.(*ssa.Call)
					if !isCall || hc.Call.StaticCallee() != eq {
						allEq = false
					}
				}
				if allEq && nh > 0 {
					continue
				}
			}
		}
		if !ok || call.Call.StaticCallee() != eq {
			bad = "the return at " + b.posOf(r) + " answers with " + describeValue(v) + " instead of the recursive comparison: texts for which this path is taken are compared by another rule (their spelling, say), so equal values can differ and the relation is no longer one equality"
			continue
		}
	}
	if bad != "" {
		l.add("R-EQSHAPE", b.Name, key, b.rel(ent.Pos()), Violated, bad, true)
	} else {
		l.add("R-EQSHAPE", b.Name, key, b.rel(ent.Pos()), Discharged, fmt.Sprintf("%d return(s): constant false, or %s applied to the two nodes", n, fname(eq)), true)
	}
}

func ruleEqShapeBody(c *Ctx, b *Body) {
	l := c.L
	eq := b.equalRole()
	if eq != nil {
		equalEntry(c, b, eq)
	}
	if eq == nil || eq.Blocks == nil {
		l.add("R-EQSHAPE", b.Name, "anchor: recursive comparison of two nodes", "", Undecided, "no method of *lazyNode taking a *lazyNode and returning bool", false)
		return
	}
	a := &eqAn{b: b, fn: eq, oIdx: -1}
	for i, p := range eq.Params {
		if i > 0 && isPtrToNamed(p.Type(), "lazyNode") && a.oIdx < 0 {
			a.oIdx = i
		}
	}
	if a.oIdx < 0 {
		l.add("R-EQSHAPE", b.Name, "anchor: recursive comparison of two nodes", b.rel(eq.Pos()), Undecided, "second operand not found", false)
		return
	}
	name := b.canonFname(eq)
	// (Q1) branches test the operands only
	nIf := 0
	var foreign []string
	var constless []string
	for _, bb := range eq.Blocks {
		iff, ok := bb.Instrs[len(bb.Instrs)-1].(*ssa.If)
		if !ok {
			continue
		}
		nIf++
		s := a.sidesOf(iff.Cond)
		if f := foreignOf(s); f != "" {
			foreign = append(foreign, fmt.Sprintf("%s depends on %s", b.posOf(iff), f))
		}
		if !s["N"] && !s["O"] {
			if _, isConst := iff.Cond.(*ssa.Const); !isConst && foreignOf(s) == "" {
				constless = append(constless, b.posOf(iff))
			}
		}
	}
	key := name + ": every branch tests the two operands only"
	switch {
	case len(foreign) > 0:
		l.add("R-EQSHAPE", b.Name, key, b.rel(eq.Pos()), Violated, "a verdict of the comparison depends on something other than the two values: "+strings.Join(foreign, "; ")+" — two texts denoting the same value can then compare unequal (or different ones equal)", true)
	case len(constless) > 0:
		l.add("R-EQSHAPE", b.Name, key, b.rel(eq.Pos()), Violated, "branch condition computed from neither operand at "+strings.Join(constless, ", "), true)
	default:
		l.add("R-EQSHAPE", b.Name, key, b.rel(eq.Pos()), Discharged, fmt.Sprintf("%d branch conditions, each computed from the operands (and constants) only", nIf), true)
	}
	// (Q6) operands are classified only through the node's own methods (the container probes,
	// isNull, compact), the recursion, len, bytes.Equal and the decoder. A free-standing
	// predicate over an operand's raw text (the root dispatch's first-byte test, say) disagrees
	// with the probes on the text `null`, which the probes turn into a nil array.
	{
		var alien []string
		seenV := map[ssa.Value]bool{}
		var scan func(v ssa.Value, at string)
		scan = func(v ssa.Value, at string) {
			if v == nil || seenV[v] {
				return
			}
			seenV[v] = true
			switch x := v.(type) {
			case *ssa.BinOp:
				scan(x.X, at)
				scan(x.Y, at)
			case *ssa.UnOp:
				if x.Op == token.NOT {
					scan(x.X, at)
				}
			case *ssa.Phi:
				for _, e := range x.Edges {
					scan(e, at)
				}
			case *ssa.Call:
				f := x.Call.StaticCallee()
				if f == nil {
					return
				}
				if f.Pkg == b.Lib && f.Signature.Recv() == nil {
					if b.codecDecodeWrapper(f, 0) {
						return // the codec's decoder behind a one-line wrapper: Q2 judges it
					}
					s := a.sidesOf(x)
					if s["N"] || s["O"] {
						alien = append(alien, fname(f)+" at "+at)
					}
				}
			}
		}
		for _, bb := range eq.Blocks {
			if iff, ok := bb.Instrs[len(bb.Instrs)-1].(*ssa.If); ok {
				scan(iff.Cond, b.posOf(iff))
			}
		}
		key := name + ": operands are classified only through the node's own probes"
		if len(alien) > 0 {
			l.add("R-EQSHAPE", b.Name, key, b.rel(eq.Pos()), Violated, "a branch of the comparison is decided by "+strings.Join(alien, ", ")+": a free-standing predicate over an operand, which need not agree with the container probes (the text null is an empty array to the probes and not an array to a first-byte test)", true)
		} else {
			l.add("R-EQSHAPE", b.Name, key, b.rel(eq.Pos()), Discharged, "no branch condition calls a free function of the library on operand data", true)
		}
	}
	// wrappers (equal -> equalDepth): every other parameter of the role function is
	// fed constants / the same parameter at the outermost call — not needed for the verdicts above.

	// (Q3) computed verdicts use both operands; byte comparisons compare compacted texts
	isCompact := func(v ssa.Value) (bool, string) {
		call, ok := v.(*ssa.Call)
		if !ok {
			return false, ""
		}
		f := call.Call.StaticCallee()
		if f == nil || f.Signature.Recv() == nil || !isPtrToNamed(f.Signature.Recv().Type(), "lazyNode") {
			return false, ""
		}
		calls := false
		allInstrs(f, func(i ssa.Instruction) {
			if ci, ok := i.(ssa.CallInstruction); ok {
				if g := ci.Common().StaticCallee(); g != nil && g.Name() == "Compact" && ((b.Codec != nil && g.Pkg == b.Codec) || (g.Pkg != nil && g.Pkg.Pkg.Path() == "encoding/json")) {
					calls = true
				}
			}
		})
		if !calls {
			return false, ""
		}
		return true, a.path(call.Call.Args[0], 0)
	}
	nRet := 0
	for _, r := range liveReturns(eq) {
		v := retVal(r, 0)
		if _, isC := boolConst(v); isC {
			continue
		}
		nRet++
		key := fmt.Sprintf("%s: computed verdict #%s uses both operands", name, b.retOrdinal(r))
		s := a.sidesOf(v)
		if !s["N"] || !s["O"] {
			// what the value does not look at may have been settled by the branches that lead
			// here: `if n == nil { return o == nil || … }` uses both
			both := map[string]bool{"N": s["N"], "O": s["O"]}
			for _, e := range b.controlDepsTransitive(r.Block()) {
				if iff, ok := lastInstr(e.From).(*ssa.If); ok {
					cs := a.sidesOf(iff.Cond)
					both["N"] = both["N"] || cs["N"]
					both["O"] = both["O"] || cs["O"]
				}
			}
			if !both["N"] || !both["O"] {
				l.add("R-EQSHAPE", b.Name, key, b.posOf(r), Violated, "the returned value is computed from {"+sideList(s)+"}, and the branches leading to it do not test the other value either: the answer ignores one of the two values", true)
				continue
			}
		}
		if f := foreignOf(s); f != "" {
			l.add("R-EQSHAPE", b.Name, key, b.posOf(r), Violated, "the returned value also depends on "+f, true)
			continue
		}
		why := "computed from both operands"
		if bx, by, isCmp := byteComparison(v); isCmp {
			ok1, p1 := isCompact(bx)
			ok2, p2 := isCompact(by)
			if !ok1 || !ok2 || p1 == "?" || p2 != swapSide(p1) {
				l.add("R-EQSHAPE", b.Name, key, b.posOf(r), Violated, "the byte comparison is not applied to the compacted text of each operand: texts that differ only in insignificant whitespace would compare unequal", true)
				continue
			}
			why = "bytes of compact(" + p1 + ") == bytes of compact(" + p2 + ")"
		}
		l.add("R-EQSHAPE", b.Name, key, b.posOf(r), Discharged, why, true)
	}
	// (Q5) texts are compared byte-wise only for scalars: a bytes.Equal over compacted texts is
	// reached only after every container probe (the bool methods of the node type that
	// advance `which`) has answered false for the first operand — two arrays, or arrays
	// holding objects, are equal member-wise, not text-wise
	{
		var probes []*ssa.Function
		for _, f := range b.srcFuncs(b.Lib) {
			if f.Signature.Recv() == nil || !isPtrToNamed(f.Signature.Recv().Type(), "lazyNode") || f.Signature.Params().Len() != 0 {
				continue
			}
			if f.Signature.Results().Len() != 1 || typeShort(f.Signature.Results().At(0).Type()) != "bool" {
				continue
			}
			stores := false
			allInstrs(f, func(i ssa.Instruction) {
				if st, ok := i.(*ssa.Store); ok {
					if fa, ok := st.Addr.(*ssa.FieldAddr); ok && fieldName(fa.X.Type(), fa.Field) == "which" {
						stores = true
					}
				}
			})
			if stores {
				probes = append(probes, f)
			}
		}
		nCmp := 0
		allInstrs(eq, func(i ssa.Instruction) {
			iv, isV := i.(ssa.Value)
			if !isV {
				return
			}
			bx, by, isCmp := byteComparison(iv)
			if !isCmp {
				return
			}
			call := i
			ok1, _ := isCompact(bx)
			if !ok1 {
				return
			}
			// a comparison with a fixed text (the literal null) asks for one spelling of one
			// operand; it does not compare the two values
			if s2 := a.sidesOf(by); !s2["N"] && !s2["O"] {
				return
			}
			nCmp++
			key := fmt.Sprintf("%s: byte comparison #%d is reached only for values that are neither object nor array", name, nCmp)
			node := bx.(*ssa.Call).Call.Args[0]
			var missing []string
			for _, p := range probes {
				found := false
				for _, bb := range eq.Blocks {
					iff, ok := bb.Instrs[len(bb.Instrs)-1].(*ssa.If)
					if !ok {
						continue
					}
					cv, neg := stripNot(iff.Cond)
					pc, ok := cv.(*ssa.Call)
					if !ok || pc.Call.StaticCallee() != p || pc.Call.Args[0] != node {
						continue
					}
					fe := 1
					if neg {
						fe = 0
					}
					if edgeDominates(bb, fe, call.Block()) {
						found = true
					}
				}
				if !found {
					missing = append(missing, fname(p))
				}
			}
			if len(probes) == 0 {
				l.add("R-EQSHAPE", b.Name, key, b.posOf(call), Undecided, "no container probe (bool method of *lazyNode that stores `which`) found", false)
			} else if len(missing) > 0 {
				l.add("R-EQSHAPE", b.Name, key, b.posOf(call), Violated, "the texts are compared without "+strings.Join(missing, ", ")+" having answered false for "+describeValue(node)+": containers would be compared by their spelling (member order, nested objects) instead of member-wise", true)
			} else {
				l.add("R-EQSHAPE", b.Name, key, b.posOf(call), Discharged, fmt.Sprintf("dominated by the false edges of %d container probe(s) on the first operand", len(probes)), true)
			}
		})
		// … and there is such a comparison: values that are neither objects, arrays nor
		// strings are equal exactly when their compacted texts are, byte for byte (a folding
		// or parsing comparison makes "Foo" equal "foo", or 1 equal 1.0)
		{
			key := name + ": scalars are compared byte for byte on their compacted texts"
			folding := ""
			allInstrs(eq, func(i ssa.Instruction) {
				if call, ok := i.(*ssa.Call); ok {
					if f := call.Call.StaticCallee(); f != nil {
						switch stdName(f) {
						case "bytes.EqualFold", "strings.EqualFold", "bytes.Compare", "strings.Compare":
							folding = stdName(f) + " at " + b.posOf(call)
						}
					}
				}
			})
			switch {
			case folding != "":
				l.add("R-EQSHAPE", b.Name, key, b.rel(eq.Pos()), Violated, "the comparison uses "+folding+": texts that differ in case (or are merely ordered) are taken for equal values", true)
			case nCmp == 0:
				l.add("R-EQSHAPE", b.Name, key, b.rel(eq.Pos()), Violated, "no bytes.Equal (or string ==) of the two operands' compacted texts found: scalars are compared by something else", true)
			default:
				l.add("R-EQSHAPE", b.Name, key, b.rel(eq.Pos()), Discharged, fmt.Sprintf("%d byte-wise comparison(s) of the two compacted texts, no folding or ordering comparison", nCmp), true)
			}
		}
	}
	// (Q2) string comparisons
	nStr := 0
	allInstrs(eq, func(i ssa.Instruction) {
		bo, ok := i.(*ssa.BinOp)
		if !ok || (bo.Op != token.EQL && bo.Op != token.NEQ) {
			return
		}
		bt, ok := bo.X.Type().Underlying().(*types.Basic)
		if !ok || bt.Info()&types.IsString == 0 {
			return
		}
		// string(x) == string(y) of two byte slices is bytes.Equal(x, y): a comparison of texts,
		// not of decoded strings
		if cx, ok := bo.X.(*ssa.Convert); ok && isByteSlice(cx.X.Type()) {
			if cy, ok := bo.Y.(*ssa.Convert); ok && isByteSlice(cy.X.Type()) {
				return
			}
			if _, isConst := bo.Y.(*ssa.Const); isConst {
				return
			}
		}
		if _, isConst := bo.X.(*ssa.Const); isConst {
			if cy, ok := bo.Y.(*ssa.Convert); ok && isByteSlice(cy.X.Type()) {
				return
			}
		}
		nStr++
		key := fmt.Sprintf("%s: string comparison #%d compares what the codec's decoder made of each side's compacted text", name, nStr)
		var srcs []string
		bad := ""
		for _, op := range []ssa.Value{bo.X, bo.Y} {
			u, ok := op.(*ssa.UnOp)
			var al *ssa.Alloc
			if ok && u.Op == token.MUL {
				al, _ = u.X.(*ssa.Alloc)
			}
			if al == nil {
				bad = "operand " + describeValue(op) + " is not a local filled by the decoder"
				break
			}
			// every writer of the local is a codec decode call
			n := 0
			for _, r := range *al.Referrers() {
				switch y := r.(type) {
				case *ssa.Store:
					if y.Addr == ssa.Value(al) {
						bad = "the string is assigned at " + b.posOf(y) + " rather than decoded"
					}
				case *ssa.MakeInterface:
					for _, r2 := range *y.Referrers() {
						ci, ok := r2.(ssa.CallInstruction)
						if !ok {
							continue
						}
						f := ci.Common().StaticCallee()
						if f == nil || (f.Pkg != b.Codec && !b.codecDecodeWrapper(f, 0)) {
							bad = "the string is filled by " + calleeLabel(ci.Common()) + ", not by the embedded codec's decoder (another unescaper does not implement JSON's escapes: \\/ , \\uXXXX surrogate pairs, invalid UTF-8 replacement)"
							continue
						}
						in := ci.Common().Args[0]
						okc, p := isCompact(in)
						if !okc {
							bad = "the decoder input is not the compacted text of an operand"
							continue
						}
						srcs = append(srcs, p)
						n++
						// the decoder turns the text null into "" without an error: each side must be
						// known to be a string before its decoded value is compared
						if b.firstByteIs(eq, in, bo.Block(), '"') == "" {
							bad = "the text decoded at " + b.posOf(ci) + " is not known to start with a quote where the decoded strings are compared: the decoder accepts null into a string (leaving it empty) without an error, so \"\" and null would compare equal one way round"
						}
					}
				case ssa.CallInstruction:
					bad = "the string's address is passed to " + calleeLabel(y.Common())
				}
			}
			if n == 0 && bad == "" {
				bad = "no decoder call fills the string"
			}
			if bad != "" {
				break
			}
		}
		if bad == "" {
			sort.Strings(srcs)
			if len(srcs) != 2 || srcs[0] != "N" || srcs[1] != "O" {
				bad = "the two strings do not come one from each operand (sources " + strings.Join(srcs, ",") + ")"
			}
		}
		if bad != "" {
			l.add("R-EQSHAPE", b.Name, key, b.posOf(bo), Violated, bad, true)
		} else {
			l.add("R-EQSHAPE", b.Name, key, b.posOf(bo), Discharged, "decode(compact(N)) == decode(compact(O)) with the codec's own decoder", true)
		}
	})
	// a value produced by a foreign unescaper used for a verdict
	allInstrs(eq, func(i ssa.Instruction) {
		ci, ok := i.(ssa.CallInstruction)
		if !ok {
			return
		}
		f := ci.Common().StaticCallee()
		if f == nil || f.Pkg == nil {
			return
		}
		if f.Pkg.Pkg.Path() == "strconv" && strings.Contains(f.Name(), "nquote") {
			l.add("R-EQSHAPE", b.Name, name+": no foreign unescaper", b.posOf(i), Violated, "strconv."+f.Name()+" implements Go string syntax, not JSON's", true)
		}
	})
	// (Q4) recursion sites
	isRec := func(f *ssa.Function) bool {
		if f == eq {
			return true
		}
		if f == nil || f.Blocks == nil || f.Pkg != b.Lib {
			return false
		}
		// a thin wrapper around the role function
		for _, g := range b.libCalleesOf(f) {
			if g == eq && f.Signature.Recv() != nil && isPtrToNamed(f.Signature.Recv().Type(), "lazyNode") && len(f.Blocks) <= 2 {
				return true
			}
		}
		return false
	}
	nArr, nObj := 0, 0
	for _, ci := range callsTo(eq, func(cc *ssa.CallCommon) bool { return isRec(cc.StaticCallee()) }) {
		call, ok := ci.(*ssa.Call)
		if !ok {
			l.add("R-EQSHAPE", b.Name, name+": recursion result is used", b.posOf(ci), Violated, "the recursive comparison is deferred / spawned: its answer is dropped", true)
			continue
		}
		callee := call.Call.StaticCallee()
		oi := a.oIdx
		if callee != eq {
			oi = 1
		}
		x, y := call.Call.Args[0], call.Call.Args[oi]
		form, detail, bad := "", "", ""
		// array form
		if ux, ok := x.(*ssa.UnOp); ok {
			if iax, ok := ux.X.(*ssa.IndexAddr); ok {
				form = "element"
				nArr++
				px := a.path(iax.X, 0)
				uy, _ := y.(*ssa.UnOp)
				var iay *ssa.IndexAddr
				if uy != nil {
					iay, _ = uy.X.(*ssa.IndexAddr)
				}
				switch {
				case iay == nil:
					bad = "the other side is not an element load"
				case iay.Index != iax.Index:
					bad = "an element of one side is compared with a different index of the other"
				case px == "?" || a.path(iay.X, 0) != swapSide(px):
					bad = "the two element loads are not from the same slice of each operand (" + px + " vs " + a.path(iay.X, 0) + ")"
				default:
					if ok, at := a.lenCheckDominates(call.Block(), px); !ok {
						bad = "no comparison of len(" + px + ") with len(" + swapSide(px) + ") that answers false dominates the loop: a proper prefix would compare equal (or the index runs out of range)"
					} else {
						detail = px + "[i] with " + swapSide(px) + "[i], lengths compared at " + at
					}
					// the loop covers all of px
					if bad == "" {
						if ok, why := a.indexCoversAll(iax); !ok {
							bad = why
						}
					}
				}
			}
		}
		if form == "" {
			if ex, ok := x.(*ssa.Extract); ok {
				if nx, ok := ex.Tuple.(*ssa.Next); ok && ex.Index == 2 {
					form = "member"
					nObj++
					rg, _ := nx.Iter.(*ssa.Range)
					px := "?"
					if rg != nil {
						px = a.path(rg.X, 0)
					}
					ey, _ := y.(*ssa.Extract)
					var lk *ssa.Lookup
					if ey != nil && ey.Index == 0 {
						lk, _ = ey.Tuple.(*ssa.Lookup)
					}
					if lk == nil {
						if l2, ok := y.(*ssa.Lookup); ok {
							lk = l2
						}
					}
					switch {
					case lk == nil:
						bad = "the other side is not a lookup in the other operand's members"
					default:
						kx, isK := lk.Index.(*ssa.Extract)
						if !isK || kx.Tuple != ssa.Value(nx) || kx.Index != 1 {
							bad = "the other side is not looked up under the key of the member being compared"
						} else if px == "?" || a.path(lk.X, 0) != swapSide(px) {
							bad = "the lookup is not in the corresponding member map of the other operand (" + px + " vs " + a.path(lk.X, 0) + ")"
						} else if ok, at := a.lenCheckDominates(call.Block(), px); !ok {
							bad = "no comparison of len(" + px + ") with len(" + swapSide(px) + ") that answers false dominates the loop: an object with additional members would compare equal"
						} else {
							detail = px + "[k] with " + swapSide(px) + "[k], sizes compared at " + at
						}
					}
				}
			}
		}
		ord := nArr
		if form == "member" {
			ord = nObj
		}
		if form == "" {
			l.add("R-EQSHAPE", b.Name, fmt.Sprintf("%s: recursion at an unrecognised pairing", name), b.posOf(call), Violated, "recursive comparison of "+describeValue(x)+" with "+describeValue(y)+": neither element-with-element nor member-with-member", true)
			continue
		}
		key := fmt.Sprintf("%s: %s recursion #%d pairs like with like under a length comparison", name, form, ord)
		if bad != "" {
			l.add("R-EQSHAPE", b.Name, key, b.posOf(call), Violated, bad, true)
		} else {
			l.add("R-EQSHAPE", b.Name, key, b.posOf(call), Discharged, detail, true)
		}
		// false answer -> false
		key = fmt.Sprintf("%s: %s recursion #%d: a different pair makes the whole comparison different", name, form, ord)
		okF := false
		why := "the answer of the recursive comparison does not decide a branch"
		for _, r := range *call.Referrers() {
			var cond ssa.Value = call
			neg := false
			if u, ok := r.(*ssa.UnOp); ok && u.Op == token.NOT {
				cond, neg = u, true
				for _, r2 := range *u.Referrers() {
					if iff, ok := r2.(*ssa.If); ok {
						r = iff
					}
				}
			}
			iff, ok := r.(*ssa.If)
			if !ok || iff.Cond != cond {
				continue
			}
			fe := 1
			if neg {
				fe = 0
			}
			if returnsConst(iff.Block().Succs[fe], false) {
				okF = true
				why = "false edge returns false at " + b.posOf(iff)
			} else {
				why = "when the pair differs the comparison goes on instead of answering false (" + b.posOf(iff) + ")"
			}
		}
		if okF {
			l.add("R-EQSHAPE", b.Name, key, b.posOf(call), Discharged, why, true)
		} else {
			l.add("R-EQSHAPE", b.Name, key, b.posOf(call), Violated, why, true)
		}
	}
	key = name + ": both container kinds are compared recursively"
	if nArr >= 1 && nObj >= 1 {
		l.add("R-EQSHAPE", b.Name, key, b.rel(eq.Pos()), Discharged, fmt.Sprintf("%d element recursion(s), %d member recursion(s)", nArr, nObj), true)
	} else {
		l.add("R-EQSHAPE", b.Name, key, b.rel(eq.Pos()), Violated, fmt.Sprintf("%d element recursion(s), %d member recursion(s): a container kind is compared without looking inside", nArr, nObj), true)
	}
}

// indexCoversAll: the index of ia is the induction variable of a loop that
// starts at 0, steps by 1 and runs while it is below len of the indexed slice
// (the shape of `for i := range s` and of `for i := 0; i < len(s); i++`).
func (a *eqAn) indexCoversAll(ia *ssa.IndexAddr) (bool, string) {
	idx := ia.Index
	var phi *ssa.Phi
	inc := false
	switch x := idx.(type) {
	case *ssa.Phi:
		phi = x
	case *ssa.BinOp:
		// rotated range loop: i = phi(-1, i) + 1
		if x.Op == token.ADD {
			if p, ok := x.X.(*ssa.Phi); ok {
				if n, ok := intConst(x.Y); ok && n == 1 {
					phi, inc = p, true
				}
			}
		}
	}
	if phi == nil {
		return false, "the compared index is not a loop counter: not every element is compared"
	}
	start := int64(0)
	if inc {
		start = -1
	}
	okStart, okStep := false, false
	for _, e := range phi.Edges {
		if n, ok := intConst(e); ok && n == start {
			okStart = true
			continue
		}
		if bo, ok := e.(*ssa.BinOp); ok && bo.Op == token.ADD {
			if n, ok := intConst(bo.Y); ok && n == 1 && (bo.X == ssa.Value(phi)) {
				okStep = true
				continue
			}
		}
		if inc && e == idx {
			okStep = true
			continue
		}
	}
	if !okStart || !okStep {
		return false, "the loop over the elements does not start at the first element and step by one: some elements are never compared"
	}
	// bound: idx < len(path of ia.X)
	want := a.path(ia.X, 0)
	for _, r := range *idx.Referrers() {
		bo, ok := r.(*ssa.BinOp)
		if !ok || bo.Op != token.LSS || bo.X != idx {
			continue
		}
		if la, ok := lenArg(bo.Y); ok && a.path(la, 0) == want {
			return true, ""
		}
	}
	return false, "the loop bound is not the length of " + want + ": trailing elements are never compared"
}

// byteComparison: v compares two byte slices for equality — bytes.Equal(x, y), or
// string(x) == string(y) — and returns the two slices.
func byteComparison(v ssa.Value) (ssa.Value, ssa.Value, bool) {
	switch x := v.(type) {
	case *ssa.Call:
		f := x.Call.StaticCallee()
		if f != nil && f.Pkg != nil && f.Pkg.Pkg.Path() == "bytes" && f.Name() == "Equal" && len(x.Call.Args) == 2 {
			return x.Call.Args[0], x.Call.Args[1], true
		}
	case *ssa.BinOp:
		if x.Op != token.EQL {
			return nil, nil, false
		}
		cx, ok1 := x.X.(*ssa.Convert)
		cy, ok2 := x.Y.(*ssa.Convert)
		if ok1 && ok2 && isByteSlice(cx.X.Type()) && isByteSlice(cy.X.Type()) {
			return cx.X, cy.X, true
		}
	}
	return nil, nil, false
}
