package main

// RFC 7396 mechanics as provenance / must-pass-through facts:
// R-MERGESHAPE, R-NOPRUNE, R-ARRAYS, R-PATCHWINS, R-CMPSHAPE.

import (
	"fmt"
	"go/constant"
	"go/token"
	"go/types"
	"sort"
	"strings"

	"golang.org/x/tools/go/ssa"
)

func init() {
	register(&Rule{ID: "R-MERGESHAPE", Doc: "skeleton of RFC 7396 in merge/mergeDocs: (M1) recursive calls pass the mode flag parameter through unchanged; (M2) merge returns its patch parameter when either side is not an object and its cur parameter after mergeDocs(curDoc, patchDoc, flag) otherwise; (M3) for a non-null patch member every path of the loop body stores that key (set / obj[k] =) with the member itself or merge(cur, member, flag); (M5) for a null member the combine mode stores nil and the apply mode removes the key",
		Run: ruleMergeShape, Min: map[string]int{"v5": 5, "legacy": 5}})
	register(&Rule{ID: "R-NOPRUNE", Doc: "null-pruning happens exactly where RFC 7396 needs it: every pruneNulls call in mergeDocs is under the apply-mode (flag false) edge (nothing is pruned while combining), and in apply mode a patch member that is stored as a new value (not merged) has had its own null members pruned first; the call in merge for a non-object target is a reviewed exception",
		Run: ruleNoPrune, Min: map[string]int{"v5": 2, "legacy": 2}})
	register(&Rule{ID: "R-ARRAYS", Doc: "arrays are never merged or edited: the function that handles an array value of the patch (pruneAryNulls) does not reach a member removal (partialDoc.remove / delete on a member map) in the call graph",
		Run: ruleArrays, Min: map[string]int{"v5": 1, "legacy": 1}})
	register(&Rule{ID: "R-PATCHWINS", Doc: "a non-object patch replaces the document wholesale: every successful return of doMergePatch other than the final merged-object encoding returns bytes that derive from the patch parameter only (never from the document parameter), and the patch parameter itself is returned for a patch that is not an object",
		Run: rulePatchWins, Min: map[string]int{"v5": 3, "legacy": 2}})
	register(&Rule{ID: "R-CMPSHAPE", Doc: "CreateMergePatch: mixed array/object roots return the mismatch error; the array form returns an error unless both lengths are equal, and every element pair goes through the object-diff function, whose error aborts — no pair can bypass it",
		Run: ruleCmpShape, Min: map[string]int{"v5": 3, "legacy": 3}})
}

// boolParam returns the (single) bool parameter of fn, or nil.
func boolParam(fn *ssa.Function) *ssa.Parameter {
	var out *ssa.Parameter
	for _, p := range fn.Params {
		if bt, ok := p.Type().Underlying().(*types.Basic); ok && bt.Kind() == types.Bool {
			if out != nil {
				return nil
			}
			out = p
		}
	}
	return out
}

type mergeFns struct {
	merge, mergeDocs, pruneNulls, pruneAry, doMerge *ssa.Function
}

func (b *Body) mergeAnchors() *mergeFns {
	return &mergeFns{b.roleFn("merge"), b.roleFn("mergeDocs"), b.roleFn("pruneNulls"), b.roleFn("pruneAryNulls"), b.roleFn("doMergePatch")}
}

// memberLoop describes mergeDocs' loop over the patch members.
type memberLoop struct {
	header     *ssa.BasicBlock
	key, val   ssa.Value
	nonNilBlk  *ssa.BasicBlock // successor taken when the member is non-nil
	nilBlk     *ssa.BasicBlock
	body       map[*ssa.BasicBlock]bool
	testBlk    *ssa.BasicBlock
	nonNilSucc int
}

func (b *Body) findMemberLoop(fn *ssa.Function) *memberLoop {
	var ml *memberLoop
	allInstrs(fn, func(i ssa.Instruction) {
		nx, ok := i.(*ssa.Next)
		if !ok || ml != nil {
			return
		}
		rg, ok := nx.Iter.(*ssa.Range)
		if !ok || !isMemberMap(rg.X.Type()) {
			return
		}
		m := &memberLoop{header: nx.Block()}
		for _, ex := range extractOf(nx, 1) {
			m.key = ex
		}
		for _, ex := range extractOf(nx, 2) {
			m.val = ex
		}
		if m.key == nil || m.val == nil {
			return
		}
		for _, t := range nilTests(fn, m.val) {
			m.testBlk, m.nonNilSucc = t.Blk, t.NonNilSucc
			m.nonNilBlk = t.Blk.Succs[t.NonNilSucc]
			m.nilBlk = t.Blk.Succs[1-t.NonNilSucc]
		}
		m.body = naturalLoop(m.header)
		ml = m
	})
	return ml
}

// memberSetter: instruction stores a value under key k into the document: v5 doc.set(k, X, …) / legacy (*doc)[k] = X.
func memberSetter(i ssa.Instruction, k ssa.Value) (ssa.Value, bool) {
	switch x := i.(type) {
	case *ssa.MapUpdate:
		if isMemberMap(x.Map.Type()) && x.Key == k {
			return x.Value, true
		}
	case ssa.CallInstruction:
		com := x.Common()
		if f := com.StaticCallee(); f != nil && recvTypeName(f) == "partialDoc" && (f.Name() == "set" || f.Name() == "add") && len(com.Args) >= 3 && com.Args[1] == k {
			return com.Args[2], true
		}
	}
	return nil, false
}

func memberRemover(i ssa.Instruction, k ssa.Value) bool {
	ci, ok := i.(ssa.CallInstruction)
	if !ok {
		return false
	}
	com := ci.Common()
	if bi, ok := com.Value.(*ssa.Builtin); ok && bi.Name() == "delete" && isMemberMap(com.Args[0].Type()) && com.Args[1] == k {
		return true
	}
	if f := com.StaticCallee(); f != nil && recvTypeName(f) == "partialDoc" && f.Name() == "remove" && len(com.Args) >= 2 && com.Args[1] == k {
		return true
	}
	return false
}

func ruleMergeShape(c *Ctx) {
	for _, b := range c.bodies() {
		l := c.L
		mf := b.mergeAnchors()
		if mf.mergeDocs == nil {
			l.add("R-MERGESHAPE", b.Name, "anchor merge/mergeDocs", "", Undecided, "merge or mergeDocs not found", false)
			continue
		}
		// the value-level function merge may have been inlined into the member walk: M1 and
		// M2 are then stated on the member walk itself (M2')
		inlined := mf.merge == nil
		if inlined {
			selfRec := len(callsTo(mf.mergeDocs, func(cc *ssa.CallCommon) bool { return cc.StaticCallee() == mf.mergeDocs })) > 0
			if !selfRec {
				l.add("R-MERGESHAPE", b.Name, "anchor merge/mergeDocs", "", Undecided, "no value-level merge function, and the member walk does not call itself", false)
				continue
			}
		}
		add := func(key string, pos string, ok bool, good, bad string) {
			v, f := Discharged, good
			if !ok {
				v, f = Violated, bad
			}
			l.add("R-MERGESHAPE", b.Name, key, pos, v, f, true)
		}
		// M6: the driver encodes what the member merge produced, untouched
		if dm := b.roleFn("doMergePatch"); dm != nil {
			for _, cs := range callsTo(dm, func(cc *ssa.CallCommon) bool { return cc.StaticCallee() == mf.mergeDocs }) {
				key := "(M6) doMergePatch: the merged document goes to the encoder as mergeDocs left it"
				doc := cs.Common().Args[0]
				after := reachableAfter(b, cs)
				bad := ""
				derived := func(v ssa.Value) bool {
					for d := 0; d < 6 && v != nil; d++ {
						if v == doc {
							return true
						}
						switch x := v.(type) {
						case *ssa.FieldAddr:
							v = x.X
						case *ssa.UnOp:
							v = x.X
						case *ssa.IndexAddr:
							v = x.X
						case *ssa.MakeInterface:
							v = x.X
						case *ssa.ChangeType:
							v = x.X
						default:
							return false
						}
					}
					return false
				}
				allInstrs(dm, func(i ssa.Instruction) {
					if !after[i] || i == ssa.Instruction(cs) {
						return
					}
					switch x := i.(type) {
					case *ssa.Store:
						if derived(x.Addr) {
							bad = "a field of the merged document is overwritten at " + b.posOf(i)
						}
					case *ssa.MapUpdate:
						if derived(x.Map) {
							bad = "the member map of the merged document is updated at " + b.posOf(i)
						}
					case ssa.CallInstruction:
						com := x.Common()
						f := com.StaticCallee()
						for _, a := range callArgs(com) {
							if !derived(a) {
								continue
							}
							if bi, ok := com.Value.(*ssa.Builtin); ok {
								if bi.Name() == "delete" {
									bad = "members are deleted from the merged document at " + b.posOf(i)
								}
								continue
							}
							if f != nil && f.Pkg == b.Codec {
								continue // the encoder
							}
							if f != nil && f.Pkg != nil && f.Pkg.Pkg.Path() == "encoding/json" {
								continue
							}
							bad = "the merged document is handed to " + calleeLabel(com) + " at " + b.posOf(i) + " before it is encoded: a post-processing step can drop or rewrite members that the RFC 7396 merge (or the combination of two patches) put there"
						}
					}
				})
				add(key, b.posOf(cs), bad == "", "after the member merge only the encoder sees the document", bad)
			}
		}
		// M7: what the driver encodes as the result object
		if dm := b.roleFn("doMergePatch"); dm != nil {
			b.mergeResultProvenance(l, dm, mf, add)
		}
		// M1: flag pass-through
		m1fns := []*ssa.Function{mf.merge, mf.mergeDocs}
		if inlined {
			m1fns = []*ssa.Function{mf.mergeDocs}
		}
		for _, fn := range m1fns {
			flag := boolParam(fn)
			n := 0
			for _, cs := range callsTo(fn, func(cc *ssa.CallCommon) bool {
				f := cc.StaticCallee()
				return f != nil && (f == mf.merge || f == mf.mergeDocs)
			}) {
				n++
				callee := cs.Common().StaticCallee()
				cf := boolParam(callee)
				key := fmt.Sprintf("(M1) %s -> %s #%d passes its own mode flag on", fname(fn), fname(callee), n)
				if flag == nil || cf == nil {
					add(key, b.posOf(cs), false, "", "mode flag parameter not found")
					continue
				}
				arg := cs.Common().Args[paramIdx(cf)]
				add(key, b.posOf(cs), arg == ssa.Value(flag), "argument is the caller's flag parameter "+flag.Name(), "the recursive call passes "+describeValue(arg)+" instead of the caller's mode flag: below the first level the merge runs in the other mode (deletions are applied instead of kept, or kept instead of applied)")
			}
		}
		// M2: merge's returns
		if !inlined {
			fn := mf.merge
			cur, patch := ssa.Value(fn.Params[0]), ssa.Value(fn.Params[1])
			var intoCur, intoPatch *ssa.Call
			allInstrs(fn, func(i ssa.Instruction) {
				if call, ok := i.(*ssa.Call); ok {
					if f := call.Call.StaticCallee(); f != nil && f.Name() == "intoDoc" {
						if call.Call.Args[0] == cur {
							intoCur = call
						}
						if call.Call.Args[0] == patch {
							intoPatch = call
						}
					}
				}
			})
			key := "(M2) merge returns patch when either side is not an object, cur after mergeDocs otherwise"
			if intoCur == nil || intoPatch == nil {
				add(key, b.rel(fn.Pos()), false, "", "merge does not convert both sides with intoDoc")
			} else {
				bad := ""
				failEdge := func(call *ssa.Call, blk *ssa.BasicBlock) bool {
					for _, e := range errResultOf(call) {
						for _, t := range nilTests(fn, e) {
							if edgeDominates(t.Blk, t.NonNilSucc, blk) {
								return true
							}
						}
					}
					return false
				}
				nOther := 0
				for _, r := range liveReturns(fn) {
					v := retVal(r, 0)
					switch {
					case failEdge(intoCur, r.Block()), failEdge(intoPatch, r.Block()):
						if v != patch {
							bad = "when one side is not an object merge returns " + describeValue(v) + " instead of the patch value (a scalar or array in the patch would not replace the target)"
						}
					default:
						nOther++
						if v != cur {
							bad = "after merging two objects merge returns " + describeValue(v) + " instead of the merged target"
						}
						// dominated by mergeDocs(curDoc, patchDoc, flag)
						okCall := false
						for _, cs := range callsTo(fn, func(cc *ssa.CallCommon) bool { return cc.StaticCallee() == mf.mergeDocs }) {
							a := cs.Common().Args
							e0, ok0 := a[0].(*ssa.Extract)
							e1, ok1 := a[1].(*ssa.Extract)
							if ok0 && ok1 && e0.Tuple == ssa.Value(intoCur) && e1.Tuple == ssa.Value(intoPatch) && b.instrDominates(cs, r) {
								okCall = true
							}
						}
						if !okCall {
							bad = "the object/object return is not preceded by mergeDocs(curDoc, patchDoc, …)"
						}
					}
				}
				if nOther == 0 && bad == "" {
					bad = "merge has no return for the object/object case"
				}
				add(key, b.rel(fn.Pos()), bad == "", "3 return classes checked: cur-not-object → patch, patch-not-object → patch, both objects → cur after mergeDocs(curDoc, patchDoc, flag)", bad)
			}
		}
		// M3 / M5 in mergeDocs
		fn := mf.mergeDocs
		b.mergeNamesLiteral(l, fn)
		b.decodedSidesTestedFirst(l)
		ml := b.findMemberLoop(fn)
		if ml == nil || ml.nonNilBlk == nil {
			l.add("R-MERGESHAPE", b.Name, "anchor member loop of mergeDocs", b.rel(fn.Pos()), Undecided, "range over the patch members with a nil test on the member not found", false)
			continue
		}
		{
			// (M9) the walk is the whole function: it ends when the members of the patch are used
			// up and in no other way — a shortcut that returns before the loop (taking the patch's
			// members over wholesale, say) decides member by member nothing at all
			key := "(M9) mergeDocs: every return lies behind the walk over the patch's members"
			bad := ""
			for _, r := range liveReturns(fn) {
				if !ml.header.Dominates(r.Block()) {
					bad = "the return at " + b.posOf(r) + " is reached without entering the loop over the patch's members: the members are not merged one by one on that path (objects on both sides are replaced instead of merged, deletions are taken over or lost as a block)"
				} else if ml.body[r.Block()] {
					bad = "the return at " + b.posOf(r) + " leaves the loop over the patch's members before they are used up"
				} else {
					// a return statement inside the loop is a block of its own that cannot reach the
					// back edge; it is entered from the body, not from the header's exit
					for bb := range ml.body {
						if bb != ml.header && bb.Dominates(r.Block()) {
							bad = "the return at " + b.posOf(r) + " is reached from inside the loop over the patch's members (through " + b.posOf(lastInstr(bb)) + "): the members that follow are never merged"
						}
					}
				}
			}
			add(key, b.rel(fn.Pos()), bad == "", "the function returns only where the range over the patch's members is exhausted", bad)
		}
		flag := boolParam(fn)
		{
			key := "(M3) mergeDocs: a non-null patch member is stored under its key on every path"
			// blocks holding a setter for key
			setterBlks := map[*ssa.BasicBlock]bool{}
			bad := ""
			nSet := 0
			m2bad := ""
			nM2 := 0
			defer func() {
				if inlined {
					add("(M2') mergeDocs: what is stored is the patch member unless both sides are objects, and then the target after the recursive walk", b.rel(fn.Pos()), m2bad == "" && nM2 > 0, fmt.Sprintf("%d store(s) of a merged value: each admissible value is the member (not behind both object probes) or the current value behind both probes and the recursive call", nM2), m2bad+map[bool]string{true: "no store of a merged value found", false: ""}[nM2 == 0 && m2bad == ""])
				}
			}()
			for bb := range ml.body {
				for _, ins := range bb.Instrs {
					if x, ok := memberSetter(ins, ml.key); ok {
						if !edgeDominates(ml.testBlk, ml.nonNilSucc, bb) {
							continue
						}
						nSet++
						setterBlks[bb] = true
						// value: the member itself, or merge(cur, member, flag)
						if x == ml.val {
							continue
						}
						if inlined {
							// (M2') merge inlined: each value that can be stored is the member — but not
							// where both sides were found to be objects — or the current value after the
							// recursive walk over (its object, the member's object)
							nM2++
							if why := b.inlinedMergeStore(fn, ml, x, ins, mf); why != "" {
								m2bad = why
							}
							continue
						}
						if call, ok := x.(*ssa.Call); ok && call.Call.StaticCallee() == mf.merge && call.Call.Args[1] == ml.val {
							// cur is the looked-up current value of the same key
							ok2 := false
							switch cv := call.Call.Args[0].(type) {
							case *ssa.Extract:
								if lk, ok := cv.Tuple.(*ssa.Lookup); ok && lk.Index == ml.key {
									ok2 = true
								}
							case *ssa.Lookup:
								ok2 = cv.Index == ml.key
							}
							if !ok2 {
								bad = "merge is applied to something other than the target's current value for this key"
							}
							continue
						}
						bad = "the value stored for the key at " + b.posOf(ins) + " is neither the patch member nor merge(current, member, …)"
					}
				}
			}
			// every path from the non-nil edge back to the header passes a setter
			if bad == "" {
				seen := map[*ssa.BasicBlock]bool{}
				var walk func(bb *ssa.BasicBlock) bool
				walk = func(bb *ssa.BasicBlock) bool {
					if bb == ml.header {
						return true
					}
					if seen[bb] || !ml.body[bb] || setterBlks[bb] {
						return false
					}
					seen[bb] = true
					for si, s := range bb.Succs {
						if b.alreadyStoredEdge(bb, si, ml.key, ml.val, mf.merge) {
							// merge handed back the very value that is stored under the key
							continue
						}
						if walk(s) {
							return true
						}
					}
					return false
				}
				if walk(ml.nonNilBlk) {
					bad = "some path through the loop body for a non-null member reaches the next iteration without storing the key (the member of the patch is silently ignored)"
				}
			}
			add(key, b.posOf(ml.testBlk.Instrs[len(ml.testBlk.Instrs)-1]), bad == "" && nSet > 0, fmt.Sprintf("%d store site(s); every path from the non-null edge to the latch passes one; stored value is the member or merge(current, member, flag)", nSet), bad+map[bool]string{true: "no store of the key on the non-null edge", false: ""}[nSet == 0 && bad == ""])
		}
		{
			key := "(M5) mergeDocs: a null patch member is kept (combine mode) or removes the key (apply mode)"
			bad := ""
			keep, rem := false, false
			for bb := range ml.body {
				if !edgeDominates(ml.testBlk, 1-ml.nonNilSucc, bb) && !(ml.val != nil && b.atomOnEveryPath(bb, "nil:"+ml.val.Name(), true)) {
					continue
				}
				for _, ins := range bb.Instrs {
					if x, ok := memberSetter(ins, ml.key); ok {
						if !isNilConst(x) {
							bad = "a non-nil value is stored for a null patch member"
						}
						if flag != nil && b.underFlagEdge(bb, flag, true) {
							keep = true
						} else {
							bad = "nil is stored for a null patch member outside the combine-mode edge (MergePatch would keep explicit nulls instead of deleting)"
						}
					}
					if memberRemover(ins, ml.key) {
						if flag != nil && b.underFlagEdge(bb, flag, false) {
							rem = true
						} else {
							bad = "the key is removed for a null patch member outside the apply-mode edge (MergeMergePatches would lose deletions)"
						}
					}
				}
			}
			if bad == "" && (!keep || !rem) {
				bad = fmt.Sprintf("null member handling incomplete (keeps in combine mode: %v, removes in apply mode: %v)", keep, rem)
			}
			// … and on every path: a null member whose removal (or nil store) is skipped under
			// some further condition — the target's current value, say — leaves a member of the
			// target standing that the patch deletes
			if bad == "" && ml.nilBlk != nil {
				actBlks := map[*ssa.BasicBlock]bool{}
				for bb := range ml.body {
					for _, ins := range bb.Instrs {
						if _, ok := memberSetter(ins, ml.key); ok {
							actBlks[bb] = true
						}
						if memberRemover(ins, ml.key) {
							actBlks[bb] = true
						}
					}
				}
				seen := map[*ssa.BasicBlock]bool{}
				var walk func(bb *ssa.BasicBlock) bool
				walk = func(bb *ssa.BasicBlock) bool {
					if bb == ml.header {
						return true
					}
					if seen[bb] || !ml.body[bb] || actBlks[bb] {
						return false
					}
					seen[bb] = true
					for si, sx := range bb.Succs {
						// where a comma-ok lookup of this key in a member map says the member is
						// absent there is nothing to remove: that edge is not a skipped deletion
						if iff, ok := lastInstr(bb).(*ssa.If); ok {
							c0, neg := stripNot(iff.Cond)
							if ex, ok := c0.(*ssa.Extract); ok && ex.Index == 1 {
								// (apply mode only: a combined patch must keep the deletion of a member
								// the first patch does not mention)
								if lk, ok := ex.Tuple.(*ssa.Lookup); ok && lk.CommaOk && unwrapConv(lk.Index) == unwrapConv(ml.key) && flag != nil && b.underFlagEdge(bb, flag, false) {
									absentSucc := 1
									if neg {
										absentSucc = 0
									}
									if si == absentSucc {
										continue
									}
								}
							}
						}
						if walk(sx) {
							return true
						}
					}
					return false
				}
				if walk(ml.nilBlk) {
					bad = "some path through the loop body for a null member reaches the next iteration without storing nil or removing the key: the deletion the patch asks for is skipped under a further condition"
				}
			}
			add(key, b.posOf(ml.testBlk.Instrs[len(ml.testBlk.Instrs)-1]), bad == "", "combine mode stores nil under the key; apply mode removes the key", bad)
		}
	}
}

// underFlagEdge: bb is dominated by the edge on which the bool parameter has value want.
func (b *Body) underFlagEdge(bb *ssa.BasicBlock, flag *ssa.Parameter, want bool) bool {
	for _, x := range bb.Parent().Blocks {
		iff, ok := x.Instrs[len(x.Instrs)-1].(*ssa.If)
		if !ok {
			continue
		}
		cv, neg := stripNot(iff.Cond)
		if cv != ssa.Value(flag) {
			continue
		}
		s := 0
		if neg != !want { // succ 0 is taken when cond true; cond = flag (or !flag)
			s = 1
		}
		if edgeDominates(x, s, bb) {
			return true
		}
	}
	// not by dominance: decide by walking the feasible paths (a condition tested twice, as in
	// `case v == nil && !flag: … case v == nil: …`, makes the second arm flag-true without a
	// dominating edge)
	return b.atomOnEveryPath(bb, "p:"+flag.Name(), want)
}

// flagOnEveryPath: on every feasible path from the function entry to bb the bool
// parameter has been tested with outcome want. Feasibility tracks two kinds of atoms:
// a bool parameter (or its negation) and nil-tests of an SSA value.
func (b *Body) atomOnEveryPath(bb *ssa.BasicBlock, flagKey string, want bool) bool {
	fn := bb.Parent()
	atom := func(cond ssa.Value) (string, bool, bool) { // key, value-on-true-edge, ok
		cv, neg := stripNot(cond)
		if p, ok := cv.(*ssa.Parameter); ok {
			return "p:" + p.Name(), !neg, true
		}
		if x, nnTrue, ok := nilTestOfCond(cond); ok {
			// key: "x is nil"; on the true edge x is nil iff !nnTrue
			return "nil:" + x.Name(), !nnTrue, true
		}
		return "", false, false
	}
	// atomsOn: what is known when cond evaluates to `outcome` — also through the phis that go/ssa
	// builds for && and || used as values (switch cases)
	var atomsOn func(cond ssa.Value, outcome bool, depth int) map[string]bool
	atomsOn = func(cond ssa.Value, outcome bool, depth int) map[string]bool {
		out := map[string]bool{}
		if depth > 4 {
			return out
		}
		if k, onTrue, ok := atom(cond); ok {
			out[k] = onTrue == outcome
			return out
		}
		if u, ok := cond.(*ssa.UnOp); ok && u.Op == token.NOT {
			return atomsOn(u.X, !outcome, depth+1)
		}
		phi, ok := cond.(*ssa.Phi)
		if !ok || len(phi.Edges) != 2 {
			return out
		}
		for i, e := range phi.Edges {
			c, isC := boolConst(e)
			if !isC {
				continue
			}
			other := phi.Edges[1-i]
			p := phi.Block().Preds[i]
			piff, ok := p.Instrs[len(p.Instrs)-1].(*ssa.If)
			if !ok {
				return out
			}
			// the constant edge is taken when the first operand already decides:
			// a && b: constant false, taken on a's false edge;  a || b: constant true, on a's true edge
			if !c && outcome {
				// a && b is true: both true
				for k, v := range atomsOn(piff.Cond, true, depth+1) {
					out[k] = v
				}
				for k, v := range atomsOn(other, true, depth+1) {
					out[k] = v
				}
			}
			if c && !outcome {
				// a || b is false: both false
				for k, v := range atomsOn(piff.Cond, false, depth+1) {
					out[k] = v
				}
				for k, v := range atomsOn(other, false, depth+1) {
					out[k] = v
				}
			}
		}
		return out
	}
	type state struct {
		bb  *ssa.BasicBlock
		env string
	}
	seen := map[state]bool{}
	ok := true
	reached := false
	var walk func(cur, prev *ssa.BasicBlock, env map[string]bool)
	walk = func(cur, prev *ssa.BasicBlock, env map[string]bool) {
		if !ok {
			return
		}
		if isLoopHeader(cur) {
			// values defined in the loop are new objects in the next iteration: forget what was
			// learnt about them (parameters keep their value)
			ne := map[string]bool{}
			for k, v := range env {
				if strings.HasPrefix(k, "p:") {
					ne[k] = v
				}
			}
			env = ne
		}
		var ks []string
		for k, v := range env {
			ks = append(ks, fmt.Sprintf("%s=%v", k, v))
		}
		sort.Strings(ks)
		pn := -1
		if prev != nil {
			pn = prev.Index
		}
		st := state{cur, fmt.Sprintf("%d|", pn) + strings.Join(ks, ",")}
		if seen[st] {
			return
		}
		seen[st] = true
		if cur == bb {
			reached = true
			if v, has := env[flagKey]; !has || v != want {
				ok = false
			}
			return
		}
		iff, isIf := cur.Instrs[len(cur.Instrs)-1].(*ssa.If)
		if !isIf {
			for _, sx := range cur.Succs {
				walk(sx, cur, env)
			}
			return
		}
		cond := iff.Cond
		// a boolean phi of this block has the value of the edge we arrived on
		if phi, isPhi := cond.(*ssa.Phi); isPhi && phi.Block() == cur && prev != nil {
			for i, p := range cur.Preds {
				if p == prev && i < len(phi.Edges) {
					cond = phi.Edges[i]
				}
			}
		}
		for si, sx := range cur.Succs {
			if c, isC := boolConst(cond); isC {
				if c == (si == 0) {
					walk(sx, cur, env)
				}
				continue
			}
			learnt := atomsOn(cond, si == 0, 0)
			feasible := true
			ne := map[string]bool{}
			for k, v := range env {
				ne[k] = v
			}
			for k, v := range learnt {
				if old, has := ne[k]; has && old != v {
					feasible = false
				}
				ne[k] = v
			}
			if feasible {
				walk(sx, cur, ne)
			}
		}
	}
	if len(fn.Blocks) > 0 {
		walk(fn.Blocks[0], nil, map[string]bool{})
	}
	return ok && reached
}

func ruleNoPrune(c *Ctx) {
	for _, b := range c.bodies() {
		l := c.L
		mf := b.mergeAnchors()
		if mf.mergeDocs == nil || mf.pruneNulls == nil {
			l.add("R-NOPRUNE", b.Name, "anchor", "", Undecided, "mergeDocs/pruneNulls/merge not found", false)
			continue
		}
		b.pruneWalk(l, mf)
		// who may prune: the functions that drop null members are the merge walk's. Any other
		// caller — CreateMergePatch "normalising" its original, say — treats a null member as
		// an absent one where the two are different documents
		{
			family := map[*ssa.Function]bool{mf.pruneNulls: true}
			for changed := true; changed; {
				changed = false
				for f := range family {
					allInstrs(f, func(i ssa.Instruction) {
						if ci, ok := i.(ssa.CallInstruction); ok {
							if g := ci.Common().StaticCallee(); g != nil && g.Pkg == b.Lib && !family[g] && len(g.Params) > 0 {
								pt := g.Params[0].Type()
								if isPtrToNamed(pt, "partialDoc") || isPtrToNamed(pt, "partialArray") || isPtrToNamed(pt, "lazyNode") {
									if g != mf.merge && g != mf.mergeDocs && g.Signature.Recv() == nil {
										family[g] = true
										changed = true
									}
								}
							}
						}
					})
				}
			}
			allowed := map[*ssa.Function]bool{mf.mergeDocs: true}
			if mf.merge != nil {
				allowed[mf.merge] = true
			}
			if dm := b.roleFn("doMergePatch"); dm != nil {
				allowed[dm] = true
			}
			key := "the functions that drop null members are called from the merge walk only"
			bad := ""
			for _, fn := range b.srcFuncs(b.Lib) {
				if family[fn] || allowed[fn] {
					continue
				}
				for _, cs := range callsTo(fn, func(cc *ssa.CallCommon) bool { return family[cc.StaticCallee()] }) {
					bad = fname(fn) + " calls " + calleeLabel(cs.Common()) + " at " + b.posOf(cs) + ": outside the application of a merge patch a null member is a member, and dropping it changes the document that is compared or returned"
				}
			}
			if bad != "" {
				l.add("R-NOPRUNE", b.Name, key, "", Violated, bad, true)
			} else {
				var names []string
				for f := range family {
					names = append(names, fname(f))
				}
				sort.Strings(names)
				l.add("R-NOPRUNE", b.Name, key, "", Discharged, "prune family "+strings.Join(names, ", ")+": callers are the family itself, merge, mergeDocs and doMergePatch", true)
			}
		}
		// merge hands the patch node itself back in two situations: the target is not an object
		// (the patch value replaces it and must have lost its own null members first) and the
		// patch is not an object (nothing to prune). So every path from the entry to a return
		// of the patch parameter passes a call pruneNulls(patch) or the object probe of the
		// patch; a prune that runs only when some test of the patch's text says so leaves a
		// null member in the stored value for the spellings the test does not know
		if mf.merge != nil {
			var pp *ssa.Parameter
			np := 0
			for _, p := range mf.merge.Params {
				if isPtrToNamed(p.Type(), "lazyNode") {
					np++
					if np == 2 {
						pp = p
					}
				}
			}
			key := "merge: the patch node is handed back only behind pruneNulls(patch) or its own object probe"
			if pp == nil {
				l.add("R-NOPRUNE", b.Name, key, b.rel(mf.merge.Pos()), Undecided, "merge has no second *lazyNode parameter", true)
			} else {
				barrier := map[*ssa.BasicBlock]bool{}
				allInstrs(mf.merge, func(i ssa.Instruction) {
					ci, ok := i.(ssa.CallInstruction)
					if !ok {
						return
					}
					cc := ci.Common()
					g := cc.StaticCallee()
					if g == nil || len(cc.Args) == 0 || cc.Args[0] != ssa.Value(pp) {
						return
					}
					if g == mf.pruneNulls || g.Name() == "intoDoc" {
						barrier[i.Block()] = true
					}
				})
				bad := ""
				nret := 0
				seen := map[*ssa.BasicBlock]bool{}
				var q []*ssa.BasicBlock
				if len(mf.merge.Blocks) > 0 && !barrier[mf.merge.Blocks[0]] {
					q = append(q, mf.merge.Blocks[0])
					seen[mf.merge.Blocks[0]] = true
				}
				for len(q) > 0 {
					bb := q[0]
					q = q[1:]
					for _, s := range bb.Succs {
						if !seen[s] && !barrier[s] {
							seen[s] = true
							q = append(q, s)
						}
					}
				}
				for _, bb := range mf.merge.Blocks {
					if len(bb.Instrs) == 0 {
						continue
					}
					r, ok := bb.Instrs[len(bb.Instrs)-1].(*ssa.Return)
					if !ok || len(r.Results) == 0 || r.Results[0] != ssa.Value(pp) {
						continue
					}
					nret++
					if seen[bb] {
						bad = "return of the patch node at " + b.posOf(r) + " is reachable from the entry without pruneNulls(patch) and without the patch's object probe: the value stored in place of a non-object target keeps its null members on that path"
					}
				}
				if bad != "" {
					l.add("R-NOPRUNE", b.Name, key, b.rel(mf.merge.Pos()), Violated, bad, true)
				} else if nret == 0 {
					l.add("R-NOPRUNE", b.Name, key, b.rel(mf.merge.Pos()), Undecided, "merge returns its patch parameter nowhere: the shape this obligation reads is gone", true)
				} else {
					l.add("R-NOPRUNE", b.Name, key, b.rel(mf.merge.Pos()), Discharged, fmt.Sprintf("%d return(s) of the patch parameter; none reachable from the entry around the blocks that call pruneNulls(patch) or patch.intoDoc", nret), true)
				}
			}
		}
		fn := mf.mergeDocs
		flag := boolParam(fn)
		ml := b.findMemberLoop(fn)
		isPrune := func(cc *ssa.CallCommon) bool {
			f := cc.StaticCallee()
			return f != nil && (f == mf.pruneNulls || strings.HasPrefix(f.Name(), "prune"))
		}
		n := 0
		for _, cs := range callsTo(fn, isPrune) {
			n++
			key := fmt.Sprintf("mergeDocs: prune call #%d only in apply mode", n)
			if flag != nil && b.underFlagEdge(cs.Block(), flag, false) {
				l.add("R-NOPRUNE", b.Name, key, b.posOf(cs), Discharged, "dominated by the !"+flag.Name()+" edge", true)
			} else if mf.merge == nil && b.behindFailedObjectProbe(fn, cs) {
				// the value-level merge is inlined: this is its prune of the patch value for a target
				// that is not an object
				l.add("R-NOPRUNE", b.Name, fmt.Sprintf("merge: prune call #%d", n), b.posOf(cs), Excepted, "reviewed exception: merge prunes the patch value when the target is not an object; C07 excludes that case (wherever P2 holds an object, P1 holds an object or nothing), and for MergePatch it is what RFC 7396 requires", true)
			} else {
				l.add("R-NOPRUNE", b.Name, key, b.posOf(cs), Violated, "nulls are pruned while combining two merge patches: deletions carried by the second patch are lost", true)
			}
		}
		var mergeSites []ssa.CallInstruction
		if mf.merge != nil {
			mergeSites = callsTo(mf.merge, isPrune)
		}
		for k, cs := range mergeSites {
			key := fmt.Sprintf("merge: prune call #%d", k+1)
			if !b.behindFailedObjectProbe(mf.merge, cs) {
				l.add("R-NOPRUNE", b.Name, key, b.posOf(cs), Violated, "merge prunes the patch value on a path on which the target may be an object: the null members of the patch are dropped before they are merged into the target, so they can no longer delete its members (pruning belongs to values that are stored as new: behind the failed object probe of the target)", true)
				continue
			}
			l.add("R-NOPRUNE", b.Name, key, b.posOf(cs), Excepted, "reviewed exception: merge prunes the patch value when the target is not an object; C07 excludes that case (wherever P2 holds an object, P1 holds an object or nothing), and for MergePatch it is what RFC 7396 requires", true)
		}
		// apply mode: a member stored as a new value was pruned first
		if ml != nil && ml.nonNilBlk != nil && flag != nil {
			key := "mergeDocs: in apply mode a patch member stored as a new value has its nulls pruned first"
			bad := ""
			nNew := 0
			for bb := range ml.body {
				for _, ins := range bb.Instrs {
					x, ok := memberSetter(ins, ml.key)
					if !ok || x != ml.val {
						continue
					}
					nNew++
					// with flag assumed false: is the setter reachable from the non-nil edge without passing pruneNulls(member)?
					pruneBlks := map[*ssa.BasicBlock]bool{}
					for _, cs := range callsTo(fn, isPrune) {
						if len(cs.Common().Args) > 0 && cs.Common().Args[0] == ml.val {
							pruneBlks[cs.Block()] = true
							if cs.Block() == bb && b.instrDominates(cs, ins) {
								pruneBlks[bb] = true
							}
						}
					}
					seen := map[*ssa.BasicBlock]bool{}
					var walk func(x *ssa.BasicBlock) bool
					walk = func(x *ssa.BasicBlock) bool {
						if x == bb {
							return !pruneBlks[bb] || !blockPrunesBefore(fn, bb, ins, ml.val, isPrune)
						}
						if seen[x] || !ml.body[x] || x == ml.header || pruneBlks[x] {
							return false
						}
						seen[x] = true
						last := x.Instrs[len(x.Instrs)-1]
						for si, s := range x.Succs {
							// skip edges that require flag == true
							if iff, ok := last.(*ssa.If); ok {
								cv, neg := stripNot(iff.Cond)
								if cv == ssa.Value(flag) {
									taken := si == 0
									if neg {
										taken = !taken
									}
									if taken { // this edge means flag == true
										continue
									}
								}
							}
							if walk(s) {
								return true
							}
						}
						return false
					}
					if walk(ml.nonNilBlk) {
						bad = "the member is stored as a new value at " + b.posOf(ins) + " on an apply-mode path that does not prune its null members first: `a new object value is stored with its own null members dropped` fails"
					}
				}
			}
			if bad != "" {
				l.add("R-NOPRUNE", b.Name, key, b.rel(fn.Pos()), Violated, bad, true)
			} else {
				l.add("R-NOPRUNE", b.Name, key, b.rel(fn.Pos()), Discharged, fmt.Sprintf("%d site(s) storing the member itself; each is reached in apply mode only through pruneNulls(member)", nNew), true)
			}
		}
	}
}

// blockPrunesBefore: within block bb a prune call on val precedes ins.
func blockPrunesBefore(fn *ssa.Function, bb *ssa.BasicBlock, ins ssa.Instruction, val ssa.Value, isPrune func(*ssa.CallCommon) bool) bool {
	for _, x := range bb.Instrs {
		if x == ins {
			return false
		}
		if ci, ok := x.(ssa.CallInstruction); ok && isPrune(ci.Common()) && len(ci.Common().Args) > 0 && ci.Common().Args[0] == val {
			return true
		}
	}
	return false
}

func ruleArrays(c *Ctx) {
	for _, b := range c.bodies() {
		l := c.L
		mf := b.mergeAnchors()
		if mf.pruneAry == nil {
			l.add("R-ARRAYS", b.Name, "anchor pruneAryNulls", "", Undecided, "pruneAryNulls not found", false)
			continue
		}
		key := "pruneAryNulls: the array handler reaches no member removal"
		seen := map[*ssa.Function]bool{}
		var chain []string
		var found string
		var walk func(f *ssa.Function, path []string)
		walk = func(f *ssa.Function, path []string) {
			if f == nil || seen[f] || f.Blocks == nil || found != "" {
				return
			}
			seen[f] = true
			path = append(path, fname(f))
			allInstrs(f, func(i ssa.Instruction) {
				ci, ok := i.(ssa.CallInstruction)
				if !ok || found != "" {
					return
				}
				com := ci.Common()
				if bi, ok := com.Value.(*ssa.Builtin); ok && bi.Name() == "delete" && isMemberMap(com.Args[0].Type()) {
					found = strings.Join(path, " → ") + " → delete at " + b.posOf(i)
					return
				}
				for _, g := range b.callees(com) {
					if recvTypeName(g) == "partialDoc" && g.Name() == "remove" {
						found = strings.Join(path, " → ") + " → " + fname(g) + " at " + b.posOf(i)
						return
					}
					if g.Pkg == b.Lib {
						walk(g, path)
					}
				}
			})
		}
		walk(mf.pruneAry, nil)
		_ = chain
		// the driver: a patch decoded as an array is encoded again untouched — no element is
		// merged with anything or replaced (RFC 7396: an array patch replaces the target wholesale)
		if dm := mf.doMerge; dm != nil {
			allInstrs(dm, func(i ssa.Instruction) {
				al, ok := i.(*ssa.Alloc)
				if !ok || !isPtrToNamed(al.Type(), "partialArray") {
					return
				}
				key := "doMergePatch: a patch decoded as an array is not merged element-wise or edited"
				bad := ""
				isElemsOf := func(v ssa.Value) bool {
					sawElem := false
					for d := 0; d < 6 && v != nil; d++ {
						switch x := v.(type) {
						case *ssa.IndexAddr:
							sawElem = true
							v = x.X
						case *ssa.Index:
							sawElem = true
							v = x.X
						case *ssa.Extract:
							// the value of a range over the elements
							if nx, ok := x.Tuple.(*ssa.Next); ok && x.Index == 2 {
								if rg, ok := nx.Iter.(*ssa.Range); ok {
									sawElem = true
									v = rg.X
									continue
								}
							}
							return false
						case *ssa.UnOp:
							v = x.X
						case *ssa.FieldAddr:
							return x.X == ssa.Value(al)
						case *ssa.Alloc:
							// the array container is itself the slice (legacy: type partialArray []*lazyNode)
							return x == al && sawElem
						case *ssa.Slice:
							v = x.X
						default:
							return false
						}
					}
					return false
				}
				allInstrs(dm, func(j ssa.Instruction) {
					switch x := j.(type) {
					case *ssa.Store:
						if _, isIA := x.Addr.(*ssa.IndexAddr); isIA && isElemsOf(x.Addr) {
							bad = "an element of the array patch is replaced at " + b.posOf(j)
						}
					case *ssa.Call:
						f := x.Call.StaticCallee()
						if f == nil || (f != mf.merge && f != mf.mergeDocs) {
							return
						}
						for _, a := range x.Call.Args {
							if isElemsOf(a) {
								bad = "an element of the array patch is handed to " + fname(f) + " at " + b.posOf(j) + ": arrays are merged element by element instead of replacing the target"
							}
						}
					}
				})
				if bad != "" {
					l.add("R-ARRAYS", b.Name, key, b.posOf(al), Violated, bad, true)
				} else {
					l.add("R-ARRAYS", b.Name, key, b.posOf(al), Discharged, "no store into its elements and none of them reaches merge/mergeDocs", true)
				}
			})
		}
		if found != "" {
			l.add("R-ARRAYS", b.Name, key, b.rel(mf.pruneAry.Pos()), Violated, "arrays of the patch are edited: "+found+" (null members of objects inside an array of the patch would be dropped, contrary to RFC 7396)", true)
		} else {
			l.add("R-ARRAYS", b.Name, key, b.rel(mf.pruneAry.Pos()), Discharged, fmt.Sprintf("%d function(s) reachable from pruneAryNulls, none removes a member", len(seen)), true)
		}
	}
}

func rulePatchWins(c *Ctx) {
	for _, b := range c.bodies() {
		l := c.L
		mf := b.mergeAnchors()
		fn := mf.doMerge
		if fn == nil {
			l.add("R-PATCHWINS", b.Name, "anchor doMergePatch", "", Undecided, "doMergePatch not found", false)
			continue
		}
		var docP, patchP *ssa.Parameter
		for _, p := range fn.Params {
			if isByteSlice(p.Type()) {
				if docP == nil {
					docP = p
				} else if patchP == nil {
					patchP = p
				}
			}
		}
		if docP == nil || patchP == nil {
			l.add("R-PATCHWINS", b.Name, "anchor parameters", "", Undecided, "two []byte parameters not found", false)
			continue
		}
		// what derives from the document (objects decoded from it included)
		fromDoc := taintClosure(fn, []ssa.Value{docP}, nil)
		// the final merged-object encoding: the Marshal call whose argument is the document object
		nPatchRet := 0
		n := 0
		for _, r := range liveReturns(fn) {
			if !isNilConst(retVal(r, 1)) {
				continue
			}
			n++
			v := retVal(r, 0)
			key := fmt.Sprintf("doMergePatch: successful return #%s does not leak the document into a non-object-patch result", b.retOrdinal(r))
			if v == ssa.Value(patchP) {
				nPatchRet++
				l.add("R-PATCHWINS", b.Name, key, b.posOf(r), Discharged, "returns the patch parameter itself", true)
				// ... and only when the patch is not an object: the immediate reason for this return
				// is a decode error of the patch, or the decoded member map being nil (the text null)
				key2 := fmt.Sprintf("doMergePatch: verbatim return #%s of the patch is taken only for a patch that is not an object", b.retOrdinal(r))
				why := ""
				for _, e := range b.controlDeps(r.Block()) {
					iff, ok := e.From.Instrs[len(e.From.Instrs)-1].(*ssa.If)
					if !ok {
						continue
					}
					var conds []ssa.Value
					var collect func(v ssa.Value, d int)
					collect = func(v ssa.Value, d int) {
						if d > 4 || v == nil {
							return
						}
						conds = append(conds, v)
						switch x := v.(type) {
						case *ssa.Phi:
							for _, ed := range x.Edges {
								collect(ed, d+1)
							}
							for _, p := range x.Block().Preds {
								if pi, ok := p.Instrs[len(p.Instrs)-1].(*ssa.If); ok {
									collect(pi.Cond, d+1)
								}
							}
						case *ssa.UnOp:
							collect(x.X, d+1)
						}
					}
					collect(iff.Cond, 0)
					for _, cv := range conds {
						if x, _, ok := nilTestOfCond(cv); ok {
							if _, fr, isF := fieldLoad(x); isF && fr.Field == "obj" {
								why = "the decoded member map is nil (the patch is the text null)"
							}
							if isErrorType(x.Type()) {
								why = "a decode of the patch failed"
							}
						}
						if call, ok := cv.(*ssa.Call); ok {
							if g := call.Call.StaticCallee(); g != nil && len(call.Call.Args) == 1 && isErrorType(call.Call.Args[0].Type()) {
								why = fname(g) + " classified the decode error of the patch"
							}
							if g := call.Call.StaticCallee(); g != nil && g.Pkg == b.Codec && b.Codec != nil && g.Name() == "Valid" {
								why = "the patch is a well-formed text that is neither object nor array"
							}
						}
					}
				}
				if why == "" {
					l.add("R-PATCHWINS", b.Name, key2, b.posOf(r), Violated, "the reason for returning the patch verbatim is neither a failed decode of the patch nor its member map being nil: an object patch (the empty object, say) would replace the document instead of being merged into it", true)
				} else {
					l.add("R-PATCHWINS", b.Name, key2, b.posOf(r), Discharged, why, true)
				}
				continue
			}
			if v == ssa.Value(docP) {
				l.add("R-PATCHWINS", b.Name, key, b.posOf(r), Violated, "returns the document parameter: a non-object patch does not replace the document", true)
				continue
			}
			// the merged/encoded result: allowed to depend on the document only on the object-patch path,
			// i.e. when the return is NOT control dependent on a patch-is-not-an-object condition
			if fromDoc[v] {
				if b.controlledByPatchNotObject(r.Block(), fn, patchP) {
					l.add("R-PATCHWINS", b.Name, key, b.posOf(r), Violated, "on a path taken because the patch is not an object, the returned bytes derive from the document", true)
				} else {
					l.add("R-PATCHWINS", b.Name, key, b.posOf(r), Discharged, "merged-object encoding (object patch path)", true)
				}
				continue
			}
			l.add("R-PATCHWINS", b.Name, key, b.posOf(r), Discharged, "derived from the patch only (re-encoding of what was decoded from it)", true)
		}
		key := "doMergePatch: a patch that is not an object is returned itself"
		if nPatchRet == 0 && b.Name == "v5" {
			l.add("R-PATCHWINS", b.Name, key, b.rel(fn.Pos()), Violated, "no return of the patch parameter: scalar/array patches are not passed through verbatim", true)
		} else {
			l.add("R-PATCHWINS", b.Name, key, b.rel(fn.Pos()), Discharged, fmt.Sprintf("%d return(s) of the patch parameter among %d successful returns", nPatchRet, n), true)
		}
	}
}

// controlledByPatchNotObject: the block is control dependent (transitively) on
// the error edge of a decode of the patch parameter.
func (b *Body) controlledByPatchNotObject(bb *ssa.BasicBlock, fn *ssa.Function, patchP *ssa.Parameter) bool {
	fromPatch := taintClosure(fn, []ssa.Value{patchP}, nil)
	for _, e := range b.controlDepsTransitive(bb) {
		iff, ok := e.From.Instrs[len(e.From.Instrs)-1].(*ssa.If)
		if !ok {
			continue
		}
		x, nnTrue, ok := nilTestOfCond(iff.Cond)
		if !ok || !isErrorType(x.Type()) {
			continue
		}
		// error of a call that received patch-derived data
		call, ok := x.(*ssa.Call)
		if !ok {
			if ex, isEx := x.(*ssa.Extract); isEx {
				call, ok = ex.Tuple.(*ssa.Call)
			}
		}
		if !ok || call == nil {
			continue
		}
		usesPatch := false
		for _, a := range call.Call.Args {
			if a == ssa.Value(patchP) || fromPatch[a] {
				usesPatch = true
			}
		}
		// exclude decodes of the document
		for _, a := range call.Call.Args {
			if p, isP := a.(*ssa.Parameter); isP && p != patchP && isByteSlice(p.Type()) {
				usesPatch = false
			}
		}
		if !usesPatch {
			continue
		}
		nn := 1
		if nnTrue {
			nn = 0
		}
		if e.Succ == nn {
			return true
		}
	}
	return false
}

func ruleCmpShape(c *Ctx) {
	for _, b := range c.bodies() {
		l := c.L
		cm := fnOf(b.Lib, "CreateMergePatch")
		ca := b.roleFn("createArrayMergePatch")
		co := b.roleFn("createObjectMergePatch")
		if cm == nil || ca == nil || co == nil {
			l.add("R-CMPSHAPE", b.Name, "anchor", "", Undecided, "CreateMergePatch / createArrayMergePatch / createObjectMergePatch not found", false)
			continue
		}
		// mixed roots -> error: there is a return with a non-nil error that is not dominated by either dispatch call
		{
			key := "CreateMergePatch: mixed array/object roots are rejected"
			ok := false
			for _, r := range liveReturns(cm) {
				if isNilConst(retVal(r, 0)) && b.definitelyNonNilErr(retVal(r, 1), r.Block(), 0) {
					if g := sentinelGlobal(retVal(r, 1)); g != nil && g.Name() == "errBadMergeTypes" {
						ok = true
					}
				}
			}
			// both dispatch calls are guarded by agreement of the two predicates (phi/&& structure): each is control dependent on both predicate results
			v := Discharged
			why := "a return of (nil, errBadMergeTypes) exists besides the array/array and object/object dispatches"
			if !ok {
				v, why = Violated, "no return of the mismatch error: an array paired with an object is handed to one of the diff functions"
			}
			l.add("R-CMPSHAPE", b.Name, key, b.rel(cm.Pos()), v, why, true)
		}
		// … and nothing is accepted for mixed roots: every return that can carry a nil error lies
		// where the two root predicates are known, and known to agree
		{
			key := "CreateMergePatch: every accepting return lies where both roots are arrays or neither is"
			// the predicate results: calls of one library predicate on each of the two parameters
			pred := map[int]ssa.Value{}
			allInstrs(cm, func(i ssa.Instruction) {
				call, ok := i.(*ssa.Call)
				if !ok || len(call.Call.Args) != 1 {
					return
				}
				f := call.Call.StaticCallee()
				if f == nil || f.Pkg != b.Lib || f.Signature.Results().Len() != 1 || typeShort(f.Signature.Results().At(0).Type()) != "bool" {
					return
				}
				if p, ok := call.Call.Args[0].(*ssa.Parameter); ok {
					pred[paramIdx(p)] = call
				}
			})
			bad := ""
			if len(pred) < 2 {
				bad = "the two root predicates (is this text an array?) applied to the two parameters were not found"
			}
			ei := errResultIndex(cm)
			n := 0
			for _, r := range liveReturns(cm) {
				if bad != "" || ei < 0 || b.definitelyNonNilErr(retVal(r, ei), r.Block(), 0) {
					continue
				}
				n++
				known := map[int]*bool{}
				agree := false
				for _, f := range dominatingFacts(r.Block()) {
					for pi, pv := range pred {
						if f.V == pv {
							t := f.True
							known[pi] = &t
						}
					}
					// the two predicates compared with each other: a == b known true, a != b known false
					if bo, ok := f.V.(*ssa.BinOp); ok && (bo.Op == token.EQL || bo.Op == token.NEQ) {
						if (bo.X == pred[0] && bo.Y == pred[1]) || (bo.X == pred[1] && bo.Y == pred[0]) {
							if (bo.Op == token.EQL) == f.True {
								agree = true
							}
						}
					}
				}
				if agree {
					continue
				}
				if known[0] == nil || known[1] == nil {
					bad = "the return at " + b.posOf(r) + " can succeed without both root predicates having been decided: an object paired with an array is handed to one of the diff functions (or diffed some other way) instead of being rejected"
				} else if *known[0] != *known[1] {
					bad = "the return at " + b.posOf(r) + " can succeed although one root is an array and the other is not"
				}
			}
			if bad != "" {
				l.add("R-CMPSHAPE", b.Name, key, b.rel(cm.Pos()), Violated, bad, true)
			} else {
				l.add("R-CMPSHAPE", b.Name, key, b.rel(cm.Pos()), Discharged, fmt.Sprintf("%d accepting return(s), each dominated by facts that make the two root predicates equal", n), true)
			}
		}
		// array form: length equality
		{
			key := "createArrayMergePatch: unequal lengths are rejected before the pairwise walk"
			ok := false
			// the two decoded slices: locals filled by the decodes
			lenOfLocal := func(v ssa.Value) (ssa.Value, bool) {
				for d := 0; d < 4; d++ {
					call, isC := v.(*ssa.Call)
					if !isC {
						return nil, false
					}
					bi, isB := call.Call.Value.(*ssa.Builtin)
					if !isB || bi.Name() != "len" {
						return nil, false
					}
					arg := call.Call.Args[0]
					if u, isU := arg.(*ssa.UnOp); isU {
						return u.X, true
					}
					return arg, true
				}
				return nil, false
			}
			why := "no comparison len(original) != len(modified) whose unequal edge returns an error and whose equal edge dominates every accepting return: a test made inside the loop, or in one direction only (i >= len(modified)), lets a longer modified array through with its surplus elements ignored"
			for _, bb := range ca.Blocks {
				iff, isIf := lastInstr(bb).(*ssa.If)
				if !isIf {
					continue
				}
				bo, isBo := iff.Cond.(*ssa.BinOp)
				if !isBo || (bo.Op != token.NEQ && bo.Op != token.EQL) {
					continue
				}
				lx, okx := lenOfLocal(bo.X)
				ly, oky := lenOfLocal(bo.Y)
				if !okx || !oky || lx == ly {
					continue
				}
				uneq := 0
				if bo.Op == token.EQL {
					uneq = 1
				}
				if !b.rejects(bb.Succs[uneq]) {
					continue
				}
				all := true
				for _, r := range liveReturns(ca) {
					ei := errResultIndex(ca)
					if ei >= 0 && b.definitelyNonNilErr(retVal(r, ei), r.Block(), 0) {
						continue
					}
					if !edgeDominates(bb, 1-uneq, r.Block()) {
						all = false
					}
				}
				if all {
					ok = true
					why = "len(a) != len(b) at " + b.posOf(iff) + " rejects, and its equal edge dominates every accepting return"
				}
			}
			v := Discharged
			if !ok {
				v = Violated
			}
			l.add("R-CMPSHAPE", b.Name, key, b.rel(ca.Pos()), v, why, true)
		}
		// every decode failure aborts: in both diff functions each call that fills a local from one of
		// the []byte parameters and returns an error must have succeeded (err == nil, not merely
		// "not a syntax error") before anything is diffed or returned as a success. A type
		// mismatch (a root that is not an object) is a decode failure too.
		for _, fn := range []*ssa.Function{co, ca} {
			n := 0
			allInstrs(fn, func(i ssa.Instruction) {
				call, ok := i.(*ssa.Call)
				if !ok || len(errResultOf(call)) == 0 {
					return
				}
				fromParam := false
				for _, a := range call.Call.Args {
					if p, _ := paddedOrigin(a, 0); p != nil && p.Parent() == fn {
						fromParam = true
					}
				}
				hasTarget := false
				for _, a := range call.Call.Args {
					if mi, ok := a.(*ssa.MakeInterface); ok {
						a = mi.X
					}
					if _, ok := a.(*ssa.Alloc); ok {
						hasTarget = true
					}
				}
				if !fromParam || !hasTarget {
					return
				}
				n++
				key := fmt.Sprintf("%s: decode #%d of an input must succeed before a patch is produced", b.roleNameOf(fn), n)
				bad := ""
				// … and it is a decode: the codec's decoder, or a library function that does nothing
				// but hand its two parameters to it (a helper that answers nil for the text null
				// without decoding leaves the target as it was allocated — an empty object)
				if g := call.Call.StaticCallee(); g != nil && g.Pkg == b.Lib && !b.codecDecodeWrapper(g, 0) {
					bad = "the input is decoded by " + fname(g) + ", which is not a plain wrapper of the codec's decoder: what it leaves in the target when it answers nil is not known to be what the text holds"
				}
				for _, r := range liveReturns(fn) {
					ei := errResultIndex(fn)
					if ei < 0 || b.definitelyNonNilErr(retVal(r, ei), r.Block(), 0) {
						continue
					}
					if !reachableAfter(b, call)[r] {
						bad = "the success return at " + b.posOf(r) + " is taken without this decode having run: two equal texts that are not objects (1 and 1, [1] and [1]) get a patch instead of being rejected"
						continue
					}
					if ok, why := b.successDominates(call, r); !ok {
						bad = "the success return at " + b.posOf(r) + " does not lie behind err == nil of this decode (" + why + "): an input that is not an object (or an element that is not one) is read as an empty object instead of rejected"
					}
				}
				if bad != "" {
					l.add("R-CMPSHAPE", b.Name, key, b.posOf(call), Violated, bad, true)
				} else {
					l.add("R-CMPSHAPE", b.Name, key, b.posOf(call), Discharged, "every accepting return reachable from the call is dominated by its err == nil edge", true)
				}
			})
		}
		// a null is not an object: the decoder turns the text null into a nil member map without
		// an error, so the object form must test each decoded map for nil, and reject, before the
		// maps are compared (v5: C03 requires inputs that are not objects to be rejected)
		if b.Name == "v5" {
			n := 0
			allInstrs(co, func(i ssa.Instruction) {
				al, ok := i.(*ssa.Alloc)
				if !ok {
					return
				}
				if _, isMap := derefPtr(al.Type()).Underlying().(*types.Map); !isMap {
					return
				}
				// is it a decode target?
				target := false
				var uses []*ssa.Call
				for _, ref := range *al.Referrers() {
					switch x := ref.(type) {
					case *ssa.MakeInterface:
						for _, r2 := range *x.Referrers() {
							if call, ok := r2.(*ssa.Call); ok && len(errResultOf(call)) > 0 {
								target = true
							}
						}
					case *ssa.Call:
						if len(errResultOf(x)) > 0 {
							target = true
						}
					case *ssa.UnOp:
						for _, r2 := range *x.Referrers() {
							if call, ok := r2.(*ssa.Call); ok {
								if _, isB := call.Call.Value.(*ssa.Builtin); !isB {
									uses = append(uses, call)
								}
							}
						}
					}
				}
				if !target || len(uses) == 0 {
					return
				}
				n++
				key := fmt.Sprintf("%s: decoded member map #%d is tested for nil, and a null input rejected, before the maps are compared", b.roleNameOf(co), n)
				bad := ""
				for _, use := range uses {
					guarded := false
					for _, bb := range co.Blocks {
						iff, isIf := lastInstr(bb).(*ssa.If)
						if !isIf {
							continue
						}
						x, nnTrue, isNil := nilTestOfCond(iff.Cond)
						if !isNil {
							continue
						}
						ld, isLd := x.(*ssa.UnOp)
						if !isLd || ld.X != ssa.Value(al) {
							continue
						}
						nn := 1
						if nnTrue {
							nn = 0
						}
						if edgeDominates(bb, nn, use.Block()) && b.rejects(bb.Succs[1-nn]) {
							guarded = true
						}
					}
					if !guarded {
						bad = "the map filled by the decode is handed to " + calleeLabel(&use.Call) + " at " + b.posOf(use) + " without a nil test whose nil edge returns an error: the text null decodes into a nil map without an error, so a null input (or a null array element) is diffed as an empty object instead of rejected"
					}
				}
				if bad != "" {
					l.add("R-CMPSHAPE", b.Name, key, b.posOf(al), Violated, bad, true)
				} else {
					l.add("R-CMPSHAPE", b.Name, key, b.posOf(al), Discharged, "every use of the decoded map lies behind its != nil edge, and the nil edge returns an error", true)
				}
			})
			// the decode (and its nil test) extracted into a helper: (map, ok) or (map, error), where
			// the helper answers ok / nil only with a map that is not nil, and the object form
			// rejects on the other answer before the maps are compared
			if n == 0 {
				for _, use := range callsTo(co, func(cc *ssa.CallCommon) bool { f := cc.StaticCallee(); return f != nil && f == b.roleFn("getDiff") }) {
					for ai, arg := range use.Common().Args {
						ex, ok := arg.(*ssa.Extract)
						if !ok || ex.Index != 0 {
							continue
						}
						if _, isMap := arg.Type().Underlying().(*types.Map); !isMap {
							continue
						}
						hc, ok := ex.Tuple.(*ssa.Call)
						if !ok {
							continue
						}
						h := hc.Call.StaticCallee()
						if h == nil || h.Pkg != b.Lib || len(h.Blocks) == 0 || h.Signature.Results().Len() != 2 {
							continue
						}
						n++
						key := fmt.Sprintf("%s: decoded member map #%d is tested for nil, and a null input rejected, before the maps are compared", b.roleNameOf(co), ai+1)
						bad := ""
						// (1) the helper vouches for the map
						for _, r := range returnsOf(h) {
							m, x := r.Results[0], r.Results[1]
							if isNilConst(m) {
								continue
							}
							vouched := false
							if bo, ok := x.(*ssa.BinOp); ok && bo.Op == token.NEQ && isNilConst(bo.Y) && sameLoadedVar(bo.X, m) {
								vouched = true
							}
							for _, t := range nilTests(h, m) {
								if edgeDominates(t.Blk, t.NonNilSucc, r.Block()) {
									vouched = true
								}
							}
							if ld, ok := m.(*ssa.UnOp); ok {
								for _, bb := range h.Blocks {
									iff, isIf := lastInstr(bb).(*ssa.If)
									if !isIf {
										continue
									}
									v, nnTrue, isNil := nilTestOfCond(iff.Cond)
									if !isNil || !sameLoadedVar(v, ld) {
										continue
									}
									nn := 1
									if nnTrue {
										nn = 0
									}
									if edgeDominates(bb, nn, r.Block()) {
										vouched = true
									}
								}
							}
							if !vouched {
								bad = "the helper " + fname(h) + " can hand back a nil map as a success at " + b.posOf(r) + ": the text null decodes into a nil map without an error"
							}
						}
						// (2) the object form rejects on the helper's failure answer
						guarded := false
						if isErrorType(h.Signature.Results().At(1).Type()) {
							if ok, _ := b.successDominates(hc, use); ok {
								guarded = true
							}
						} else {
							for _, e1 := range extractOf(hc, 1) {
								for _, bb := range co.Blocks {
									iff, isIf := lastInstr(bb).(*ssa.If)
									if !isIf {
										continue
									}
									cv, neg := stripNot(iff.Cond)
									if cv != e1 {
										continue
									}
									okSucc := 0
									if neg {
										okSucc = 1
									}
									if edgeDominates(bb, okSucc, use.Block()) && b.rejects(bb.Succs[1-okSucc]) {
										guarded = true
									}
								}
							}
						}
						if bad == "" && !guarded {
							bad = "the failure answer of " + fname(h) + " does not make the object form return an error before the maps are compared"
						}
						if bad != "" {
							l.add("R-CMPSHAPE", b.Name, key, b.posOf(hc), Violated, bad, true)
						} else {
							l.add("R-CMPSHAPE", b.Name, key, b.posOf(hc), Discharged, fname(h)+" answers success only with a map that is not nil, and its failure answer is rejected before the maps are compared", true)
						}
					}
				}
			}
			if n == 0 {
				l.add("R-CMPSHAPE", b.Name, b.roleNameOf(co)+": decoded member maps are tested for nil", b.rel(co.Pos()), Undecided, "no decode into a local member map found in the object form", false)
			}
		}
		// the array form encodes a slice that is never nil: two empty arrays give [] and not null
		{
			key := "createArrayMergePatch: the encoded result is a non-nil slice (two empty arrays give [], not null)"
			bad := "no encoder call on a slice found"
			allInstrs(ca, func(i ssa.Instruction) {
				call, ok := i.(*ssa.Call)
				if !ok {
					return
				}
				f := call.Call.StaticCallee()
				if f == nil || !strings.HasPrefix(f.Name(), "Marshal") || len(call.Call.Args) == 0 {
					return
				}
				v := call.Call.Args[0]
				if mi, ok := v.(*ssa.MakeInterface); ok {
					v = mi.X
				}
				if _, isSl := v.Type().Underlying().(*types.Slice); !isSl {
					return
				}
				bad = ""
				seen := map[ssa.Value]bool{}
				var walk func(x ssa.Value)
				walk = func(x ssa.Value) {
					if x == nil || seen[x] {
						return
					}
					seen[x] = true
					switch y := x.(type) {
					case *ssa.Const:
						if y.Value == nil {
							bad = "the slice handed to the encoder at " + b.posOf(call) + " can be nil (declared without a value and never appended to): for two empty arrays the patch is the text null, which replaces the array instead of leaving it"
						}
					case *ssa.Phi:
						for _, e := range y.Edges {
							walk(e)
						}
					case *ssa.Call:
						if bi, ok := y.Call.Value.(*ssa.Builtin); ok && bi.Name() == "append" {
							// append of at least one element is non-nil; the other operand decides the empty case
							walk(y.Call.Args[0])
						}
					case *ssa.UnOp:
						if al, ok := y.X.(*ssa.Alloc); ok {
							n := 0
							for _, r := range *al.Referrers() {
								if st, ok := r.(*ssa.Store); ok && st.Addr == ssa.Value(al) {
									n++
									walk(st.Val)
								}
							}
							if n == 0 {
								bad = "the slice variable is never assigned"
							}
						}
					}
				}
				walk(v)
			})
			if bad != "" {
				l.add("R-CMPSHAPE", b.Name, key, b.rel(ca.Pos()), Violated, bad, true)
			} else {
				l.add("R-CMPSHAPE", b.Name, key, b.rel(ca.Pos()), Discharged, "every definition that reaches the encoder is a literal, a make, or an append onto one", true)
			}
		}
		// the object diff is encoded as getDiff produced it: its result goes to the encoder and nowhere else
		if gd := b.roleFn("getDiff"); gd != nil {
			for _, cs := range callsTo(co, func(cc *ssa.CallCommon) bool { return cc.StaticCallee() == gd }) {
				key := "createObjectMergePatch: the diff goes to the encoder as getDiff produced it"
				var diff ssa.Value
				for _, rv := range resultsOf(cs.Value(), 0) {
					diff = rv
				}
				bad := ""
				if diff == nil {
					bad = "the result of the diff is not used"
				} else {
					nEnc := 0
					var follow func(v ssa.Value, d int)
					follow = func(v ssa.Value, d int) {
						if d > 3 {
							return
						}
						for _, r := range *v.Referrers() {
							switch x := r.(type) {
							case *ssa.DebugRef:
							case *ssa.MakeInterface:
								follow(x, d+1)
							case *ssa.ChangeType:
								follow(x, d+1)
							case ssa.CallInstruction:
								f := x.Common().StaticCallee()
								if f != nil && (f.Pkg == b.Codec && b.Codec != nil || (f.Pkg != nil && f.Pkg.Pkg.Path() == "encoding/json")) && strings.HasPrefix(f.Name(), "Marshal") {
									nEnc++
									continue
								}
								if bi, ok := x.Common().Value.(*ssa.Builtin); ok && bi.Name() == "len" {
									continue
								}
								bad = "the diff is handed to " + calleeLabel(x.Common()) + " at " + b.posOf(x) + " before it is encoded: a post-processing step can drop members the diff found (an added empty object, a null that records a deletion)"
							case *ssa.MapUpdate:
								bad = "the diff is modified at " + b.posOf(x) + " after getDiff returned"
							case *ssa.Return, *ssa.Phi:
								bad = fmt.Sprintf("the diff flows into %T at %s", x, b.posOf(r))
							}
						}
					}
					follow(diff, 0)
					if bad == "" && nEnc != 1 {
						bad = fmt.Sprintf("the diff reaches the encoder %d times", nEnc)
					}
				}
				v, why := Discharged, "getDiff's result is used once, as the encoder's argument"
				if bad != "" {
					v, why = Violated, bad
				}
				l.add("R-CMPSHAPE", b.Name, key, b.posOf(cs), v, why, true)
			}
		}
		// getDiff: census of the stores into the result. A member enters the patch only as (S1) b's
		// value under b's key where a lacks the key, the dynamic types differ, or a comparison of
		// the two values answered "different" — never inside the arm where a's value is an object,
		// where only (S2) the non-empty recursive diff of the two objects may be stored — or as
		// (S3) nil under a key of a that b lacks.
		if gd := b.roleFn("getDiff"); gd != nil && len(gd.Params) == 2 {
			b.diffStoreCensus(l, gd)
		}
		b.matchPairing(l)
		// getDiff: both walks (changed/added members of b, deleted members of a) precede every successful return
		if gd := b.roleFn("getDiff"); gd != nil && len(gd.Params) == 2 {
			key := "getDiff: every successful return has passed both member walks (additions/changes over b, deletions over a)"
			bad := ""
			headers := map[int]*ssa.BasicBlock{}
			allInstrs(gd, func(i ssa.Instruction) {
				if rg, ok := i.(*ssa.Range); ok {
					for pi, p := range gd.Params {
						if rg.X == ssa.Value(p) {
							for _, ref := range *rg.Referrers() {
								if nx, ok := ref.(*ssa.Next); ok {
									headers[pi] = nx.Block()
								}
							}
						}
					}
				}
			})
			if headers[0] == nil || headers[1] == nil {
				bad = "getDiff does not range over both of its parameters"
			} else {
				for _, r := range liveReturns(gd) {
					if ei := errResultIndex(gd); ei >= 0 && !isNilConst(retVal(r, ei)) {
						continue
					}
					for pi, h := range headers {
						if !h.Dominates(r.Block()) {
							bad = fmt.Sprintf("the successful return at %s is not preceded by the walk over parameter %s: %s", b.posOf(r), gd.Params[pi].Name(), map[int]string{0: "members that were removed are not emitted as null", 1: "added or changed members are not emitted"}[pi])
						}
					}
				}
				// the deletion walk stores nil for keys absent from b
				okDel := false
				body := naturalLoop(headers[0])
				for bb := range body {
					for _, ins := range bb.Instrs {
						if mu, ok := ins.(*ssa.MapUpdate); ok && isNilConst(unwrapConv(mu.Value)) {
							okDel = true
						}
					}
				}
				if !okDel && bad == "" {
					bad = "the walk over the original does not store null for removed members"
				}
			}
			v, why := Discharged, "both range loops dominate the successful return; the loop over the original stores nil for keys absent from the modified document"
			if bad != "" {
				v, why = Violated, bad
			}
			l.add("R-CMPSHAPE", b.Name, key, b.rel(gd.Pos()), v, why, true)
		}
		// every pair goes through the object diff, whose error aborts
		{
			key := "createArrayMergePatch: every element pair goes through the object diff; its error aborts"
			bad := ""
			calls := callsTo(ca, func(cc *ssa.CallCommon) bool { return cc.StaticCallee() == co })
			if len(calls) != 1 {
				bad = fmt.Sprintf("%d calls of the object-diff function", len(calls))
			} else {
				cs := calls[0]
				h := innermostLoopHeader(cs.Block())
				if h == nil {
					bad = "the object diff is not called in the element loop"
				} else {
					for _, p := range h.Preds {
						if h.Dominates(p) && !cs.Block().Dominates(p) {
							bad = "an iteration can reach the loop latch without calling the object diff: a pair of elements is accepted without being decoded as objects (non-object elements are no longer rejected)"
						}
					}
					okErr := false
					for _, e := range errResultOf(cs) {
						for _, t := range nilTests(ca, e) {
							if b.rejects(t.Blk.Succs[t.NonNilSucc]) {
								okErr = true
							}
						}
					}
					if !okErr && bad == "" {
						bad = "the object diff's error does not abort the walk"
					}
				}
			}
			v, why := Discharged, "the call dominates the loop latch and its error edge returns the error"
			if bad != "" {
				v, why = Violated, bad
			}
			l.add("R-CMPSHAPE", b.Name, key, b.rel(ca.Pos()), v, why, true)
		}
	}
}

func (b *Body) diffStoreCensus(l *Ledger, gd *ssa.Function) {
	pa, pb := ssa.Value(gd.Params[0]), ssa.Value(gd.Params[1])
	// the result map: the map value returned on success
	var into ssa.Value
	for _, r := range liveReturns(gd) {
		if mm, ok := retVal(r, 0).(*ssa.MakeMap); ok {
			into = mm
		}
	}
	if into == nil {
		l.add("R-CMPSHAPE", b.Name, "getDiff: result map", b.rel(gd.Pos()), Undecided, "the successful return does not hand out a map made in the function", false)
		return
	}
	rangeOf := func(key ssa.Value) (nx *ssa.Next, over ssa.Value) {
		ex, ok := key.(*ssa.Extract)
		if !ok || ex.Index != 1 {
			return nil, nil
		}
		n, ok := ex.Tuple.(*ssa.Next)
		if !ok {
			return nil, nil
		}
		rg, ok := n.Iter.(*ssa.Range)
		if !ok {
			return nil, nil
		}
		return n, rg.X
	}
	derivedFromV := func(v, root ssa.Value) bool {
		for d := 0; d < 4 && v != nil; d++ {
			if v == root {
				return true
			}
			switch x := v.(type) {
			case *ssa.TypeAssert:
				v = x.X
			case *ssa.Extract:
				v = x.Tuple
			case *ssa.MakeInterface:
				v = x.X
			case *ssa.ChangeType:
				v = x.X
			default:
				return false
			}
		}
		return false
	}
	isMapType := func(t types.Type) bool {
		_, ok := t.Underlying().(*types.Map)
		return ok
	}
	n := 0
	kinds := map[string]int{}
	allInstrs(gd, func(i ssa.Instruction) {
		mu, ok := i.(*ssa.MapUpdate)
		if !ok || mu.Map != into {
			return
		}
		n++
		key := fmt.Sprintf("getDiff: store #%d into the patch is one of the three admissible forms", n)
		nx, over := rangeOf(mu.Key)
		if nx == nil {
			l.add("R-CMPSHAPE", b.Name, key, b.posOf(mu), Violated, "the member name is not the key of the member being visited", true)
			return
		}
		blk := mu.Block()
		// facts that dominate the store
		var av ssa.Value // a's value for this key
		lacksA := false
		allInstrs(gd, func(j ssa.Instruction) {
			lk, ok := j.(*ssa.Lookup)
			if !ok || !lk.CommaOk || lk.Index != mu.Key {
				return
			}
			for _, ex := range extractOf(lk, 0) {
				if lk.X == pa {
					av = ex
				}
			}
			for _, ex := range extractOf(lk, 1) {
				for _, f := range dominatingFacts(blk) {
					if f.V == ssa.Value(ex) && !f.True && ((over == pb && lk.X == pa) || (over == pa && lk.X == pb)) {
						lacksA = true
					}
				}
			}
		})
		switch {
		case over == pa:
			// (S3)
			if isNilConst(mu.Value) && lacksA {
				kinds["S3"]++
				l.add("R-CMPSHAPE", b.Name, key, b.posOf(mu), Discharged, "(S3) nil under a key of a that b lacks", true)
			} else {
				l.add("R-CMPSHAPE", b.Name, key, b.posOf(mu), Violated, "in the walk over a the only admissible store is nil under a key that b lacks (comma-ok false edge)", true)
			}
			return
		case over != pb:
			l.add("R-CMPSHAPE", b.Name, key, b.posOf(mu), Violated, "the store is not inside a walk over one of the two inputs", true)
			return
		}
		var bv ssa.Value
		for _, ex := range extractOf(nx, 2) {
			bv = ex
		}
		// inside the arm where a's value is an object?
		inObjArm := false
		var objA ssa.Value
		if av != nil {
			for _, r := range *av.Referrers() {
				ta, ok := r.(*ssa.TypeAssert)
				if !ok || !isMapType(ta.AssertedType) {
					continue
				}
				if ta.CommaOk {
					for _, ex := range extractOf(ta, 1) {
						for _, f := range dominatingFacts(blk) {
							if f.V == ssa.Value(ex) && f.True {
								inObjArm = true
							}
						}
					}
					for _, ex := range extractOf(ta, 0) {
						objA = ex
					}
				} else if ta.Block().Dominates(blk) {
					inObjArm = true
					objA = ta
				}
			}
		}
		val := mu.Value
		if mi, ok := val.(*ssa.MakeInterface); ok {
			val = mi.X
		}
		// (S2) the recursive diff
		if call, ri, ok := asResult(val); ok && ri == 0 {
			ex := val
			if call.Call.StaticCallee() == gd {
				bad := ""
				if !inObjArm || call.Call.Args[0] != objA {
					bad = "the recursion is not applied to a's value asserted to an object"
				}
				if !derivedFromV(call.Call.Args[1], bv) || !isMapType(call.Call.Args[1].Type()) {
					bad = "the recursion's second operand is not b's value asserted to an object"
				}
				nonEmpty := false
				for _, f := range dominatingFacts(blk) {
					big, small, strict, ok := cmpNorm(f.V)
					if !ok {
						continue
					}
					if la, isLen := lenArg(big); isLen && la == ex && f.True {
						if z, isZ := intConst(small); isZ && ((strict && z == 0) || (!strict && z == 1)) {
							nonEmpty = true
						}
					}
				}
				if !nonEmpty {
					bad = "the recursive diff is stored without a len(diff) > 0 test: unchanged nested objects appear in the patch as {}"
				}
				if errResultIndex(gd) >= 0 {
					if ok, _ := b.successDominates(call, mu); !ok {
						bad = "the recursive diff is stored without its error having been tested"
					}
				}
				if bad != "" {
					l.add("R-CMPSHAPE", b.Name, key, b.posOf(mu), Violated, bad, true)
				} else {
					kinds["S2"]++
					l.add("R-CMPSHAPE", b.Name, key, b.posOf(mu), Discharged, "(S2) the non-empty diff of the two nested objects, error tested", true)
				}
				return
			}
		}
		// (S1) b's value verbatim
		if mu.Value != bv {
			l.add("R-CMPSHAPE", b.Name, key, b.posOf(mu), Violated, "the stored value is "+describeValue(mu.Value)+": neither b's value for this key nor the recursive diff", true)
			return
		}
		if inObjArm {
			l.add("R-CMPSHAPE", b.Name, key, b.posOf(mu), Violated, "b's value is stored verbatim inside the arm where a's value is an object: two objects must be diffed member by member (members that only a has need a null; an unchanged pair needs nothing)", true)
			return
		}
		why := ""
		if lacksA {
			why = "a lacks the key"
		}
		for _, f := range dominatingFacts(blk) {
			// dynamic types differ
			if bo, ok := f.V.(*ssa.BinOp); ok && (bo.Op == token.NEQ || bo.Op == token.EQL) {
				cx, okx := bo.X.(*ssa.Call)
				cy, oky := bo.Y.(*ssa.Call)
				if okx && oky {
					fx, fy := cx.Call.StaticCallee(), cy.Call.StaticCallee()
					if fx != nil && fy != nil && stdName(fx) == "reflect.TypeOf" && stdName(fy) == "reflect.TypeOf" {
						args := []ssa.Value{cx.Call.Args[0], cy.Call.Args[0]}
						if ((args[0] == av && args[1] == bv) || (args[1] == av && args[0] == bv)) && (bo.Op == token.NEQ) == f.True {
							why = "the dynamic types differ"
						}
					}
				}
				// the two values themselves compared with != (they are of one comparable type
				// behind the type switch): the store lies where they differ
				if av != nil && ((derivedFromV(bo.X, av) && derivedFromV(bo.Y, bv)) || (derivedFromV(bo.Y, av) && derivedFromV(bo.X, bv))) && (bo.Op == token.NEQ) == f.True {
					why = "the two values compared unequal"
				}
				// a is null and b is not
				if isNilConst(bo.Y) && bo.X == bv && (bo.Op == token.EQL) != f.True {
					for _, g := range dominatingFacts(blk) {
						if b2, ok := g.V.(*ssa.BinOp); ok && isNilConst(b2.Y) && b2.X == av && (b2.Op == token.EQL) == g.True {
							why = "a's value is null and b's is not"
						}
					}
				}
			}
			// a comparison of the two values answered "different"
			if call, ok := f.V.(*ssa.Call); ok && !f.True {
				if g := call.Call.StaticCallee(); g != nil && g.Pkg == b.Lib && len(call.Call.Args) == 2 {
					if av != nil && derivedFromV(call.Call.Args[0], av) && derivedFromV(call.Call.Args[1], bv) {
						why = fname(g) + " answered false for the pair"
					}
				}
			}
		}
		if why == "" {
			l.add("R-CMPSHAPE", b.Name, key, b.posOf(mu), Violated, "b's value is stored without a reason that the two sides differ (key absent from a, dynamic types differ, a value comparison answered false): the patch would mention a member that is equal in both documents, or hide one that changed", true)
		} else {
			kinds["S1"]++
			l.add("R-CMPSHAPE", b.Name, key, b.posOf(mu), Discharged, "(S1) b's value, because "+why, true)
		}
	})
	key := "getDiff: additions, changes, nested diffs and deletions all have a store"
	if kinds["S1"] >= 3 && kinds["S2"] >= 1 && kinds["S3"] >= 1 {
		l.add("R-CMPSHAPE", b.Name, key, b.rel(gd.Pos()), Discharged, fmt.Sprintf("%d verbatim, %d nested, %d deletion store(s)", kinds["S1"], kinds["S2"], kinds["S3"]), true)
	} else {
		l.add("R-CMPSHAPE", b.Name, key, b.rel(gd.Pos()), Violated, fmt.Sprintf("%d verbatim (S1), %d nested (S2), %d deletion (S3) store(s): a class of differences never reaches the patch", kinds["S1"], kinds["S2"], kinds["S3"]), true)
	}
}

// matchPairing: the two value comparers behind the diff (matchesValue,
// matchesArray) compare like with like. Every call of one of them from inside
// them pairs an element of the first operand with the element of the second
// at the same index, a member of one with the member of the other under the
// same key, or the two operands asserted to the same type; a dominating
// length / size comparison answers false for containers of different size;
// and a false answer of the nested comparison makes the outer one false.
func (b *Body) matchPairing(l *Ledger) {
	mv := b.roleFn("matchesValue")
	if mv == nil {
		return
	}
	fns := map[*ssa.Function]bool{mv: true}
	for _, g := range b.libCalleesOf(mv) {
		if g != mv && g.Signature.Results().Len() == 1 && typeShort(g.Signature.Results().At(0).Type()) == "bool" && len(g.Params) == 2 {
			// matchesArray: a comparer of containers, recognisable by calling back into matchesValue
			for _, h := range b.libCalleesOf(g) {
				if h == mv {
					fns[g] = true
				}
			}
		}
	}
	sideOf := func(v ssa.Value) int {
		for d := 0; d < 8 && v != nil; d++ {
			switch x := v.(type) {
			case *ssa.Parameter:
				return paramIdx(x)
			case *ssa.TypeAssert:
				v = x.X
			case *ssa.Extract:
				v = x.Tuple
			case *ssa.Lookup:
				v = x.X
			case *ssa.Next:
				v = x.Iter
			case *ssa.Range:
				v = x.X
			case *ssa.UnOp:
				v = x.X
			case *ssa.IndexAddr:
				v = x.X
			case *ssa.MakeInterface:
				v = x.X
			case *ssa.ChangeType:
				v = x.X
			default:
				return -1
			}
		}
		return -1
	}
	for fn := range fns {
		n := 0
		type sizeTest struct {
			eqSucc int
			x, y   ssa.Value
		}
		sizeTests := map[*ssa.BasicBlock]sizeTest{}
		lenCheck := func(at *ssa.BasicBlock, x, y ssa.Value) bool {
			for _, bb := range fn.Blocks {
				iff, ok := bb.Instrs[len(bb.Instrs)-1].(*ssa.If)
				if !ok || !bb.Dominates(at) {
					continue
				}
				bo, ok := iff.Cond.(*ssa.BinOp)
				if !ok || (bo.Op != token.NEQ && bo.Op != token.EQL) {
					continue
				}
				lx, okx := lenArg(bo.X)
				ly, oky := lenArg(bo.Y)
				if !okx || !oky {
					continue
				}
				if !((lx == x && ly == y) || (lx == y && ly == x)) {
					continue
				}
				diff := 0
				if bo.Op == token.EQL {
					diff = 1
				}
				if returnsConst(bb.Succs[diff], false) && edgeDominates(bb, 1-diff, at) {
					sizeTests[bb] = sizeTest{1 - diff, lx, ly}
					return true
				}
			}
			return false
		}
		for _, ci := range callsTo(fn, func(cc *ssa.CallCommon) bool { return fns[cc.StaticCallee()] }) {
			call, ok := ci.(*ssa.Call)
			if !ok {
				continue
			}
			n++
			key := fmt.Sprintf("%s: nested comparison #%d pairs like with like, under a size comparison, and its false answer is final", b.canonFname(fn), n)
			x, y := call.Call.Args[0], call.Call.Args[1]
			bad := ""
			form := ""
			sx, sy := sideOf(x), sideOf(y)
			if sx < 0 || sy < 0 || sx == sy {
				bad = fmt.Sprintf("the two operands do not come one from each parameter (sides %d, %d)", sx, sy)
			}
			if bad == "" {
				ux, okx := x.(*ssa.UnOp)
				uy, oky := y.(*ssa.UnOp)
				ex, okex := x.(*ssa.Extract)
				ey, okey := y.(*ssa.Extract)
				switch {
				case okx && oky:
					iax, ok1 := ux.X.(*ssa.IndexAddr)
					iay, ok2 := uy.X.(*ssa.IndexAddr)
					if !ok1 || !ok2 {
						bad = "operands are loads, but not element loads"
						break
					}
					form = "element"
					if iax.Index != iay.Index {
						bad = "an element of one side is compared with the element at a different index of the other"
					} else if !lenCheck(call.Block(), iax.X, iay.X) {
						bad = "no length comparison of the two slices that answers false dominates the loop: a proper prefix would match (or the index runs out of range)"
					} else if h := innermostLoopHeader(call.Block()); h == nil || !(isRangeIndex(h, iax.Index, iax.X) || isRangeIndex(h, iax.Index, iay.X)) {
						bad = "the index is not that of a range over the whole slice: some elements are never compared"
					}
				case okex && okey && (isLookupExtract(ex) != isLookupExtract(ey)) && (isRangeValue(ex) || isRangeValue(ey)):
					// one side is the value of the member being ranged over, the other the lookup
					// of the same key in the other object
					lkE, rvE := ex, ey
					if isLookupExtract(ey) {
						lkE, rvE = ey, ex
					}
					lk := lkE.Tuple.(*ssa.Lookup)
					nx := rvE.Tuple.(*ssa.Next)
					rg, _ := nx.Iter.(*ssa.Range)
					form = "member"
					kx, isK := lk.Index.(*ssa.Extract)
					switch {
					case lkE.Index != 0 || rg == nil:
						bad = "operands are not a member value and a member lookup"
					case !isK || kx.Tuple != ssa.Value(nx) || kx.Index != 1:
						bad = "the other side is not looked up under the key of the member being compared"
					case !lenCheck(call.Block(), lk.X, rg.X):
						bad = "no size comparison of the two objects that answers false dominates the loop: an object with additional members would match"
					}
				case okex && okey && isLookupExtract(ex) && isLookupExtract(ey):
					lx, ok1 := ex.Tuple.(*ssa.Lookup)
					ly, ok2 := ey.Tuple.(*ssa.Lookup)
					if !ok1 || !ok2 || ex.Index != 0 || ey.Index != 0 {
						bad = "operands are not member lookups"
						break
					}
					form = "member"
					if lx.Index != ly.Index {
						bad = "a member of one side is compared with the member under a different key of the other"
					} else if !lenCheck(call.Block(), lx.X, ly.X) {
						bad = "no size comparison of the two objects that answers false dominates the loop: an object with additional members would match"
					} else {
						kx, isK := lx.Index.(*ssa.Extract)
						okKey := false
						if isK && kx.Index == 1 {
							if nx, ok := kx.Tuple.(*ssa.Next); ok {
								if rg, ok := nx.Iter.(*ssa.Range); ok && (rg.X == lx.X || rg.X == ly.X) {
									okKey = true
								}
							}
						}
						if !okKey {
							bad = "the key is not that of a range over one of the two objects"
						}
					}
				default:
					asTA := func(v ssa.Value) (*ssa.TypeAssert, bool) {
						if e, ok := v.(*ssa.Extract); ok && e.Index == 0 {
							v = e.Tuple
						}
						t, ok := v.(*ssa.TypeAssert)
						return t, ok
					}
					tx, ok1 := asTA(x)
					ty, ok2 := asTA(y)
					if ok1 && ok2 && types.Identical(tx.AssertedType, ty.AssertedType) {
						form = "whole value"
					} else if ok1 && ok2 {
						bad = "the two operands are asserted to different types"
					} else {
						bad = "unrecognised pairing: " + describeValue(x) + " with " + describeValue(y)
					}
				}
			}
			// false is final
			if bad == "" {
				final := false
				for _, r := range *call.Referrers() {
					switch u := r.(type) {
					case *ssa.If:
						if returnsConst(u.Block().Succs[1], false) {
							final = true
						}
					case *ssa.Return:
						final = true
					case *ssa.UnOp:
						for _, r2 := range *u.Referrers() {
							if iff, ok := r2.(*ssa.If); ok && returnsConst(iff.Block().Succs[0], false) {
								final = true
							}
						}
					}
				}
				if !final {
					bad = "a false answer of the nested comparison does not make the outer comparison false"
				}
			}
			if bad != "" {
				l.add("R-CMPSHAPE", b.Name, key, b.posOf(call), Violated, bad, true)
			} else {
				l.add("R-CMPSHAPE", b.Name, key, b.posOf(call), Discharged, form+" pairing; size compared; false is final", true)
			}
		}
		// every answer that can be true lies behind the size comparison: in the part of the
		// function where the two containers are known (the blocks dominated by the definitions of
		// both), a return that is not the constant false must be dominated by the equal edge of
		// the size comparison (an early answer for empty or nil containers makes [] match [1])
		{
			var tbs []*ssa.BasicBlock
			for tb := range sizeTests {
				tbs = append(tbs, tb)
			}
			sort.Slice(tbs, func(i, j int) bool { return tbs[i].Index < tbs[j].Index })
			for k, tb := range tbs {
				st := sizeTests[tb]
				key := fmt.Sprintf("%s: size comparison #%d: no answer other than false is given for the two containers before their sizes are compared", b.canonFname(fn), k+1)
				defBlk := func(v ssa.Value) *ssa.BasicBlock {
					if i, ok := v.(ssa.Instruction); ok {
						return i.Block()
					}
					return fn.Blocks[0]
				}
				dx, dy := defBlk(st.x), defBlk(st.y)
				region := dx
				if dx.Dominates(dy) {
					region = dy
				}
				bad := ""
				for _, r := range returnsOf(fn) {
					if !region.Dominates(r.Block()) || len(r.Results) == 0 {
						continue
					}
					if c, ok := r.Results[0].(*ssa.Const); ok && c.Value != nil && c.Value.Kind() == constant.Bool && !constant.BoolVal(c.Value) {
						continue
					}
					if !edgeDominates(tb, st.eqSucc, r.Block()) {
						bad = "the return at " + b.posOf(r) + " can answer true for the two containers without their sizes having been found equal (and their elements compared): an empty container would match a non-empty one"
					}
				}
				if bad != "" {
					l.add("R-CMPSHAPE", b.Name, key, b.posOf(lastInstr(tb)), Violated, bad, true)
				} else {
					l.add("R-CMPSHAPE", b.Name, key, b.posOf(lastInstr(tb)), Discharged, "every return in the region where both containers are known is the constant false or lies behind the equal-size edge", true)
				}
			}
		}
		// no other comparer: the two operands never meet in a function of the library other than
		// these comparers themselves (a tolerance, a normalising comparison, ... would make
		// different values "equal" and drop the member from the patch)
		nf := 0
		allInstrs(fn, func(i ssa.Instruction) {
			call, ok := i.(*ssa.Call)
			if !ok {
				return
			}
			g := call.Call.StaticCallee()
			if g == nil || fns[g] || g.Pkg != b.Lib || len(call.Call.Args) < 2 {
				return
			}
			sides := map[int]bool{}
			for _, a := range call.Call.Args {
				if sd := sideOf(a); sd >= 0 {
					sides[sd] = true
				}
			}
			if len(sides) >= 2 {
				nf++
				l.add("R-CMPSHAPE", b.Name, fmt.Sprintf("%s: values are compared by == or by the comparers themselves (foreign comparer #%d)", b.canonFname(fn), nf), b.posOf(call), Violated, "the two operands are handed to "+fname(g)+": a comparison other than == on the asserted values (a tolerance, a normalisation) can call different values equal, and the changed member then never reaches the patch", true)
			}
		})
		if nf == 0 {
			l.add("R-CMPSHAPE", b.Name, fmt.Sprintf("%s: values are compared by == or by the comparers themselves", b.canonFname(fn)), b.rel(fn.Pos()), Discharged, "no other function of the library receives both operands", true)
		}
		// scalar arms: == between the two operands asserted to the same type
		m := 0
		allInstrs(fn, func(i ssa.Instruction) {
			bo, ok := i.(*ssa.BinOp)
			if !ok || (bo.Op != token.EQL && bo.Op != token.NEQ) {
				return
			}
			tx, ok1 := bo.X.(*ssa.TypeAssert)
			ty, ok2 := bo.Y.(*ssa.TypeAssert)
			if !ok1 && !ok2 {
				if e1, ok := bo.X.(*ssa.Extract); ok {
					tx, ok1 = e1.Tuple.(*ssa.TypeAssert)
				}
				if e2, ok := bo.Y.(*ssa.Extract); ok {
					ty, ok2 = e2.Tuple.(*ssa.TypeAssert)
				}
			} else {
				if e1, ok := bo.X.(*ssa.Extract); ok && !ok1 {
					tx, ok1 = e1.Tuple.(*ssa.TypeAssert)
				}
				if e2, ok := bo.Y.(*ssa.Extract); ok && !ok2 {
					ty, ok2 = e2.Tuple.(*ssa.TypeAssert)
				}
			}
			if !ok1 || !ok2 {
				return
			}
			m++
			key := fmt.Sprintf("%s: scalar comparison #%d compares the two operands asserted to one type", b.canonFname(fn), m)
			if sideOf(tx) == sideOf(ty) || sideOf(tx) < 0 || sideOf(ty) < 0 {
				l.add("R-CMPSHAPE", b.Name, key, b.posOf(bo), Violated, "both sides of the comparison come from the same operand", true)
			} else if !types.Identical(tx.AssertedType, ty.AssertedType) {
				l.add("R-CMPSHAPE", b.Name, key, b.posOf(bo), Violated, "the operands are asserted to different types", true)
			} else {
				l.add("R-CMPSHAPE", b.Name, key, b.posOf(bo), Discharged, "both asserted to "+typeShort(tx.AssertedType), true)
			}
		})
	}
}

func isLookupExtract(e *ssa.Extract) bool {
	_, ok := e.Tuple.(*ssa.Lookup)
	return ok
}

func isRangeValue(e *ssa.Extract) bool {
	_, ok := e.Tuple.(*ssa.Next)
	return ok && e.Index == 2
}

// inlinedMergeStore (M2'): the value stored under the key in a member walk that has the
// value-level merge inlined. Returns "" when every value that can be stored is admissible.
func (b *Body) inlinedMergeStore(fn *ssa.Function, ml *memberLoop, x ssa.Value, at ssa.Instruction, mf *mergeFns) string {
	isCur := func(v ssa.Value) bool {
		switch cv := v.(type) {
		case *ssa.Extract:
			if lk, ok := cv.Tuple.(*ssa.Lookup); ok && lk.Index == ml.key {
				return true
			}
		case *ssa.Lookup:
			return cv.Index == ml.key
		}
		return false
	}
	// the object probes of the two sides
	var intoCur, intoVal *ssa.Call
	allInstrs(fn, func(i ssa.Instruction) {
		call, ok := i.(*ssa.Call)
		if !ok || len(call.Call.Args) == 0 {
			return
		}
		f := call.Call.StaticCallee()
		if f == nil || f.Signature.Results().Len() == 0 || !isPtrToNamed(f.Signature.Results().At(0).Type(), "partialDoc") {
			return
		}
		if isCur(call.Call.Args[0]) {
			intoCur = call
		}
		if call.Call.Args[0] == ml.val {
			intoVal = call
		}
	})
	if intoCur == nil || intoVal == nil {
		return "the member walk does not probe both the current value and the patch member for being objects"
	}
	okEdge := func(call *ssa.Call, blk *ssa.BasicBlock) bool { // blk lies behind the success of call
		for _, e := range errResultOf(call) {
			for _, t := range nilTests(fn, e) {
				if edgeDominates(t.Blk, 1-t.NonNilSucc, blk) || t.Blk.Succs[1-t.NonNilSucc] == blk {
					return true
				}
			}
		}
		return false
	}
	var rec *ssa.Call
	for _, cs := range callsTo(fn, func(cc *ssa.CallCommon) bool { return cc.StaticCallee() == mf.mergeDocs }) {
		a := cs.Common().Args
		e0, ok0 := a[0].(*ssa.Extract)
		e1, ok1 := a[1].(*ssa.Extract)
		if ok0 && ok1 && e0.Tuple == ssa.Value(intoCur) && e1.Tuple == ssa.Value(intoVal) {
			rec, _ = cs.(*ssa.Call)
		}
	}
	check := func(v ssa.Value, from *ssa.BasicBlock) string {
		switch {
		case v == ml.val:
			if okEdge(intoCur, from) && okEdge(intoVal, from) {
				return "the patch member itself is stored at " + b.posOf(at) + " although both sides were found to be objects: the target's other members are lost"
			}
			return ""
		case isCur(v):
			if rec == nil {
				return "the current value is stored back without a recursive walk over (its object, the member's object)"
			}
			if !(okEdge(intoCur, from) && okEdge(intoVal, from)) {
				return "the current value is stored back on a path on which one side is not an object: the patch value does not replace it"
			}
			if !rec.Block().Dominates(from) && rec.Block() != from {
				return "the current value is stored back on a path that skips the recursive walk"
			}
			return ""
		}
		return "the value stored for the key at " + b.posOf(at) + " is neither the patch member nor the current value"
	}
	if phi, ok := x.(*ssa.Phi); ok {
		for i, e := range phi.Edges {
			if why := check(e, phi.Block().Preds[i]); why != "" {
				return why
			}
		}
		return ""
	}
	return check(x, at.Block())
}

// behindFailedObjectProbe: the call lies on the failure edge of a call that turns a node
// other than the call's own argument into an object container (the target is not an object).
func (b *Body) behindFailedObjectProbe(fn *ssa.Function, cs ssa.CallInstruction) bool {
	found := false
	allInstrs(fn, func(i ssa.Instruction) {
		call, ok := i.(*ssa.Call)
		if !ok || len(call.Call.Args) == 0 {
			return
		}
		f := call.Call.StaticCallee()
		if f == nil || f.Signature.Results().Len() == 0 || !isPtrToNamed(f.Signature.Results().At(0).Type(), "partialDoc") {
			return
		}
		if len(cs.Common().Args) > 0 && call.Call.Args[0] == cs.Common().Args[0] {
			return
		}
		for _, e := range errResultOf(call) {
			for _, t := range nilTests(fn, e) {
				if edgeDominates(t.Blk, t.NonNilSucc, cs.Block()) || t.Blk.Succs[t.NonNilSucc] == cs.Block() {
					found = true
				}
			}
		}
	})
	return found
}

// mergeResultProvenance (M7): the object that doMergePatch hands to the encoder is the decoded
// document after the member merge, or — only where the document is not an object — the decoded
// patch itself (combining) or what the prune walk made of it (applying). An object assembled
// some other way (a fresh container filled from the patch's members) skips the pruning of
// nested values; the patch encoded where both texts are objects skips the merge.
func (b *Body) mergeResultProvenance(l *Ledger, dm *ssa.Function, mf *mergeFns, add func(key, pos string, ok bool, good, bad string)) {
	key := "(M7) doMergePatch: the encoded object is the merged document, or the (pruned) patch where the document is no object"
	// the two decoded containers: allocations whose UnmarshalJSON / decode is given a parameter
	var allocs []*ssa.Alloc
	errOf := map[*ssa.Alloc][]ssa.Value{}
	fromIdx := map[*ssa.Alloc]int{}
	// the prune family: the prune function of the merge and what it calls on containers
	pruneFam := map[*ssa.Function]bool{}
	if mf.pruneNulls != nil {
		pruneFam[mf.pruneNulls] = true
		for _, g := range b.libCalleesOf(mf.pruneNulls) {
			if len(g.Params) > 0 && (isPtrToNamed(g.Params[0].Type(), "partialDoc") || isPtrToNamed(g.Params[0].Type(), "partialArray")) {
				pruneFam[g] = true
			}
		}
	}
	allInstrs(dm, func(i ssa.Instruction) {
		call, ok := i.(*ssa.Call)
		if !ok || len(call.Call.Args) < 2 || len(errResultOf(call)) == 0 {
			return
		}
		var al *ssa.Alloc
		fromParam := false
		for _, a := range call.Call.Args {
			if mi, isMI := a.(*ssa.MakeInterface); isMI {
				a = mi.X
			}
			if x, isAl := a.(*ssa.Alloc); isAl && isPtrToNamed(x.Type(), "partialDoc") {
				al = x
			}
			if _, isP := a.(*ssa.Parameter); isP {
				fromParam = true
			}
		}
		if al == nil || !fromParam {
			return
		}
		for _, have := range allocs {
			if have == al {
				return
			}
		}
		allocs = append(allocs, al)
		errOf[al] = errResultOf(call)
		for _, a := range call.Call.Args {
			if p, isP := a.(*ssa.Parameter); isP {
				fromIdx[al] = paramIdx(p)
			}
		}
	})
	// the document is what is decoded from the first text parameter, whatever the order of the decodes
	if len(allocs) == 2 && fromIdx[allocs[0]] > fromIdx[allocs[1]] {
		allocs[0], allocs[1] = allocs[1], allocs[0]
	}
	if len(allocs) != 2 {
		add(key, b.rel(dm.Pos()), false, "", fmt.Sprintf("expected two decoded object containers (document, patch), found %d", len(allocs)))
		return
	}
	D, P := allocs[0], allocs[1]
	var mc *ssa.Call
	for _, cs := range callsTo(dm, func(cc *ssa.CallCommon) bool { return cc.StaticCallee() == mf.mergeDocs }) {
		if c, ok := cs.(*ssa.Call); ok && c.Call.Args[0] == ssa.Value(D) && c.Call.Args[1] == ssa.Value(P) {
			mc = c
		}
	}
	if mc == nil {
		add(key, b.rel(dm.Pos()), false, "", "no member merge of (decoded document, decoded patch) found")
		return
	}
	// the edge that says "both are objects": the nearest branch over the two decode errors
	// one of whose edges dominates the member merge
	errVals := map[ssa.Value]bool{}
	for _, e := range errOf[D] {
		errVals[e] = true
	}
	for _, e := range errOf[P] {
		errVals[e] = true
	}
	var objBlk *ssa.BasicBlock
	objSucc := -1
	for _, bb := range dm.Blocks {
		iff, ok := lastInstr(bb).(*ssa.If)
		if !ok || !condMentions(iff.Cond, errVals, 6) {
			continue
		}
		for si := range bb.Succs {
			if edgeDominates(bb, si, mc.Block()) {
				if objBlk == nil || objBlk.Dominates(bb) {
					objBlk, objSucc = bb, si
				}
			}
		}
	}
	// the encoder calls on an object container
	bad := ""
	n := 0
	allInstrs(dm, func(i ssa.Instruction) {
		call, ok := i.(*ssa.Call)
		if !ok || len(call.Call.Args) == 0 {
			return
		}
		f := call.Call.StaticCallee()
		if f == nil || !strings.HasPrefix(f.Name(), "Marshal") {
			return
		}
		v := call.Call.Args[0]
		if mi, ok := v.(*ssa.MakeInterface); ok {
			v = mi.X
		}
		if !isPtrToNamed(v.Type(), "partialDoc") {
			return
		}
		n++
		check := func(leaf ssa.Value, from *ssa.BasicBlock) {
			switch {
			case leaf == ssa.Value(D):
				if !(mc.Block().Dominates(from) || mc.Block() == from) {
					bad = "the decoded document is encoded on a path that skips the member merge"
				}
			case leaf == ssa.Value(P):
				if objBlk != nil && edgeDominates(objBlk, objSucc, from) {
					bad = "the patch itself is encoded as the result where both texts are objects: the document's members are dropped (or, combining, the first patch's nested members lose to the wrong side)"
				}
			default:
				if c2, ok := leaf.(*ssa.Call); ok {
					g := c2.Call.StaticCallee()
					if g != nil && g.Pkg == b.Lib && len(c2.Call.Args) > 0 && c2.Call.Args[0] == ssa.Value(P) && pruneFam[g] {
						if objBlk != nil && edgeDominates(objBlk, objSucc, from) {
							bad = "the pruned patch is encoded as the result where both texts are objects"
						}
						return
					}
				}
				bad = "the object handed to the encoder at " + b.posOf(call) + " is " + describeValue(leaf) + ": neither the merged document nor the patch / the pruned patch — a result put together some other way does not drop the null members of nested new values (or drops members it should keep)"
			}
		}
		if phi, ok := v.(*ssa.Phi); ok {
			for k, e := range phi.Edges {
				check(e, phi.Block().Preds[k])
			}
		} else {
			check(v, call.Block())
		}
	})
	if n == 0 {
		bad = "no encoder call on an object container found"
	}
	add(key, b.posOf(mc), bad == "", "every object that reaches the encoder is the document after mergeDocs(document, patch, flag), the patch, or prune(patch) — the latter two only off the both-are-objects edge", bad)
}

// alreadyStoredEdge: successor si of bb is taken when merge(cur, member, …) came back equal to
// cur, the value looked up under key in the target: what a store would put there is there.
func (b *Body) alreadyStoredEdge(bb *ssa.BasicBlock, si int, key, member ssa.Value, merge *ssa.Function) bool {
	iff, ok := lastInstr(bb).(*ssa.If)
	if !ok || merge == nil {
		return false
	}
	bo, ok := iff.Cond.(*ssa.BinOp)
	if !ok || (bo.Op != token.EQL && bo.Op != token.NEQ) {
		return false
	}
	if (si == 0) != (bo.Op == token.EQL) {
		return false
	}
	isCur := func(v ssa.Value) bool {
		switch cv := v.(type) {
		case *ssa.Extract:
			lk, ok := cv.Tuple.(*ssa.Lookup)
			return ok && cv.Index == 0 && lk.Index == key
		case *ssa.Lookup:
			return cv.Index == key
		}
		return false
	}
	isMerged := func(v, cur ssa.Value) bool {
		call, ok := v.(*ssa.Call)
		return ok && call.Call.StaticCallee() == merge && len(call.Call.Args) >= 2 && call.Call.Args[0] == cur && call.Call.Args[1] == member
	}
	return (isCur(bo.X) && isMerged(bo.Y, bo.X)) || (isCur(bo.Y) && isMerged(bo.X, bo.Y))
}
