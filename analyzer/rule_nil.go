package main

// R-NIL, R-RAW, R-TYPESTATE.

import (
	"fmt"
	"go/token"
	"go/types"
	"sort"
	"strings"

	"golang.org/x/tools/go/ssa"
)

func init() {
	register(&Rule{ID: "R-NIL", Doc: "a node (or container, or raw message) that may be the nil spelling of null is never dereferenced: every dereference of a value of a nil-able repo type is guarded by a dominating non-nil fact, or its value cannot come from a declared nil source (decoded-null elements/members, .self, lookups, summarised callee results)",
		Run: ruleNil, Min: map[string]int{"v5": 100, "legacy": 60}})
	register(&Rule{ID: "R-RAW", Doc: "lazyNode.raw is dereferenced only where it cannot be nil: a dominating raw != nil fact on the same access path, or (body-wide) every construction site of a node stores a non-nil raw",
		Run: ruleRaw, Min: map[string]int{"v5": 8, "legacy": 6}})
	register(&Rule{ID: "R-TYPESTATE", Doc: "lazyNode.which typestate: which==eDoc implies doc != nil (producer stores guarded; root slot never holds a nil *partialDoc); a nil *partialArray is allowed only in the root slot and in scratch nodes, and every consumer that can receive it (the four array methods, equal) tests for nil first; tryAry/intoAry are applied only to scratch nodes, behind the isArray predicate, to constant array text, or in the merge walk",
		Run: ruleTypestate, Min: map[string]int{"v5": 12}})
	register(&Rule{ID: "R-STALERAW", Doc: "the raw bytes of a node are re-read as its content (re-parsed or copied into a scratch node) only under a which == eRaw fact: once a node has been parsed and possibly edited its raw bytes are stale",
		Run: ruleStaleRaw, Min: map[string]int{"v5": 2}})
}

// nil analysis is shared by the rules of one run.
func (c *Ctx) nilFor(b *Body) *nilAn {
	k := "nilAn." + b.Name
	if v, ok := c.facts[k]; ok {
		return v.(*nilAn)
	}
	// R-DISPATCH import: in a handler for kinds Ks, op.value() is non-nil iff
	// the validator requires "value" for every K in Ks (v5 only).
	imp := map[*ssa.Function]string{}
	if b.Name == "v5" {
		ai := b.findApply()
		vo := b.roleFn("validateOperation")
		if ai != nil && vo != nil {
			byHandler := map[*ssa.Function][]string{}
			for k, h := range ai.handlers {
				byHandler[h] = append(byHandler[h], k)
			}
			for h, ks := range byHandler {
				all := true
				for _, k := range ks {
					req, accept, und := partialEvalValidator(b, vo, k)
					has := false
					for _, r := range req {
						if r == "ValueInterface" {
							has = true
						}
					}
					if und != "" || !accept || !has {
						all = false
					}
				}
				if all {
					sort.Strings(ks)
					imp[h] = "validator requires the value member for kinds " + strings.Join(ks, ",") + " (R-DISPATCH)"
				}
			}
		}
	}
	a := newNilAn(b, imp)
	c.facts[k] = a
	return a
}

// roleOf describes a value by its role in the function (no positions).
func roleOf(v ssa.Value) string {
	switch x := v.(type) {
	case *ssa.Parameter:
		return "parameter " + x.Name()
	case *ssa.Phi:
		if x.Comment != "" {
			return "variable " + x.Comment
		}
		return "phi"
	case *ssa.ChangeType:
		return roleOf(x.X)
	case *ssa.Alloc:
		if x.Comment != "" {
			return "&" + x.Comment
		}
		return "new object"
	case *ssa.UnOp:
		if x.Op == token.MUL {
			switch p := x.X.(type) {
			case *ssa.FieldAddr:
				return roleOf(p.X) + "." + fieldOfAddr(p).Field
			case *ssa.IndexAddr:
				return "element of " + roleOf(p.X)
			case *ssa.Alloc:
				if p.Comment != "" {
					return "variable " + p.Comment
				}
			case *ssa.Parameter:
				return "*" + p.Name()
			case *ssa.Global:
				return "global " + p.Name()
			}
		}
		return "load"
	case *ssa.Extract:
		switch t := x.Tuple.(type) {
		case *ssa.Call:
			return fmt.Sprintf("result %d of %s", x.Index, calleeLabel(&t.Call))
		case *ssa.Lookup:
			return "lookup in " + roleOf(t.X)
		case *ssa.Next:
			return "range value"
		case *ssa.TypeAssert:
			return "type-asserted " + typeShort(t.AssertedType)
		}
	case *ssa.Call:
		return "result of " + calleeLabel(&x.Call)
	case *ssa.Lookup:
		return "lookup in " + roleOf(x.X)
	case *ssa.TypeAssert:
		return "type-asserted " + typeShort(x.AssertedType)
	case *ssa.FieldAddr:
		return "&" + roleOf(x.X) + "." + fieldOfAddr(x).Field
	case *ssa.MakeInterface:
		return roleOf(x.X)
	case *ssa.Const:
		return "constant " + x.String()
	case *ssa.Global:
		return "global " + x.Name()
	}
	return fmt.Sprintf("%T", v)
}

func calleeLabel(c *ssa.CallCommon) string {
	if f := c.StaticCallee(); f != nil {
		return fname(f)
	}
	if c.IsInvoke() {
		return typeShort(c.Value.Type()) + "." + c.Method.Name()
	}
	return "dynamic call"
}

// Reviewed exceptions of R-NIL: function -> substring of the construct key -> reason.
var nilExceptions = map[string]map[string]string{
	"pruneNulls": {"argument passed to pruneAryNulls": "merge walk: the node comes out of the decoder, which turns a JSON null into a nil node (tested by the callers), never into a node whose text is null; so a successful intoAry yields a non-nil array here (same invariant as R-TYPESTATE's merge-walk exception)"},
}

func ruleNil(c *Ctx) {
	for _, b := range c.bodies() {
		a := c.nilFor(b)
		l := c.L
		d, r, p := a.summaryStrings()
		st := l.stat("R-NIL")
		st.Extra[b.Name+"_derefsParamUnguarded"] = d
		st.Extra[b.Name+"_mayReturnNil"] = r
		st.Extra[b.Name+"_predicates"] = p
		for _, fn := range a.fns {
			for _, s := range a.derefSites(fn) {
				key := fmt.Sprintf("%s: %s %s", fname(fn), s.What, roleOf(s.V))
				// strip positions that derefsParam witnesses may embed
				if i := strings.Index(key, " (which dereferences it:"); i >= 0 {
					j := strings.Index(key[i:], ") is")
					if j >= 0 {
						key = key[:i] + key[i+j+1:]
					}
				}
				if _, ok := paramIndex(s.V); ok {
					if g, why := a.guardedNonNil(s.V, s.Ins); g {
						l.add("R-NIL", b.Name, key, b.posOf(s.Ins), Discharged, why, true)
					} else {
						l.add("R-NIL", b.Name, key, b.posOf(s.Ins), Discharged, "parameter dereferenced without a local guard: recorded in the function's summary and checked at every call site (entry points receive non-nil receivers/arguments by the stated domain)", false)
					}
					continue
				}
				if g, why := a.guardedNonNil(s.V, s.Ins); g {
					l.add("R-NIL", b.Name, key, b.posOf(s.Ins), Discharged, why, true)
					continue
				}
				why := a.mayNil(s.V, s.Ins, map[ssa.Value]bool{})
				if why == "" {
					l.add("R-NIL", b.Name, key, b.posOf(s.Ins), Discharged, "value does not originate from any declared nil source ("+roleOf(s.V)+")", true)
					continue
				}
				if ex, ok := nilExceptions[b.roleNameOf(fn)]; ok && fn.Signature.Recv() == nil {
					done := false
					for sub, reason := range ex {
						if g := b.roleFn("pruneAryNulls"); g != nil {
							sub = strings.ReplaceAll(sub, "pruneAryNulls", g.Name())
						}
						if strings.Contains(key, sub) {
							l.add("R-NIL", b.Name, key, b.posOf(s.Ins), Excepted, reason, true)
							done = true
							break
						}
					}
					if done {
						continue
					}
				}
				l.add("R-NIL", b.Name, key, b.posOf(s.Ins), Violated, "may be nil here: "+why+"; no dominating non-nil fact", true)
			}
		}
	}
}

// ---- R-RAW ------------------------------------------------------------------------------

func ruleRaw(c *Ctx) {
	for _, b := range c.bodies() {
		a := c.nilFor(b)
		l := c.L
		// construction sites: composite literals / allocations of lazyNode and stores to .raw
		invariant := true
		var invWhy []string
		nCons := 0
		for _, fn := range a.fns {
			allInstrs(fn, func(i ssa.Instruction) {
				al, ok := i.(*ssa.Alloc)
				if !ok {
					return
				}
				n := derefNamed(al.Type())
				if n == nil || n.Obj().Name() != "lazyNode" {
					return
				}
				nCons++
				key := fmt.Sprintf("%s: node construction stores a non-nil raw (%s)", fname(fn), roleOf(al))
				// find the store to .raw of this alloc
				var stored ssa.Value
				hasStore := false
				for _, r := range *al.Referrers() {
					fa, ok := r.(*ssa.FieldAddr)
					if !ok || fieldOfAddr(fa).Field != "raw" {
						continue
					}
					for _, r2 := range *fa.Referrers() {
						if st, ok := r2.(*ssa.Store); ok && st.Addr == ssa.Value(fa) {
							stored, hasStore = st.Val, true
						}
					}
				}
				if !hasStore {
					// zero-valued node: raw is nil. Acceptable only when which is set
					// to a parsed state on every path (scratch root node of `test`).
					if nodeWhichAlwaysParsed(a, al) {
						l.add("R-RAW", b.Name, key, b.posOf(i), Excepted, "zero node whose which is set to eDoc/eAry on every branch of an exhaustive type switch over the container implementations; raw is only read under which == eRaw (R-STALERAW)", true)
					} else {
						invariant = false
						invWhy = append(invWhy, "zero-valued node at "+b.posOf(i))
						l.add("R-RAW", b.Name, key, b.posOf(i), Info, "zero-valued node (raw nil): the field invariant does not hold in this body; per-dereference guards are required", false)
					}
					return
				}
				if pi, ok := paramIndex(stored); ok {
					// constructor: check every call site's argument
					allOK := true
					for _, g := range a.fns {
						for _, ci := range callsTo(g, func(cc *ssa.CallCommon) bool { return cc.StaticCallee() == fn }) {
							arg := ci.Common().Args[pi]
							if ok, _ := a.rawArgNonNil(arg, ci); !ok {
								allOK = false
								invWhy = append(invWhy, fmt.Sprintf("%s passes a possibly-nil raw to %s at %s", fname(g), fname(fn), b.posOf(ci)))
							}
						}
					}
					if allOK {
						l.add("R-RAW", b.Name, key, b.posOf(i), Discharged, "constructor: every call site passes a non-nil raw message", true)
					} else {
						invariant = false
						l.add("R-RAW", b.Name, key, b.posOf(i), Info, "constructor receives a possibly-nil raw at some call site: field invariant not available", false)
					}
					return
				}
				if ok, why := a.rawArgNonNil(stored, i); ok {
					l.add("R-RAW", b.Name, key, b.posOf(i), Discharged, why, true)
				} else {
					invariant = false
					invWhy = append(invWhy, "possibly-nil raw stored at "+b.posOf(i))
					l.add("R-RAW", b.Name, key, b.posOf(i), Info, "possibly-nil raw stored", false)
				}
			})
			// stores to .raw outside constructions
			allInstrs(fn, func(i ssa.Instruction) {
				st, ok := i.(*ssa.Store)
				if !ok {
					return
				}
				fa, ok := st.Addr.(*ssa.FieldAddr)
				if !ok {
					return
				}
				fr := fieldOfAddr(fa)
				if fr.Type != "lazyNode" || fr.Field != "raw" {
					return
				}
				if _, isAlloc := fa.X.(*ssa.Alloc); isAlloc {
					return
				}
				key := fmt.Sprintf("%s: store to %s.raw is non-nil", fname(fn), roleOf(fa.X))
				if isNilConst(st.Val) {
					invariant = false
					invWhy = append(invWhy, "the text of an existing node is dropped at "+b.posOf(i))
					l.add("R-RAW", b.Name, key, b.posOf(i), Violated, "the text of an existing node is set to nil: a node without text is what the resolver takes for a parent that cannot be used and what the null tests take for null, so a node that was decoded (or compared) a moment ago stops being reachable or starts to equal null", true)
					return
				}
				if ok, why := a.rawArgNonNil(st.Val, i); ok {
					l.add("R-RAW", b.Name, key, b.posOf(i), Discharged, why, true)
				} else {
					invariant = false
					invWhy = append(invWhy, "possibly-nil raw stored at "+b.posOf(i))
					l.add("R-RAW", b.Name, key, b.posOf(i), Info, "possibly-nil raw stored", false)
				}
			})
		}
		l.stat("R-RAW").Extra[b.Name+"_field_invariant_raw_non_nil"] = invariant
		if !invariant {
			l.stat("R-RAW").Extra[b.Name+"_invariant_broken_by"] = invWhy
		}
		// dereferences of raw
		for _, fn := range a.fns {
			allInstrs(fn, func(i ssa.Instruction) {
				u, ok := i.(*ssa.UnOp)
				if !ok || u.Op != token.MUL {
					return
				}
				base, fr, ok := fieldLoad(u.X)
				if !ok || fr.Type != "lazyNode" || fr.Field != "raw" {
					return
				}
				key := fmt.Sprintf("%s: dereference of %s.raw", fname(fn), roleOf(base))
				if g, why := a.guardedNonNil(u.X, i); g {
					l.add("R-RAW", b.Name, key, b.posOf(i), Discharged, why, true)
					return
				}
				if invariant {
					l.add("R-RAW", b.Name, key, b.posOf(i), Discharged, "field invariant: every node construction site and every store to .raw in this body stores a non-nil raw message", true)
					return
				}
				l.add("R-RAW", b.Name, key, b.posOf(i), Violated, "raw may be nil (field invariant broken by: "+strings.Join(invWhy, "; ")+") and no dominating raw != nil fact on this access path", true)
			})
		}
	}
}

// rawArgNonNil: v (a *RawMessage) cannot be nil at use.
func (a *nilAn) rawArgNonNil(v ssa.Value, use ssa.Instruction) (bool, string) {
	if g, why := a.guardedNonNil(v, use); g {
		return true, why
	}
	switch x := v.(type) {
	case *ssa.Alloc:
		return true, "address of a local"
	case *ssa.Call:
		f := x.Call.StaticCallee()
		if f != nil && a.fresh[f] {
			return true, "result of allocating constructor " + fname(f)
		}
	case *ssa.UnOp:
		// load of another node's raw: relies on the same invariant (inductive)
		if _, fr, ok := fieldLoad(v); ok && fr.Type == "lazyNode" && fr.Field == "raw" {
			return true, "copy of another node's raw (inductive use of the invariant)"
		}
	}
	if why := a.mayNil(v, use, map[ssa.Value]bool{}); why != "" {
		return false, why
	}
	if _, isParam := v.(*ssa.Parameter); isParam {
		return false, "parameter"
	}
	if _, isLookup := v.(*ssa.Extract); isLookup {
		return false, "lookup"
	}
	return false, "not provably non-nil"
}

// nodeWhichAlwaysParsed: al is a zero lazyNode local; its `which` is stored a
// non-eRaw constant in every case of a type switch whose cases cover all
// implementations of the container interface.
func nodeWhichAlwaysParsed(a *nilAn, al *ssa.Alloc) bool {
	fn := al.Parent()
	covered := map[string]bool{}
	for _, r := range *al.Referrers() {
		fa, ok := r.(*ssa.FieldAddr)
		if !ok || fieldOfAddr(fa).Field != "which" {
			continue
		}
		for _, r2 := range *fa.Referrers() {
			st, ok := r2.(*ssa.Store)
			if !ok || st.Addr != ssa.Value(fa) {
				continue
			}
			n, ok := intConst(st.Val)
			if !ok || n == a.eRaw {
				return false
			}
			// which type-assert success edge dominates this store?
			for _, bb := range fn.Blocks {
				iff, ok := bb.Instrs[len(bb.Instrs)-1].(*ssa.If)
				if !ok {
					continue
				}
				ex, ok := iff.Cond.(*ssa.Extract)
				if !ok || ex.Index != 1 {
					continue
				}
				ta, ok := ex.Tuple.(*ssa.TypeAssert)
				if !ok {
					continue
				}
				if edgeDominates(bb, 0, st.Block()) {
					if n := derefNamed(ta.AssertedType); n != nil {
						covered["*"+n.Obj().Name()] = true
					}
				}
			}
		}
	}
	// every implementation of the container interface must be covered
	impls := containerImpls(a.b)
	if len(impls) == 0 {
		return false
	}
	for _, name := range impls {
		if !covered["*"+name] {
			return false
		}
	}
	return true
}

// containerImpls lists the named types of the library whose pointer type
// implements the container interface.
func containerImpls(b *Body) []string {
	ct := b.Lib.Type("container")
	if ct == nil {
		return nil
	}
	it, ok := ct.Type().Underlying().(*types.Interface)
	if !ok {
		return nil
	}
	var out []string
	for name, m := range b.Lib.Members {
		t, ok := m.(*ssa.Type)
		if !ok || name == "container" {
			continue
		}
		if _, isIface := t.Type().Underlying().(*types.Interface); isIface {
			continue
		}
		if types.Implements(types.NewPointer(t.Type()), it) || types.Implements(t.Type(), it) {
			out = append(out, name)
		}
	}
	sort.Strings(out)
	return out
}

// ---- freshness (transitive) ----------------------------------------------------------

// freshValue: v is an object allocated during this call of its function
// (an Alloc, or the result of a function all of whose returns are fresh or nil).
func (a *nilAn) freshValue(v ssa.Value) bool {
	switch x := v.(type) {
	case *ssa.Alloc:
		return true
	case *ssa.Call:
		f := x.Call.StaticCallee()
		return f != nil && a.freshFn(f, map[*ssa.Function]bool{})
	case *ssa.ChangeType:
		return a.freshValue(x.X)
	}
	return false
}

func (a *nilAn) freshFn(f *ssa.Function, seen map[*ssa.Function]bool) bool {
	if a.fresh[f] {
		return true
	}
	if seen[f] || f.Blocks == nil || !a.inFn[f] {
		return false
	}
	seen[f] = true
	rets := returnsOf(f)
	if len(rets) == 0 {
		return false
	}
	for _, r := range rets {
		if len(r.Results) == 0 {
			return false
		}
		v := r.Results[0]
		if isNilConst(v) {
			continue
		}
		switch x := v.(type) {
		case *ssa.Alloc:
		case *ssa.Call:
			g := x.Call.StaticCallee()
			if g == nil || !a.freshFn(g, seen) {
				return false
			}
		default:
			return false
		}
	}
	return true
}

// escapesIntoDocument: a fresh node value is stored somewhere or handed to
// container.add/set as the value.
func (a *nilAn) escapesIntoDocument(v ssa.Value) (bool, string) {
	return a.escapesInto(v, map[ssa.Value]bool{})
}

func (a *nilAn) escapesInto(v ssa.Value, seen map[ssa.Value]bool) (bool, string) {
	if seen[v] {
		return false, ""
	}
	seen[v] = true
	refs := v.Referrers()
	if refs == nil {
		return false, ""
	}
	for _, r := range *refs {
		switch x := r.(type) {
		case *ssa.Store:
			if x.Val == v {
				if fa, ok := x.Addr.(*ssa.FieldAddr); ok && fieldName(fa.X.Type(), fa.Field) == "self" {
					continue // the snapshot slot: never handed out as a value (R-SELF), only its text is consulted
				}
				return true, "stored at " + a.b.posOf(x)
			}
		case *ssa.Return:
			return true, "returned at " + a.b.posOf(x)
		case *ssa.MakeInterface:
			if e, why := a.escapesInto(x, seen); e {
				return true, why
			}
		case *ssa.Phi:
			if e, why := a.escapesInto(x, seen); e {
				return true, why
			}
		case ssa.CallInstruction:
			com := x.Common()
			// handed to a library helper: what the helper does with its parameter counts
			if f := com.StaticCallee(); f != nil && f.Pkg == a.b.Lib && len(f.Blocks) > 0 && !(f.Name() == "set" || f.Name() == "add") {
				for i, arg := range com.Args {
					if arg == v && i < len(f.Params) {
						if e, why := a.escapesInto(f.Params[i], seen); e {
							// a helper that returns its parameter hands it back to this caller
							if strings.HasPrefix(why, "returned at ") {
								if cv := x.Value(); cv != nil {
									if e2, why2 := a.escapesInto(cv, seen); e2 {
										return true, why2
									}
								}
								continue
							}
							return true, why + " (through " + fname(f) + ")"
						}
					}
				}
			}
			if isContainerInvoke(com, "add") || isContainerInvoke(com, "set") {
				if len(com.Args) > 1 && com.Args[1] == v {
					return true, "inserted into a container at " + a.b.posOf(x)
				}
			}
			if f := com.StaticCallee(); f != nil && (f.Name() == "set" || f.Name() == "add") && recvTypeName(f) != "" {
				for i, arg := range com.Args {
					if arg == v && i >= 2 {
						return true, "inserted into a container at " + a.b.posOf(x)
					}
				}
			}
		}
	}
	return false, ""
}

// whichFactAtEdge: a fact on (v).which holds on the CFG edge pred->succ.
func (a *nilAn) whichFactAtEdge(v ssa.Value, pred, succ *ssa.BasicBlock, want func(pathFact) bool) bool {
	key := pathKey{v, "which"}
	last := pred.Instrs[len(pred.Instrs)-1]
	for _, f := range a.pathFacts(pred.Parent()) {
		if f.Key != key || !want(f) {
			continue
		}
		if f.Blk == pred && f.Blk.Succs[f.Succ] == succ {
			return true
		}
		if edgeDominates(f.Blk, f.Succ, pred) {
			if k, _ := a.killedBetween(f.Blk.Succs[f.Succ], last, key, "lazyNode"); !k {
				return true
			}
		}
	}
	return false
}

// ---- R-TYPESTATE ----------------------------------------------------------------------

var typestateExceptions = map[string]string{
	"pruneNulls": "merge walk: the node comes out of the decoder, which turns a JSON null into a nil *node* (guarded by the callers' v != nil tests), never into a node whose text is null; so intoAry cannot yield a nil array here",
}

func ruleTypestate(c *Ctx) {
	b := c.V5
	if b == nil {
		return
	}
	a := c.nilFor(b)
	l := c.L
	if ai := b.findApply(); ai != nil {
		b.rootOnlyForEmptyPointer(l, ai)
	}
	if lb := c.Legacy; lb != nil {
		if ai := lb.findApply(); ai != nil {
			lb.rootOnlyForEmptyPointer(l, ai)
		}
		lb.decodedOnlyBehindDecoder(l, c.nilFor(lb))
		lb.handedOutOnlyWhenMarked(l, c.nilFor(lb))
	}
	b.decodedOnlyBehindDecoder(l, a)
	b.handedOutOnlyWhenMarked(l, a)
	// T1: producer side for eDoc
	for _, fn := range a.fns {
		allInstrs(fn, func(i ssa.Instruction) {
			st, ok := i.(*ssa.Store)
			if !ok {
				return
			}
			fa, ok := st.Addr.(*ssa.FieldAddr)
			if !ok {
				return
			}
			fr := fieldOfAddr(fa)
			if fr.Type != "lazyNode" || fr.Field != "which" {
				return
			}
			n, ok := intConst(st.Val)
			if !ok {
				l.add("R-TYPESTATE", "v5", fmt.Sprintf("%s: store of a non-constant into %s.which", fname(fn), roleOf(fa.X)), b.posOf(i), Undecided, "typestate written with a computed value", false)
				return
			}
			if n != a.eDoc {
				return
			}
			key := fmt.Sprintf("%s: %s.which = eDoc only with a non-nil doc", fname(fn), roleOf(fa.X))
			if ok, why := a.holdsPathFact(i, pathKey{fa.X, "doc"}, "lazyNode", func(f pathFact) bool { return f.Kind == fNonNil }); ok {
				l.add("R-TYPESTATE", "v5", key, b.posOf(i), Discharged, "doc != nil fact on the same node: "+why, true)
				return
			}
			// a dominating store of a non-nil value into base.doc
			done := false
			allInstrs(fn, func(j ssa.Instruction) {
				st2, ok := j.(*ssa.Store)
				if !ok || done {
					return
				}
				fa2, ok := st2.Addr.(*ssa.FieldAddr)
				if !ok || fa2.X != fa.X || fieldOfAddr(fa2).Field != "doc" || !b.instrDominates(st2, st) {
					return
				}
				if why := a.mayNil(st2.Val, st2, map[ssa.Value]bool{}); why == "" {
					l.add("R-TYPESTATE", "v5", key, b.posOf(i), Discharged, "doc was just assigned "+roleOf(st2.Val)+", which cannot be nil (the root slot never holds a nil *partialDoc, see the root-slot obligations)", true)
					done = true
				}
			})
			if !done {
				l.add("R-TYPESTATE", "v5", key, b.posOf(i), Violated, "which is advanced to eDoc without a dominating doc != nil fact: a later which==eDoc test would license a nil dereference", true)
			}
		})
	}
	// T2: root slot stores
	t2seen := map[rootSource]bool{}
	for _, fn := range a.fns {
		allInstrs(fn, func(i ssa.Instruction) {
			st, ok := i.(*ssa.Store)
			if !ok {
				return
			}
			pt, ok := st.Addr.Type().Underlying().(*types.Pointer)
			if !ok || !isNamed(pt.Elem(), "container") {
				return
			}
			for _, leaf := range phiLeaves(st.Val) {
				if isNilConst(leaf) {
					l.add("R-TYPESTATE", "v5", fmt.Sprintf("%s: root slot store of nil", fname(fn)), b.posOf(i), Violated, "the document slot is set to a nil container", true)
				}
			}
			for _, src := range b.rootSources(fn, st.Val, st) {
				if t2seen[src] {
					continue
				}
				t2seen[src] = true
				fn, i := src.fn, src.at
				mi := struct{ X ssa.Value }{src.v}
				key := fmt.Sprintf("%s: root slot receives %s", fname(fn), roleOf(mi.X))
				if isNilConst(mi.X) {
					l.add("R-TYPESTATE", "v5", fmt.Sprintf("%s: root slot receives the nil container", fname(fn)), b.posOf(i), Violated, "a nil container interface is handed out as a root together with a nil error: every method call on the root (findObject's get, the accessor for the whole document) is then a call on a nil interface and panics; a null document is held as the nil *array*, whose methods test for it", true)
					continue
				}
				a.rootObjectDecoded(l, fn, mi.X, i)
				switch {
				case isPtrToNamed(mi.X.Type(), "partialDoc"):
					if g, why := a.guardedNonNil(mi.X, i); g {
						l.add("R-TYPESTATE", "v5", key, b.posOf(i), Discharged, "*partialDoc is non-nil: "+why, true)
					} else if why := a.mayNil(mi.X, i, map[ssa.Value]bool{}); why == "" {
						l.add("R-TYPESTATE", "v5", key, b.posOf(i), Discharged, "*partialDoc is a fresh allocation / not from a nil source", true)
					} else {
						l.add("R-TYPESTATE", "v5", key, b.posOf(i), Violated, "the root slot may receive a nil *partialDoc ("+why+"); partialDoc's methods dereference their receiver", true)
					}
				case isPtrToNamed(mi.X.Type(), "partialArray"):
					l.add("R-TYPESTATE", "v5", key, b.posOf(i), Discharged, "a nil *partialArray is a legal root (it spells `null`, pinned by TestAllCases/Case_62); its consumers are guarded (array-method obligations)", false)
				}
			}
		})
	}
	// T3: consumers of a possibly-nil *partialArray receiver
	// the methods reachable through the container interface, taken from its
	// method set (a method added to the interface is a consumer as well)
	t3 := []string{"get", "set", "add", "remove"}
	if ci := b.Lib.Pkg.Scope().Lookup("container"); ci != nil {
		if it, ok := ci.Type().Underlying().(*types.Interface); ok {
			t3 = nil
			for i := 0; i < it.NumMethods(); i++ {
				t3 = append(t3, it.Method(i).Name())
			}
			sort.Strings(t3)
		}
	}
	for _, m := range t3 {
		f := b.method(b.Lib, "partialArray", m)
		key := "(*partialArray)." + m + ": receiver tested for nil before it is dereferenced"
		if f == nil {
			l.add("R-TYPESTATE", "v5", key, "", Undecided, "method does not resolve", false)
			continue
		}
		if why, bad := a.derefsParam[f][0]; bad {
			l.add("R-TYPESTATE", "v5", key, b.rel(f.Pos()), Violated, "the receiver can be the nil array that stands for a null root, and it is dereferenced unguarded: "+why, true)
		} else {
			l.add("R-TYPESTATE", "v5", key, b.rel(f.Pos()), Discharged, "every dereference of the receiver is dominated by a d != nil fact", true)
		}
	}
	// T4: nil-ary producers applied only where harmless
	prod := map[*ssa.Function]bool{}
	for _, fn := range a.fns {
		if len(fn.Params) == 0 || !isPtrToNamed(fn.Params[0].Type(), "lazyNode") {
			continue
		}
		allInstrs(fn, func(i ssa.Instruction) {
			st, ok := i.(*ssa.Store)
			if !ok {
				return
			}
			fa, ok := st.Addr.(*ssa.FieldAddr)
			if !ok || fa.X != ssa.Value(fn.Params[0]) {
				return
			}
			if fr := fieldOfAddr(fa); fr.Field != "which" {
				return
			}
			if n, ok := intConst(st.Val); !ok || n != a.eAry {
				return
			}
			if ok, _ := a.holdsPathFact(i, pathKey{fa.X, "ary"}, "lazyNode", func(f pathFact) bool { return f.Kind == fNonNil }); !ok {
				prod[fn] = true
			}
		})
	}
	var prodNames []string
	for f := range prod {
		prodNames = append(prodNames, fname(f))
	}
	sort.Strings(prodNames)
	l.stat("R-TYPESTATE").Extra["may_set_eAry_with_nil_ary"] = prodNames
	isArrayFn := b.roleFn("isArray")
	for _, fn := range a.fns {
		for _, ci := range callsTo(fn, func(cc *ssa.CallCommon) bool { f := cc.StaticCallee(); return f != nil && prod[f] }) {
			callee := ci.Common().StaticCallee()
			recv := ci.Common().Args[0]
			key := fmt.Sprintf("%s: %s applied to %s cannot leave a nil array in the document", fname(fn), fname(callee), roleOf(recv))
			if ok, why := a.nilAryHarmless(fn, ci, recv, isArrayFn); ok {
				l.add("R-TYPESTATE", "v5", key, b.posOf(ci), Discharged, why, true)
				continue
			}
			if why, ok := typestateExceptions[b.roleNameOf(fn)]; ok && fn.Signature.Recv() == nil {
				l.add("R-TYPESTATE", "v5", key, b.posOf(ci), Excepted, why, true)
				continue
			}
			l.add("R-TYPESTATE", "v5", key, b.posOf(ci), Violated, "a node of the document may be advanced to which==eAry with a nil array (its text may be `null`): RedirectMarshalJSON and the array walkers dereference ary unguarded", true)
		}
	}
}

func (a *nilAn) nilAryHarmless(fn *ssa.Function, ci ssa.CallInstruction, recv ssa.Value, isArrayFn *ssa.Function) (bool, string) {
	_ = a.b
	scratch := func(v ssa.Value) (bool, string) {
		if !a.freshValue(v) {
			return false, ""
		}
		if e, why := a.escapesIntoDocument(v); e {
			// constant array text is still fine
			if a.constArrayText(v) {
				return true, "fresh node over the constant text `[]` (array parse cannot yield nil)"
			}
			return false, why
		}
		return true, "scratch node: created in this function (" + roleOf(v) + ") and never stored into the document"
	}
	if ok, why := scratch(recv); ok {
		return true, why
	}
	// a parameter of a helper that does not store it, every call site of which hands in a scratch
	// node — itself possibly the parameter of such a helper
	var viaParam func(v ssa.Value, depth int) (bool, string)
	viaParam = func(v ssa.Value, depth int) (bool, string) {
		if ok, why := scratch(v); ok {
			return true, why
		}
		p, ok := v.(*ssa.Parameter)
		if !ok || depth > 3 {
			return false, ""
		}
		g := p.Parent()
		if g.Signature.Recv() != nil || token.IsExported(g.Name()) {
			return false, ""
		}
		if e, _ := a.escapesIntoDocument(p); e {
			return false, ""
		}
		idx := paramIdx(p)
		sites, asValue := 0, false
		allOK := true
		var whys []string
		for _, h := range a.fns {
			allInstrs(h, func(j ssa.Instruction) {
				if cj, ok := j.(ssa.CallInstruction); ok && cj.Common().StaticCallee() == g {
					sites++
					if ok, why := viaParam(cj.Common().Args[idx], depth+1); ok {
						whys = append(whys, fname(h)+": "+why)
					} else if ok, why := a.becomesTheDocument(h, cj); ok {
						whys = append(whys, fname(h)+": "+why)
					} else {
						allOK = false
					}
				}
				for _, op := range j.Operands(nil) {
					if *op == ssa.Value(g) {
						if cj, ok := j.(ssa.CallInstruction); !ok || cj.Common().Value != ssa.Value(g) {
							asValue = true
						}
					}
				}
			})
		}
		if sites > 0 && allOK && !asValue {
			sort.Strings(whys)
			return true, fmt.Sprintf("parameter of a helper that does not store it; all %d call site(s) hand in a scratch node (%s)", sites, strings.Join(whys, "; "))
		}
		return false, ""
	}
	if _, isP := recv.(*ssa.Parameter); isP && fn.Signature.Recv() == nil {
		if ok, why := viaParam(recv, 0); ok {
			return true, why
		}
	}
	if phi, ok := recv.(*ssa.Phi); ok {
		all := true
		var whys []string
		for i, e := range phi.Edges {
			if ok, why := scratch(e); ok {
				whys = append(whys, why)
				continue
			}
			pred := phi.Block().Preds[i]
			if a.whichFactAtEdge(e, pred, phi.Block(), func(f pathFact) bool { return f.Kind == fNeInt && f.Val == a.eRaw }) {
				whys = append(whys, roleOf(e)+" reaches the call only in a parsed state (which != eRaw on that edge): the array parse of a parsed object's text fails and an eAry node is not re-parsed")
				continue
			}
			if _, isP := e.(*ssa.Parameter); isP && fn.Signature.Recv() == nil {
				if ok, why := viaParam(e, 0); ok {
					whys = append(whys, why)
					continue
				}
			}
			all = false
		}
		if all {
			return true, strings.Join(whys, "; ")
		}
	}
	// behind isArray(*recv.raw)
	if isArrayFn != nil {
		for _, bb := range fn.Blocks {
			iff, ok := bb.Instrs[len(bb.Instrs)-1].(*ssa.If)
			if !ok {
				continue
			}
			cond, neg := stripNot(iff.Cond)
			call, ok := cond.(*ssa.Call)
			if !ok || call.Call.StaticCallee() != isArrayFn {
				continue
			}
			arg := unwrapConv(call.Call.Args[0])
			ld, ok := arg.(*ssa.UnOp)
			if !ok {
				continue
			}
			base, fr, ok := fieldLoad(ld.X)
			if !ok || fr.Field != "raw" || base != recv {
				continue
			}
			succ := 0
			if neg {
				succ = 1
			}
			if edgeDominates(bb, succ, ci.Block()) {
				return true, "behind isArray(*" + roleOf(recv) + ".raw): the text starts with `[`, so the array parse yields a non-nil array"
			}
		}
	}
	return false, ""
}

// constArrayText: v = constructor(newRawMessage(load of a package-level
// []byte initialised from a string constant that starts with '[')).
func (a *nilAn) constArrayText(v ssa.Value) bool {
	call, ok := v.(*ssa.Call)
	if !ok || len(call.Call.Args) == 0 {
		return false
	}
	inner, ok := call.Call.Args[0].(*ssa.Call)
	if !ok || len(inner.Call.Args) == 0 {
		return false
	}
	ld, ok := inner.Call.Args[0].(*ssa.UnOp)
	if !ok {
		return false
	}
	g, ok := ld.X.(*ssa.Global)
	if !ok {
		return false
	}
	sts := a.b.globalStores(g)
	if len(sts) != 1 {
		return false
	}
	cv, ok := sts[0].Val.(*ssa.Convert)
	if !ok {
		return false
	}
	s, ok := strConst(cv.X)
	return ok && strings.HasPrefix(s, "[")
}

// ---- R-STALERAW -----------------------------------------------------------------------

var staleRawConverters = map[string]string{
	"nextByte": "kind-only read: looks at the first non-space byte, which in-place edits never change",
}

func ruleStaleRaw(c *Ctx) {
	for _, b := range c.bodies() {
		a := c.nilFor(b)
		l := c.L
		b.decoderEntryOnFreshNodes(l, a)
		b.noWayBackToText(l, a)
		isArrayFn := b.roleFn("isArray")
		// successState[f] = the constant f stores into recv.which (if exactly one)
		successState := map[*ssa.Function]int64{}
		for _, fn := range a.fns {
			if len(fn.Params) == 0 || !isPtrToNamed(fn.Params[0].Type(), "lazyNode") {
				continue
			}
			vals := map[int64]bool{}
			allInstrs(fn, func(i ssa.Instruction) {
				if st, ok := i.(*ssa.Store); ok {
					if fa, ok := st.Addr.(*ssa.FieldAddr); ok && fa.X == ssa.Value(fn.Params[0]) && fieldOfAddr(fa).Field == "which" {
						if n, ok := intConst(st.Val); ok {
							vals[n] = true
						}
					}
				}
			})
			if len(vals) == 1 {
				for n := range vals {
					successState[fn] = n
				}
			} else {
				successState[fn] = -1
			}
		}
		guardOK := func(x ssa.Value, use ssa.Instruction, target int64) (bool, string) {
			if a.freshValue(x) {
				return true, "node created in this function (" + roleOf(x) + "), still unparsed"
			}
			key := pathKey{x, "which"}
			if ok, why := a.holdsPathFact(use, key, "lazyNode", func(f pathFact) bool {
				return (f.Kind == fEqInt && f.Val == a.eRaw) || (target >= 0 && f.Kind == fNeInt && f.Val == target) || (target >= 0 && target != a.eRaw && f.Kind == fEqInt && f.Val != target && f.Val != a.eRaw && false)
			}); ok {
				return true, "which-state fact on the same node: " + why
			}
			if phi, ok := x.(*ssa.Phi); ok {
				all := true
				for _, e := range phi.Edges {
					if !a.freshValue(e) {
						all = false
					}
				}
				if all {
					return true, "all phi operands are nodes created in this function"
				}
			}
			return false, ""
		}
		// direct content reads + summary
		readsRaw := map[*ssa.Function]map[int]bool{}
		type site struct {
			fn   *ssa.Function
			ins  ssa.Instruction
			x    ssa.Value
			what string
			tgt  int64
		}
		collect := func(fn *ssa.Function) []site {
			var out []site
			allInstrs(fn, func(i ssa.Instruction) {
				// constructor copy / passing raw pointer or content to a call / returning it
				consider := func(v ssa.Value, user ssa.Instruction, what string) {
					// v is a load of x.raw (pointer) or a load through it (content)
					var ptr ssa.Value = v
					if u, ok := v.(*ssa.UnOp); ok && u.Op == token.MUL {
						if _, _, isField := fieldLoad(v); !isField {
							ptr = u.X
						}
					}
					base, fr, ok := fieldLoad(ptr)
					if !ok || fr.Type != "lazyNode" || fr.Field != "raw" {
						return
					}
					out = append(out, site{fn, user, base, what, successState[fn]})
				}
				switch x := i.(type) {
				case ssa.CallInstruction:
					com := x.Common()
					if f := com.StaticCallee(); f != nil && f == isArrayFn {
						return
					}
					if bi, ok := com.Value.(*ssa.Builtin); ok && (bi.Name() == "len" || bi.Name() == "cap") {
						return
					}
					for _, arg := range callArgs(com) {
						consider(unwrapConv(arg), i, "raw passed to "+calleeLabel(com))
					}
				case *ssa.Return:
					for _, r := range x.Results {
						consider(unwrapConv(r), i, "raw returned")
					}
				}
			})
			return out
		}
		for round := 0; round < 6; round++ {
			changed := false
			for _, fn := range a.fns {
				if _, exc := staleRawConverters[fn.Name()]; exc {
					continue
				}
				mark := func(x ssa.Value) {
					if pi, ok := paramIndex(x); ok {
						if readsRaw[fn] == nil {
							readsRaw[fn] = map[int]bool{}
						}
						if !readsRaw[fn][pi] {
							readsRaw[fn][pi] = true
							changed = true
						}
					}
				}
				for _, s := range collect(fn) {
					if ok, _ := guardOK(s.x, s.ins, s.tgt); !ok {
						mark(s.x)
					}
				}
				// calls to readers
				allInstrs(fn, func(i ssa.Instruction) {
					ci, ok := i.(ssa.CallInstruction)
					if !ok {
						return
					}
					for _, g := range a.b.callees(ci.Common()) {
						args := callArgs(ci.Common())
						for pi := range readsRaw[g] {
							if pi < len(args) {
								if ok, _ := guardOK(args[pi], i, successState[g]); !ok {
									mark(args[pi])
								}
							}
						}
					}
				})
			}
			if !changed {
				break
			}
		}
		var readers []string
		for f, m := range readsRaw {
			for i := range m {
				readers = append(readers, fmt.Sprintf("%s(%s)", fname(f), f.Params[i].Name()))
			}
		}
		sort.Strings(readers)
		l.stat("R-STALERAW").Extra[b.Name+"_reads_raw_content_of_param_without_state_check"] = readers
		// obligations
		for _, fn := range a.fns {
			if why, exc := staleRawConverters[fn.Name()]; exc {
				for _, s := range collect(fn) {
					l.add("R-STALERAW", b.Name, fmt.Sprintf("%s: %s (%s)", fname(fn), s.what, roleOf(s.x)), b.posOf(s.ins), Excepted, why, true)
				}
				continue
			}
			report := func(x ssa.Value, ins ssa.Instruction, what string, tgt int64) {
				key := fmt.Sprintf("%s: %s (%s) only while unparsed", fname(fn), what, roleOf(x))
				if ok, why := guardOK(x, ins, tgt); ok {
					l.add("R-STALERAW", b.Name, key, b.posOf(ins), Discharged, why, true)
					return
				}
				if _, ok := paramIndex(x); ok {
					if token.IsExported(fn.Name()) {
						// RedirectMarshalJSON, MarshalJSON, …: invoked by the codec through an interface, on
						// nodes in any state — there is no call site to carry the requirement to
						l.add("R-STALERAW", b.Name, key, b.posOf(ins), Violated, "the raw bytes of the receiver are handed out as its content without a which == eRaw fact, in a method the codec invokes on nodes in every state: a node that was parsed and edited through its parsed form (a member stored or removed in it, or below it) is written out as the text it was parsed from", true)
						return
					}
					l.add("R-STALERAW", b.Name, key, b.posOf(ins), Discharged, "parameter: the requirement (node still in state eRaw) is carried to every call site by the function's summary", false)
					return
				}
				l.add("R-STALERAW", b.Name, key, b.posOf(ins), Violated, "the raw bytes of a node that may already have been parsed (and edited through its parsed form) are read as its content: no which == eRaw fact dominates", true)
			}
			for _, s := range collect(fn) {
				report(s.x, s.ins, s.what, s.tgt)
			}
			allInstrs(fn, func(i ssa.Instruction) {
				ci, ok := i.(ssa.CallInstruction)
				if !ok {
					return
				}
				for _, g := range a.b.callees(ci.Common()) {
					args := callArgs(ci.Common())
					var pis []int
					for pi := range readsRaw[g] {
						pis = append(pis, pi)
					}
					sort.Ints(pis)
					for _, pi := range pis {
						if pi < len(args) {
							report(args[pi], i, "content reader "+fname(g)+" applied", successState[g])
						}
					}
				}
			})
		}
	}
}

// phiLeaves: the values a phi (of phis) selects among; v itself otherwise.
func phiLeaves(v ssa.Value) []ssa.Value {
	var out []ssa.Value
	seen := map[ssa.Value]bool{}
	var walk func(v ssa.Value)
	walk = func(v ssa.Value) {
		if seen[v] {
			return
		}
		seen[v] = true
		if p, ok := v.(*ssa.Phi); ok {
			for _, e := range p.Edges {
				walk(e)
			}
			return
		}
		out = append(out, v)
	}
	walk(v)
	return out
}

// rootObjectDecoded (T5): an object container that is allocated in place, filled by a decode
// of some text and installed as the root must be decoded from text known to start with '{'.
// The text `null` decodes into an object container without a member map and without an error:
// such a root fails every later operation and the final encoding, so whether the patch
// succeeds is decided by what follows the operation that installed it. (Roots taken from a
// node's doc field come from tryDoc/intoDoc, which refuse a null; see T1.)
func (a *nilAn) rootObjectDecoded(l *Ledger, fn *ssa.Function, v ssa.Value, at ssa.Instruction) {
	b := a.b
	al, ok := v.(*ssa.Alloc)
	if !ok || !isPtrToNamed(al.Type(), "partialDoc") {
		return
	}
	// may v be the allocation (through the interface, a phi, or a load of a local slot)?
	var mayBe func(v ssa.Value, seen map[ssa.Value]bool) bool
	mayBe = func(v ssa.Value, seen map[ssa.Value]bool) bool {
		if seen[v] {
			return false
		}
		seen[v] = true
		switch x := v.(type) {
		case *ssa.Alloc:
			return x == al
		case *ssa.MakeInterface:
			return mayBe(x.X, seen)
		case *ssa.ChangeInterface:
			return mayBe(x.X, seen)
		case *ssa.Phi:
			for _, e := range x.Edges {
				if mayBe(e, seen) {
					return true
				}
			}
		case *ssa.UnOp:
			if x.Op != token.MUL {
				return false
			}
			slot, ok := x.X.(*ssa.Alloc)
			if !ok {
				return false
			}
			hit := false
			allInstrs(fn, func(j ssa.Instruction) {
				if st, ok := j.(*ssa.Store); ok && st.Addr == ssa.Value(slot) && mayBe(st.Val, seen) {
					hit = true
				}
			})
			return hit
		}
		return false
	}
	n := 0
	allInstrs(fn, func(j ssa.Instruction) {
		ci, ok := j.(ssa.CallInstruction)
		if !ok {
			return
		}
		cc := ci.Common()
		var text ssa.Value
		dest := false
		for _, arg := range cc.Args {
			if isByteSlice(arg.Type()) {
				text = arg
			} else if mayBe(arg, map[ssa.Value]bool{}) {
				dest = true
			}
		}
		if !dest || text == nil {
			return
		}
		n++
		key := fmt.Sprintf("%s: object root decoded in place #%d is decoded from text that starts with '{'", fname(fn), n)
		if why := a.startsWithBrace(fn, text, j); why != "" {
			l.add("R-TYPESTATE", "v5", key, b.posOf(j), Discharged, why, true)
			return
		}
		l.add("R-TYPESTATE", "v5", key, b.posOf(j), Violated, "the text given to "+calleeLabel(cc)+" is not known to start with '{': the text `null` decodes without error into an object root that has no member map, which every later operation and the final encoding reject — the outcome then depends on the operations that follow (a later replacement of the root makes the patch succeed), and a null root set this way does not compare equal to null", true)
	})
}

// startsWithBrace: the instruction is dominated by the true edge of a comparison of a byte
// read from the text (directly, or through a library helper given the text) with '{'.
func (a *nilAn) startsWithBrace(fn *ssa.Function, text ssa.Value, at ssa.Instruction) string {
	return a.b.firstByteIs(fn, text, at.Block(), '{')
}

// firstByteIs: the block is dominated by the true edge of a comparison of a byte read from
// the text (directly, or through a helper given the text) with ch.
func (b *Body) firstByteIs(fn *ssa.Function, text ssa.Value, at *ssa.BasicBlock, ch int64) string {
	var fromText func(v ssa.Value, d int) bool
	fromText = func(v ssa.Value, d int) bool {
		if d > 6 {
			return false
		}
		if v == text {
			return true
		}
		switch x := v.(type) {
		case *ssa.UnOp:
			return fromText(x.X, d+1)
		case *ssa.IndexAddr:
			return fromText(x.X, d+1)
		case *ssa.Lookup:
			return fromText(x.X, d+1)
		case *ssa.Index:
			return fromText(x.X, d+1)
		case *ssa.Convert:
			return fromText(x.X, d+1)
		case *ssa.ChangeType:
			return fromText(x.X, d+1)
		case *ssa.Call:
			for _, arg := range x.Call.Args {
				if fromText(arg, d+1) {
					return true
				}
			}
		}
		return false
	}
	for _, bb := range fn.Blocks {
		ifi, ok := lastInstr(bb).(*ssa.If)
		if !ok {
			continue
		}
		bo, ok := ifi.Cond.(*ssa.BinOp)
		if !ok || (bo.Op != token.EQL && bo.Op != token.NEQ) {
			continue
		}
		x, y := bo.X, bo.Y
		if _, isC := intConst(x); isC {
			x, y = y, x
		}
		if n, isC := intConst(y); !isC || n != ch || !fromText(x, 0) {
			continue
		}
		succ := 0
		if bo.Op == token.NEQ {
			succ = 1
		}
		if edgeDominates(bb, succ, at) {
			return fmt.Sprintf("dominated by a first-byte == %q test of the same text at %s", rune(ch), b.posOf(ifi))
		}
	}
	// the same test held in a named boolean (`bothStrings := a[0] == '"' && b[0] == '"'`): the
	// facts that hold at `at` include the operands of the conjunction
	for _, f := range dominatingFacts(at) {
		bo, ok := f.V.(*ssa.BinOp)
		if !ok || (bo.Op != token.EQL && bo.Op != token.NEQ) {
			continue
		}
		x, y := bo.X, bo.Y
		if _, isC := intConst(x); isC {
			x, y = y, x
		}
		if n, isC := intConst(y); !isC || n != ch || !fromText(x, 0) {
			continue
		}
		if (bo.Op == token.EQL) == f.True {
			return fmt.Sprintf("a first-byte == %q test of the same text holds here (%s)", rune(ch), b.posOf(bo))
		}
	}
	return ""
}

// becomesTheDocument: the container that call hands back is installed as the
// root on every path on which the call succeeded, and a failure ends the
// caller with an error. Whatever node the call advanced then either is the
// new root (not a nil array) or, when the root is the nil array that spells
// null, belongs to no document at all: the old tree is gone with its slot.
func (a *nilAn) becomesTheDocument(h *ssa.Function, cj ssa.CallInstruction) (bool, string) {
	b := a.b
	v := cj.Value()
	if v == nil {
		return false, ""
	}
	tup, ok := v.Type().(*types.Tuple)
	if !ok || tup.Len() != 2 || !isNamed(tup.At(0).Type(), "container") || !isErrorType(tup.At(1).Type()) {
		return false, ""
	}
	var st *ssa.Store
	for _, ex := range extractOf(v, 0) {
		for _, r := range *ex.Referrers() {
			s, ok := r.(*ssa.Store)
			if !ok || s.Val != ssa.Value(ex) {
				continue
			}
			if pt, ok := s.Addr.Type().Underlying().(*types.Pointer); ok && isNamed(pt.Elem(), "container") {
				st = s
			}
		}
	}
	if st == nil {
		return false, ""
	}
	if ok, _ := b.successDominates(cj, st); !ok {
		return false, ""
	}
	call, ok := cj.(*ssa.Call)
	if !ok {
		return false, ""
	}
	n := 0
	for _, t := range errTestsOf(h, call) {
		if t.Chain {
			return false, ""
		}
		n++
		if !mustPass(t.Blk.Succs[1-t.NonNilSucc], st.Block()) {
			return false, ""
		}
	}
	if n == 0 {
		return false, ""
	}
	return true, "the container handed back replaces the whole document at " + b.posOf(st) + " on every path on which the call succeeded, and a failure ends the operation: a node left as a nil array is then the null root itself, inside no document"
}

// noWayBackToText (R-STALERAW): a node that has been decoded never goes back to "read me from
// my text". Once a container was built from a node's text, operations change the container
// and not the text: marking the node unparsed again (to save the re-encoding of a subtree
// "nothing happened to", or to leave no trace of a walk) throws away whatever earlier
// operations did below it. The state eRaw is therefore stored only into a node created in the
// same function, or together with a new text (the decode hook, which replaces raw as well).
func (b *Body) noWayBackToText(l *Ledger, a *nilAn) {
	key := "typestate: a decoded node never goes back to its text (which = eRaw is stored only into a fresh node or together with a new text)"
	n := 0
	bad := ""
	var sites []string
	for _, fn := range a.fns {
		// the bases whose raw field is stored in this function
		rawStored := map[ssa.Value]bool{}
		allInstrs(fn, func(i ssa.Instruction) {
			if st, ok := i.(*ssa.Store); ok {
				if fa, ok := st.Addr.(*ssa.FieldAddr); ok && isPtrToNamed(fa.X.Type(), "lazyNode") && fieldOfAddr(fa).Field == "raw" {
					rawStored[fa.X] = true
				}
			}
		})
		allInstrs(fn, func(i ssa.Instruction) {
			st, ok := i.(*ssa.Store)
			if !ok {
				return
			}
			fa, ok := st.Addr.(*ssa.FieldAddr)
			if !ok || !isPtrToNamed(fa.X.Type(), "lazyNode") || fieldOfAddr(fa).Field != "which" {
				return
			}
			if k, isK := intConst(st.Val); isK && k != a.eRaw {
				return
			}
			n++
			switch {
			case a.freshValue(fa.X):
				sites = append(sites, b.posOf(st)+" fresh node")
			case rawStored[fa.X]:
				sites = append(sites, b.posOf(st)+" with a new text")
			default:
				bad = "the store at " + b.posOf(st) + " in " + fname(fn) + " marks an existing node as unparsed and leaves its text as it was: the containers built from it — and every change made in them since — are dropped, the node is read again from the text it had before"
			}
		})
	}
	if bad != "" {
		l.add("R-STALERAW", b.Name, key, "", Violated, bad, true)
		return
	}
	l.add("R-STALERAW", b.Name, key, "", Discharged, fmt.Sprintf("%d store(s) of the unparsed state: %s", n, strings.Join(sites, "; ")), true)
}

// decodedOnlyBehindDecoder (R-TYPESTATE): an existing node becomes an object or an array only
// because the decoder read its text as one. Every store of a decoded state into the which
// field of a node that was not created in the same function lies on the success edge of a
// decoder call that was handed the node's doc or ary field: a probe that carries on after the
// decoder refused the text (reading [] as an object without members, say) makes Equal and the
// test operation see a value the text does not spell.
func (b *Body) decodedOnlyBehindDecoder(l *Ledger, a *nilAn) {
	for _, fn := range a.fns {
		n := 0
		bad := ""
		allInstrs(fn, func(i ssa.Instruction) {
			st, ok := i.(*ssa.Store)
			if !ok {
				return
			}
			fa, ok := st.Addr.(*ssa.FieldAddr)
			if !ok || !isPtrToNamed(fa.X.Type(), "lazyNode") || fieldOfAddr(fa).Field != "which" {
				return
			}
			if k, isK := intConst(st.Val); !isK || k == a.eRaw {
				return
			}
			if a.freshValue(fa.X) {
				return
			}
			n++
			behind := false
			decoders := 0
			allInstrs(fn, func(j ssa.Instruction) {
				call, ok := j.(*ssa.Call)
				if !ok || behind {
					return
				}
				takes := false
				for _, arg := range call.Call.Args {
					if af, ok := unwrapConv(arg).(*ssa.FieldAddr); ok && af.X == fa.X {
						if f := fieldOfAddr(af).Field; f == "doc" || f == "ary" {
							takes = true
						}
					}
					if mi, ok := arg.(*ssa.MakeInterface); ok {
						if af, ok := mi.X.(*ssa.FieldAddr); ok && af.X == fa.X {
							if f := fieldOfAddr(af).Field; f == "doc" || f == "ary" {
								takes = true
							}
						}
					}
				}
				// … or a helper of the node's own that does the decoding and hands back the
				// decoder's verdict
				if !takes && len(call.Call.Args) > 0 && call.Call.Args[0] == fa.X && b.isDecodeHelper(call.Call.StaticCallee(), 0) {
					takes = true
				}
				if !takes {
					return
				}
				decoders++
				for _, e := range errResultOf(call) {
					for _, t := range errChecks(e) {
						if t.Chain {
							continue
						}
						if edgeDominates(t.Blk, 1-t.NonNilSucc, st.Block()) {
							behind = true
						}
					}
				}
			})
			if !behind {
				if decoders == 0 {
					bad = "the store at " + b.posOf(st) + " marks an existing node as decoded although no decoder call in " + fname(fn) + " was handed its doc or ary field"
				} else {
					bad = "the store at " + b.posOf(st) + " marks the node as decoded on a path on which the decoder's error was not nil: a text the decoder refused as this kind of value is taken for one all the same"
				}
			}
		})
		if n == 0 {
			continue
		}
		key := fname(fn) + ": the node becomes decoded only behind the decoder's success"
		if bad != "" {
			l.add("R-TYPESTATE", b.Name, key, b.rel(fn.Pos()), Violated, bad, true)
		} else {
			l.add("R-TYPESTATE", b.Name, key, b.rel(fn.Pos()), Discharged, fmt.Sprintf("%d store(s) of a decoded state, each on the nil edge of the error of a decoder call that was given the node's own doc/ary field", n), true)
		}
	}
}

// isDecodeHelper: f is a method of the node that hands its own doc or ary field to a decoder
// call and reports success only where that call succeeded (every return has a non-nil error,
// the decoder's own error, or lies on the nil edge of the decoder's error).
func (b *Body) isDecodeHelper(f *ssa.Function, depth int) bool {
	if f == nil || len(f.Blocks) == 0 || len(f.Params) == 0 || depth > 2 || !isPtrToNamed(f.Params[0].Type(), "lazyNode") {
		return false
	}
	ei := errResultIndex(f)
	if ei < 0 {
		return false
	}
	var decs []*ssa.Call
	allInstrs(f, func(j ssa.Instruction) {
		call, ok := j.(*ssa.Call)
		if !ok || len(errResultOf(call)) == 0 {
			return
		}
		for _, arg := range call.Call.Args {
			x := arg
			if mi, ok := x.(*ssa.MakeInterface); ok {
				x = mi.X
			}
			if af, ok := unwrapConv(x).(*ssa.FieldAddr); ok && af.X == ssa.Value(f.Params[0]) {
				if fn := fieldOfAddr(af).Field; fn == "doc" || fn == "ary" {
					decs = append(decs, call)
				}
			}
		}
		if len(call.Call.Args) > 0 && call.Call.Args[0] == ssa.Value(f.Params[0]) && call.Call.StaticCallee() != f && b.isDecodeHelper(call.Call.StaticCallee(), depth+1) {
			decs = append(decs, call)
		}
	})
	if len(decs) == 0 {
		return false
	}
	for _, r := range liveReturns(f) {
		rv := retVal(r, ei)
		if b.definitelyNonNilErr(rv, r.Block(), 0) {
			continue
		}
		ok := false
		for _, d := range decs {
			for _, e := range errResultOf(d) {
				if rv == e {
					ok = true
				}
				for _, t := range errChecks(e) {
					if !t.Chain && (t.Blk.Succs[1-t.NonNilSucc] == r.Block() || edgeDominates(t.Blk, 1-t.NonNilSucc, r.Block())) {
						ok = true
					}
				}
			}
		}
		if !ok {
			return false
		}
	}
	return true
}

// handedOutOnlyWhenMarked (R-TYPESTATE): a node hands out its container (intoDoc, intoAry)
// only as a node that is marked decoded. Callers change the container they are given; the
// encoder writes a node that is still marked "text" from its text. A path that builds the
// container and returns it without the mark (a shortcut for `{}`) makes every change made
// through that container vanish from the output.
func (b *Body) handedOutOnlyWhenMarked(l *Ledger, a *nilAn) {
	for _, fn := range a.fns {
		if len(fn.Params) == 0 || !isPtrToNamed(fn.Params[0].Type(), "lazyNode") || fn.Parent() != nil {
			continue
		}
		ei := errResultIndex(fn)
		if ei <= 0 {
			continue
		}
		recv := ssa.Value(fn.Params[0])
		// the stores of a decoded state into the receiver, and the tests of it
		var marks []ssa.Instruction
		allInstrs(fn, func(i ssa.Instruction) {
			if st, ok := i.(*ssa.Store); ok {
				if fa, ok := st.Addr.(*ssa.FieldAddr); ok && fa.X == recv && fieldOfAddr(fa).Field == "which" {
					if k, isK := intConst(st.Val); isK && k != a.eRaw {
						marks = append(marks, st)
					}
				}
			}
		})
		n := 0
		bad := ""
		for _, r := range liveReturns(fn) {
			if !isNilConst(retVal(r, ei)) {
				continue
			}
			// is result 0 the receiver's own doc or ary (its address, or what it holds)?
			v := unwrapConv(retVal(r, 0))
			if mi, ok := v.(*ssa.MakeInterface); ok {
				v = unwrapConv(mi.X)
			}
			var fa *ssa.FieldAddr
			switch x := v.(type) {
			case *ssa.FieldAddr:
				fa = x
			case *ssa.UnOp:
				if x.Op == token.MUL {
					fa, _ = x.X.(*ssa.FieldAddr)
				}
			}
			if fa == nil || fa.X != recv {
				continue
			}
			if f := fieldOfAddr(fa).Field; f != "doc" && f != "ary" {
				continue
			}
			n++
			marked := false
			for _, m := range marks {
				if b.instrDominates(m, r) {
					marked = true
				}
			}
			if !marked {
				// the early return for a node that is decoded already
				key := pathKey{recv, "which"}
				if ok, _ := a.holdsPathFact(r, key, "lazyNode", func(f pathFact) bool {
					return (f.Kind == fEqInt && f.Val != a.eRaw) || (f.Kind == fNeInt && f.Val == a.eRaw)
				}); ok {
					marked = true
				}
			}
			if !marked {
				bad = "the return at " + b.posOf(r) + " hands out the node's container without the node being marked decoded (no store of a decoded state before it, no which-test around it): the node is written out from its old text, and what callers put into the container is lost"
			}
		}
		if n == 0 {
			continue
		}
		key := fname(fn) + ": the container is handed out only by a node marked decoded"
		if bad != "" {
			l.add("R-TYPESTATE", b.Name, key, b.rel(fn.Pos()), Violated, bad, true)
		} else {
			l.add("R-TYPESTATE", b.Name, key, b.rel(fn.Pos()), Discharged, fmt.Sprintf("%d successful return(s) of the node's own container, each behind the store of the decoded state or under a test of it", n), true)
		}
	}
}
