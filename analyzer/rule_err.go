package main

// A-ERR (abstract error values: the sentinels / concrete types reachable
// through %w chains) and R-ERRCHAIN (the error a caller can branch on with
// errors.Is / errors.As is the one the property promises).

import (
	"fmt"
	"go/token"
	"go/types"
	"sort"
	"strings"

	"golang.org/x/tools/go/ssa"
)

func init() {
	register(&Rule{ID: "R-ERRCHAIN", Doc: "error identity: ErrTestFailed is produced only by the test handler and by every one of its comparison-verdict returns (and by none of its lookup-failure returns); a test against an absent member reaches the comparison instead of failing with the lookup error; an unreachable parent yields ErrMissing in all six handlers; an absent object member yields ErrMissing in partialDoc.get/remove and the handlers wrap (%w) the container's error or ErrMissing; *AccumulatedCopySizeError is built only by its constructor, which only the copy handler calls",
		Run: ruleErrChain, Min: map[string]int{"v5": 30, "legacy": 24}})
}

type errSet map[string]bool

func (s errSet) addAll(o errSet) bool {
	ch := false
	for k := range o {
		if !s[k] {
			s[k] = true
			ch = true
		}
	}
	return ch
}

func (s errSet) String() string {
	var ks []string
	for k := range s {
		ks = append(ks, k)
	}
	sort.Strings(ks)
	return "{" + strings.Join(ks, ", ") + "}"
}

type errAn struct {
	b   *Body
	sum map[*ssa.Function]errSet // join over all error results of the function
}

func (c *Ctx) errFor(b *Body) *errAn {
	key := "errAn." + b.Name
	if a, ok := c.facts[key].(*errAn); ok {
		return a
	}
	a := &errAn{b: b, sum: map[*ssa.Function]errSet{}}
	fns := b.srcFuncs(b.Lib)
	for _, f := range fns {
		a.sum[f] = errSet{}
	}
	for iter := 0; iter < 50; iter++ {
		changed := false
		for _, fn := range fns {
			res := fn.Signature.Results()
			for _, r := range liveReturns(fn) {
				for i := range r.Results {
					if !isErrorType(res.At(i).Type()) {
						continue
					}
					if a.sum[fn].addAll(a.chain(retVal(r, i), map[ssa.Value]bool{})) {
						changed = true
					}
				}
			}
		}
		if !changed {
			break
		}
	}
	c.facts[key] = a
	return a
}

// chain over-approximates what errors.Is/As can find in error value v.
func (a *errAn) chain(v ssa.Value, seen map[ssa.Value]bool) errSet {
	out := errSet{}
	if v == nil || seen[v] {
		return out
	}
	seen[v] = true
	switch x := v.(type) {
	case *ssa.Const:
		return out
	case *ssa.UnOp:
		if x.Op == token.MUL {
			if g, ok := x.X.(*ssa.Global); ok {
				out["S:"+g.Name()] = true
				return out
			}
			// load of a local: join over the stores to it
			if al, ok := x.X.(*ssa.Alloc); ok {
				for _, r := range *al.Referrers() {
					if st, ok := r.(*ssa.Store); ok && st.Addr == ssa.Value(al) {
						out.addAll(a.chain(st.Val, seen))
					}
				}
				return out
			}
		}
		// a field of a library type: join over every store into that field
		if x.Op == token.MUL {
			if _, fr, ok := fieldLoad(x); ok && fr.Type != "" {
				if sts := a.b.fieldStores(fr); len(sts) > 0 {
					for _, st := range sts {
						out.addAll(a.chain(st.Val, seen))
					}
					return out
				}
			}
		}
		out["?load"] = true
	case *ssa.MakeInterface:
		if isErrorType(x.X.Type()) {
			return a.chain(x.X, seen)
		}
		out["T:"+typeShort(x.X.Type())] = true
		if uw := a.b.unwrapMethodOf(x.X.Type()); uw != nil {
			for _, r := range liveReturns(uw) {
				if len(r.Results) == 1 {
					out.addAll(a.chain(r.Results[0], seen))
				}
			}
		}
	case *ssa.ChangeInterface:
		return a.chain(x.X, seen)
	case *ssa.ChangeType:
		return a.chain(x.X, seen)
	case *ssa.Phi:
		for _, e := range x.Edges {
			out.addAll(a.chain(e, seen))
		}
	case *ssa.Extract:
		if call, ok := x.Tuple.(*ssa.Call); ok {
			return a.callChain(call, seen)
		}
		out["?extract"] = true
	case *ssa.Call:
		return a.callChain(x, seen)
	case *ssa.Parameter:
		out["param:"+x.Name()] = true
	case *ssa.TypeAssert:
		return a.chain(x.X, seen)
	default:
		out[fmt.Sprintf("?%T", v)] = true
	}
	return out
}

func (a *errAn) callChain(call *ssa.Call, seen map[ssa.Value]bool) errSet {
	out := errSet{}
	if staticCalleeIs(&call.Call, "fmt", "Errorf") {
		info := decodeErrorf(call)
		if !info.Decoded {
			out["?format"] = true
			return out
		}
		nw := 0
		for i, vb := range info.Verbs {
			if vb != 'w' {
				continue
			}
			nw++
			if i >= len(info.Ops) || info.Ops[i] == nil {
				out["?operand"] = true
				continue
			}
			out.addAll(a.chain(info.Ops[i], seen))
		}
		if nw == 0 {
			out["fresh"] = true
		}
		return out
	}
	if staticCalleeIs(&call.Call, "errors", "New") {
		out["fresh"] = true
		return out
	}
	if staticCalleeIs(&call.Call, "errors", "Unwrap") && len(call.Call.Args) == 1 {
		return a.chain(call.Call.Args[0], seen)
	}
	cs := a.b.callees(&call.Call)
	if len(cs) == 0 {
		out["?dynamic"] = true
	}
	for _, f := range cs {
		if s, ok := a.sum[f]; ok {
			out.addAll(s)
		} else {
			name := f.Name()
			if f.Pkg != nil {
				name = f.Pkg.Pkg.Name() + "." + name
			} else if r := recvTypeName(f); r != "" {
				name = r + "." + name
			}
			out["ext:"+name] = true
		}
	}
	return out
}

// directlyWraps: v is sentinel global `name` itself, or fmt.Errorf whose %w
// operand is that sentinel.
func (b *Body) directlyWrapsSentinel(v ssa.Value, name string) bool {
	isSent := func(x ssa.Value) bool {
		g := sentinelGlobal(unwrapConv(x))
		return g != nil && g.Name() == name
	}
	if isSent(v) {
		return true
	}
	// an error value of a library type whose Unwrap method always answers the sentinel
	if mi, ok := v.(*ssa.MakeInterface); ok {
		if uw := b.unwrapMethodOf(mi.X.Type()); uw != nil {
			n := 0
			for _, r := range liveReturns(uw) {
				if len(r.Results) != 1 {
					return false
				}
				if isSent(r.Results[0]) {
					n++
					continue
				}
				// a field of the error, every store into which is of the sentinel
				_, fr, isLd := fieldLoad(r.Results[0])
				if !isLd {
					return false
				}
				sts := b.fieldStores(fr)
				if len(sts) == 0 {
					return false
				}
				for _, st := range sts {
					if !isSent(st.Val) {
						return false
					}
				}
				n++
			}
			return n > 0
		}
	}
	call, ok := v.(*ssa.Call)
	if !ok {
		return false
	}
	// an error constructor of the library: a function every return of which is the sentinel,
	// wraps it with %w, or hands back a parameter whose argument here does
	if f := call.Call.StaticCallee(); f != nil && f.Pkg == b.Lib && len(f.Blocks) > 0 && f.Signature.Results().Len() == 1 && isErrorType(f.Signature.Results().At(0).Type()) {
		if b.wrapDepth > 2 {
			return false
		}
		b.wrapDepth++
		defer func() { b.wrapDepth-- }()
		rets := liveReturns(f)
		if len(rets) == 0 {
			return false
		}
		for _, r := range rets {
			rv := r.Results[0]
			if p, isP := rv.(*ssa.Parameter); isP {
				idx := -1
				for i, fp := range f.Params {
					if fp == p {
						idx = i
					}
				}
				if idx < 0 || idx >= len(call.Call.Args) || !b.directlyWrapsSentinel(call.Call.Args[idx], name) {
					return false
				}
				continue
			}
			if !b.directlyWrapsSentinel(rv, name) {
				return false
			}
		}
		return true
	}
	if !staticCalleeIs(&call.Call, "fmt", "Errorf") {
		return false
	}
	for _, o := range errorfWrapOperands(call) {
		if isSent(o) {
			return true
		}
	}
	return false
}

// wrapsValue: v is e itself (through phis) or fmt.Errorf with e as a %w operand.
func wrapsValue(v ssa.Value, e ssa.Value) bool {
	same := func(x ssa.Value) bool {
		x = unwrapConv(x)
		if x == e {
			return true
		}
		if phi, ok := x.(*ssa.Phi); ok {
			for _, ed := range phi.Edges {
				if ed == e {
					return true
				}
			}
		}
		return false
	}
	if same(v) {
		return true
	}
	call, ok := v.(*ssa.Call)
	if !ok || !staticCalleeIs(&call.Call, "fmt", "Errorf") {
		return false
	}
	for _, o := range errorfWrapOperands(call) {
		if same(o) {
			return true
		}
	}
	return false
}

// errResultIndex returns the index of the (last) error result of fn, or -1.
func errResultIndex(fn *ssa.Function) int {
	res := fn.Signature.Results()
	for i := res.Len() - 1; i >= 0; i-- {
		if isErrorType(res.At(i).Type()) {
			return i
		}
	}
	return -1
}

// errReturnsDominatedBy lists the live returns of fn whose block is
// dominated by the CFG edge from->succ and whose error result is not the
// constant nil; nilRets receives those that return a constant nil error.
func errReturnsUnderEdge(fn *ssa.Function, from *ssa.BasicBlock, succ int) (errs, nils []*ssa.Return) {
	ei := errResultIndex(fn)
	if ei < 0 {
		return
	}
	for _, r := range liveReturns(fn) {
		if !edgeDominates(from, succ, r.Block()) {
			continue
		}
		if isNilConst(retVal(r, ei)) {
			nils = append(nils, r)
		} else {
			errs = append(errs, r)
		}
	}
	return
}

// condMentions: the boolean condition is computed (within depth steps of
// operands) from one of the given values.
func condMentions(cond ssa.Value, vals map[ssa.Value]bool, depth int) bool {
	if cond == nil || depth < 0 {
		return false
	}
	if vals[cond] {
		return true
	}
	ins, ok := cond.(ssa.Instruction)
	if !ok {
		return false
	}
	if _, isPhi := cond.(*ssa.Phi); isPhi {
		// && / || : the constituent conditions live in the predecessor blocks
		phi := cond.(*ssa.Phi)
		for _, e := range phi.Edges {
			if condMentions(e, vals, depth-1) {
				return true
			}
		}
		for _, p := range phi.Block().Preds {
			if iff, ok := p.Instrs[len(p.Instrs)-1].(*ssa.If); ok && condMentions(iff.Cond, vals, depth-1) {
				return true
			}
		}
		return false
	}
	// Only boolean structure, comparisons and the errors package's pure
	// inspectors are looked through: a call such as val.equal(x) does not
	// "mention" the container its receiver was looked up in.
	switch x := cond.(type) {
	case *ssa.BinOp:
		return condMentions(x.X, vals, depth-1) || condMentions(x.Y, vals, depth-1)
	case *ssa.UnOp:
		if x.Op == token.NOT {
			return condMentions(x.X, vals, depth-1)
		}
	case *ssa.Call:
		if f := x.Call.StaticCallee(); f != nil && f.Pkg != nil && f.Pkg.Pkg.Path() == "errors" {
			for _, a := range x.Call.Args {
				if condMentions(a, vals, depth-1) {
					return true
				}
			}
		}
	case *ssa.ChangeInterface:
		return condMentions(x.X, vals, depth-1)
	case *ssa.MakeInterface:
		return condMentions(x.X, vals, depth-1)
	}
	_ = ins
	return false
}

// isLazyNodeBoolMethod: call of a method on *lazyNode whose only result is bool.
func isLazyNodeBoolMethod(c *ssa.CallCommon) bool {
	f := c.StaticCallee()
	if f == nil || recvTypeName(f) != "lazyNode" {
		return false
	}
	res := f.Signature.Results()
	if res.Len() != 1 {
		return false
	}
	bt, ok := res.At(0).Type().Underlying().(*types.Basic)
	return ok && bt.Kind() == types.Bool
}

func (b *Body) isFindObjectCall(c *ssa.CallCommon) bool {
	f := c.StaticCallee()
	if f == nil || f.Pkg != b.Lib || f.Signature.Recv() != nil {
		return false
	}
	res := f.Signature.Results()
	// (container, key): a function that answers (container, error) builds a container, it
	// does not resolve a location
	if res.Len() != 2 || !isNamed(res.At(0).Type(), "container") {
		return false
	}
	bt, ok := res.At(1).Type().Underlying().(*types.Basic)
	return ok && bt.Kind() == types.String
}

func isOperationAccessor(c *ssa.CallCommon) bool {
	f := c.StaticCallee()
	return f != nil && recvTypeName(f) == "Operation" && errResultIndex(f) >= 0
}

func ruleErrChain(c *Ctx) {
	for _, b := range c.bodies() {
		l := c.L
		a := c.errFor(b)
		ai := b.findApply()
		if ai == nil {
			l.add("R-ERRCHAIN", b.Name, "anchor apply loop", "", Undecided, "apply loop not found", false)
			continue
		}
		testH := ai.handlers["test"]
		copyH := ai.handlers["copy"]
		if testH == nil || copyH == nil {
			l.add("R-ERRCHAIN", b.Name, "anchor test/copy handler", "", Undecided, "test or copy handler not found through the dispatch", false)
			continue
		}
		handlerOf := map[*ssa.Function]string{}
		for k, h := range ai.handlers {
			handlerOf[h] = k
		}

		// ---- TF-only ------------------------------------------------------------
		for _, k := range rfc6902Kinds {
			h := ai.handlers[k]
			if h == nil || k == "test" {
				continue
			}
			key := fmt.Sprintf("TF-only: handler %q never yields ErrTestFailed", k)
			if a.sum[h]["S:ErrTestFailed"] {
				l.add("R-ERRCHAIN", b.Name, key, b.rel(h.Pos()), Violated, "the error chain of "+fname(h)+" can contain ErrTestFailed: "+a.sum[h].String(), true)
			} else {
				l.add("R-ERRCHAIN", b.Name, key, b.rel(h.Pos()), Discharged, "chain of every error return (callee summaries joined): "+a.sum[h].String(), true)
			}
		}
		// who may reference the sentinel
		{
			var users []string
			bad := ""
			g, _ := b.Lib.Members["ErrTestFailed"].(*ssa.Global)
			if g == nil {
				l.add("R-ERRCHAIN", b.Name, "anchor ErrTestFailed", "", Undecided, "the exported sentinel ErrTestFailed does not resolve", false)
			} else {
				for _, fn := range b.srcFuncs(b.Lib) {
					uses := false
					allInstrs(fn, func(i ssa.Instruction) {
						if u, ok := i.(*ssa.UnOp); ok && u.Op == token.MUL && u.X == ssa.Value(g) {
							uses = true
						}
					})
					if uses {
						users = append(users, fname(fn))
						if fn != testH && !b.methodOfErrorBuiltOnlyIn(fn, testH) && !b.onlyCalledFrom(fn, testH) {
							bad = fname(fn)
						}
					}
				}
				key := "TF-only: ErrTestFailed is read only in the test handler"
				if bad != "" {
					l.add("R-ERRCHAIN", b.Name, key, "", Violated, "ErrTestFailed is also read in "+bad+" (readers: "+strings.Join(users, ", ")+")", true)
				} else {
					l.add("R-ERRCHAIN", b.Name, key, b.rel(testH.Pos()), Discharged, "readers: "+strings.Join(users, ", "), true)
				}
			}
		}

		// ---- TF-all / TEST-ABSENT -------------------------------------------------
		{
			fn := testH
			ei := errResultIndex(fn)
			lookup := map[ssa.Value]bool{}
			var getErr, helperErr ssa.Value
			var helperFn *ssa.Function
			allInstrs(fn, func(i ssa.Instruction) {
				ci, ok := i.(ssa.CallInstruction)
				if !ok || ci.Value() == nil {
					return
				}
				com := ci.Common()
				switch {
				case isOperationAccessor(com):
					for _, e := range errResultOf(ci) {
						lookup[e] = true
					}
				case b.isFindObjectCall(com):
					for _, ex := range extractOf(ci.Value(), 0) {
						lookup[ex] = true
					}
				case isContainerInvoke(com, "get"):
					for _, e := range errResultOf(ci) {
						lookup[e] = true
						getErr = e
					}
				case isLookupHelper(com.StaticCallee()):
					for _, e := range errResultOf(ci) {
						lookup[e] = true
						helperErr = e
						helperFn = com.StaticCallee()
					}
				}
			})
			nVerdict, nLookup := 0, 0
			for _, r := range liveReturns(fn) {
				v := retVal(r, ei)
				if isNilConst(v) {
					continue
				}
				if why := b.behindExhaustedTypeSwitch(r.Block()); why != "" {
					l.add("R-ERRCHAIN", b.Name, fmt.Sprintf("TF-all: return #%s of the test handler is neither a lookup failure nor a verdict", b.retOrdinal(r)), b.posOf(r), Discharged, why, false)
					continue
				}
				deps := b.controlDeps(r.Block())
				isLookup := false
				depDesc := []string{}
				for _, e := range deps {
					iff, ok := e.From.Instrs[len(e.From.Instrs)-1].(*ssa.If)
					if !ok {
						continue
					}
					depDesc = append(depDesc, b.posOf(iff))
					if condMentions(iff.Cond, lookup, 4) {
						isLookup = true
					}
				}
				ch := a.chain(v, map[ssa.Value]bool{})
				if isLookup {
					nLookup++
					key := fmt.Sprintf("TF-all: lookup-failure return #%s of the test handler does not yield ErrTestFailed", b.retOrdinal(r))
					if ch["S:ErrTestFailed"] {
						l.add("R-ERRCHAIN", b.Name, key, b.posOf(r), Violated, "a return taken because the location could not be looked up (branch at "+strings.Join(depDesc, ", ")+") carries ErrTestFailed: "+ch.String(), true)
					} else {
						l.add("R-ERRCHAIN", b.Name, key, b.posOf(r), Discharged, "controlled by a lookup condition at "+strings.Join(depDesc, ", ")+"; chain "+ch.String(), true)
					}
				} else {
					nVerdict++
					key := fmt.Sprintf("TF-all: comparison-verdict return #%s of the test handler yields ErrTestFailed", b.retOrdinal(r))
					if b.directlyWrapsSentinel(v, "ErrTestFailed") {
						l.add("R-ERRCHAIN", b.Name, key, b.posOf(r), Discharged, "not controlled by any lookup condition (controlled by "+strings.Join(depDesc, ", ")+"); the returned error is ErrTestFailed or wraps it with %w", true)
					} else {
						l.add("R-ERRCHAIN", b.Name, key, b.posOf(r), Violated, "this error return is reached when the comparison came out unequal (it is not controlled by a lookup condition) but does not wrap ErrTestFailed with %w; chain "+ch.String(), true)
					}
				}
			}
			if nVerdict == 0 {
				l.add("R-ERRCHAIN", b.Name, "TF-all: the test handler has a comparison-verdict error return", b.rel(fn.Pos()), Violated, "no error return of the test handler is outside the lookup phase: a failed comparison is never reported", true)
			}
			// TEST-ABSENT: only where partialDoc.get reports an absent member as an error
			pdGet := b.method(b.Lib, "partialDoc", "get")
			if pdGet != nil && a.sum[pdGet]["S:ErrMissing"] {
				key := "TEST-ABSENT: a test against an absent member reaches the comparison"
				if getErr == nil && helperErr != nil {
					// the lookup goes through a helper that also reports an unreachable parent: its error
					// and the member lookup's are both one %w around ErrMissing, so the handler cannot
					// forgive the one (absent member compares as null) without forgiving the other
					if a.sum[helperFn]["S:ErrMissing"] {
						l.add("R-ERRCHAIN", b.Name, key, b.rel(fn.Pos()), Violated, "the test handler takes the looked-up value from "+fname(helperFn)+", whose own \"parent cannot be reached\" error wraps ErrMissing exactly like the member lookup's \"absent member\" error: the tolerance for an absent member also lets a test below an unreachable parent pass (value null) or fail as a comparison", true)
					} else {
						l.add("R-ERRCHAIN", b.Name, key, b.rel(fn.Pos()), Undecided, "lookup through "+fname(helperFn)+": not decided", false)
					}
				} else if getErr == nil {
					l.add("R-ERRCHAIN", b.Name, key, b.rel(fn.Pos()), Undecided, "container.get call not found in the test handler", false)
				} else {
					ok, why := b.testAbsentExcluded(fn, getErr, ei)
					v := Discharged
					if !ok {
						v = Violated
					}
					l.add("R-ERRCHAIN", b.Name, key, b.rel(fn.Pos()), v, why, true)
				}
			}
		}

		// ---- MISSING-parent -------------------------------------------------------
		for _, k := range rfc6902Kinds {
			h := ai.handlers[k]
			if h == nil {
				continue
			}
			ei := errResultIndex(h)
			n := 0
			allInstrs(h, func(i ssa.Instruction) {
				ci, ok := i.(*ssa.Call)
				if !ok || !b.isFindObjectCall(&ci.Call) {
					return
				}
				n++
				key := fmt.Sprintf("MISSING-parent: handler %q, findObject #%d yielding no container -> ErrMissing", k, n)
				exs := extractOf(ci, 0)
				found := false
				for _, ex := range exs {
					for _, t := range nilTests(h, ex) {
						found = true
						errs, nils := errReturnsUnderEdge(h, t.Blk, 1-t.NonNilSucc)
						if len(errs) == 0 {
							l.add("R-ERRCHAIN", b.Name, key, b.posOf(ci), Violated, "the nil-container edge reaches no error return: an unreachable parent location is not reported", true)
							return
						}
						for _, r := range errs {
							if !b.directlyWrapsSentinel(retVal(r, ei), "ErrMissing") {
								l.add("R-ERRCHAIN", b.Name, key, b.posOf(r), Violated, "the error returned when the parent location cannot be reached does not wrap ErrMissing with %w; chain "+a.chain(retVal(r, ei), map[ssa.Value]bool{}).String(), true)
								return
							}
						}
						for _, r := range nils {
							if !b.controlledByOptionField(r.Block(), "AllowMissingPathOnRemove") || k != "remove" {
								l.add("R-ERRCHAIN", b.Name, key, b.posOf(r), Violated, "a nil error is returned although the parent location cannot be reached (and this is not the remove handler's AllowMissingPathOnRemove branch)", true)
								return
							}
						}
						l.add("R-ERRCHAIN", b.Name, key, b.posOf(ci), Discharged, fmt.Sprintf("nil-container edge at %s: %d error return(s), each wrapping ErrMissing; %d option-controlled nil return(s)", b.posOf(t.Blk.Instrs[len(t.Blk.Instrs)-1]), len(errs), len(nils)), true)
						return
					}
				}
				if !found {
					l.add("R-ERRCHAIN", b.Name, key, b.posOf(ci), Violated, "the container returned by findObject is used without a nil test", true)
				}
			})
			// locations resolved inside a lookup helper the handler calls
			for _, hc := range callsTo(h, func(cc *ssa.CallCommon) bool { return isLookupHelper(cc.StaticCallee()) }) {
				hf := hc.Common().StaticCallee()
				for _, fc := range callsTo(hf, func(cc *ssa.CallCommon) bool { return b.isFindObjectCall(cc) }) {
					n++
					key := fmt.Sprintf("MISSING-parent: handler %q, findObject #%d (in %s) yielding no container -> ErrMissing", k, n, fname(hf))
					okH := false
					for _, ex := range extractOf(fc.Value(), 0) {
						for _, t := range nilTests(hf, ex) {
							errs, _ := errReturnsUnderEdge(hf, t.Blk, 1-t.NonNilSucc)
							all := len(errs) > 0
							for _, r := range errs {
								if !b.directlyWrapsSentinel(retVal(r, errResultIndex(hf)), "ErrMissing") {
									all = false
								}
							}
							// and the handler passes the helper's error on
							passes := false
							for _, e := range errResultOf(hc) {
								for _, t2 := range errChecks(e) {
									es, _ := errReturnsUnderEdge(h, t2.Blk, t2.NonNilSucc)
									for _, r := range es {
										if wrapsValue(retVal(r, ei), e) {
											passes = true
										}
									}
								}
							}
							if all && passes {
								okH = true
							}
						}
					}
					if okH {
						l.add("R-ERRCHAIN", b.Name, key, b.posOf(fc), Discharged, "the helper returns an error wrapping ErrMissing on its nil-container edge and the handler wraps (%w) the helper's error", true)
					} else {
						l.add("R-ERRCHAIN", b.Name, key, b.posOf(fc), Violated, "the helper's nil-container edge does not yield ErrMissing, or the handler does not pass the helper's error on with %w", true)
					}
				}
			}
			if n == 0 {
				l.add("R-ERRCHAIN", b.Name, fmt.Sprintf("MISSING-parent: handler %q resolves its location with findObject", k), b.rel(h.Pos()), Undecided, "no findObject call in the handler", false)
			}
		}

		// ---- EnsurePathExistsOnAdd: an existing location on the path that is not a container ----
		if ep := b.roleFn("ensurePathExists"); ep != nil && b.Name == "v5" {
			ei := errResultIndex(ep)
			n := 0
			for _, r := range liveReturns(ep) {
				if ei < 0 {
					break
				}
				v := retVal(r, ei)
				// does the error come from turning a looked-up node into a container?
				from := ""
				var walk func(x ssa.Value, d int)
				seen := map[ssa.Value]bool{}
				walk = func(x ssa.Value, d int) {
					if x == nil || seen[x] || d > 6 {
						return
					}
					seen[x] = true
					switch y := x.(type) {
					case *ssa.Phi:
						for _, e := range y.Edges {
							walk(e, d+1)
						}
					case *ssa.Extract:
						if call, ok := y.Tuple.(*ssa.Call); ok {
							f := call.Call.StaticCallee()
							if f != nil && f.Signature.Recv() != nil && isPtrToNamed(f.Signature.Recv().Type(), "lazyNode") && f.Signature.Results().Len() == 2 {
								if ex, ok := call.Call.Args[0].(*ssa.Extract); ok {
									if c2, ok := ex.Tuple.(*ssa.Call); ok && isContainerInvoke(&c2.Call, "get") {
										from = fname(f)
									}
								}
							}
						}
					case *ssa.Call:
						// the refusal of a container on the path to take the parent created for it:
						// that parent location cannot be reached
						if y.Call.IsInvoke() && (isContainerInvoke(&y.Call, "add") || isContainerInvoke(&y.Call, "set")) {
							from = "container." + y.Call.Method.Name()
							return
						}
						for _, a := range y.Call.Args {
							walk(a, d+1)
						}
					case *ssa.MakeInterface:
						walk(y.X, d+1)
					case *ssa.ChangeInterface:
						walk(y.X, d+1)
					case *ssa.UnOp:
						if al, ok := y.X.(*ssa.Alloc); ok {
							for _, ref := range *al.Referrers() {
								if st, ok := ref.(*ssa.Store); ok && st.Addr == ssa.Value(al) {
									walk(st.Val, d+1)
								}
							}
						}
					case *ssa.Slice:
						walk(y.X, d+1)
					case *ssa.Alloc:
						for _, ref := range *y.Referrers() {
							if ia, ok := ref.(*ssa.IndexAddr); ok {
								for _, r2 := range *ia.Referrers() {
									if st, ok := r2.(*ssa.Store); ok {
										walk(st.Val, d+1)
									}
								}
							}
						}
					}
				}
				walk(v, 0)
				if from == "" {
					continue
				}
				n++
				key := fmt.Sprintf("MISSING-parent: ensurePathExists, existing non-container on the path (#%d) -> ErrMissing", n)
				ch := a.chain(v, map[ssa.Value]bool{})
				if ch["S:ErrMissing"] {
					l.add("R-ERRCHAIN", b.Name, key, b.posOf(r), Discharged, "the failure of "+from+" on the looked-up node is reported with ErrMissing in its chain: "+ch.String(), true)
				} else {
					l.add("R-ERRCHAIN", b.Name, key, b.posOf(r), Violated, "an existing scalar (or null) on the path makes "+from+" fail and its error is returned as it is, chain "+ch.String()+": with EnsurePathExistsOnAdd an add below a scalar fails without ErrMissing, although the same add without the option reports the unreachable parent as ErrMissing", true)
				}
			}
		}

		// ---- the tolerance of test for an absent location is for object members only --
		if pdGet, paGet := b.method(b.Lib, "partialDoc", "get"), b.method(b.Lib, "partialArray", "get"); pdGet != nil && paGet != nil && a.sum[pdGet]["S:ErrMissing"] {
			key := "TEST-ABSENT: (*partialArray).get never reports an index outside the array as ErrMissing"
			if a.sum[paGet]["S:ErrMissing"] {
				where := ""
				for _, r := range liveReturns(paGet) {
					if ei := errResultIndex(paGet); ei >= 0 && a.chain(retVal(r, ei), map[ssa.Value]bool{})["S:ErrMissing"] {
						where = b.posOf(r)
					}
				}
				l.add("R-ERRCHAIN", b.Name, key, where, Violated, "the array lookup can fail with ErrMissing, which the test handler takes for an absent object member and compares as null: `test /5 null` on a three-element array succeeds instead of failing", true)
			} else {
				l.add("R-ERRCHAIN", b.Name, key, b.rel(paGet.Pos()), Discharged, "error chains of the array lookup: "+a.sum[paGet].String(), true)
			}
		}

		// ---- MISSING-member (containers) ------------------------------------------
		for _, fn := range b.srcFuncs(b.Lib) {
			// (set and add create the member they are given: a lookup there asks whether the
			// name is listed already, not whether the location exists)
			if recvTypeName(fn) != "partialDoc" || errResultIndex(fn) < 0 || !isContainerImplMethod(fn) || fn.Name() == "set" || fn.Name() == "add" {
				continue // only the container-interface methods report absence to the handlers
			}
			ei := errResultIndex(fn)
			allInstrs(fn, func(i ssa.Instruction) {
				lk, ok := i.(*ssa.Lookup)
				if !ok || !lk.CommaOk {
					return
				}
				if _, isMap := lk.X.Type().Underlying().(*types.Map); !isMap {
					return
				}
				key := fmt.Sprintf("MISSING-member: %s reports an absent member with ErrMissing", fname(fn))
				for _, ex := range extractOf(lk, 1) {
					for _, bb := range fn.Blocks {
						iff, ok := bb.Instrs[len(bb.Instrs)-1].(*ssa.If)
						if !ok {
							continue
						}
						cv, neg := stripNot(iff.Cond)
						if cv != ssa.Value(ex) {
							continue
						}
						absentSucc := 1
						if neg {
							absentSucc = 0
						}
						errs, nils := errReturnsUnderEdge(fn, bb, absentSucc)
						if len(errs) == 0 {
							l.add("R-ERRCHAIN", b.Name, key, b.posOf(lk), Violated, "the member-absent edge reaches no error return", true)
							return
						}
						for _, r := range errs {
							if !b.directlyWrapsSentinel(retVal(r, ei), "ErrMissing") {
								l.add("R-ERRCHAIN", b.Name, key, b.posOf(r), Violated, "the error returned for an absent member does not wrap ErrMissing with %w; chain "+a.chain(retVal(r, ei), map[ssa.Value]bool{}).String(), true)
								return
							}
						}
						for _, r := range nils {
							if !b.controlledByOptionField(r.Block(), "AllowMissingPathOnRemove") {
								l.add("R-ERRCHAIN", b.Name, key, b.posOf(r), Violated, "a nil error is returned for an absent member outside the AllowMissingPathOnRemove branch", true)
								return
							}
						}
						l.add("R-ERRCHAIN", b.Name, key, b.posOf(lk), Discharged, fmt.Sprintf("comma-ok false edge: %d error return(s) wrapping ErrMissing, %d option-controlled nil return(s)", len(errs), len(nils)), true)
						return
					}
				}
			})
		}

		// ---- MISSING-member (handlers wrap what the container reports) --------------
		for _, k := range rfc6902Kinds {
			h := ai.handlers[k]
			if h == nil {
				continue
			}
			ei := errResultIndex(h)
			for _, m := range []string{"get", "set", "add", "remove"} {
				for n, ci := range containerCalls(h, m) {
					if k == "test" && m == "get" {
						continue // TEST-ABSENT
					}
					key := fmt.Sprintf("MISSING-member: handler %q passes on the error of container.%s #%d", k, m, n+1)
					errsV := errResultOf(ci)
					if len(errsV) == 0 {
						l.add("R-ERRCHAIN", b.Name, key, b.posOf(ci), Violated, "the error result of container."+m+" is dropped", true)
						continue
					}
					e := errsV[0]
					tests := nilTests(h, e)
					if len(tests) == 0 {
						l.add("R-ERRCHAIN", b.Name, key, b.posOf(ci), Violated, "the error result of container."+m+" is never tested", true)
						continue
					}
					verdict, fact := Discharged, ""
					for _, t := range tests {
						if t.Chain {
							continue // judged at the test of the merged error, which is in the list too
						}
						errs, nils := errReturnsUnderEdge(h, t.Blk, t.NonNilSucc)
						if k == "remove" && m == "remove" {
							// the remove handler may forgive an absent target under its option
							var rest []*ssa.Return
							for _, r := range nils {
								if !b.controlledByOptionField(r.Block(), "AllowMissingPathOnRemove") {
									rest = append(rest, r)
								}
							}
							nils = rest
						}
						if len(errs) == 0 || len(nils) > 0 {
							verdict, fact = Violated, "the non-nil edge of the error test at "+b.posOf(t.Blk.Instrs[len(t.Blk.Instrs)-1])+" does not always return an error"
							break
						}
						for _, r := range errs {
							rv := retVal(r, ei)
							if !wrapsValue(rv, e) && !b.directlyWrapsSentinel(rv, "ErrMissing") {
								verdict, fact = Violated, "the return at "+b.posOf(r)+" neither is/wraps (%w) the container's error nor wraps ErrMissing: errors.Is(err, ErrMissing) is lost for an absent member; chain "+a.chain(rv, map[ssa.Value]bool{}).String()
							}
						}
						if fact == "" {
							fact = fmt.Sprintf("error tested at %s; %d return(s) on the non-nil edge, each the error itself, a %%w wrapping of it, or a %%w wrapping of ErrMissing", b.posOf(t.Blk.Instrs[len(t.Blk.Instrs)-1]), len(errs))
						}
					}
					l.add("R-ERRCHAIN", b.Name, key, b.posOf(ci), verdict, fact, true)
				}
			}
		}

		// ---- ACS-only ---------------------------------------------------------------
		{
			ctors := map[*ssa.Function]bool{}
			for _, fn := range b.srcFuncs(b.Lib) {
				allInstrs(fn, func(i ssa.Instruction) {
					if al, ok := i.(*ssa.Alloc); ok && isPtrToNamed(al.Type(), "AccumulatedCopySizeError") {
						ctors[fn] = true
					}
				})
			}
			key := "ACS-only: *AccumulatedCopySizeError is built only by its constructor, called only from the copy handler"
			if len(ctors) == 0 {
				l.add("R-ERRCHAIN", b.Name, key, "", Undecided, "no allocation of AccumulatedCopySizeError found", false)
			} else {
				bad := ""
				var sites []string
				for ct := range ctors {
					if _, isH := handlerOf[ct]; isH && ct != copyH {
						bad = "allocated in handler " + fname(ct)
					}
					if ct == copyH {
						continue
					}
					for _, fn := range b.srcFuncs(b.Lib) {
						for _, cs := range callsTo(fn, func(cc *ssa.CallCommon) bool { return cc.StaticCallee() == ct }) {
							sites = append(sites, fname(fn)+"@"+b.posOf(cs))
							if fn != copyH && !b.onlyCalledFrom(fn, copyH) {
								bad = "constructor " + fname(ct) + " is called from " + fname(fn) + " at " + b.posOf(cs)
							}
						}
					}
				}
				sort.Strings(sites)
				if bad != "" {
					l.add("R-ERRCHAIN", b.Name, key, "", Violated, bad, true)
				} else {
					l.add("R-ERRCHAIN", b.Name, key, b.rel(copyH.Pos()), Discharged, "construction sites: "+strings.Join(sites, ", "), true)
				}
			}
			for _, k := range rfc6902Kinds {
				h := ai.handlers[k]
				if h == nil || k == "copy" {
					continue
				}
				key := fmt.Sprintf("ACS-only: handler %q never yields *AccumulatedCopySizeError", k)
				if a.sum[h]["T:*jsonpatch.AccumulatedCopySizeError"] {
					l.add("R-ERRCHAIN", b.Name, key, b.rel(h.Pos()), Violated, "chain "+a.sum[h].String(), true)
				} else {
					l.add("R-ERRCHAIN", b.Name, key, b.rel(h.Pos()), Discharged, "chain "+a.sum[h].String(), true)
				}
			}
			key = "ACS-only: the copy handler can yield *AccumulatedCopySizeError"
			if a.sum[copyH]["T:*jsonpatch.AccumulatedCopySizeError"] {
				l.add("R-ERRCHAIN", b.Name, key, b.rel(copyH.Pos()), Discharged, "chain "+a.sum[copyH].String(), true)
			} else {
				l.add("R-ERRCHAIN", b.Name, key, b.rel(copyH.Pos()), Violated, "no error return of the copy handler carries *AccumulatedCopySizeError (errors.As can never succeed): chain "+a.sum[copyH].String(), true)
			}
		}
		// census for the evidence
		nret := 0
		for _, fn := range b.srcFuncs(b.Lib) {
			ei := errResultIndex(fn)
			if ei < 0 {
				continue
			}
			for _, r := range liveReturns(fn) {
				if !isNilConst(retVal(r, ei)) {
					nret++
				}
			}
		}
		l.stat("R-ERRCHAIN").Extra[b.Name+"_non_nil_error_returns_classified"] = nret
	}
}

// controlledByOptionField: block bb is (transitively) control dependent on a
// branch whose condition is a load of field `field` (of the options struct or,
// in the legacy body, of nothing — legacy has no such option).
func (b *Body) controlledByOptionField(bb *ssa.BasicBlock, field string) bool {
	for _, e := range b.controlDepsTransitive(bb) {
		iff, ok := e.From.Instrs[len(e.From.Instrs)-1].(*ssa.If)
		if !ok {
			continue
		}
		cv, neg := stripNot(iff.Cond)
		ld, ok := cv.(*ssa.UnOp)
		if !ok || ld.Op != token.MUL {
			continue
		}
		if g, isG := ld.X.(*ssa.Global); isG {
			// the option as a package-level switch of that name (the legacy package's style)
			if g.Pkg != b.Lib || g.Name() != field {
				continue
			}
		} else {
			fa, ok := ld.X.(*ssa.FieldAddr)
			if !ok {
				continue
			}
			if fieldName(fa.X.Type(), fa.Field) != field {
				continue
			}
		}
		// the block must be on the option-true side
		want := 0
		if neg {
			want = 1
		}
		if e.Succ == want {
			return true
		}
	}
	return false
}

// testAbsentExcluded: every error return of the test handler that is taken
// because container.get failed is additionally controlled by a condition
// that excludes ErrMissing (err / errors.Unwrap(err) != ErrMissing, or
// !errors.Is(err, ErrMissing)).
func (b *Body) testAbsentExcluded(fn *ssa.Function, getErr ssa.Value, ei int) (bool, string) {
	vals := map[ssa.Value]bool{getErr: true}
	tests := nilTests(fn, getErr)
	if len(tests) == 0 {
		return false, "the error of container.get is never tested in the test handler"
	}
	n := 0
	for _, t := range tests {
		for _, r := range liveReturns(fn) {
			if !edgeDominates(t.Blk, t.NonNilSucc, r.Block()) {
				continue
			}
			n++
			if isNilConst(retVal(r, ei)) {
				return false, "the return at " + b.posOf(r) + " reports success whenever container.get fails"
			}
			excl := false
			for _, x := range fn.Blocks {
				iff, ok := x.Instrs[len(x.Instrs)-1].(*ssa.If)
				if !ok {
					continue
				}
				for si := range x.Succs {
					if edgeDominates(x, si, r.Block()) && b.excludesMissingOnEdge(iff.Cond, si, vals) {
						excl = true
					}
				}
			}
			if !excl {
				return false, "the return at " + b.posOf(r) + " is taken whenever container.get fails, including for an absent member (ErrMissing): the test fails with a lookup error instead of comparing the absent member as null"
			}
		}
	}
	return true, fmt.Sprintf("%d return(s) lie under the non-nil edge of container.get's error test, each also under an edge that excludes ErrMissing (err / errors.Unwrap(err) != ErrMissing or !errors.Is)", n)
}

// excludesMissingOnEdge: taking successor succ of a branch on cond implies
// the get error is not ErrMissing.
func (b *Body) excludesMissingOnEdge(cond ssa.Value, succ int, vals map[ssa.Value]bool) bool {
	cv, neg := stripNot(cond)
	isMissing := func(x ssa.Value) bool {
		g := sentinelGlobal(unwrapConv(x))
		return g != nil && g.Name() == "ErrMissing"
	}
	derived := func(x ssa.Value) bool { return condMentions(x, vals, 2) }
	switch x := cv.(type) {
	case *ssa.BinOp:
		if x.Op != token.NEQ && x.Op != token.EQL {
			return false
		}
		if !((isMissing(x.X) && derived(x.Y)) || (isMissing(x.Y) && derived(x.X))) {
			return false
		}
		neqOnTrue := x.Op == token.NEQ
		if neg {
			neqOnTrue = !neqOnTrue
		}
		return (succ == 0) == neqOnTrue
	case *ssa.Call:
		if staticCalleeIs(&x.Call, "errors", "Is") && len(x.Call.Args) == 2 && derived(x.Call.Args[0]) && isMissing(x.Call.Args[1]) {
			isOnTrue := !neg
			return (succ == 0) != isOnTrue
		}
	}
	return false
}

// ---- R-NULLSPELL --------------------------------------------------------------------

func init() {
	register(&Rule{ID: "R-NULLSPELL", Doc: "JSON null has two spellings inside a document (a nil node for a decoded null, a non-nil node whose text is `null` for a null stored by add/replace): in the test handler every verdict taken on the side where the looked-up node is non-nil consults that node's content (a boolean lazyNode method with the node as receiver or argument) — it is never decided from the expected value alone, which would make a stored null differ from null",
		Run: ruleNullSpell, Min: map[string]int{"v5": 2}})
}

func ruleNullSpell(c *Ctx) {
	for _, b := range c.bodies() {
		nullSpellComparison(c, b)
		nullSpellHandler(c, b)
		nullProbes(c, b)
		b.textlessNullOnlyWhenRaw(c.L)
	}
}

// nullSpellHandler: in the test handler every verdict taken where the
// looked-up node is non-nil consults that node (a comparison method with the
// node as receiver or argument): a null stored by add/replace is a non-nil
// node and must still be seen as null.
func nullSpellHandler(c *Ctx, b *Body) {
	l := c.L
	ai := b.findApply()
	if ai == nil || ai.handlers["test"] == nil {
		l.add("R-NULLSPELL", b.Name, "anchor test handler", "", Undecided, "test handler not found", false)
		return
	}
	fn := ai.handlers["test"]
	var val ssa.Value
	for _, g := range containerCalls(fn, "get") {
		for _, ex := range extractOf(g.Value(), 0) {
			val = ex
		}
	}
	if val == nil {
		l.add("R-NULLSPELL", b.Name, "anchor looked-up node", b.rel(fn.Pos()), Undecided, "the test handler does not look the target up with container.get", false)
		return
	}
	tests := nilTests(fn, val)
	if len(tests) == 0 {
		l.add("R-NULLSPELL", b.Name, "test handler: the looked-up node is compared with nil", b.rel(fn.Pos()), Discharged, "no nil test on the looked-up node: every verdict goes through the comparison methods, which handle both spellings", true)
	}
	n := 0
	for _, t := range tests {
		// blocks that can run with the node known to be non-nil: reachable from the non-nil edge
		fromNonNil := map[*ssa.BasicBlock]bool{}
		var mark func(bb *ssa.BasicBlock)
		mark = func(bb *ssa.BasicBlock) {
			if fromNonNil[bb] {
				return
			}
			fromNonNil[bb] = true
			for _, sx := range bb.Succs {
				mark(sx)
			}
		}
		mark(t.Blk.Succs[t.NonNilSucc])
		for _, r := range liveReturns(fn) {
			if !fromNonNil[r.Block()] {
				continue
			}
			n++
			key := fmt.Sprintf("test handler: verdict #%d on the non-nil side consults the looked-up node's content", n)
			consults := false
			onlyAbsentValue := false
			for _, e := range b.controlDepsTransitive(r.Block()) {
				iff, ok := e.From.Instrs[len(e.From.Instrs)-1].(*ssa.If)
				if !ok {
					continue
				}
				cv, _ := stripNot(iff.Cond)
				isConsult := func(v ssa.Value) bool {
					call, ok := v.(*ssa.Call)
					if !ok || !isLazyNodeBoolMethod(&call.Call) {
						return false
					}
					for _, a := range call.Call.Args {
						if a == val {
							return true
						}
					}
					return false
				}
				if isConsult(cv) {
					consults = true
				}
				// a verdict variable: on every edge that comes from the non-nil side it holds a comparison of the node
				if phi, ok := cv.(*ssa.Phi); ok {
					all, any := true, false
					nilSide := map[*ssa.BasicBlock]bool{}
					var markNil func(bb *ssa.BasicBlock)
					markNil = func(bb *ssa.BasicBlock) {
						if nilSide[bb] || bb == phi.Block() {
							return
						}
						nilSide[bb] = true
						for _, sx := range bb.Succs {
							markNil(sx)
						}
					}
					markNil(t.Blk.Succs[1-t.NonNilSucc])
					for i, e := range phi.Edges {
						p := phi.Block().Preds[i]
						if !fromNonNil[p] || nilSide[p] {
							continue
						}
						any = true
						if !isConsult(e) {
							all = false
						}
					}
					if any && all {
						consults = true
					}
				}
				// the operation has no value member at all (the accessor's result itself is nil)
				if x, nnTrue, ok := nilTestOfCond(iff.Cond); ok {
					if call, ok := x.(*ssa.Call); ok && call.Call.StaticCallee() != nil && recvTypeName(call.Call.StaticCallee()) == "Operation" && isPtrToNamed(call.Type(), "lazyNode") {
						nilSucc := 1
						if !nnTrue {
							nilSucc = 0
						}
						if e.Succ == nilSucc {
							onlyAbsentValue = true
						}
					}
				}
			}
			switch {
			case consults:
				l.add("R-NULLSPELL", b.Name, key, b.posOf(r), Discharged, "controlled by a comparison method applied to the looked-up node", true)
			case onlyAbsentValue && b.Name == "legacy":
				l.add("R-NULLSPELL", b.Name, key, b.posOf(r), Excepted, "reached only when the operation has no value member at all (the accessor returns a nil node): RFC 6902 requires the member for test, and C18 promises nothing for such a patch", true)
			default:
				l.add("R-NULLSPELL", b.Name, key, b.posOf(r), Violated, "this verdict is reached with a non-nil looked-up node without looking at its content: a null stored by an earlier add/replace (a non-nil node) is treated as different from null, so `add /b null` followed by `test /b null` fails", true)
			}
		}
	}
}

// nullSpellComparison: inside the recursive comparison, null has more than
// one spelling (a nil node for a decoded null; a non-nil node — whose text is
// `null` in v5, whose raw is nil in the legacy package — for one stored by
// add/replace). No "different" verdict may be taken from nil-ness alone:
// neither from the nil-ness of member/element nodes in the loops, nor, in the
// prologue, from one operand being nil while the other is not.
func nullSpellComparison(c *Ctx, b *Body) {
	l := c.L
	cmp := b.equalRole()
	if cmp == nil || cmp.Blocks == nil {
		return
	}
	name := b.canonFname(cmp)
	key := fmt.Sprintf("%s: no `different` verdict is taken from the nil-ness of member or element nodes", name)
	bad := ""
	isMemberNode := func(v ssa.Value) bool {
		switch x := v.(type) {
		case *ssa.Extract:
			switch x.Tuple.(type) {
			case *ssa.Next, *ssa.Lookup:
				return isPtrToNamed(x.Type(), "lazyNode")
			}
		case *ssa.Lookup:
			return isPtrToNamed(x.Type(), "lazyNode")
		case *ssa.UnOp:
			if _, ok := x.X.(*ssa.IndexAddr); ok {
				return isPtrToNamed(x.Type(), "lazyNode")
			}
		}
		return false
	}
	var mentions func(v ssa.Value, d int, pred func(ssa.Value) bool) bool
	mentions = func(v ssa.Value, d int, pred func(ssa.Value) bool) bool {
		if v == nil || d > 5 {
			return false
		}
		if pred(v) {
			return true
		}
		switch x := v.(type) {
		case *ssa.BinOp:
			return mentions(x.X, d+1, pred) || mentions(x.Y, d+1, pred)
		case *ssa.UnOp:
			return mentions(x.X, d+1, pred)
		case *ssa.Phi:
			for _, e := range x.Edges {
				if mentions(e, d+1, pred) {
					return true
				}
			}
			for _, p := range x.Block().Preds {
				if iff, ok := p.Instrs[len(p.Instrs)-1].(*ssa.If); ok && mentions(iff.Cond, d+1, pred) {
					return true
				}
			}
			if id := x.Block().Idom(); id != nil {
				if iff, ok := id.Instrs[len(id.Instrs)-1].(*ssa.If); ok && mentions(iff.Cond, d+1, pred) {
					return true
				}
			}
		}
		return false
	}
	memberNil := func(v ssa.Value) bool {
		x, _, ok := nilTestOfCond(v)
		return ok && isMemberNode(x)
	}
	for _, r := range liveReturns(cmp) {
		k, isK := boolConst(retVal(r, 0))
		if !isK || k {
			continue
		}
		for _, e := range b.controlDeps(r.Block()) {
			if iff, ok := e.From.Instrs[len(e.From.Instrs)-1].(*ssa.If); ok && mentions(iff.Cond, 0, memberNil) {
				bad = "`return false` at " + b.posOf(r) + " is decided by whether member/element nodes are nil: a null stored by add/replace (a non-nil node) then differs from a decoded null (nil node), so `add /o/a null` followed by `test /o {\"a\":null}` fails"
			}
		}
	}
	if bad != "" {
		l.add("R-NULLSPELL", b.Name, key, b.rel(cmp.Pos()), Violated, bad, true)
	} else {
		l.add("R-NULLSPELL", b.Name, key, b.rel(cmp.Pos()), Discharged, "member and element nodes are compared through the comparison method itself", true)
	}
	// prologue: a verdict computed where an operand is nil also looks at the other operand's content
	key = fmt.Sprintf("%s: when one operand is the nil node, the verdict looks at the content of the other", name)
	isOperand := func(v ssa.Value) bool {
		p, ok := v.(*ssa.Parameter)
		return ok && p.Parent() == cmp && isPtrToNamed(p.Type(), "lazyNode")
	}
	operandNil := func(v ssa.Value) bool {
		x, _, ok := nilTestOfCond(v)
		return ok && isOperand(x)
	}
	content := func(v ssa.Value) bool {
		switch x := v.(type) {
		case *ssa.Call:
			for _, a := range x.Call.Args {
				if isOperand(a) {
					return true
				}
			}
		case *ssa.UnOp:
			if fa, ok := x.X.(*ssa.FieldAddr); ok && isOperand(fa.X) {
				return true
			}
		}
		if bo, ok := v.(*ssa.BinOp); ok {
			for _, o := range []ssa.Value{bo.X, bo.Y} {
				if u, ok := o.(*ssa.UnOp); ok {
					if fa, ok := u.X.(*ssa.FieldAddr); ok && isOperand(fa.X) {
						return true
					}
				}
			}
		}
		return false
	}
	bad = ""
	n := 0
	for _, r := range liveReturns(cmp) {
		v := retVal(r, 0)
		if _, isK := boolConst(v); isK {
			continue
		}
		if !mentions(v, 0, operandNil) {
			continue
		}
		n++
		if !mentions(v, 0, content) {
			bad = "the verdict returned at " + b.posOf(r) + " is computed from the nil-ness of the two operands alone: a null stored by add/replace (a non-nil node) differs from a decoded null (the nil node), so after `add /b null` a test of the enclosing object against {…,\"b\":null} fails"
		}
	}
	if bad != "" {
		l.add("R-NULLSPELL", b.Name, key, b.rel(cmp.Pos()), Violated, bad, true)
	} else if n > 0 {
		l.add("R-NULLSPELL", b.Name, key, b.rel(cmp.Pos()), Discharged, fmt.Sprintf("%d verdict(s) on the nil-operand path, each also reading the other operand's state", n), true)
	}
}

// nullProbes (R-NULLSPELL): a null can be kept as text — the copy operation re-encodes a null
// member into a node holding `null`. The decoder accepts that text into a map or slice
// without an error and leaves the target nil, so a container probe that only looks at the
// decoder's error takes null for an empty object or array: a copied null then tests equal
// to {} and unequal to null. For every probe the comparison applies to an operand, one of
//
//	(a) the probe refuses the text: after decoding it tests the decoded field for nil and
//	    answers false;
//	(b) the call is reached only on the non-null edge of a test of the operand's text
//	    against the literal null (bytes.Equal(compact, "null"), directly or in a bool method);
//	(c) the comparison itself tests the decoded field of that operand for nil.
func nullProbes(c *Ctx, b *Body) {
	l := c.L
	eq := b.equalRole()
	if eq == nil {
		return
	}
	// probes: bool methods of the node that store `which`, with the field they decode into
	type probeInfo struct {
		field   string
		refuses bool
	}
	probes := map[*ssa.Function]probeInfo{}
	for _, f := range b.srcFuncs(b.Lib) {
		if f.Signature.Recv() == nil || !isPtrToNamed(f.Signature.Recv().Type(), "lazyNode") || f.Signature.Params().Len() != 0 {
			continue
		}
		if f.Signature.Results().Len() != 1 || typeShort(f.Signature.Results().At(0).Type()) != "bool" {
			continue
		}
		stores := false
		field := ""
		allInstrs(f, func(i ssa.Instruction) {
			if st, ok := i.(*ssa.Store); ok {
				if fa, ok := st.Addr.(*ssa.FieldAddr); ok && fieldName(fa.X.Type(), fa.Field) == "which" {
					stores = true
				}
			}
			if ci, ok := i.(ssa.CallInstruction); ok {
				for _, a := range ci.Common().Args {
					if mi, ok := a.(*ssa.MakeInterface); ok {
						a = mi.X
					}
					if fa, ok := a.(*ssa.FieldAddr); ok && fa.X == ssa.Value(f.Params[0]) {
						fn := fieldName(fa.X.Type(), fa.Field)
						if fn != "which" && fn != "raw" {
							field = fn
						}
					}
				}
			}
		})
		if !stores || field == "" {
			continue
		}
		// (a) a nil test of the decoded field whose nil edge returns false
		refuses := false
		for _, bb := range f.Blocks {
			iff, ok := lastInstr(bb).(*ssa.If)
			if !ok {
				continue
			}
			x, nnTrue, isNil := nilTestOfCond(iff.Cond)
			if !isNil {
				continue
			}
			base, fr, ok := fieldLoad(x)
			if !ok || base != ssa.Value(f.Params[0]) || fr.Field != field {
				continue
			}
			nilSucc := 0
			if nnTrue {
				nilSucc = 1
			}
			if returnsConst(bb.Succs[nilSucc], false) {
				refuses = true
			}
		}
		probes[f] = probeInfo{field, refuses}
	}
	// null-text tests: bytes.Equal(compact(x), <fixed text>) in eq, or a bool method of the node that contains one on its receiver
	isNullTextFn := map[*ssa.Function]bool{}
	hasNullCompare := func(f *ssa.Function, recv ssa.Value) bool {
		found := false
		allInstrs(f, func(i ssa.Instruction) {
			// string(compact(recv)) == "null"
			if bo, ok := i.(*ssa.BinOp); ok && (bo.Op == token.EQL || bo.Op == token.NEQ) {
				for _, pr := range [][2]ssa.Value{{bo.X, bo.Y}, {bo.Y, bo.X}} {
					cv, ok1 := pr[0].(*ssa.Convert)
					_, ok2 := pr[1].(*ssa.Const)
					if !ok1 || !ok2 || !isByteSlice(cv.X.Type()) {
						continue
					}
					if cc, ok := cv.X.(*ssa.Call); ok && len(cc.Call.Args) > 0 && cc.Call.Args[0] == recv {
						found = true
					}
				}
			}
			call, ok := i.(*ssa.Call)
			if !ok {
				return
			}
			g := call.Call.StaticCallee()
			if g == nil || g.Pkg == nil || g.Pkg.Pkg.Path() != "bytes" || g.Name() != "Equal" {
				return
			}
			for k := 0; k < 2; k++ {
				cc, ok := call.Call.Args[k].(*ssa.Call)
				if !ok || len(cc.Call.Args) == 0 || cc.Call.Args[0] != recv {
					continue
				}
				other := call.Call.Args[1-k]
				if _, isCall := other.(*ssa.Call); !isCall {
					found = true
				}
			}
		})
		return found
	}
	for _, f := range b.srcFuncs(b.Lib) {
		if f.Signature.Recv() != nil && isPtrToNamed(f.Signature.Recv().Type(), "lazyNode") && f.Signature.Params().Len() == 0 && f.Signature.Results().Len() == 1 && typeShort(f.Signature.Results().At(0).Type()) == "bool" {
			if _, isProbe := probes[f]; !isProbe && hasNullCompare(f, f.Params[0]) {
				isNullTextFn[f] = true
			}
		}
	}
	n := 0
	allInstrs(eq, func(i ssa.Instruction) {
		call, ok := i.(*ssa.Call)
		if !ok {
			return
		}
		pf := call.Call.StaticCallee()
		pi, isProbe := probes[pf]
		if !isProbe {
			return
		}
		n++
		x := call.Call.Args[0]
		key := fmt.Sprintf("%s: probe %s #%d does not take a null kept as text for an empty container", b.canonFname(eq), fname(pf), n)
		if pi.refuses {
			l.add("R-NULLSPELL", b.Name, key, b.posOf(call), Discharged, "(a) the probe tests the decoded "+pi.field+" for nil and answers false: the text null is refused", true)
			return
		}
		// (b)
		for _, bb := range eq.Blocks {
			iff, ok := lastInstr(bb).(*ssa.If)
			if !ok {
				continue
			}
			cv, neg := stripNot(iff.Cond)
			tc, ok := cv.(*ssa.Call)
			if !ok || len(tc.Call.Args) == 0 {
				continue
			}
			same := tc.Call.Args[0] == x
			if !same {
				// the operand may have been replaced by a scratch copy of itself: accept a test of
				// the value the scratch copy was made from
				if phi, ok := x.(*ssa.Phi); ok {
					for _, e := range phi.Edges {
						if e == tc.Call.Args[0] {
							same = true
						}
					}
				}
			}
			if !same || !isNullTextFn[tc.Call.StaticCallee()] {
				continue
			}
			fe := 1
			if neg {
				fe = 0
			}
			if edgeDominates(bb, fe, call.Block()) {
				l.add("R-NULLSPELL", b.Name, key, b.posOf(call), Discharged, "(b) reached only on the not-null edge of "+fname(tc.Call.StaticCallee())+" at "+b.posOf(iff)+", which compares the operand's text with the literal null", true)
				return
			}
		}
		// (c)
		for _, bb := range eq.Blocks {
			iff, ok := lastInstr(bb).(*ssa.If)
			if !ok {
				continue
			}
			v, _, isNil := nilTestOfCond(iff.Cond)
			if !isNil {
				continue
			}
			base, fr, ok := fieldLoad(v)
			if !ok || fr.Field != pi.field {
				continue
			}
			if base == x || sameOperand(base, x) {
				l.add("R-NULLSPELL", b.Name, key, b.posOf(call), Discharged, "(c) the comparison tests "+pi.field+" of this operand for nil at "+b.posOf(iff)+": a null that the probe let through is told from an empty container", true)
				return
			}
		}
		l.add("R-NULLSPELL", b.Name, key, b.posOf(call), Violated, "the probe decodes the operand's text into "+pi.field+" and only looks at the decoder's error; the text null decodes without one, leaving "+pi.field+" nil: a null kept as text (what the copy operation makes of a null member) is compared as an empty container — it tests equal to {} and unequal to null", true)
	})
}

// sameOperand: two SSA values that denote the same comparison operand (one is a phi over the other).
func sameOperand(x, y ssa.Value) bool {
	if x == y {
		return true
	}
	for _, pr := range [][2]ssa.Value{{x, y}, {y, x}} {
		if phi, ok := pr[0].(*ssa.Phi); ok {
			for _, e := range phi.Edges {
				if e == pr[1] {
					return true
				}
			}
		}
	}
	return false
}

// behindExhaustedTypeSwitch: control reaches blk only after a value of a library interface
// type has failed the type assertion to every library type that implements the interface —
// the default arm of a type switch that names them all. Only the nil interface gets there,
// which the root-slot obligations of R-TYPESTATE exclude for the document.
func (b *Body) behindExhaustedTypeSwitch(blk *ssa.BasicBlock) string {
	failed := map[ssa.Value][]types.Type{}
	for _, f := range dominatingFacts(blk) {
		if f.True {
			continue
		}
		ex, ok := f.V.(*ssa.Extract)
		if !ok || ex.Index != 1 {
			continue
		}
		ta, ok := ex.Tuple.(*ssa.TypeAssert)
		if !ok || !ta.CommaOk {
			continue
		}
		failed[ta.X] = append(failed[ta.X], ta.AssertedType)
	}
	for x, ts := range failed {
		named, ok := x.Type().(*types.Named)
		if !ok || named.Obj().Pkg() != b.Lib.Pkg {
			continue
		}
		iface, ok := named.Underlying().(*types.Interface)
		if !ok || iface.NumMethods() == 0 {
			continue
		}
		n, all := 0, true
		for _, m := range b.Lib.Members {
			tn, ok := m.(*ssa.Type)
			if !ok {
				continue
			}
			for _, cand := range []types.Type{tn.Type(), types.NewPointer(tn.Type())} {
				if types.IsInterface(cand) || !types.Implements(cand, iface) {
					continue
				}
				n++
				hit := false
				for _, t := range ts {
					if types.Identical(t, cand) {
						hit = true
					}
				}
				if !hit {
					// a value type whose pointer type was asserted does not occur on its own
					if _, isPtr := cand.(*types.Pointer); !isPtr && types.Implements(types.NewPointer(cand), iface) {
						n--
						continue
					}
					all = false
				}
			}
		}
		if n > 0 && all {
			return fmt.Sprintf("reached only after a %s failed the assertion to each of the %d types that implement it: the default arm of an exhaustive type switch", named.Obj().Name(), n)
		}
	}
	return ""
}

// onlyCalledFrom: fn is an unexported library function that is never used as a value and whose
// every call sits in `from` (the budget method of the copy handler, say).
func (b *Body) onlyCalledFrom(fn, from *ssa.Function) bool {
	if fn == nil || from == nil || token.IsExported(fn.Name()) {
		return false
	}
	n := 0
	ok := true
	for _, g := range b.srcFuncs(b.Lib) {
		allInstrs(g, func(i ssa.Instruction) {
			for _, op := range i.Operands(nil) {
				if *op != ssa.Value(fn) {
					continue
				}
				ci, isCall := i.(ssa.CallInstruction)
				if !isCall || ci.Common().Value != ssa.Value(fn) || g != from {
					ok = false
					continue
				}
				n++
			}
		})
	}
	return ok && n > 0
}

// unwrapMethodOf: the `Unwrap() error` method of a library error type (pointer or value receiver).
func (b *Body) unwrapMethodOf(t types.Type) *ssa.Function {
	n := derefNamed(t)
	if n == nil {
		if nn, ok := t.(*types.Named); ok {
			n = nn
		}
	}
	if n == nil || n.Obj().Pkg() != b.Lib.Pkg {
		return nil
	}
	// the method set of the dynamic type as it is: a value of T does not have the methods
	// declared on *T, so errors.Is cannot unwrap it through one of those
	for _, recv := range []types.Type{t} {
		ms := b.Lib.Prog.MethodSets.MethodSet(recv)
		if sel := ms.Lookup(b.Lib.Pkg, "Unwrap"); sel != nil {
			if f := b.Lib.Prog.MethodValue(sel); f != nil && len(f.Blocks) > 0 {
				if sig := f.Signature; sig.Params().Len() == 0 && sig.Results().Len() == 1 && isErrorType(sig.Results().At(0).Type()) {
					return f
				}
			}
		}
	}
	return nil
}

// methodOfErrorBuiltOnlyIn: fn is a method of a library error type every value of which is
// built in `only` (or in a function called from nowhere else): what the method reads belongs
// to errors that function makes.
func (b *Body) methodOfErrorBuiltOnlyIn(fn, only *ssa.Function) bool {
	if fn.Signature.Recv() == nil {
		return false
	}
	n := derefNamed(fn.Signature.Recv().Type())
	if n == nil {
		if nn, ok := fn.Signature.Recv().Type().(*types.Named); ok {
			n = nn
		}
	}
	if n == nil || n.Obj().Pkg() != b.Lib.Pkg {
		return false
	}
	built := 0
	ok := true
	for _, g := range b.srcFuncs(b.Lib) {
		allInstrs(g, func(i ssa.Instruction) {
			al, isAl := i.(*ssa.Alloc)
			if !isAl {
				return
			}
			if dn := derefNamed(al.Type()); dn == nil || dn.Obj() != n.Obj() {
				return
			}
			built++
			if g != only && !b.onlyCalledFrom(g, only) {
				ok = false
			}
		})
	}
	return ok && built > 0
}

// fieldStores: every store, anywhere in the library, into the given field of the given type.
func (b *Body) fieldStores(fr fieldRef) []*ssa.Store {
	var out []*ssa.Store
	for _, fn := range b.srcFuncs(b.Lib) {
		allInstrs(fn, func(i ssa.Instruction) {
			if st, ok := i.(*ssa.Store); ok {
				if fa, ok := st.Addr.(*ssa.FieldAddr); ok && fieldOfAddr(fa) == fr {
					out = append(out, st)
				}
			}
		})
	}
	return out
}
