package main

// RFC 6902 mechanics: R-DISPATCH, R-RETSHAPE, R-REPLACE, R-MOVE, R-COPYISO.

import (
	"fmt"
	"go/token"
	"go/types"
	"sort"
	"strings"

	"golang.org/x/tools/go/ssa"
)

func init() {
	register(&Rule{ID: "R-DISPATCH", Doc: "the apply loop's dispatch table, the validator's decision table (extracted by partial evaluation per kind) and RFC 6902 §4 agree; the validator's verdict cannot be bypassed or dropped on the way out of DecodePatch",
		Run: ruleDispatch, Min: map[string]int{"v5": 16, "legacy": 8}})
	register(&Rule{ID: "R-RETSHAPE", Doc: "every return of Apply*/DecodePatch/merge entry points has a nil value or a nil error (tuple pass-through only from functions that satisfy the same rule); the apply loop tests the handler's error before the back edge and returns on it",
		Run: ruleRetShape, Min: map[string]int{"v5": 20, "legacy": 12}})
	register(&Rule{ID: "R-REPLACE", Doc: "every container.set call whose receiver may be an array is dominated by the success edge of container.get on the same container and key values",
		Run: ruleReplace, Min: map[string]int{"v5": 1, "legacy": 1}})
	register(&Rule{ID: "R-MOVE", Doc: "move = get, then remove of the same container/key, then resolution of the destination, then add of the value that get returned; the source get's error edge returns before remove",
		Run: ruleMove, Min: map[string]int{"v5": 6, "legacy": 6}})
	register(&Rule{ID: "R-SUCCESS", Doc: "a handler reports success only after it has done its operation: every nil-error return of the add/move/copy handlers is dominated by the container.add call (replace: set; remove: remove; test: the comparison), or by the store that replaces the root, or — in the remove handler only — by the AllowMissingPathOnRemove skip",
		Run: ruleSuccess, Min: map[string]int{"v5": 6, "legacy": 6}})
	register(&Rule{ID: "R-COPYISO", Doc: "copy inserts result 0 of deepCopy applied to the value found at from; deepCopy's non-nil result is a fresh node over freshly allocated bytes (never the source node or its bytes)",
		Run: ruleCopyIso, Min: map[string]int{"v5": 3, "legacy": 3}})
}

// ---- shared anchors ------------------------------------------------------------

type applyInfo struct {
	fn       *ssa.Function
	kindCall *ssa.Call            // the op.Kind() whose result is switched on
	cases    map[string]*ssa.Call // kind constant -> handler call
	caseBlk  map[string]*ssa.BasicBlock
	cmpBlks  []*ssa.BasicBlock
	defBlk   *ssa.BasicBlock // default arm
	handlers map[string]*ssa.Function
	// the function that loops over the operations: fn itself, or the library function that
	// calls fn (the dispatch extracted into a helper) from inside its loop, at viaCall
	loopFn  *ssa.Function
	viaCall *ssa.Call
}

// dispatchSite: the instruction of the loop function that stands for the dispatch.
func (ai *applyInfo) dispatchSite() ssa.Instruction {
	if ai.viaCall != nil {
		return ai.viaCall
	}
	if ai.kindCall != nil {
		return ai.kindCall
	}
	return nil
}

func isKindCall(v ssa.Value) *ssa.Call {
	c, ok := v.(*ssa.Call)
	if !ok {
		return nil
	}
	f := c.Call.StaticCallee()
	if f == nil || f.Name() != "Kind" || recvTypeName(f) != "Operation" {
		return nil
	}
	return c
}

// kindCompare decodes "Kind() == const" conditions.
func kindCompare(cond ssa.Value) (*ssa.Call, string, bool, bool) {
	c, neg := stripNot(cond)
	bo, ok := c.(*ssa.BinOp)
	if !ok || (bo.Op != token.EQL && bo.Op != token.NEQ) {
		return nil, "", false, false
	}
	var kc *ssa.Call
	var k string
	if kc = isKindCall(bo.X); kc != nil {
		s, ok := strConst(bo.Y)
		if !ok {
			return nil, "", false, false
		}
		k = s
	} else if kc = isKindCall(bo.Y); kc != nil {
		s, ok := strConst(bo.X)
		if !ok {
			return nil, "", false, false
		}
		k = s
	} else {
		return nil, "", false, false
	}
	eqOnTrue := bo.Op == token.EQL
	if neg {
		eqOnTrue = !eqOnTrue
	}
	return kc, k, eqOnTrue, true
}

// findApply locates the apply function by role: the method of Patch whose
// body compares Operation.Kind() with string constants and calls methods of
// Patch on the matching edges.
func (b *Body) findApply() *applyInfo {
	var best *applyInfo
	for _, fn := range b.srcFuncs(b.Lib) {
		if recvTypeName(fn) != "Patch" {
			continue
		}
		ai := &applyInfo{fn: fn, cases: map[string]*ssa.Call{}, caseBlk: map[string]*ssa.BasicBlock{}, handlers: map[string]*ssa.Function{}}
		for _, bb := range fn.Blocks {
			iff, ok := bb.Instrs[len(bb.Instrs)-1].(*ssa.If)
			if !ok {
				continue
			}
			kc, k, eqTrue, ok := kindCompare(iff.Cond)
			if !ok {
				continue
			}
			ai.kindCall = kc
			ai.cmpBlks = append(ai.cmpBlks, bb)
			s := bb.Succs[1]
			if eqTrue {
				s = bb.Succs[0]
			}
			ai.caseBlk[k] = s
			for _, ins := range s.Instrs {
				if call, ok := ins.(*ssa.Call); ok {
					f := call.Call.StaticCallee()
					if f == nil || f.Pkg != b.Lib || len(f.Blocks) == 0 {
						continue
					}
					// a handler: a method of Patch, or a plain function, that is handed the root slot
					// and the operation
					takesSlot, takesOp := false, false
					for _, a := range call.Call.Args {
						if isRootSlotPtr(a.Type()) {
							takesSlot = true
						}
						if isNamed(a.Type(), "Operation") {
							takesOp = true
						}
					}
					if recvTypeName(f) == "Patch" || (takesSlot && takesOp) {
						ai.cases[k] = call
						ai.handlers[k] = f
						break
					}
				}
			}
		}
		if len(ai.cmpBlks) >= 3 && (best == nil || len(ai.cmpBlks) > len(best.cmpBlks)) {
			best = ai
		}
	}
	if best == nil {
		return nil
	}
	// default arm: the non-equal successor of the last comparison in the chain
	// (the comparison block none of whose "not equal" successors is another
	// comparison block).
	isCmp := map[*ssa.BasicBlock]bool{}
	for _, bb := range best.cmpBlks {
		isCmp[bb] = true
	}
	for _, bb := range best.cmpBlks {
		iff := bb.Instrs[len(bb.Instrs)-1].(*ssa.If)
		_, _, eqTrue, _ := kindCompare(iff.Cond)
		ne := bb.Succs[0]
		if eqTrue {
			ne = bb.Succs[1]
		}
		if !isCmp[ne] {
			best.defBlk = ne
		}
	}
	best.loopFn = best.fn
	if best.kindCall != nil && innermostLoopHeader(best.kindCall.Block()) == nil {
		// the dispatch was extracted: the loop is in the (single) library caller
		var sites []*ssa.Call
		for _, g := range b.srcFuncs(b.Lib) {
			for _, ci := range callsTo(g, func(cc *ssa.CallCommon) bool { return cc.StaticCallee() == best.fn }) {
				if call, ok := ci.(*ssa.Call); ok {
					sites = append(sites, call)
				}
			}
		}
		if len(sites) == 1 && innermostLoopHeader(sites[0].Block()) != nil {
			best.loopFn = sites[0].Parent()
			best.viaCall = sites[0]
		}
	}
	return best
}

func isContainerInvoke(c *ssa.CallCommon, name string) bool {
	if !c.IsInvoke() || c.Method.Name() != name {
		return false
	}
	return isNamed(c.Value.Type(), "container")
}

func containerCalls(fn *ssa.Function, name string) []ssa.CallInstruction {
	return callsTo(fn, func(c *ssa.CallCommon) bool {
		if isContainerInvoke(c, name) {
			return true
		}
		// a lookup helper stands for the get it wraps
		return name == "get" && isLookupHelper(c.StaticCallee())
	})
}

// isLookupHelper: a plain function of the library with the result shape of
// container.get — (*lazyNode, error) — every return of which is either a nil
// node with a non-nil error, or exactly the two results of one container.get
// call inside it (the helper resolves a location and looks the value up; its
// results can be used wherever the get's results would be).
func isLookupHelper(f *ssa.Function) bool {
	if f == nil || f.Blocks == nil || f.Signature.Recv() != nil {
		return false
	}
	res := f.Signature.Results()
	if res.Len() != 2 || !isPtrToNamed(res.At(0).Type(), "lazyNode") || !isErrorType(res.At(1).Type()) {
		return false
	}
	gets := callsTo(f, func(c *ssa.CallCommon) bool { return isContainerInvoke(c, "get") })
	if len(gets) != 1 {
		return false
	}
	g := gets[0].Value()
	nGet := 0
	for _, r := range liveReturns(f) {
		v0, v1 := retVal(r, 0), retVal(r, 1)
		if isNilConst(v0) && !isNilConst(v1) {
			continue
		}
		e0, ok0 := v0.(*ssa.Extract)
		e1, ok1 := v1.(*ssa.Extract)
		if ok0 && ok1 && e0.Tuple == ssa.Value(g) && e1.Tuple == ssa.Value(g) && e0.Index == 0 && e1.Index == 1 {
			nGet++
			continue
		}
		return false
	}
	return nGet > 0
}

var rfc6902Kinds = []string{"add", "copy", "move", "remove", "replace", "test"}

// RFC 6902 §4: members required besides "op" (path is required for all).
var rfcRequired = map[string][]string{
	"add":     {"path", "value"},
	"replace": {"path", "value"},
	"remove":  {"path"},
	"test":    {"path"}, // RFC also requires value for test; the library's documented dialect treats a missing value as null
	"move":    {"from", "path"},
	"copy":    {"from", "path"},
}

var accessorMember = map[string]string{"ValueInterface": "value", "From": "from", "Path": "path"}

// ---- R-DISPATCH ------------------------------------------------------------------

func ruleDispatch(c *Ctx) {
	for _, b := range c.bodies() {
		l := c.L
		ai := b.findApply()
		if ai == nil {
			l.add("R-DISPATCH", b.Name, "anchor apply loop", "", Undecided, "no method of Patch dispatches on Operation.Kind()", false)
			continue
		}
		b.operationOrderObligation(l, ai)
		b.handlersGetTheRootSlot(l, ai)
		if b.Name == "v5" {
			b.emptyPathIsRoot(l, ai)
			b.oneOperationPerStep(l, ai)
			b.decodeRefusals(l, "R-DISPATCH", []*ssa.Function{fnOf(b.Lib, "DecodePatch")})
		}
		// (a) case set and handlers
		var got []string
		for k := range ai.caseBlk {
			got = append(got, k)
		}
		sort.Strings(got)
		tab := map[string]string{}
		for _, k := range rfc6902Kinds {
			key := fmt.Sprintf("apply dispatch: kind %q -> handler", k)
			h := ai.handlers[k]
			if h == nil {
				l.add("R-DISPATCH", b.Name, key, b.rel(ai.fn.Pos()), Violated, fmt.Sprintf("no case for RFC 6902 operation %q calls a Patch handler (cases found: %v)", k, got), true)
				continue
			}
			tab[k] = h.Name()
			// the handler must be the one of that operation: its name equals the
			// kind AND (semantic cross-check) its own characteristic container effect
			want := characteristicEffect(k)
			eff := handlerEffects(h)
			if !effectMatches(want, eff) {
				l.add("R-DISPATCH", b.Name, key, b.posOf(ai.cases[k]), Violated,
					fmt.Sprintf("case %q calls %s whose container effects are %v; an RFC 6902 %s needs %v", k, fname(h), eff, k, want), true)
				continue
			}
			// the handler's error must be what the loop tests (see R-RETSHAPE) and the
			// document/operation arguments are the loop's own
			l.add("R-DISPATCH", b.Name, key, b.posOf(ai.cases[k]), Discharged, fmt.Sprintf("case %q -> %s; container effects %v", k, fname(h), eff), true)
		}
		for _, k := range got {
			if _, ok := rfcRequired[k]; !ok {
				l.add("R-DISPATCH", b.Name, fmt.Sprintf("apply dispatch: extra kind %q", k), b.rel(ai.fn.Pos()), Violated, "apply loop accepts an operation kind that RFC 6902 does not define", true)
			}
		}
		l.stat("R-DISPATCH").Extra[b.Name+"_apply_table"] = tab
		// default arm yields an error
		key := "apply dispatch: unknown kind -> error"
		if ai.defBlk == nil {
			l.add("R-DISPATCH", b.Name, key, b.rel(ai.fn.Pos()), Undecided, "default arm not found", false)
		} else {
			ok, why := b.defaultArmErrors(ai)
			v := Discharged
			if !ok {
				v = Violated
			}
			l.add("R-DISPATCH", b.Name, key, b.posOf(ai.defBlk.Instrs[0]), v, why, true)
		}
		// (c') accessor coupling: value() is nil only when the "value" member is absent
		b.checkValueAccessor(l)
		b.checkStringAccessors(l)
		b.checkOperationShape(l)

		if b.Name != "v5" {
			continue
		}
		// (b) validator table by partial evaluation
		vo := b.roleFn("validateOperation")
		vp := b.roleFn("validatePatch")
		dp := fnOf(b.Lib, "DecodePatch")
		if vo == nil || vp == nil || dp == nil {
			l.add("R-DISPATCH", b.Name, "anchor validator", "", Undecided, "validateOperation/validatePatch/DecodePatch do not resolve", false)
			continue
		}
		vtab := map[string][]string{}
		kinds := append(append([]string{}, rfc6902Kinds...), "\x00other")
		for _, k := range kinds {
			req, accept, und := partialEvalValidator(b, vo, k)
			name := k
			if k == "\x00other" {
				name = "<any other kind>"
			}
			key := fmt.Sprintf("validator: kind %s required members", name)
			if und != "" {
				l.add("R-DISPATCH", b.Name, key, b.rel(vo.Pos()), Undecided, "partial evaluation stuck: "+und, false)
				continue
			}
			if k == "\x00other" {
				if accept {
					l.add("R-DISPATCH", b.Name, key, b.rel(vo.Pos()), Violated, "an operation kind outside RFC 6902 is accepted by the validator", true)
				} else {
					l.add("R-DISPATCH", b.Name, key, b.rel(vo.Pos()), Discharged, "every other kind is rejected with an error", true)
				}
				continue
			}
			var members []string
			for _, a := range req {
				members = append(members, accessorMember[a])
			}
			sort.Strings(members)
			vtab[k] = members
			want := rfcRequired[k]
			if !accept {
				l.add("R-DISPATCH", b.Name, key, b.rel(vo.Pos()), Violated, fmt.Sprintf("kind %q is rejected outright by the validator", k), true)
			} else if strings.Join(members, ",") != strings.Join(want, ",") {
				l.add("R-DISPATCH", b.Name, key, b.rel(vo.Pos()), Violated, fmt.Sprintf("validator requires %v for %q, RFC 6902 §4 (library dialect) requires %v", members, k, want), true)
			} else {
				l.add("R-DISPATCH", b.Name, key, b.rel(vo.Pos()), Discharged, fmt.Sprintf("requires %v (each accessor's error edge rejects)", members), true)
			}
		}
		l.stat("R-DISPATCH").Extra["v5_validator_table"] = vtab
		c.facts["v5.validatorTable"] = vtab

		// (d) verdict propagation
		b.checkVerdictPropagation(l, vo, vp, dp)
	}
}

// characteristicEffect: which container-interface methods a handler for kind k must call.
func characteristicEffect(k string) []string {
	switch k {
	case "add":
		return []string{"add"}
	case "remove":
		return []string{"remove"}
	case "replace":
		return []string{"get", "set"}
	case "move":
		return []string{"add", "get", "remove"}
	case "copy":
		return []string{"add", "get"}
	case "test":
		return []string{"get"}
	}
	return nil
}

func handlerEffects(h *ssa.Function) []string {
	set := map[string]bool{}
	allInstrs(h, func(i ssa.Instruction) {
		if ci, ok := i.(ssa.CallInstruction); ok {
			com := ci.Common()
			for _, m := range []string{"get", "set", "add", "remove"} {
				if isContainerInvoke(com, m) {
					set[m] = true
				}
			}
			// the effects of the library's own small helpers count as the handler's
			if f := com.StaticCallee(); f != nil && f.Blocks != nil && f.Signature.Recv() == nil && h.Pkg == f.Pkg && f != h {
				if isLookupHelper(f) {
					set["get"] = true
				}
			}
		}
	})
	var out []string
	for m := range set {
		out = append(out, m)
	}
	sort.Strings(out)
	return out
}

func effectMatches(want, got []string) bool {
	return strings.Join(want, ",") == strings.Join(got, ",")
}

func (b *Body) defaultArmErrors(ai *applyInfo) (bool, string) {
	// Walk from the default block along jumps to the join; the value that the
	// join's error phi receives from this path must be a definitely non-nil error.
	bb := ai.defBlk
	prev := bb
	for steps := 0; steps < 6; steps++ {
		last := bb.Instrs[len(bb.Instrs)-1]
		if r, ok := last.(*ssa.Return); ok {
			if b.definitelyNonNilErr(r.Results[len(r.Results)-1], bb, 0) {
				return true, "default arm returns a non-nil error"
			}
			return false, "default arm returns without a non-nil error at " + b.posOf(r)
		}
		if _, ok := last.(*ssa.Jump); !ok {
			return false, "default arm has unexpected control flow at " + b.posOf(last)
		}
		prev = bb
		bb = bb.Succs[0]
		// does bb hold an error phi?
		for _, ins := range bb.Instrs {
			phi, ok := ins.(*ssa.Phi)
			if !ok {
				break
			}
			if !isErrorType(phi.Type()) {
				continue
			}
			for i, p := range bb.Preds {
				if p == prev {
					if b.definitelyNonNilErr(phi.Edges[i], prev, 0) {
						return true, "default arm assigns a fresh non-nil error (" + phi.Edges[i].String() + ") that the loop's error test then returns"
					}
					return false, "default arm does not produce a non-nil error: " + phi.Edges[i].String()
				}
			}
		}
	}
	return false, "no error value found on the default arm"
}

// partialEvalValidator walks validateOperation with the kind fixed.
func partialEvalValidator(b *Body, fn *ssa.Function, kind string) (required []string, accept bool, undecided string) {
	bb := fn.Blocks[0]
	for steps := 0; steps < 400; steps++ {
		last := bb.Instrs[len(bb.Instrs)-1]
		switch t := last.(type) {
		case *ssa.Return:
			return required, isNilConst(t.Results[len(t.Results)-1]), ""
		case *ssa.Jump:
			bb = bb.Succs[0]
		case *ssa.If:
			if _, k, eqTrue, ok := kindCompare(t.Cond); ok {
				match := k == kind
				if match == eqTrue {
					bb = bb.Succs[0]
				} else {
					bb = bb.Succs[1]
				}
				continue
			}
			if v, nnTrue, ok := nilTestOfCond(t.Cond); ok {
				if ex, ok := v.(*ssa.Extract); ok {
					if call, ok := ex.Tuple.(*ssa.Call); ok {
						f := call.Call.StaticCallee()
						if f != nil && recvTypeName(f) == "Operation" && accessorMember[f.Name()] != "" && isErrorType(ex.Type()) {
							nn, nl := 1, 0
							if nnTrue {
								nn, nl = 0, 1
							}
							if !b.rejects(bb.Succs[nn]) {
								return nil, false, fmt.Sprintf("error of %s is not rejected at %s", f.Name(), b.posOf(t))
							}
							required = append(required, f.Name())
							bb = bb.Succs[nl]
							continue
						}
					}
				}
			}
			return nil, false, "condition not decided by the kind: " + t.Cond.String() + " at " + b.posOf(t)
		default:
			return nil, false, "unexpected terminator at " + b.posOf(last)
		}
	}
	return nil, false, "step bound exceeded (loop?)"
}

// checkValueAccessor: Operation.value() returns nil only on the comma-ok
// false edge of the lookup of "value"; ValueInterface returns a non-nil
// error on the comma-ok false edge of the same key. This couples "the
// validator accepted ValueInterface" to "value() != nil".
func (b *Body) checkValueAccessor(l *Ledger) {
	val := b.method(b.Lib, "Operation", "value")
	vi := b.method(b.Lib, "Operation", "ValueInterface")
	if val == nil || vi == nil {
		l.add("R-DISPATCH", b.Name, "anchor Operation.value / ValueInterface", "", Undecided, "accessors do not resolve", false)
		return
	}
	lookupOK := func(fn *ssa.Function, keyName string) (okVals []ssa.Value) {
		allInstrs(fn, func(i ssa.Instruction) {
			lk, ok := i.(*ssa.Lookup)
			if !ok || !lk.CommaOk {
				return
			}
			if k, ok := strConst(lk.Index); !ok || k != keyName {
				return
			}
			for _, ex := range extractOf(lk, 1) {
				okVals = append(okVals, ex)
			}
		})
		return
	}
	// value(): nil returns only under !ok
	oks := lookupOK(val, "value")
	key := "Operation.value() is nil only when the value member is absent"
	good := len(oks) > 0
	why := ""
	for _, r := range returnsOf(val) {
		if !isNilConst(r.Results[0]) {
			// non-nil return must be a fresh node
			continue
		}
		under := false
		for _, okv := range oks {
			for _, f := range dominatingFacts(r.Block()) {
				if f.V == okv && !f.True {
					under = true
				}
			}
		}
		if !under {
			good = false
			why = "a nil return at " + b.posOf(r) + " is not confined to the comma-ok false edge of o[\"value\"]"
		}
	}
	if good {
		l.add("R-DISPATCH", b.Name, key, b.rel(val.Pos()), Discharged, "every `return nil` is dominated by the !ok edge of the lookup of \"value\"", true)
	} else {
		l.add("R-DISPATCH", b.Name, key, b.rel(val.Pos()), Violated, why, true)
	}
	// ValueInterface: !ok edge rejects
	oks = lookupOK(vi, "value")
	key = "Operation.ValueInterface() fails when the value member is absent"
	good = false
	for _, bb := range vi.Blocks {
		iff, ok := bb.Instrs[len(bb.Instrs)-1].(*ssa.If)
		if !ok {
			continue
		}
		for si := range bb.Succs {
			for _, f := range factsOnEdge(bb, si) {
				for _, okv := range oks {
					if f.V == okv && !f.True && b.rejects(bb.Succs[si]) {
						good = true
					}
				}
			}
		}
		_ = iff
	}
	if good {
		l.add("R-DISPATCH", b.Name, key, b.rel(vi.Pos()), Discharged, "the !ok edge of the lookup of \"value\" returns a non-nil error", true)
	} else if b.Name == "legacy" {
		// legacy: `ok && obj != nil` compound; the false edge of ok still rejects via the join
		okc := false
		for _, bb := range vi.Blocks {
			if _, isIf := bb.Instrs[len(bb.Instrs)-1].(*ssa.If); !isIf {
				continue
			}
			for si := range bb.Succs {
				for _, f := range factsOnEdge(bb, si) {
					for _, okv := range oks {
						if f.V == okv && !f.True && b.rejects(bb.Succs[si]) {
							okc = true
						}
					}
				}
			}
		}
		v := Violated
		if okc {
			v = Discharged
		}
		l.add("R-DISPATCH", b.Name, key, b.rel(vi.Pos()), v, "legacy form", true)
	} else {
		l.add("R-DISPATCH", b.Name, key, b.rel(vi.Pos()), Violated, "no rejecting !ok edge for the lookup of \"value\"", true)
	}
}

// checkStringAccessors: Path and From succeed only for a member that is
// present and not null, and what they return is decoded from that member.
func (b *Body) checkStringAccessors(l *Ledger) {
	for _, spec := range []struct{ method, member string }{{"Path", "path"}, {"From", "from"}} {
		fn := b.method(b.Lib, "Operation", spec.method)
		key := fmt.Sprintf("Operation.%s() succeeds only for a present, non-null %q member", spec.method, spec.member)
		if fn == nil {
			l.add("R-DISPATCH", b.Name, key, "", Undecided, "accessor not found", false)
			continue
		}
		// the lookup of the member: comma-ok, or plain — the members are pointers, and the nil
		// a plain lookup yields for an absent member is refused together with a null one
		var lk *ssa.Lookup
		allInstrs(fn, func(i ssa.Instruction) {
			if x, ok := i.(*ssa.Lookup); ok {
				if k, ok := strConst(x.Index); ok && k == spec.member {
					lk = x
				}
			}
		})
		var okv, objv ssa.Value
		var helperStr, helperErr ssa.Value
		plain := false
		if lk == nil {
			// through a helper that looks the member up and says whether it is there
			hc, hok, hstr, herr, isH := b.viaMemberHelper(fn, spec.member)
			if !isH {
				l.add("R-DISPATCH", b.Name, key, b.rel(fn.Pos()), Violated, "the accessor does not look its member up with comma-ok", true)
				continue
			}
			_ = hc
			okv, helperStr, helperErr = hok, hstr, herr
			plain = false
		} else {
			plain = !lk.CommaOk
			if plain {
				objv = lk
			}
			for _, ex := range extractOf(lk, 1) {
				okv = ex
			}
			for _, ex := range extractOf(lk, 0) {
				objv = ex
			}
		}
		bad := ""
		ei := errResultIndex(fn)
		for _, r := range liveReturns(fn) {
			if helperErr != nil && retVal(r, ei) == helperErr && retVal(r, 0) == helperStr {
				continue // the helper's own verdict, handed on as it is
			}
			if !isNilConst(retVal(r, ei)) {
				if !b.definitelyNonNilErr(retVal(r, ei), r.Block(), 0) {
					bad = fmt.Sprintf("the return at %s hands back an error that may be nil without the member being known present and non-null", b.posOf(r))
				}
				continue
			}
			present, nonNull := false, false
			for _, f := range dominatingFacts(r.Block()) {
				if okv != nil && f.V == okv && f.True {
					present = true
				}
			}
			if objv != nil && knownNonNilAt(objv, r.Block()) {
				nonNull = true
			}
			if plain && nonNull {
				present = true
			}
			if helperStr != nil && okv == nil && helperErr != nil && knownNilAt(helperErr, r.Block()) {
				present = true // the helper reports no error only for a member that is there, not null and decoded
			}
			if helperStr != nil && present {
				nonNull = true // the helper says present only for a member that is there and not null
			}
			if !present || !nonNull {
				bad = fmt.Sprintf("the successful return at %s is not confined to `member present && member != null` (present: %v, non-null: %v): a missing or null %q is accepted", b.posOf(r), present, nonNull, spec.member)
			}
		}
		if bad != "" {
			l.add("R-DISPATCH", b.Name, key, b.rel(fn.Pos()), Violated, bad, true)
		} else {
			l.add("R-DISPATCH", b.Name, key, b.rel(fn.Pos()), Discharged, "every nil-error return is dominated by the ok edge of the comma-ok lookup and by obj != nil", true)
		}
		// ... and fails only for a member that is absent, null or not a string: any string is a
		// legitimate value of the member (whether it is a usable pointer is the operation's business)
		{
			key3 := fmt.Sprintf("Operation.%s() fails only for an absent, null or undecodable %q member", spec.method, spec.member)
			bad3 := ""
			n3 := 0
			// reason edges: member absent, member null, decode failed
			type cfgEdge struct {
				from *ssa.BasicBlock
				succ int
			}
			reason := map[cfgEdge]bool{}
			for _, bb := range fn.Blocks {
				iff, ok := bb.Instrs[len(bb.Instrs)-1].(*ssa.If)
				if !ok {
					continue
				}
				cv, neg := stripNot(iff.Cond)
				tEdge, fEdge := 0, 1
				if neg {
					tEdge, fEdge = 1, 0
				}
				if okv != nil && cv == okv {
					reason[cfgEdge{bb, fEdge}] = true
				}
				if x, nnTrue, ok := nilTestOfCond(iff.Cond); ok {
					nilSucc := 1
					if !nnTrue {
						nilSucc = 0
					}
					if objv != nil && x == objv {
						reason[cfgEdge{bb, nilSucc}] = true
					}
					if helperErr != nil && x == helperErr {
						reason[cfgEdge{bb, 1 - nilSucc}] = true
					}
					if isErrorType(x.Type()) {
						var call *ssa.Call
						switch y := x.(type) {
						case *ssa.Call:
							call = y
						case *ssa.Extract:
							call, _ = y.Tuple.(*ssa.Call)
						}
						if call != nil && b.codecDecodeWrapper(call.Call.StaticCallee(), 0) {
							reason[cfgEdge{bb, 1 - nilSucc}] = true
						}
					}
				}
				_ = tEdge
			}
			reach := map[*ssa.BasicBlock]bool{}
			var walk func(bb *ssa.BasicBlock)
			walk = func(bb *ssa.BasicBlock) {
				if reach[bb] {
					return
				}
				reach[bb] = true
				for si, sx := range bb.Succs {
					if reason[cfgEdge{bb, si}] {
						continue
					}
					walk(sx)
				}
			}
			if len(fn.Blocks) > 0 {
				walk(fn.Blocks[0])
			}
			for _, r := range liveReturns(fn) {
				if isNilConst(retVal(r, ei)) {
					continue
				}
				if helperErr != nil && retVal(r, ei) == helperErr && retVal(r, 0) == helperStr {
					continue // fails exactly when the helper does
				}
				n3++
				if reach[r.Block()] {
					bad3 = "the error return at " + b.posOf(r) + " can be reached with the member present, non-null and decoded: a patch whose " + spec.member + " is a string is rejected (DecodePatch validates through this accessor)"
				}
			}
			if bad3 != "" {
				l.add("R-DISPATCH", b.Name, key3, b.rel(fn.Pos()), Violated, bad3, true)
			} else {
				l.add("R-DISPATCH", b.Name, key3, b.rel(fn.Pos()), Discharged, fmt.Sprintf("%d error return(s), each under !ok, obj == nil or a failed decode", n3), true)
			}
		}
		key2 := fmt.Sprintf("Operation.%s(): the string returned on success is what the codec's decoder made of the %q member", spec.method, spec.member)
		bad2 := ""
		n2 := 0
		for _, r := range liveReturns(fn) {
			if !isNilConst(retVal(r, ei)) {
				continue
			}
			n2++
			if helperStr != nil {
				if retVal(r, 0) != helperStr {
					bad2 = "return at " + b.posOf(r) + ": the string returned is not the one the member helper decoded"
				}
				continue
			}
			if why := b.decodedString(retVal(r, 0), objv); why != "" {
				bad2 = "return at " + b.posOf(r) + ": " + why + " (escapes such as \\u0061 or \\/ in the member would not be resolved, or a non-string member would be accepted)"
			}
		}
		if bad2 != "" {
			l.add("R-DISPATCH", b.Name, key2, b.rel(fn.Pos()), Violated, bad2, true)
		} else if n2 > 0 {
			l.add("R-DISPATCH", b.Name, key2, b.rel(fn.Pos()), Discharged, fmt.Sprintf("%d successful return(s), each the content of a local written only by the decoder from *obj", n2), true)
		}
	}
}

// loop helpers
func backEdgeSources(h *ssa.BasicBlock) []*ssa.BasicBlock {
	var out []*ssa.BasicBlock
	for _, p := range h.Preds {
		if h.Dominates(p) {
			out = append(out, p)
		}
	}
	return out
}

// loopHeaderOf returns the innermost loop header that contains bb (nil if none).
func loopHeaderOf(bb *ssa.BasicBlock) *ssa.BasicBlock {
	fn := bb.Parent()
	var best *ssa.BasicBlock
	for _, h := range fn.Blocks {
		srcs := backEdgeSources(h)
		if len(srcs) == 0 || !h.Dominates(bb) {
			continue
		}
		// bb is in the loop if it reaches a back edge source without leaving through h
		in := false
		for _, s := range srcs {
			if reachesWithout(bb, s, h) {
				in = true
			}
		}
		if in && (best == nil || best.Dominates(h)) {
			best = h
		}
	}
	return best
}

func reachesWithout(from, to, avoid *ssa.BasicBlock) bool {
	if from == to {
		return true
	}
	seen := map[*ssa.BasicBlock]bool{from: true}
	work := []*ssa.BasicBlock{from}
	for len(work) > 0 {
		x := work[len(work)-1]
		work = work[:len(work)-1]
		for _, s := range x.Succs {
			if s == avoid || seen[s] {
				continue
			}
			if s == to {
				return true
			}
			seen[s] = true
			work = append(work, s)
		}
	}
	return false
}

func (b *Body) checkVerdictPropagation(l *Ledger, vo, vp, dp *ssa.Function) {
	// validatePatch: calls validateOperation on every element; a non-nil result rejects
	key := "validatePatch: a rejected element rejects the patch"
	calls := callsTo(vp, func(c *ssa.CallCommon) bool { return c.StaticCallee() == vo })
	if len(calls) != 1 {
		l.add("R-DISPATCH", b.Name, key, b.rel(vp.Pos()), Violated, fmt.Sprintf("expected one call of validateOperation, found %d", len(calls)), true)
	} else {
		call := calls[0].(*ssa.Call)
		h := loopHeaderOf(call.Block())
		var probs []string
		if h == nil {
			probs = append(probs, "validateOperation is not called inside a loop over the patch")
		} else {
			// argument is the range element of the parameter
			for _, s := range backEdgeSources(h) {
				if !call.Block().Dominates(s) {
					probs = append(probs, "the call does not execute on every iteration (it does not dominate the loop latch)")
				}
			}
			if !b.rangesOverParam(h, vp.Params[0], call.Call.Args[0]) {
				probs = append(probs, "the argument is not the element of a range over the whole patch parameter")
			}
		}
		okRej := false
		for _, t := range errChecks(call) {
			if b.rejects(t.Blk.Succs[t.NonNilSucc]) {
				okRej = true
			}
		}
		if !okRej {
			probs = append(probs, "a non-nil verdict does not lead to a non-nil error return on all paths")
		}
		if len(probs) > 0 {
			l.add("R-DISPATCH", b.Name, key, b.posOf(call), Violated, strings.Join(probs, "; "), true)
		} else {
			l.add("R-DISPATCH", b.Name, key, b.posOf(call), Discharged, "validateOperation(op) runs for every element of range p (dominates the latch) and its non-nil result reaches only non-nil error returns", true)
		}
	}
	// DecodePatch: success return dominated by validatePatch(p) == nil; failure rejects with nil patch
	key = "DecodePatch: succeeds only after validatePatch accepted the decoded patch"
	calls = callsTo(dp, func(c *ssa.CallCommon) bool { return c.StaticCallee() == vp })
	if len(calls) != 1 {
		l.add("R-DISPATCH", b.Name, key, b.rel(dp.Pos()), Violated, fmt.Sprintf("expected one call of validatePatch, found %d", len(calls)), true)
		return
	}
	call := calls[0].(*ssa.Call)
	var probs []string
	nSucc := 0
	for _, r := range returnsOf(dp) {
		if isNilConst(r.Results[0]) {
			continue
		}
		nSucc++
		ok, why := b.successDominates(call, r)
		if !ok {
			probs = append(probs, "success return at "+b.posOf(r)+": "+why)
		}
		// the returned patch is the validated value
		if !sameLoadedVar(r.Results[0], call.Call.Args[0]) {
			probs = append(probs, "the patch returned at "+b.posOf(r)+" is not the value that was validated")
		}
	}
	if nSucc == 0 {
		probs = append(probs, "no success return found")
	}
	if len(probs) > 0 {
		l.add("R-DISPATCH", b.Name, key, b.posOf(call), Violated, strings.Join(probs, "; "), true)
	} else {
		l.add("R-DISPATCH", b.Name, key, b.posOf(call), Discharged, "validatePatch(p)'s nil edge dominates the only non-nil-patch return; its non-nil edge returns (nil, err)", true)
	}
	// the decode itself must have succeeded: a decoder that reports a type mismatch (a root
	// that is not an array, an element that is not an object) has left the patch empty or
	// partly filled, and validatePatch has nothing — or not everything — to look at
	{
		key := "DecodePatch: succeeds only after the decoder accepted the text as a whole (err == nil, not merely `no syntax error`)"
		var dec []*ssa.Call
		allInstrs(dp, func(i ssa.Instruction) {
			c, ok := i.(*ssa.Call)
			if !ok || c == call || len(errResultOf(c)) == 0 {
				return
			}
			// a call that fills the patch variable from the input parameter
			fromParam, fills := false, false
			for _, a := range c.Call.Args {
				if p, _ := paddedOrigin(a, 0); p != nil && p.Parent() == dp {
					fromParam = true
				}
				if mi, ok := a.(*ssa.MakeInterface); ok {
					a = mi.X
				}
				if _, ok := a.(*ssa.Alloc); ok {
					fills = true
				}
			}
			if fromParam && fills {
				dec = append(dec, c)
			}
		})
		if len(dec) == 0 {
			l.add("R-DISPATCH", b.Name, key, b.rel(dp.Pos()), Undecided, "no decode of the input parameter into a local found", false)
		} else {
			var probs []string
			for _, c := range dec {
				for _, r := range returnsOf(dp) {
					if isNilConst(r.Results[0]) {
						continue
					}
					if ok, why := b.successDominates(c, r); !ok {
						probs = append(probs, "the success return at "+b.posOf(r)+" does not lie behind err == nil of the decode at "+b.posOf(c)+" ("+why+"): a text that is well-formed JSON but not an array of objects — {} , \"add\", a lone operation — is accepted as a patch without operations")
					}
				}
			}
			if len(probs) > 0 {
				l.add("R-DISPATCH", b.Name, key, b.posOf(dec[0]), Violated, probs[0], true)
			} else {
				l.add("R-DISPATCH", b.Name, key, b.posOf(dec[0]), Discharged, "every non-nil-patch return is dominated by the err == nil edge of the decode; its error edge returns (nil, err)", true)
			}
		}
	}
}

// sameLoadedVar: both values are the same SSA value or loads of the same local variable.
func sameLoadedVar(a, c ssa.Value) bool {
	if a == c {
		return true
	}
	la, ok1 := a.(*ssa.UnOp)
	lc, ok2 := c.(*ssa.UnOp)
	if ok1 && ok2 && la.Op == token.MUL && lc.Op == token.MUL && la.X == lc.X {
		if _, isAlloc := la.X.(*ssa.Alloc); isAlloc {
			return true
		}
	}
	return false
}

// rangesOverParam: loop with header h iterates an index from 0 (or -1+1) to
// len(param) and elem is param[index].
func (b *Body) rangesOverParam(h *ssa.BasicBlock, param *ssa.Parameter, elem ssa.Value) bool {
	// elem must be a load of IndexAddr(param, idx) or Index; idx a phi of the loop header
	var idx ssa.Value
	switch e := elem.(type) {
	case *ssa.UnOp:
		ia, ok := e.X.(*ssa.IndexAddr)
		if !ok || ia.X != ssa.Value(param) {
			return false
		}
		idx = ia.Index
	case *ssa.Index:
		if e.X != ssa.Value(param) {
			return false
		}
		idx = e.Index
	default:
		return false
	}
	return isRangeIndex(h, idx, param)
}

// isRangeIndex recognises go/ssa's range-over-slice shape: header has phi
// i = φ(-1, i+1) ... ; body index = i+1 compared `< len(x)`.
func isRangeIndex(h *ssa.BasicBlock, idx ssa.Value, over ssa.Value) bool {
	if isCountedIndex(h, idx, over) {
		return true
	}
	// idx = phi + 1 where phi = φ(-1, idx)
	bo, ok := idx.(*ssa.BinOp)
	if !ok || bo.Op != token.ADD {
		return false
	}
	phi, ok := bo.X.(*ssa.Phi)
	if !ok || phi.Block() != h {
		return false
	}
	if one, ok := intConst(bo.Y); !ok || one != 1 {
		return false
	}
	sawInit, sawStep := false, false
	for _, e := range phi.Edges {
		if n, ok := intConst(e); ok && n == -1 {
			sawInit = true
		} else if e == idx {
			sawStep = true
		} else {
			return false
		}
	}
	if !sawInit || !sawStep {
		return false
	}
	// the header's branch is idx < len(over)
	iff, ok := h.Instrs[len(h.Instrs)-1].(*ssa.If)
	if !ok {
		return false
	}
	cmp, ok := iff.Cond.(*ssa.BinOp)
	if !ok || cmp.Op != token.LSS || cmp.X != idx {
		return false
	}
	ln, ok := cmp.Y.(*ssa.Call)
	if !ok {
		return false
	}
	bi, ok := ln.Call.Value.(*ssa.Builtin)
	if !ok || bi.Name() != "len" || ln.Call.Args[0] != over {
		return false
	}
	return true
}

// ---- R-RETSHAPE ------------------------------------------------------------------

func nilableResult(t types.Type) bool {
	switch t.Underlying().(type) {
	case *types.Slice, *types.Pointer, *types.Map, *types.Interface:
		return true
	}
	return false
}

func ruleRetShape(c *Ctx) {
	for _, b := range c.bodies() {
		l := c.L
		// roots: exported API functions returning (nilable, error)
		checked := map[*ssa.Function]bool{}
		var work []*ssa.Function
		for _, fn := range b.exportedAPI(b.Lib) {
			res := fn.Signature.Results()
			if res.Len() == 2 && isErrorType(res.At(1).Type()) && nilableResult(res.At(0).Type()) {
				work = append(work, fn)
			}
		}
		for len(work) > 0 {
			fn := work[0]
			work = work[1:]
			if checked[fn] {
				continue
			}
			checked[fn] = true
			for _, r := range liveReturns(fn) {
				key := fmt.Sprintf("%s: return shape (value xor error) #%s", fname(fn), b.retOrdinal(r))
				v0, v1 := retVal(r, 0), retVal(r, 1)
				switch {
				case isNilConst(v1):
					l.add("R-RETSHAPE", b.Name, key, b.posOf(r), Discharged, "error result is the constant nil", false)
				case isNilConst(v0):
					l.add("R-RETSHAPE", b.Name, key, b.posOf(r), Discharged, "value result is the constant nil", false)
				default:
					e0, ok0 := v0.(*ssa.Extract)
					e1, ok1 := v1.(*ssa.Extract)
					if ok0 && ok1 && e0.Tuple == e1.Tuple && e0.Index == 0 && e1.Index == 1 {
						if call, ok := e0.Tuple.(*ssa.Call); ok {
							f := call.Call.StaticCallee()
							if f != nil && b.inRepo(f) && f.Blocks != nil {
								work = append(work, f)
								l.add("R-RETSHAPE", b.Name, key, b.posOf(r), Discharged, "tuple passed through unchanged from "+b.qname(f)+", which is checked by the same rule", true)
								continue
							}
							if f != nil && f.Pkg != nil && (f.Pkg.Pkg.Path() == "encoding/json") {
								l.add("R-RETSHAPE", b.Name, key, b.posOf(r), Discharged, "tuple passed through unchanged from encoding/json."+f.Name()+" (standard library contract: nil bytes with an error)", true)
								continue
							}
						}
					}
					l.add("R-RETSHAPE", b.Name, key, b.posOf(r), Violated, "this return can carry both a value and an error (neither result is the constant nil and it is not a verified tuple pass-through)", true)
				}
			}
		}
		// apply loop: handler error tested before the back edge; true edge returns (nil, err)
		ai := b.findApply()
		if ai == nil {
			l.add("R-RETSHAPE", b.Name, "anchor apply loop", "", Undecided, "apply loop not found", false)
			continue
		}
		for _, k := range rfc6902Kinds {
			call := ai.cases[k]
			if call == nil {
				continue // R-DISPATCH reports it
			}
			key := fmt.Sprintf("apply loop: error of handler %q stops the loop", k)
			ok, why := b.handlerErrStops(call)
			if ai.viaCall != nil {
				// the dispatch is a helper: the handler's error must be what the helper returns on
				// every path from the call, and the helper's error must stop the loop
				ok, why = b.errorIsReturned(call)
				if ok {
					var w2 string
					ok, w2 = b.handlerErrStops(ai.viaCall)
					why = why + "; in " + fname(ai.loopFn) + ": " + w2
				}
			}
			v := Discharged
			if !ok {
				v = Violated
			}
			l.add("R-RETSHAPE", b.Name, key, b.posOf(call), v, why, true)
		}
	}
}

func (b *Body) retOrdinal(r *ssa.Return) string {
	n := 0
	for _, x := range returnsOf(r.Parent()) {
		n++
		if x == r {
			break
		}
	}
	return fmt.Sprint(n)
}

// handlerErrStops: the handler call's error flows (possibly through phis)
// into a nil test inside the same loop iteration whose non-nil edge returns
// (nil, that error or a %w wrapping of it), and that test dominates the loop latch.
func (b *Body) handlerErrStops(call *ssa.Call) (bool, string) {
	h := loopHeaderOf(call.Block())
	if h == nil {
		return false, "handler is not called inside the operation loop"
	}
	// follow the error through phis
	vals := map[ssa.Value]bool{call: true}
	for changed := true; changed; {
		changed = false
		allInstrs(call.Parent(), func(i ssa.Instruction) {
			if phi, ok := i.(*ssa.Phi); ok && !vals[phi] {
				for _, e := range phi.Edges {
					if vals[e] {
						vals[phi] = true
						changed = true
					}
				}
			}
		})
	}
	for v := range vals {
		for _, t := range nilTests(call.Parent(), v) {
			if !call.Block().Dominates(t.Blk) && t.Blk != call.Block() {
				// the test must be reached from the call on every path to the latch:
				// it post-dominates the call within the iteration. We require the
				// test block to dominate every back-edge source instead.
			}
			domLatch := true
			for _, s := range backEdgeSources(h) {
				if !t.Blk.Dominates(s) {
					domLatch = false
				}
			}
			if !domLatch {
				continue
			}
			if !reachesWithout(call.Block(), t.Blk, h) {
				continue
			}
			// non-nil edge: returns (nil, err) directly
			nb := t.Blk.Succs[t.NonNilSucc]
			r, ok := nb.Instrs[len(nb.Instrs)-1].(*ssa.Return)
			if !ok || len(nb.Instrs) > 3 {
				// allow a wrapping call before the return
			}
			if !ok {
				return false, "the non-nil edge of the error test at " + b.posOf(t.Blk.Instrs[len(t.Blk.Instrs)-1]) + " does not return"
			}
			if !isNilConst(r.Results[0]) {
				return false, "a document is returned together with the handler's error at " + b.posOf(r)
			}
			if !vals[r.Results[1]] && !b.wrapsOneOf(r.Results[1], vals) {
				return false, "the error returned at " + b.posOf(r) + " is not the handler's error (nor a %w wrapping of it)"
			}
			return true, "handler error -> nil test at " + b.posOf(t.Blk.Instrs[len(t.Blk.Instrs)-1]) + " dominates the loop latch; non-nil edge returns (nil, err)"
		}
	}
	return false, "no nil test of the handler's error dominates the loop latch: a later operation can run after a failed one"
}

// wrapsOneOf: v is fmt.Errorf(const format with %w, ..., x, ...) where the %w operand is in vals.
func (b *Body) wrapsOneOf(v ssa.Value, vals map[ssa.Value]bool) bool {
	call, ok := v.(*ssa.Call)
	if !ok || !staticCalleeIs(&call.Call, "fmt", "Errorf") {
		return false
	}
	ops := errorfWrapOperands(call)
	for _, o := range ops {
		if vals[o] {
			return true
		}
	}
	return false
}

// ---- R-REPLACE -------------------------------------------------------------------

func sameContainerAndKey(x, y *ssa.CallCommon) bool {
	return x.Value == y.Value && len(x.Args) > 0 && len(y.Args) > 0 && x.Args[0] == y.Args[0]
}

func ruleReplace(c *Ctx) {
	for _, b := range c.bodies() {
		n := 0
		for _, fn := range b.srcFuncs(b.Lib) {
			sets := containerCalls(fn, "set")
			// static calls of (*partialArray).set count too
			sets = append(sets, callsTo(fn, func(cc *ssa.CallCommon) bool {
				f := cc.StaticCallee()
				return f != nil && f.Name() == "set" && recvTypeName(f) == "partialArray"
			})...)
			for _, s := range sets {
				n++
				key := fmt.Sprintf("%s: container.set preceded by successful get of the same container/key", fname(fn))
				ok := false
				why := "no container.get on the same container and key values dominates this set"
				for _, g := range containerCalls(fn, "get") {
					if !sameContainerAndKey(g.Common(), s.Common()) {
						continue
					}
					if ok2, w := b.successDominates(g, s); ok2 {
						ok, why = true, "get at "+b.posOf(g)+" on the same SSA container and key; "+w+"; its success edge dominates the set"
					} else {
						why = "get at " + b.posOf(g) + " found but: " + w
					}
				}
				v := Discharged
				if !ok {
					v = Violated
				}
				c.L.add("R-REPLACE", b.Name, key, b.posOf(s), v, why, true)
			}
		}
		_ = n
	}
}

// ---- R-MOVE ----------------------------------------------------------------------

func ruleMove(c *Ctx) {
	for _, b := range c.bodies() {
		l := c.L
		ai := b.findApply()
		if ai == nil || ai.handlers["move"] == nil {
			l.add("R-MOVE", b.Name, "anchor move handler", "", Undecided, "move handler not found through the dispatch", false)
			continue
		}
		fn := ai.handlers["move"]
		gets, rems, adds := containerCalls(fn, "get"), containerCalls(fn, "remove"), containerCalls(fn, "add")
		if len(gets) != 1 || len(rems) != 1 || len(adds) != 1 {
			l.add("R-MOVE", b.Name, "move: one get, one remove, one add", b.rel(fn.Pos()), Violated,
				fmt.Sprintf("found %d get, %d remove, %d add calls on the container interface", len(gets), len(rems), len(adds)), true)
			continue
		}
		g, r, a := gets[0], rems[0], adds[0]
		chk := func(key string, ok bool, good, bad string, pos ssa.Instruction) {
			v, f := Discharged, good
			if !ok {
				v, f = Violated, bad
			}
			l.add("R-MOVE", b.Name, "move: "+key, b.posOf(pos), v, f, true)
		}
		// "precedes": dominates, or — when the remove hangs on the get's success and its error is
		// judged at a later merge — the later instruction lies behind the remove's success
		precedes := func(x ssa.CallInstruction, y ssa.Instruction) bool {
			if b.instrDominates(x, y) {
				return true
			}
			ok, _ := b.successDominates(x, y)
			return ok
		}
		chk("source get precedes remove precedes add", precedes(g, r) && precedes(r, a),
			"get precedes remove precedes add on every path", "get/remove/add are not in dominance order", r)
		chk("remove targets what get read", sameContainerAndKey(g.Common(), r.Common()),
			"same SSA container value and key value", "remove uses a different container or key than the source get", r)
		val := a.Common().Args[1]
		fromGet := false
		if ex, ok := val.(*ssa.Extract); ok && ex.Tuple == g.Value() && ex.Index == 0 {
			fromGet = true
		}
		chk("added value is the value read", fromGet, "add's value operand is result 0 of the source get", "add's value operand is not result 0 of the source get", a)
		ok, why := b.successDominates(g, r)
		chk("absent source is an error before anything is removed", ok, why, why, g)
		ok, why = b.successDominates(r, a)
		chk("failed remove stops the move", ok, why, why, r)
		// destination resolved after the removal
		destOK := false
		destWhy := "the container that receives the value is not the result of a findObject call that runs after the remove (destination resolved against the document before removal)"
		if ex, ok := a.Common().Value.(*ssa.Extract); ok {
			if fc, ok := ex.Tuple.(*ssa.Call); ok {
				if b.isFindObjectCall(&fc.Call) {
					if precedes(r, fc) {
						destOK, destWhy = true, "findObject for the destination at "+b.posOf(fc)+" is dominated by the remove"
					}
				}
			}
		}
		chk("destination resolved after removal", destOK, destWhy, destWhy, a)
		// the whole document cannot be moved: "" as the source is refused before it is resolved
		// (v5; the resolver answers "" with the document and the empty key, and a root member
		// named "" would be taken for the document if the refusal were left to the lookup)
		if b.Name == "v5" {
			var fcs []ssa.Instruction
			allInstrs(fn, func(i ssa.Instruction) {
				if call, ok := i.(*ssa.Call); ok && b.isFindObjectCall(&call.Call) {
					fcs = append(fcs, call)
				}
			})
			okRef, whyRef := false, "no test of the source pointer against \"\" that returns an error in front of every resolver call: the lookup of the empty key decides, and it succeeds for a document that has a member named \"\""
			for _, bb := range fn.Blocks {
				iff, isIf := lastInstr(bb).(*ssa.If)
				if !isIf {
					continue
				}
				c0, neg := stripNot(iff.Cond)
				bo, isBin := c0.(*ssa.BinOp)
				if !isBin || (bo.Op != token.EQL && bo.Op != token.NEQ) {
					continue
				}
				var other ssa.Value
				if s0, ok := strConst(bo.Y); ok && s0 == "" {
					other = bo.X
				} else if s0, ok := strConst(bo.X); ok && s0 == "" {
					other = bo.Y
				}
				if other == nil || !isAccessorResult(other, "From") {
					continue
				}
				emptySucc := 0
				if (bo.Op == token.NEQ) != neg {
					emptySucc = 1
				}
				ret, isRet := lastInstr(bb.Succs[emptySucc]).(*ssa.Return)
				if !isRet || len(ret.Results) == 0 || isNilConst(ret.Results[len(ret.Results)-1]) {
					continue
				}
				all := len(fcs) > 0
				for _, fc := range fcs {
					if !bb.Dominates(fc.Block()) || bb == fc.Block() {
						all = false
					}
				}
				if all {
					okRef, whyRef = true, "from == \"\" returns an error at "+b.posOf(iff)+", in front of every resolver call"
				}
			}
			chk("the whole document as source is refused before it is resolved", okRef, whyRef, whyRef, g)
		}
	}
}

// ---- R-COPYISO -------------------------------------------------------------------

func ruleCopyIso(c *Ctx) {
	for _, b := range c.bodies() {
		l := c.L
		ai := b.findApply()
		if ai == nil || ai.handlers["copy"] == nil {
			l.add("R-COPYISO", b.Name, "anchor copy handler", "", Undecided, "copy handler not found through the dispatch", false)
			continue
		}
		fn := ai.handlers["copy"]
		dcFn := b.roleFn("deepCopy")
		if dcFn == nil {
			l.add("R-COPYISO", b.Name, "anchor deepCopy", "", Undecided, "deepCopy does not resolve", false)
			continue
		}
		adds := containerCalls(fn, "add")
		gets := containerCalls(fn, "get")
		dcs := callsTo(fn, func(cc *ssa.CallCommon) bool { return cc.StaticCallee() == dcFn })
		key := "copy: inserted value is deepCopy#0 of the value found at from"
		if len(adds) != 1 || len(dcs) != 1 || len(gets) != 1 {
			l.add("R-COPYISO", b.Name, key, b.rel(fn.Pos()), Violated, fmt.Sprintf("found %d add, %d deepCopy, %d get", len(adds), len(dcs), len(gets)), true)
		} else {
			a, d, g := adds[0], dcs[0], gets[0]
			ok1, ok2 := false, false
			if ex, ok := a.Common().Args[1].(*ssa.Extract); ok && ex.Tuple == d.Value() && ex.Index == 0 {
				ok1 = true
			}
			// the source: what get(from) found, or — on the from == "" branch — the node for
			// the whole document (R-SELF decides that this one is built over the live root)
			var srcOK func(v ssa.Value, depth int) bool
			srcOK = func(v ssa.Value, depth int) bool {
				if depth > 3 {
					return false
				}
				switch x := v.(type) {
				case *ssa.Extract:
					return x.Tuple == g.Value() && x.Index == 0
				case *ssa.Phi:
					for _, e := range x.Edges {
						if !srcOK(e, depth+1) {
							return false
						}
					}
					return true
				case *ssa.Call:
					return isWholeDocCall(x)
				}
				return false
			}
			ok2 = srcOK(d.Common().Args[0], 0)
			if ok1 && ok2 {
				l.add("R-COPYISO", b.Name, key, b.posOf(a), Discharged, "add(key, deepCopy(get(from))#0)", true)
			} else if !ok1 {
				l.add("R-COPYISO", b.Name, key, b.posOf(a), Violated, "the value handed to container.add is not result 0 of deepCopy (an alias of the source would be inserted)", true)
			} else {
				l.add("R-COPYISO", b.Name, key, b.posOf(d), Violated, "deepCopy is not applied to the value found at from", true)
			}
			ok, why := b.successDominates(d, a)
			v := Discharged
			if !ok {
				v = Violated
			}
			l.add("R-COPYISO", b.Name, "copy: deepCopy failure stops the copy", b.posOf(d), v, why, true)
		}
		// deepCopy returns fresh
		for _, r := range returnsOf(dcFn) {
			key := "deepCopy: result node is fresh #" + b.retOrdinal(r)
			v0 := r.Results[0]
			if isNilConst(v0) {
				l.add("R-COPYISO", b.Name, key, b.posOf(r), Discharged, "returns the constant nil node", false)
				continue
			}
			ok, why := b.freshNode(v0, 0)
			v := Discharged
			if !ok {
				v = Violated
			}
			l.add("R-COPYISO", b.Name, key, b.posOf(r), v, why, true)
		}
	}
}

// isWholeDocCall: a call on a container (interface or concrete) that takes no
// key and returns a node: the accessor for "the container itself".
func isWholeDocCall(c *ssa.Call) bool {
	args := callArgs(&c.Call)
	if len(args) != 1 {
		return false
	}
	n := derefNamed(args[0].Type())
	if n == nil {
		return false
	}
	switch n.Obj().Name() {
	case "container", "partialDoc", "partialArray":
	default:
		return false
	}
	return isPtrToNamed(c.Type(), "lazyNode")
}

// freshNode: v is a *lazyNode built by this call from freshly allocated
// bytes: a constructor call (function that returns a new struct whose raw
// field is its parameter) applied to a fresh *RawMessage.
func (b *Body) freshNode(v ssa.Value, depth int) (bool, string) {
	call, ok := v.(*ssa.Call)
	if !ok {
		return false, "result is " + describeValue(v) + ", not a freshly constructed node"
	}
	f := call.Call.StaticCallee()
	if f == nil || !b.inRepo(f) {
		return false, "result comes from an unresolved call"
	}
	// constructor shape: returns an Alloc; stores of params into its fields
	pi, ok := constructorParam(f)
	if !ok {
		// a helper whose every result is a fresh node in its own right
		if depth < 3 && f.Pkg == b.Lib && len(f.Blocks) > 0 {
			rets := returnsOf(f)
			all := len(rets) > 0
			why := ""
			for _, r := range rets {
				if len(r.Results) == 0 {
					all = false
					break
				}
				ok2, w := b.freshNode(r.Results[0], depth+1)
				if !ok2 {
					all = false
					why = w
					break
				}
				why = w
			}
			if all {
				return true, fname(f) + " returns " + why
			}
		}
		// a helper that wraps its []byte parameter without copying it: the node holds the bytes
		// the caller hands in, so those have to be this call chain's own
		if wi, ok := wrapsParamBytes(f); ok && wi < len(call.Call.Args) {
			ok2, why := b.freshBytesVal(call.Call.Args[wi], 0)
			if !ok2 {
				return false, "node built by " + fname(f) + ", which keeps the bytes it is given, over bytes that are not fresh: " + why
			}
			return true, fname(f) + " keeps the bytes it is given; they are " + why
		}
		return false, fname(f) + " is not a node constructor (new struct holding its parameter)"
	}
	arg := call.Call.Args[pi]
	ok2, why := b.freshBytesPtr(arg, 0)
	if !ok2 {
		return false, "node built by " + fname(f) + " over bytes that are not fresh: " + why
	}
	return true, fname(f) + "(" + why + ")"
}

// constructorParam: f returns &T{...field: param...} — a fresh allocation
// into which exactly one pointer-typed parameter is stored. Returns that parameter's index.
func constructorParam(f *ssa.Function) (int, bool) {
	rets := returnsOf(f)
	if len(rets) != 1 || len(rets[0].Results) != 1 {
		return 0, false
	}
	al, ok := rets[0].Results[0].(*ssa.Alloc)
	if !ok || !al.Heap {
		return 0, false
	}
	idx := -1
	okAll := true
	allInstrs(f, func(i ssa.Instruction) {
		st, ok := i.(*ssa.Store)
		if !ok {
			return
		}
		if rootOfAddr(st.Addr) != ssa.Value(al) {
			okAll = false
			return
		}
		if p, ok := st.Val.(*ssa.Parameter); ok {
			for k, q := range f.Params {
				if q == p {
					if idx != -1 && idx != k {
						okAll = false
					}
					idx = k
				}
			}
		} else if _, isC := st.Val.(*ssa.Const); !isC {
			okAll = false
		}
	})
	return idx, okAll && idx >= 0
}

// freshBytesPtr: v is a pointer to a byte slice allocated in this call
// chain: &local where local holds make([]byte) (+copy), or the result of a
// function whose every return is such a pointer.
func (b *Body) freshBytesPtr(v ssa.Value, depth int) (bool, string) {
	if depth > 3 {
		return false, "too deep"
	}
	switch x := v.(type) {
	case *ssa.Alloc:
		// every store into it stores a MakeSlice result (possibly converted)
		n := 0
		okAll := true
		for _, r := range *x.Referrers() {
			if st, ok := r.(*ssa.Store); ok && st.Addr == ssa.Value(x) {
				n++
				if _, ok := unwrapConv(st.Val).(*ssa.MakeSlice); !ok {
					okAll = false
				}
			}
		}
		if n > 0 && okAll {
			return true, "pointer to a local holding make([]byte, …)"
		}
		return false, "local is assigned something other than a fresh make([]byte)"
	case *ssa.Call:
		f := x.Call.StaticCallee()
		if f == nil || !b.inRepo(f) || f.Blocks == nil {
			return false, "unresolved call"
		}
		rets := returnsOf(f)
		if len(rets) == 0 {
			return false, "no return"
		}
		for _, r := range rets {
			if ok, why := b.freshBytesPtr(r.Results[0], depth+1); !ok {
				return false, fname(f) + ": " + why
			}
		}
		return true, fname(f) + " returns a pointer to a fresh make([]byte) copy"
	}
	return false, describeValue(v) + " is not a fresh allocation"
}

func describeValue(v ssa.Value) string {
	switch x := v.(type) {
	case *ssa.Parameter:
		return "parameter " + x.Name()
	case *ssa.Const:
		return "constant " + x.String()
	case *ssa.UnOp:
		return "load " + x.X.String()
	case *ssa.FieldAddr:
		return "field address " + x.String()
	case *ssa.Phi:
		return "phi " + x.Comment
	}
	return fmt.Sprintf("%T %s", v, v.String())
}

// ---- R-SUCCESS ---------------------------------------------------------------------

func ruleSuccess(c *Ctx) {
	for _, b := range c.bodies() {
		l := c.L
		b.arrayStaysArray(l)
		ai := b.findApply()
		if ai == nil {
			l.add("R-SUCCESS", b.Name, "anchor apply loop", "", Undecided, "apply loop not found", false)
			continue
		}
		b.refusalReasons(l, ai)
		b.resolverAndMergeRefusals(l, "R-SUCCESS")
		b.onlyTheEncoderFailsAfterTheLoop(l, ai)
		need := map[string]string{"add": "add", "move": "add", "copy": "add", "replace": "set", "remove": "remove", "test": ""}
		for _, k := range rfc6902Kinds {
			h := ai.handlers[k]
			if h == nil {
				continue
			}
			ei := errResultIndex(h)
			// blocks that perform the operation's effect
			effect := map[*ssa.BasicBlock]string{}
			if m := need[k]; m != "" {
				for _, cs := range containerCalls(h, m) {
					effect[cs.Block()] = "container." + m
				}
			}
			allInstrs(h, func(i ssa.Instruction) {
				if st, ok := i.(*ssa.Store); ok {
					if p, isP := st.Addr.(*ssa.Parameter); isP && isNamed(derefPtr(p.Type()), "container") {
						effect[st.Block()] = "root replacement"
					}
				}
				// the root replaced by a helper that is handed the root slot: every return of the
				// helper that reports success lies behind its store into the slot
				if call, ok := i.(*ssa.Call); ok {
					g := call.Call.StaticCallee()
					if g == nil || g.Pkg != b.Lib || len(g.Blocks) == 0 {
						return
					}
					for ai, a := range call.Call.Args {
						p, isP := a.(*ssa.Parameter)
						if !isP || !isNamed(derefPtr(p.Type()), "container") || ai >= len(g.Params) {
							continue
						}
						if _, isPtr := p.Type().Underlying().(*types.Pointer); !isPtr {
							continue
						}
						var stores []*ssa.Store
						allInstrs(g, func(j ssa.Instruction) {
							if st, ok := j.(*ssa.Store); ok && st.Addr == ssa.Value(g.Params[ai]) {
								stores = append(stores, st)
							}
						})
						if len(stores) == 0 {
							continue
						}
						gei := errResultIndex(g)
						all := true
						for _, r := range liveReturns(g) {
							if gei >= 0 && b.definitelyNonNilErr(retVal(r, gei), r.Block(), 0) {
								continue
							}
							dom := false
							for _, st := range stores {
								if b.instrDominates(st, r) {
									dom = true
								}
							}
							if !dom {
								all = false
							}
						}
						if all {
							// the effect holds on the success edge of the call; the handler's own error
							// test of the call guards the rest
							effect[call.Block()] = "root replacement (in " + fname(g) + ")"
						}
					}
				}
			})
			n := 0
			for _, r := range liveReturns(h) {
				if ei < 0 || !isNilConst(retVal(r, ei)) {
					continue
				}
				n++
				key := fmt.Sprintf("handler %q: success return #%d happens only after the operation's effect", k, n)
				why := ""
				if k == "test" {
					// a comparison verdict controls the return
					for _, e := range b.controlDepsTransitive(r.Block()) {
						iff, ok := e.From.Instrs[len(e.From.Instrs)-1].(*ssa.If)
						if !ok {
							continue
						}
						if comparisonVerdict(iff.Cond, 0) {
							why = "controlled by the comparison at " + b.posOf(iff)
						}
					}
				} else {
					// every feasible path from the entry to the return passes an effect block
					// (paths that contradict an exhaustive switch over an enumerated tag are pruned)
					type stateKey struct {
						bb  *ssa.BasicBlock
						sig string
					}
					seen := map[stateKey]bool{}
					// tag: what a boolean method that answered true has left in a tag field of its
					// receiver (tryDoc true: which == eDoc), per receiver and field, until a later
					// call is handed the receiver
					type tagKey struct {
						recv  ssa.Value
						field string
					}
					var walk func(bb *ssa.BasicBlock, excl map[ssa.Value]map[int64]bool, tags map[tagKey]int64, seenLoads map[ssa.Value]int64) bool
					walk = func(bb *ssa.BasicBlock, excl map[ssa.Value]map[int64]bool, tags map[tagKey]int64, seenLoads map[ssa.Value]int64) bool {
						sig := ""
						for v, m := range excl {
							sig += fmt.Sprintf("%p:%d;", v, len(m))
						}
						var tsig []string
						for tk, kv := range tags {
							tsig = append(tsig, fmt.Sprintf("%p.%s=%d", tk.recv, tk.field, kv))
						}
						for lv, kv := range seenLoads {
							tsig = append(tsig, fmt.Sprintf("%p=%d", lv, kv))
						}
						sort.Strings(tsig)
						sig += strings.Join(tsig, ";")
						sk := stateKey{bb, sig}
						if seen[sk] {
							return false
						}
						seen[sk] = true
						if _, isEff := effect[bb]; isEff {
							return false
						}
						if bb == r.Block() {
							return true
						}
						last := bb.Instrs[len(bb.Instrs)-1]
						// through the block: a call that is handed a receiver forgets its tags; a load
						// of a tag field sees the tag as it is then
						loaded := map[ssa.Value]int64{}
						for lv, kv := range seenLoads {
							loaded[lv] = kv
						}
						cur := tags
						var condCall *ssa.Call
						if iff, ok := last.(*ssa.If); ok {
							c0, _ := stripNot(iff.Cond)
							condCall, _ = c0.(*ssa.Call)
						}
						for _, in := range bb.Instrs {
							switch x := in.(type) {
							case *ssa.UnOp:
								if base, fr, ok := fieldLoad(x); ok {
									if kv, known := cur[tagKey{base, fr.Field}]; known {
										loaded[x] = kv
									}
								}
							case ssa.CallInstruction:
								for _, a := range x.Common().Args {
									for tk := range cur {
										if tk.recv == a {
											c2 := map[tagKey]int64{}
											for k2, v2 := range cur {
												if k2.recv != a {
													c2[k2] = v2
												}
											}
											cur = c2
											break
										}
									}
								}
							case *ssa.Store:
								if fa, ok := x.Addr.(*ssa.FieldAddr); ok {
									tk := tagKey{fa.X, fieldOfAddr(fa).Field}
									if _, known := cur[tk]; known {
										c2 := map[tagKey]int64{}
										for k2, v2 := range cur {
											if k2 != tk {
												c2[k2] = v2
											}
										}
										cur = c2
									}
								}
							}
						}
						for si, sblk := range bb.Succs {
							ex2 := excl
							tg2 := cur
							if iff, ok := last.(*ssa.If); ok {
								if condCall != nil && len(condCall.Call.Args) > 0 {
									_, neg := stripNot(iff.Cond)
									if (si == 0) != neg {
										if field, kv, ok := b.setsTagWhenTrue(condCall.Call.StaticCallee()); ok {
											tg2 = map[tagKey]int64{}
											for k2, v2 := range cur {
												tg2[k2] = v2
											}
											tg2[tagKey{condCall.Call.Args[0], field}] = kv
										}
									}
								}
								if bo, ok := iff.Cond.(*ssa.BinOp); ok && (bo.Op == token.EQL || bo.Op == token.NEQ) {
									if kv, ok := intConst(bo.Y); ok {
										if have, known := loaded[bo.X]; known {
											eqEdge := (si == 0) == (bo.Op == token.EQL)
											if eqEdge != (have == kv) {
												continue // the tag left by the method that answered true says otherwise
											}
										}
									}
								}
								if bo, ok := iff.Cond.(*ssa.BinOp); ok && bo.Op == token.EQL {
									if kv, ok := intConst(bo.Y); ok {
										if si == 1 { // not equal: exclude the constant for this tag value
											ex2 = map[ssa.Value]map[int64]bool{}
											for v, m := range excl {
												ex2[v] = m
											}
											m2 := map[int64]bool{}
											for c := range excl[bo.X] {
												m2[c] = true
											}
											m2[kv] = true
											ex2[bo.X] = m2
											if b.enumExhausted(bo.X.Type(), m2) || b.fieldDomainExhausted(bo.X, m2) {
												continue // no value of the enumerated type is left
											}
										}
									}
								}
							}
							if walk(sblk, ex2, tg2, loaded) {
								return true
							}
						}
						return false
					}
					if _, inEff := effect[r.Block()]; inEff || !walk(h.Blocks[0], map[ssa.Value]map[int64]bool{}, map[tagKey]int64{}, map[ssa.Value]int64{}) {
						var kinds []string
						for _, v := range effect {
							kinds = append(kinds, v)
						}
						sort.Strings(kinds)
						why = "every feasible path from the entry to this return passes " + strings.Join(dedup(kinds), " or ")
					}
				}
				if why == "" && k == "remove" && b.controlledByOptionField(r.Block(), "AllowMissingPathOnRemove") {
					why = "the AllowMissingPathOnRemove skip (R-OPTSCOPE)"
				}
				if why != "" {
					l.add("R-SUCCESS", b.Name, key, b.posOf(r), Discharged, why, true)
				} else {
					l.add("R-SUCCESS", b.Name, key, b.posOf(r), Violated, "the handler returns nil without having performed the operation on this path (an inapplicable operation is silently accepted and the following operations run)", true)
				}
			}
		}
	}
}

// comparisonVerdict: the condition derives from a boolean lazyNode method, or
// from a nil comparison of the operation's value / of a node / of its raw bytes.
func comparisonVerdict(v ssa.Value, depth int) bool {
	if v == nil || depth > 5 {
		return false
	}
	switch x := v.(type) {
	case *ssa.Call:
		if isLazyNodeBoolMethod(&x.Call) {
			return true
		}
		if f := x.Call.StaticCallee(); f != nil && recvTypeName(f) == "Operation" && f.Name() == "value" {
			return true
		}
	case *ssa.BinOp:
		return comparisonVerdict(x.X, depth+1) || comparisonVerdict(x.Y, depth+1)
	case *ssa.UnOp:
		if _, fr, ok := fieldLoad(x); ok && fr.Field == "raw" {
			return true
		}
		return comparisonVerdict(x.X, depth+1)
	case *ssa.Phi:
		for _, e := range x.Edges {
			if comparisonVerdict(e, depth+1) {
				return true
			}
		}
	case *ssa.Extract:
		// val == nil where val is the looked-up node
		if call, ok := x.Tuple.(*ssa.Call); ok && isContainerInvoke(&call.Call, "get") && x.Index == 0 {
			return true
		}
	}
	return false
}

// enumExhausted: t is a named integer type of the library and every named
// constant of that type is in the excluded set.
func (b *Body) enumExhausted(t types.Type, excluded map[int64]bool) bool {
	n, ok := t.(*types.Named)
	if !ok || n.Obj().Pkg() != b.Lib.Pkg {
		return false
	}
	cnt := 0
	for _, m := range b.Lib.Members {
		nc, ok := m.(*ssa.NamedConst)
		if !ok || !types.Identical(nc.Type(), t) {
			continue
		}
		cnt++
		if k, ok := intConst(nc.Value); !ok || !excluded[k] {
			return false
		}
	}
	return cnt > 0
}

// fieldDomainExhausted: v is a load of a struct field of a library type to
// which only constants are ever stored (a typestate tag); every such constant
// (and the zero value) is in the excluded set.
func (b *Body) fieldDomainExhausted(v ssa.Value, excluded map[int64]bool) bool {
	_, fr, ok := fieldLoad(v)
	if !ok || fr.Type == "" {
		return false
	}
	dom := map[int64]bool{0: true}
	allConst := true
	n := 0
	for _, fn := range b.srcFuncs(b.Lib) {
		allInstrs(fn, func(i ssa.Instruction) {
			st, ok := i.(*ssa.Store)
			if !ok {
				return
			}
			fa, ok := st.Addr.(*ssa.FieldAddr)
			if !ok || fieldOfAddr(fa) != fr {
				return
			}
			n++
			if k, ok := intConst(st.Val); ok {
				dom[k] = true
			} else {
				allConst = false
			}
		})
	}
	if !allConst || n == 0 {
		return false
	}
	for k := range dom {
		if !excluded[k] {
			return false
		}
	}
	return true
}

// checkOperationShape: an operation is a map from member name to raw JSON, so
// unknown members are ignored and member names are matched case-sensitively
// (a struct with json tags would match them case-insensitively); a patch is a
// slice of operations in document order.
func (b *Body) checkOperationShape(l *Ledger) {
	key := "Operation is map[string]*RawMessage and Patch is []Operation (unknown members ignored, names case-sensitive, order kept)"
	op := b.Lib.Type("Operation")
	pt := b.Lib.Type("Patch")
	bad := ""
	if op == nil || pt == nil {
		bad = "types Operation / Patch not found"
	} else {
		m, ok := op.Type().Underlying().(*types.Map)
		if !ok {
			bad = "Operation is not a map type: member names would be matched by the codec's case-insensitive struct-field rules"
		} else {
			if !isStringType(m.Key()) {
				bad = "Operation's key type is not string"
			}
			pe, ok := m.Elem().(*types.Pointer)
			if !ok || !isByteSlice(pe.Elem()) {
				bad = "Operation's values are not pointers to raw JSON (a null member could not be told from an absent one)"
			}
		}
		sl, ok := pt.Type().Underlying().(*types.Slice)
		if !ok || !types.Identical(sl.Elem(), op.Type()) {
			bad = "Patch is not a slice of Operation"
		}
	}
	if bad != "" {
		l.add("R-DISPATCH", b.Name, key, "", Violated, bad, true)
	} else {
		l.add("R-DISPATCH", b.Name, key, "", Discharged, "type shapes read from the type-checked package", false)
	}
	// Kind(): "unknown" unless the op member is present, non-null and a string
	kind := b.method(b.Lib, "Operation", "Kind")
	key = "Operation.Kind() yields the decoded op member only when it is present and not null"
	if kind == nil {
		l.add("R-DISPATCH", b.Name, key, "", Undecided, "accessor not found", false)
		return
	}
	var lk *ssa.Lookup
	allInstrs(kind, func(i ssa.Instruction) {
		if x, ok := i.(*ssa.Lookup); ok {
			if k, ok := strConst(x.Index); ok && k == "op" {
				lk = x
			}
		}
	})
	var okv, objv ssa.Value
	var helperStr ssa.Value
	plain := false
	if lk == nil {
		_, hok, hstr, _, isH := b.viaMemberHelper(kind, "op")
		if !isH {
			l.add("R-DISPATCH", b.Name, key, b.rel(kind.Pos()), Violated, "Kind does not look the op member up with comma-ok", true)
			return
		}
		okv, helperStr = hok, hstr
	} else {
		plain = !lk.CommaOk
		if plain {
			objv = lk
		}
		for _, ex := range extractOf(lk, 1) {
			okv = ex
		}
		for _, ex := range extractOf(lk, 0) {
			objv = ex
		}
	}
	bad = ""
	for _, r := range liveReturns(kind) {
		if s, isS := strConst(retVal(r, 0)); isS && s == "unknown" {
			continue
		}
		present, nonNull := false, false
		for _, f := range dominatingFacts(r.Block()) {
			if okv != nil && f.V == okv && f.True {
				present = true
			}
		}
		if objv != nil && knownNonNilAt(objv, r.Block()) {
			nonNull = true
		}
		if plain && nonNull {
			present = true
		}
		if helperStr != nil && present {
			nonNull = true
		}
		if !present || !nonNull {
			bad = "a decoded kind is returned at " + b.posOf(r) + " without the member being known present and non-null"
		}
	}
	if bad != "" {
		l.add("R-DISPATCH", b.Name, key, b.rel(kind.Pos()), Violated, bad, true)
	} else {
		l.add("R-DISPATCH", b.Name, key, b.rel(kind.Pos()), Discharged, "every return other than the constant \"unknown\" is dominated by ok && obj != nil", true)
	}
	key = "Operation.Kind(): the kind returned is what the codec's decoder made of the op member"
	bad = ""
	n := 0
	for _, r := range liveReturns(kind) {
		if s, isS := strConst(retVal(r, 0)); isS && s == "unknown" {
			continue
		}
		n++
		if helperStr != nil {
			if retVal(r, 0) != helperStr {
				bad = "return at " + b.posOf(r) + ": the kind returned is not the string the member helper decoded"
			}
			continue
		}
		if why := b.decodedString(retVal(r, 0), objv); why != "" {
			bad = "return at " + b.posOf(r) + ": " + why + " (an op spelled with escapes, \"\\u0061dd\", would be reported as unknown and the patch rejected)"
		}
	}
	if bad != "" {
		l.add("R-DISPATCH", b.Name, key, b.rel(kind.Pos()), Violated, bad, true)
	} else if n > 0 {
		l.add("R-DISPATCH", b.Name, key, b.rel(kind.Pos()), Discharged, fmt.Sprintf("%d decoded return(s), each the content of a local written only by the decoder from *obj", n), true)
	}
}

// operationOrderObligation: failures are decided in operation order. The
// apply function has one loop over the patch that can end the call — the
// dispatch loop; any other loop over the operations (a pre-scan, a
// validation pass) must not leave through an early exit into an error
// return, because it would report operation k+n while operation k is the
// first one that cannot be applied.
func (b *Body) operationOrderObligation(l *Ledger, ai *applyInfo) {
	fn := ai.loopFn
	key := "apply: an error is only ever reported from the dispatch loop, in operation order"
	var dispatch *ssa.BasicBlock
	if ds := ai.dispatchSite(); ds != nil {
		dispatch = innermostLoopHeader(ds.Block())
	}
	if dispatch == nil {
		l.add("R-DISPATCH", b.Name, key, b.rel(fn.Pos()), Undecided, "the dispatch is not inside a loop", false)
		return
	}
	isPatch := func(v ssa.Value) bool {
		return isNamed(v.Type(), "Patch")
	}
	headers := map[*ssa.BasicBlock]bool{}
	allInstrs(fn, func(i ssa.Instruction) {
		var x ssa.Value
		switch e := i.(type) {
		case *ssa.IndexAddr:
			x = e.X
		case *ssa.Index:
			x = e.X
		case *ssa.Range:
			x = e.X
		default:
			return
		}
		if !isPatch(unwrapConv(x)) {
			return
		}
		blk := i.Block()
		if _, isRange := i.(*ssa.Range); isRange && len(blk.Succs) == 1 {
			blk = blk.Succs[0]
		}
		if h := innermostLoopHeader(blk); h != nil {
			headers[h] = true
		}
	})
	bad := ""
	n := 0
	for h := range headers {
		if h == dispatch {
			continue
		}
		n++
		loop := naturalLoop(h)
		for u := range loop {
			if u == h {
				continue
			}
			for _, v := range u.Succs {
				if loop[v] {
					continue
				}
				if b.rejects(v) {
					bad = fmt.Sprintf("the loop over the operations at %s leaves through %s into an error return: an operation further down the patch decides the outcome before the earlier ones have been applied", b.posOf(h.Instrs[0]), b.posOf(u.Instrs[len(u.Instrs)-1]))
				}
			}
		}
	}
	// the same pre-pass moved into a helper: a library function that is handed the patch outside
	// the dispatch loop and whose error ends the call decides before operation 1 has been
	// applied what a later operation makes of the document as it was
	dloop := naturalLoop(dispatch)
	allInstrs(fn, func(i ssa.Instruction) {
		call, ok := i.(*ssa.Call)
		if !ok || dloop[call.Block()] || bad != "" {
			return
		}
		g := call.Call.StaticCallee()
		if g == nil || g.Pkg != b.Lib || len(errResultOf(call)) == 0 {
			return
		}
		takesPatch := false
		for _, a := range call.Call.Args {
			if isPatch(unwrapConv(a)) {
				takesPatch = true
			}
		}
		if !takesPatch {
			return
		}
		for _, e := range errResultOf(call) {
			for _, t := range nilTests(fn, e) {
				if b.rejects(t.Blk.Succs[t.NonNilSucc]) {
					bad = "the error of " + fname(g) + ", which is handed the whole patch at " + b.posOf(call) + " outside the dispatch loop, ends the call: operations are judged before the ones in front of them have been applied"
				}
			}
		}
	})
	if bad != "" {
		l.add("R-DISPATCH", b.Name, key, b.rel(fn.Pos()), Violated, bad, true)
	} else {
		l.add("R-DISPATCH", b.Name, key, b.rel(fn.Pos()), Discharged, fmt.Sprintf("the dispatch loop plus %d other loop(s) over the patch, none with an early exit into an error return; no helper that is handed the patch can end the call", n), true)
	}
}

// codecDecodeWrapper: f is a codec decoding entry point, or a library function
// that does nothing but hand its first two parameters to one.
func (b *Body) codecDecodeWrapper(f *ssa.Function, depth int) bool {
	if f == nil || depth > 2 {
		return false
	}
	if f.Pkg == b.Codec && b.Codec != nil {
		return strings.HasPrefix(f.Name(), "Unmarshal")
	}
	if f.Pkg != nil && f.Pkg.Pkg.Path() == "encoding/json" {
		return f.Name() == "Unmarshal" // the legacy package decodes with the standard library
	}
	if f.Pkg != b.Lib || f.Blocks == nil || len(f.Params) < 2 {
		return false
	}
	ok := false
	n := 0
	allInstrs(f, func(i ssa.Instruction) {
		call, isCall := i.(*ssa.Call)
		if !isCall {
			return
		}
		n++
		g := call.Call.StaticCallee()
		if len(call.Call.Args) >= 2 && call.Call.Args[0] == ssa.Value(f.Params[0]) && call.Call.Args[1] == ssa.Value(f.Params[1]) && b.codecDecodeWrapper(g, depth+1) {
			ok = true
		}
	})
	return ok && n == 1
}

// decodedString: the string value v is the content of a local that is written
// only by the codec's decoder applied to text derived from `from` (the raw
// member). Returns a reason when it is not.
func (b *Body) decodedString(v ssa.Value, from ssa.Value) string {
	u, ok := v.(*ssa.UnOp)
	if !ok || u.Op != token.MUL {
		return "the returned string is " + describeValue(v) + ", not the content of a variable filled by the decoder"
	}
	al, ok := u.X.(*ssa.Alloc)
	if !ok {
		return "the returned string is loaded from " + describeValue(u.X)
	}
	n := 0
	bad := ""
	for _, r := range *al.Referrers() {
		switch y := r.(type) {
		case *ssa.Store:
			if y.Addr == ssa.Value(al) {
				// a named result is stored back into itself at the return, and given the
				// other returns' values on paths that never come here
				if ld, isLd := y.Val.(*ssa.UnOp); isLd && ld.Op == token.MUL && ld.X == ssa.Value(al) {
					continue
				}
				if y.Block() != u.Block() && !reachesWithout(y.Block(), u.Block(), nil) {
					continue
				}
				bad = "the string is assigned at " + b.posOf(y) + " rather than decoded"
			}
		case *ssa.MakeInterface:
			for _, r2 := range *y.Referrers() {
				ci, ok := r2.(*ssa.Call)
				if !ok {
					continue
				}
				if !b.codecDecodeWrapper(ci.Call.StaticCallee(), 0) {
					bad = "the string is filled by " + calleeLabel(&ci.Call) + ", which is not the embedded codec's decoder"
					continue
				}
				in := unwrapConv(ci.Call.Args[0])
				if ld, ok := in.(*ssa.UnOp); !ok || ld.X != from {
					bad = "the decoder input at " + b.posOf(ci) + " is not the member's raw text"
					continue
				}
				n++
			}
		case ssa.CallInstruction:
			bad = "the string's address is passed to " + calleeLabel(y.Common())
		}
	}
	if bad == "" && n == 0 {
		bad = "no decoder call fills the returned string"
	}
	return bad
}

// sameCollection: two SSA values denote the same slice/string/array: identical,
// or loads of the same field of the same base, or loads of the same local.
func sameCollection(x, y ssa.Value) bool {
	x, y = unwrapConv(x), unwrapConv(y)
	if x == y {
		return true
	}
	b1, f1, ok1 := fieldLoad(x)
	b2, f2, ok2 := fieldLoad(y)
	if ok1 && ok2 && f1 == f2 && (b1 == b2 || sameCollection(b1, b2)) {
		return true
	}
	u1, o1 := x.(*ssa.UnOp)
	u2, o2 := y.(*ssa.UnOp)
	if o1 && o2 && u1.Op == token.MUL && u2.Op == token.MUL && u1.X == u2.X {
		if _, isAlloc := u1.X.(*ssa.Alloc); isAlloc {
			return true
		}
		if _, isParam := u1.X.(*ssa.Parameter); isParam {
			return true
		}
	}
	return false
}

// isCountedIndex recognises the hand-written counterpart of a range loop over
// the whole of `over`: the header h holds i = φ(0, i+1) and its branch is
// i < n or i != n with n = len(over) (computed in the header or hoisted in
// front of the loop).
func isCountedIndex(h *ssa.BasicBlock, idx ssa.Value, over ssa.Value) bool {
	phi, ok := idx.(*ssa.Phi)
	if !ok || phi.Block() != h {
		return false
	}
	sawInit, sawStep := false, false
	for _, e := range phi.Edges {
		if n, ok := intConst(e); ok && n == 0 {
			sawInit = true
			continue
		}
		if bo, ok := e.(*ssa.BinOp); ok && bo.Op == token.ADD && bo.X == ssa.Value(phi) {
			if one, ok := intConst(bo.Y); ok && one == 1 {
				sawStep = true
				continue
			}
		}
		return false
	}
	if !sawInit || !sawStep {
		return false
	}
	iff, ok := h.Instrs[len(h.Instrs)-1].(*ssa.If)
	if !ok {
		return false
	}
	cmp, ok := iff.Cond.(*ssa.BinOp)
	if !ok {
		return false
	}
	var bound ssa.Value
	switch {
	case (cmp.Op == token.LSS || cmp.Op == token.NEQ) && cmp.X == idx:
		bound = cmp.Y
	case (cmp.Op == token.GTR || cmp.Op == token.NEQ) && cmp.Y == idx:
		bound = cmp.X
	default:
		return false
	}
	// the body is on the true edge
	ln, ok := lenArg(bound)
	if !ok {
		return false
	}
	return sameCollection(ln, over)
}

// errorIsReturned: on every path from the call to an exit of its function the error result
// of the function is the call's own error (possibly through phis, or wrapped with %w).
func (b *Body) errorIsReturned(call *ssa.Call) (bool, string) {
	fn := call.Parent()
	ei := errResultIndex(fn)
	if ei < 0 {
		return false, fname(fn) + " has no error result"
	}
	vals := map[ssa.Value]bool{call: true}
	for _, ev := range errResultOf(call) {
		vals[ev] = true
	}
	for changed := true; changed; {
		changed = false
		allInstrs(fn, func(i ssa.Instruction) {
			if phi, ok := i.(*ssa.Phi); ok && !vals[phi] {
				for _, e := range phi.Edges {
					if vals[e] {
						vals[phi] = true
						changed = true
					}
				}
			}
		})
	}
	n := 0
	for _, r := range returnsOf(fn) {
		if r.Block() != call.Block() && !reachesBlock(call.Block(), r.Block()) {
			continue
		}
		n++
		rv := retVal(r, ei)
		if !vals[rv] && !b.wrapsOneOf(rv, vals) {
			return false, "the return at " + b.posOf(r) + " of " + fname(fn) + " does not hand on the handler's error"
		}
	}
	if n == 0 {
		return false, "no return is reachable from the handler call"
	}
	return true, fmt.Sprintf("the handler's error is the error result of %s on all %d return(s) reachable from the call", fname(fn), n)
}

// setsTagWhenTrue: f is a method with a bool result that answers true only after it has
// stored one constant into one integer field of its receiver (tryDoc: which = eDoc), and that
// hands its receiver to no other function: on the true edge of a call the field holds that
// constant.
func (b *Body) setsTagWhenTrue(f *ssa.Function) (field string, k int64, ok bool) {
	if f == nil || len(f.Blocks) == 0 || f.Signature.Recv() == nil || len(f.Params) == 0 {
		return "", 0, false
	}
	res := f.Signature.Results()
	if res.Len() != 1 || !types.Identical(res.At(0).Type().Underlying(), types.Typ[types.Bool]) {
		return "", 0, false
	}
	recv := f.Params[0]
	var stores []*ssa.Store
	clean := true
	allInstrs(f, func(i ssa.Instruction) {
		switch x := i.(type) {
		case *ssa.Store:
			if fa, isFA := x.Addr.(*ssa.FieldAddr); isFA && fa.X == ssa.Value(recv) {
				if _, isK := intConst(x.Val); isK {
					stores = append(stores, x)
				}
			}
		case ssa.CallInstruction:
			for _, a := range x.Common().Args {
				if a == ssa.Value(recv) {
					clean = false
				}
			}
		}
	})
	if !clean || len(stores) != 1 {
		return "", 0, false
	}
	st := stores[0]
	fa := st.Addr.(*ssa.FieldAddr)
	field = fieldOfAddr(fa).Field
	// no other store to that field
	other := false
	allInstrs(f, func(i ssa.Instruction) {
		if x, isS := i.(*ssa.Store); isS && x != st {
			if fa2, isFA := x.Addr.(*ssa.FieldAddr); isFA && fa2.X == ssa.Value(recv) && fieldOfAddr(fa2).Field == field {
				other = true
			}
		}
	})
	if other {
		return "", 0, false
	}
	n := 0
	for _, r := range liveReturns(f) {
		v, isK := boolConst(retVal(r, 0))
		if !isK {
			return "", 0, false
		}
		if !v {
			continue
		}
		n++
		if !b.instrDominates(st, r) {
			return "", 0, false
		}
	}
	if n == 0 {
		return "", 0, false
	}
	k, _ = intConst(st.Val)
	return field, k, true
}

// wrapsParamBytes: f returns constructor(&local) where local only ever holds f's []byte
// parameter (converted): the node's text is the parameter's memory. Returns the parameter index.
func wrapsParamBytes(f *ssa.Function) (int, bool) {
	if f == nil || len(f.Blocks) == 0 {
		return 0, false
	}
	rets := returnsOf(f)
	if len(rets) != 1 || len(rets[0].Results) != 1 {
		return 0, false
	}
	call, ok := rets[0].Results[0].(*ssa.Call)
	if !ok {
		return 0, false
	}
	g := call.Call.StaticCallee()
	if g == nil {
		return 0, false
	}
	k, ok := constructorParam(g)
	if !ok || k >= len(call.Call.Args) {
		return 0, false
	}
	al, ok := call.Call.Args[k].(*ssa.Alloc)
	if !ok {
		return 0, false
	}
	idx, n := -1, 0
	for _, r := range *al.Referrers() {
		st, ok := r.(*ssa.Store)
		if !ok || st.Addr != ssa.Value(al) {
			continue
		}
		n++
		p, ok := unwrapConv(st.Val).(*ssa.Parameter)
		if !ok {
			return 0, false
		}
		pi := paramIdx(p)
		if idx >= 0 && idx != pi {
			return 0, false
		}
		idx = pi
	}
	return idx, n > 0 && idx >= 0
}

// freshBytesVal: v is a byte slice allocated in this call chain and referred to by nothing
// else: make, append to nil (or to such a slice), a conversion or reslice of one, or the result
// of a repository function all of whose returns are such slices (or nil).
func (b *Body) freshBytesVal(v ssa.Value, depth int) (bool, string) {
	if depth > 4 {
		return false, "too deep"
	}
	switch x := v.(type) {
	case *ssa.MakeSlice:
		return true, "a fresh make([]byte, …)"
	case *ssa.Const:
		if x.IsNil() {
			return true, "nil"
		}
	case *ssa.Convert:
		return b.freshBytesVal(x.X, depth)
	case *ssa.ChangeType:
		return b.freshBytesVal(x.X, depth)
	case *ssa.Slice:
		return b.freshBytesVal(x.X, depth)
	case *ssa.Phi:
		why := ""
		for _, e := range x.Edges {
			ok, w := b.freshBytesVal(e, depth+1)
			if !ok {
				return false, w
			}
			if w != "nil" {
				why = w
			}
		}
		return true, why
	case *ssa.UnOp:
		// a local that go/ssa keeps in memory (a function with defer): every store into it
		// is fresh, and its address goes nowhere
		al, ok := x.X.(*ssa.Alloc)
		if !ok || x.Op != token.MUL {
			break
		}
		why, n := "", 0
		for _, r := range *al.Referrers() {
			switch y := r.(type) {
			case *ssa.Store:
				if y.Addr != ssa.Value(al) {
					return false, "the address of the local that holds the bytes is stored"
				}
				ok, w := b.freshBytesVal(y.Val, depth+1)
				if !ok {
					return false, w
				}
				n++
				if w != "nil" {
					why = w
				}
			case *ssa.UnOp, *ssa.DebugRef:
			default:
				return false, "the address of the local that holds the bytes is handed on"
			}
		}
		if n > 0 && why != "" {
			return true, why
		}
		return false, "a local that is never given fresh bytes"
	case *ssa.Extract:
		if call, ok := x.Tuple.(*ssa.Call); ok {
			return b.freshResult(call, x.Index, depth)
		}
	case *ssa.Call:
		if bi, ok := x.Call.Value.(*ssa.Builtin); ok && bi.Name() == "append" && len(x.Call.Args) > 0 {
			if ok, w := b.freshBytesVal(x.Call.Args[0], depth+1); ok {
				if w == "nil" {
					return true, "append([]byte(nil), …), a new array"
				}
				return true, "append to " + w
			}
			return false, "append to a slice that is not this call's own"
		}
		return b.freshResult(x, 0, depth)
	}
	return false, describeValue(v) + " is not a fresh allocation"
}

func (b *Body) freshResult(call *ssa.Call, idx int, depth int) (bool, string) {
	f := call.Call.StaticCallee()
	if f == nil || !b.inRepo(f) || len(f.Blocks) == 0 {
		return false, "result of a call that does not resolve to repository code"
	}
	why := ""
	n := 0
	for _, r := range liveReturns(f) {
		if idx >= len(r.Results) {
			return false, "no such result"
		}
		ok, w := b.freshBytesVal(r.Results[idx], depth+1)
		if !ok {
			return false, fname(f) + ": " + w
		}
		n++
		if w != "nil" {
			why = w
		}
	}
	if n == 0 || why == "" {
		return false, fname(f) + " never returns bytes"
	}
	return true, "the result of " + fname(f) + " (" + why + ")"
}

// isAccessorResult: v is result 0 of a call of the Operation accessor of that name.
func isAccessorResult(v ssa.Value, name string) bool {
	ex, ok := unwrapConv(v).(*ssa.Extract)
	if !ok || ex.Index != 0 {
		return false
	}
	call, ok := ex.Tuple.(*ssa.Call)
	if !ok {
		return false
	}
	f := call.Call.StaticCallee()
	return f != nil && recvTypeName(f) == "Operation" && f.Name() == name
}
