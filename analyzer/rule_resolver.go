package main

// R-TOKEN, "who decides": the function that resolves a JSON pointer to (container, key)
// answers "no such location" from what the lookups say and from the position of the
// separators, never from the text of a reference token or from an option. A reference token
// means nothing until the container it addresses is known: "-1" is an index in an array and
// a member name in an object (RFC 6901 §4), so a test on the token's text placed in the
// resolver — in front of the lookups — rejects member names that merely look like something.
//
// The rule walks every branch condition of the resolver back to its leaves and accepts:
//   - constants, lengths (len of anything), loop control of a range loop
//   - results of lookups: a call that is given a container / node / document value
//   - fields of document values (next.raw, d.obj …)
//   - the pointer as a whole compared with "", or given to a strings function together
//     with the separator "/" (where the separators are)
//   - the element in front of the first separator compared with ""
// and reports: a field of the options, and any other use of a reference token's text.

import (
	"fmt"
	"go/token"
	"go/types"
	"sort"
	"strings"

	"golang.org/x/tools/go/ssa"
)

type decisionWalk struct {
	b        *Body
	fn       *ssa.Function
	pathVals map[ssa.Value]bool // the pointer text (a parameter, or the result of the Operation accessor)
	allowOpt bool
	bad      []string
	seen     map[ssa.Value]bool
}

func isDocumentType(t types.Type) bool {
	for {
		p, ok := t.Underlying().(*types.Pointer)
		if !ok {
			break
		}
		t = p.Elem()
	}
	if n, ok := types.Unalias(t).(*types.Named); ok {
		switch n.Obj().Name() {
		case "container", "lazyNode", "partialDoc", "partialArray", "RawMessage", "Operation", "Patch":
			return true
		}
	}
	return false
}

// splitDerived: v is the result of strings.Split(...) or a slice of it.
func splitDerived(v ssa.Value) bool {
	for d := 0; d < 6; d++ {
		switch x := v.(type) {
		case *ssa.Call:
			return stdName(x.Call.StaticCallee()) == "strings.Split"
		case *ssa.Slice:
			v = x.X
		case *ssa.Phi:
			for _, e := range x.Edges {
				if splitDerived(e) {
					return true
				}
			}
			return false
		default:
			return false
		}
	}
	return false
}

func (w *decisionWalk) note(at ssa.Value, why string) {
	pos := ""
	if i, ok := at.(ssa.Instruction); ok {
		pos = w.b.posOf(i)
	}
	w.bad = append(w.bad, why+" ("+pos+")")
}

func (w *decisionWalk) walk(v ssa.Value, depth int) {
	if v == nil || w.seen[v] || depth > 40 {
		return
	}
	w.seen[v] = true
	switch x := v.(type) {
	case *ssa.Const, *ssa.Global, *ssa.Function, *ssa.Builtin:
		return
	case *ssa.Parameter:
		if w.pathVals[x] {
			w.note(x, "the text of the pointer "+x.Name()+" takes part in the decision other than through a comparison with \"\" or the position of its separators")
			return
		}
		if isStringType(x.Type()) {
			w.note(x, "the text of parameter "+x.Name()+" takes part in the decision")
		}
		return
	case *ssa.BinOp:
		// pointer == "" / first element == ""
		if x.Op == token.EQL || x.Op == token.NEQ {
			for _, pr := range [][2]ssa.Value{{x.X, x.Y}, {x.Y, x.X}} {
				if s, ok := strConst(pr[1]); ok && s == "" {
					if w.pathVals[pr[0]] || w.isLeadingElement(pr[0]) {
						return
					}
				}
			}
		}
		w.walk(x.X, depth+1)
		w.walk(x.Y, depth+1)
	case *ssa.UnOp:
		if x.Op == token.MUL {
			w.walkAddr(x.X, x, depth+1)
			return
		}
		w.walk(x.X, depth+1)
	case *ssa.Phi:
		for _, e := range x.Edges {
			w.walk(e, depth+1)
		}
	case *ssa.Extract:
		if nx, ok := x.Tuple.(*ssa.Next); ok {
			if x.Index == 2 {
				if rg, ok := nx.Iter.(*ssa.Range); ok && splitDerived(rg.X) {
					w.note(x, "the text of a reference token (the range value over the split pointer) takes part in the decision")
				}
			}
			return
		}
		w.walk(x.Tuple, depth+1)
	case *ssa.Call:
		cc := &x.Call
		if bi, ok := cc.Value.(*ssa.Builtin); ok {
			if bi.Name() == "len" || bi.Name() == "cap" {
				return
			}
			for _, a := range cc.Args {
				w.walk(a, depth+1)
			}
			return
		}
		if cc.IsInvoke() {
			return // a method of the container (or error) interface: a lookup
		}
		// a call that is given a document value is a lookup: its answer is about the document
		for _, a := range cc.Args {
			if isDocumentType(a.Type()) {
				return
			}
		}
		f := cc.StaticCallee()
		// the pointer handed to a strings function together with the separator: where the separators are
		if f != nil && strings.HasPrefix(stdName(f), "strings.") {
			sep := false
			for _, a := range cc.Args {
				if s, ok := strConst(a); ok && s == "/" {
					sep = true
				}
				if k, ok := intConst(a); ok && k == '/' {
					sep = true
				}
			}
			if sep {
				onlyPath := true
				for _, a := range cc.Args {
					if _, isC := a.(*ssa.Const); isC {
						continue
					}
					if !w.pathVals[a] {
						onlyPath = false
					}
				}
				if onlyPath {
					return
				}
			}
		}
		for _, a := range cc.Args {
			w.walk(a, depth+1)
		}
	case *ssa.Index:
		w.walkElem(x.X, x.Index, x, depth)
	case *ssa.Lookup:
		if w.pathVals[x.X] {
			if k, ok := intConst(x.Index); ok && k == 0 {
				return // the first byte of the pointer: its leading separator
			}
			w.note(x, "a byte of the pointer text takes part in the decision")
			return
		}
		w.walk(x.X, depth+1)
		w.walk(x.Index, depth+1)
	case *ssa.Slice:
		if w.pathVals[x.X] || splitDerived(x.X) {
			if isStringType(x.Type()) {
				w.note(x, "a piece of the pointer text takes part in the decision")
			}
			return
		}
		w.walk(x.X, depth+1)
	case *ssa.Convert:
		w.walk(x.X, depth+1)
	case *ssa.ChangeType:
		w.walk(x.X, depth+1)
	case *ssa.MakeInterface:
		w.walk(x.X, depth+1)
	case *ssa.ChangeInterface:
		w.walk(x.X, depth+1)
	case *ssa.TypeAssert:
		w.walk(x.X, depth+1)
	case *ssa.FieldAddr, *ssa.IndexAddr, *ssa.Alloc:
		w.walkAddr(x, x, depth+1)
	case *ssa.Field:
		w.walk(x.X, depth+1)
	case *ssa.Next, *ssa.Range, *ssa.MakeSlice, *ssa.MakeMap, *ssa.MakeClosure:
		return
	}
}

func (w *decisionWalk) isLeadingElement(v ssa.Value) bool {
	switch x := v.(type) {
	case *ssa.UnOp:
		if ia, ok := x.X.(*ssa.IndexAddr); ok && splitDerived(ia.X) {
			if _, isSl := ia.X.(*ssa.Slice); isSl {
				return false
			}
			k, ok := intConst(ia.Index)
			return ok && k == 0
		}
	case *ssa.Index:
		if splitDerived(x.X) {
			if _, isSl := x.X.(*ssa.Slice); isSl {
				return false
			}
			k, ok := intConst(x.Index)
			return ok && k == 0
		}
	}
	return false
}

func (w *decisionWalk) walkElem(coll, idx ssa.Value, at ssa.Value, depth int) {
	if splitDerived(coll) {
		w.note(at, "the text of a reference token (an element of the split pointer) takes part in the decision")
		return
	}
	w.walk(coll, depth+1)
	w.walk(idx, depth+1)
}

func (w *decisionWalk) walkAddr(addr ssa.Value, at ssa.Value, depth int) {
	switch a := addr.(type) {
	case *ssa.FieldAddr:
		tn := derefNamed(a.X.Type())
		if tn != nil && tn.Obj().Name() == "ApplyOptions" {
			if !w.allowOpt {
				w.note(at, "the option "+fieldName(a.X.Type(), a.Field)+" takes part in the decision")
			}
			return
		}
		if isDocumentType(a.X.Type()) {
			return // state of the document
		}
		w.walk(a.X, depth+1)
	case *ssa.IndexAddr:
		w.walkElem(a.X, a.Index, at, depth)
	case *ssa.Alloc:
		// a local that was spilled: every value stored into it
		if a.Referrers() != nil {
			for _, r := range *a.Referrers() {
				if st, ok := r.(*ssa.Store); ok && st.Addr == ssa.Value(a) {
					w.walk(st.Val, depth+1)
				}
			}
		}
	case *ssa.Global:
		if isBoolOrIntType(derefPtr(a.Type())) && !w.allowOpt {
			w.note(at, "the package setting "+a.Name()+" takes part in the decision")
		}
	default:
		w.walk(addr, depth+1)
	}
}

func isBoolOrIntType(t types.Type) bool {
	bt, ok := t.Underlying().(*types.Basic)
	return ok && bt.Info()&(types.IsBoolean|types.IsInteger) != 0
}

// resolverDecides adds, per resolver function, one obligation covering all its branches.
func (b *Body) resolverDecides(l *Ledger) {
	n := 0
	for _, fn := range b.srcFuncs(b.Lib) {
		res := fn.Signature.Results()
		if fn.Signature.Recv() != nil || res.Len() != 2 || !isNamed(res.At(0).Type(), "container") || !isStringType(res.At(1).Type()) {
			continue
		}
		n++
		w := &decisionWalk{b: b, fn: fn, pathVals: map[ssa.Value]bool{}, seen: map[ssa.Value]bool{}}
		for _, p := range fn.Params {
			if isStringType(p.Type()) {
				w.pathVals[p] = true
			}
		}
		conds := 0
		for _, bb := range fn.Blocks {
			if iff, ok := lastInstr(bb).(*ssa.If); ok {
				conds++
				w.walk(iff.Cond, 0)
			}
		}
		key := fmt.Sprintf("%s: \"no such location\" is decided by the lookups and the separators, not by a token's text or an option", b.canonFname(fn))
		if len(w.bad) > 0 {
			sort.Strings(w.bad)
			l.add("R-TOKEN", b.Name, key, b.rel(fn.Pos()), Violated, w.bad[0]+": the resolver runs before the kind of the addressed container is known, so a member whose name merely looks like an index (\"-1\"), or any name the test dislikes, can no longer be addressed in an object", true)
		} else {
			l.add("R-TOKEN", b.Name, key, b.rel(fn.Pos()), Discharged, fmt.Sprintf("%d branch condition(s): each is built from lookup results, document state, lengths, the pointer compared with \"\" and the element in front of the first separator", conds), true)
		}
	}
	if n == 0 {
		l.add("R-TOKEN", b.Name, "resolver: who decides", "", Undecided, "no function answering (container, key) found", false)
	}
}
