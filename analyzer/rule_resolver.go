package main

// R-TOKEN, "who decides": the function that resolves a JSON pointer to (container, key)
// answers "no such location" from what the lookups say and from the position of the
// separators, never from the text of a reference token or from an option. A reference token
// means nothing until the container it addresses is known: "-1" is an index in an array and
// a member name in an object (RFC 6901 §4), so a test on the token's text placed in the
// resolver — in front of the lookups — rejects member names that merely look like something.
//
// The rule walks every branch condition of the resolver back to its leaves and accepts:
//   - constants, lengths (len of anything), loop control of a range loop
//   - results of lookups: a call that is given a container / node / document value
//   - fields of document values (next.raw, d.obj …)
//   - the pointer as a whole compared with "", or given to a strings function together
//     with the separator "/" (where the separators are)
//   - the element in front of the first separator compared with ""
// and reports: a field of the options, and any other use of a reference token's text.

import (
	"fmt"
	"go/token"
	"go/types"
	"sort"
	"strings"

	"golang.org/x/tools/go/ssa"
)

type decisionWalk struct {
	b        *Body
	fn       *ssa.Function
	pathVals map[ssa.Value]bool // the pointer text (a parameter, or the result of the Operation accessor)
	allowOpt bool
	bad      []string
	seen     map[ssa.Value]bool
}

func isDocumentType(t types.Type) bool {
	for {
		p, ok := t.Underlying().(*types.Pointer)
		if !ok {
			break
		}
		t = p.Elem()
	}
	if n, ok := types.Unalias(t).(*types.Named); ok {
		switch n.Obj().Name() {
		case "container", "lazyNode", "partialDoc", "partialArray", "RawMessage", "Operation", "Patch":
			return true
		}
	}
	return false
}

// splitDerived: v is the result of strings.Split(...) or a slice of it.
func splitDerived(v ssa.Value) bool {
	return splitDerivedDepth(v, 0)
}

func splitDerivedDepth(v ssa.Value, d int) bool {
	for ; d < 8; d++ {
		switch x := v.(type) {
		case *ssa.Call:
			return stdName(x.Call.StaticCallee()) == "strings.Split"
		case *ssa.Slice:
			v = x.X
		case *ssa.Phi:
			for _, e := range x.Edges {
				if splitDerivedDepth(e, d+1) {
					return true
				}
			}
			return false
		default:
			return false
		}
	}
	return false
}

func (w *decisionWalk) note(at ssa.Value, why string) {
	pos := ""
	if i, ok := at.(ssa.Instruction); ok {
		pos = w.b.posOf(i)
	}
	w.bad = append(w.bad, why+" ("+pos+")")
}

func (w *decisionWalk) walk(v ssa.Value, depth int) {
	if v == nil || w.seen[v] || depth > 40 {
		return
	}
	w.seen[v] = true
	switch x := v.(type) {
	case *ssa.Const, *ssa.Global, *ssa.Function, *ssa.Builtin:
		return
	case *ssa.Parameter:
		if w.pathVals[x] {
			w.note(x, "the text of the pointer "+x.Name()+" takes part in the decision other than through a comparison with \"\" or the position of its separators")
			return
		}
		if isStringType(x.Type()) {
			w.note(x, "the text of parameter "+x.Name()+" takes part in the decision")
		}
		return
	case *ssa.BinOp:
		// pointer == "" / first element == ""
		if x.Op == token.EQL || x.Op == token.NEQ {
			for _, pr := range [][2]ssa.Value{{x.X, x.Y}, {x.Y, x.X}} {
				if s, ok := strConst(pr[1]); ok && s == "" {
					if w.pathVals[pr[0]] || w.isLeadingElement(pr[0]) {
						return
					}
				}
			}
		}
		w.walk(x.X, depth+1)
		w.walk(x.Y, depth+1)
	case *ssa.UnOp:
		if x.Op == token.MUL {
			w.walkAddr(x.X, x, depth+1)
			return
		}
		w.walk(x.X, depth+1)
	case *ssa.Phi:
		for _, e := range x.Edges {
			w.walk(e, depth+1)
		}
	case *ssa.Extract:
		if nx, ok := x.Tuple.(*ssa.Next); ok {
			if x.Index == 2 {
				if rg, ok := nx.Iter.(*ssa.Range); ok && splitDerived(rg.X) {
					w.note(x, "the text of a reference token (the range value over the split pointer) takes part in the decision")
				}
			}
			return
		}
		w.walk(x.Tuple, depth+1)
	case *ssa.Call:
		cc := &x.Call
		if bi, ok := cc.Value.(*ssa.Builtin); ok {
			if bi.Name() == "len" || bi.Name() == "cap" {
				return
			}
			for _, a := range cc.Args {
				w.walk(a, depth+1)
			}
			return
		}
		if cc.IsInvoke() {
			return // a method of the container (or error) interface: a lookup
		}
		// a call that is given a document value is a lookup: its answer is about the document
		for _, a := range cc.Args {
			if isDocumentType(a.Type()) {
				return
			}
		}
		f := cc.StaticCallee()
		// the pointer handed to a strings function together with the separator: where the separators are
		if f != nil && strings.HasPrefix(stdName(f), "strings.") {
			sep := false
			for _, a := range cc.Args {
				if s, ok := strConst(a); ok && s == "/" {
					sep = true
				}
				if k, ok := intConst(a); ok && k == '/' {
					sep = true
				}
			}
			if sep {
				onlyPath := true
				for _, a := range cc.Args {
					if _, isC := a.(*ssa.Const); isC {
						continue
					}
					if !w.pathVals[a] {
						onlyPath = false
					}
				}
				if onlyPath {
					return
				}
			}
		}
		for _, a := range cc.Args {
			w.walk(a, depth+1)
		}
	case *ssa.Index:
		w.walkElem(x.X, x.Index, x, depth)
	case *ssa.Lookup:
		if w.pathVals[x.X] {
			if k, ok := intConst(x.Index); ok && k == 0 {
				return // the first byte of the pointer: its leading separator
			}
			w.note(x, "a byte of the pointer text takes part in the decision")
			return
		}
		w.walk(x.X, depth+1)
		w.walk(x.Index, depth+1)
	case *ssa.Slice:
		if w.pathVals[x.X] || splitDerived(x.X) {
			if isStringType(x.Type()) {
				w.note(x, "a piece of the pointer text takes part in the decision")
			}
			return
		}
		w.walk(x.X, depth+1)
	case *ssa.Convert:
		w.walk(x.X, depth+1)
	case *ssa.ChangeType:
		w.walk(x.X, depth+1)
	case *ssa.MakeInterface:
		w.walk(x.X, depth+1)
	case *ssa.ChangeInterface:
		w.walk(x.X, depth+1)
	case *ssa.TypeAssert:
		w.walk(x.X, depth+1)
	case *ssa.FieldAddr, *ssa.IndexAddr, *ssa.Alloc:
		w.walkAddr(x, x, depth+1)
	case *ssa.Field:
		w.walk(x.X, depth+1)
	case *ssa.Next, *ssa.Range, *ssa.MakeSlice, *ssa.MakeMap, *ssa.MakeClosure:
		return
	}
}

func (w *decisionWalk) isLeadingElement(v ssa.Value) bool {
	switch x := v.(type) {
	case *ssa.UnOp:
		if ia, ok := x.X.(*ssa.IndexAddr); ok && splitDerived(ia.X) {
			if _, isSl := ia.X.(*ssa.Slice); isSl {
				return false
			}
			k, ok := intConst(ia.Index)
			return ok && k == 0
		}
	case *ssa.Index:
		if splitDerived(x.X) {
			if _, isSl := x.X.(*ssa.Slice); isSl {
				return false
			}
			k, ok := intConst(x.Index)
			return ok && k == 0
		}
	}
	return false
}

func (w *decisionWalk) walkElem(coll, idx ssa.Value, at ssa.Value, depth int) {
	if splitDerived(coll) {
		w.note(at, "the text of a reference token (an element of the split pointer) takes part in the decision")
		return
	}
	w.walk(coll, depth+1)
	w.walk(idx, depth+1)
}

func (w *decisionWalk) walkAddr(addr ssa.Value, at ssa.Value, depth int) {
	switch a := addr.(type) {
	case *ssa.FieldAddr:
		tn := derefNamed(a.X.Type())
		if tn != nil && tn.Obj().Name() == "ApplyOptions" {
			if !w.allowOpt {
				w.note(at, "the option "+fieldName(a.X.Type(), a.Field)+" takes part in the decision")
			}
			return
		}
		if isDocumentType(a.X.Type()) {
			return // state of the document
		}
		w.walk(a.X, depth+1)
	case *ssa.IndexAddr:
		w.walkElem(a.X, a.Index, at, depth)
	case *ssa.Alloc:
		// a local that was spilled: every value stored into it
		if a.Referrers() != nil {
			for _, r := range *a.Referrers() {
				if st, ok := r.(*ssa.Store); ok && st.Addr == ssa.Value(a) {
					w.walk(st.Val, depth+1)
				}
			}
		}
	case *ssa.Global:
		if isBoolOrIntType(derefPtr(a.Type())) && !w.allowOpt {
			w.note(at, "the package setting "+a.Name()+" takes part in the decision")
		}
	default:
		w.walk(addr, depth+1)
	}
}

func isBoolOrIntType(t types.Type) bool {
	bt, ok := t.Underlying().(*types.Basic)
	return ok && bt.Info()&(types.IsBoolean|types.IsInteger) != 0
}

// resolverDecides adds, per resolver function, one obligation covering all its branches.
func (b *Body) resolverDecides(l *Ledger) {
	n := 0
	for _, fn := range b.srcFuncs(b.Lib) {
		res := fn.Signature.Results()
		if fn.Signature.Recv() != nil || res.Len() != 2 || !isNamed(res.At(0).Type(), "container") || !isStringType(res.At(1).Type()) {
			continue
		}
		n++
		w := &decisionWalk{b: b, fn: fn, pathVals: map[ssa.Value]bool{}, seen: map[ssa.Value]bool{}}
		for _, p := range fn.Params {
			if isStringType(p.Type()) {
				w.pathVals[p] = true
			}
		}
		conds := 0
		for _, bb := range fn.Blocks {
			if iff, ok := lastInstr(bb).(*ssa.If); ok {
				conds++
				w.walk(iff.Cond, 0)
			}
		}
		key := fmt.Sprintf("%s: \"no such location\" is decided by the lookups and the separators, not by a token's text or an option", b.canonFname(fn))
		if len(w.bad) > 0 {
			sort.Strings(w.bad)
			l.add("R-TOKEN", b.Name, key, b.rel(fn.Pos()), Violated, w.bad[0]+": the resolver runs before the kind of the addressed container is known, so a member whose name merely looks like an index (\"-1\"), or any name the test dislikes, can no longer be addressed in an object", true)
		} else {
			l.add("R-TOKEN", b.Name, key, b.rel(fn.Pos()), Discharged, fmt.Sprintf("%d branch condition(s): each is built from lookup results, document state, lengths, the pointer compared with \"\" and the element in front of the first separator", conds), true)
		}
	}
	if n == 0 {
		l.add("R-TOKEN", b.Name, "resolver: who decides", "", Undecided, "no function answering (container, key) found", false)
	}
}

// indexSyntax (R-TOKEN): a reference token is an array index only in RFC 6901's spelling —
// "0", or digits that do not begin with "0" — plus this library's negative indices. The
// standard conversions accept more ("+1", "01", "-0", "0x1" with base 0): with them a member
// name that merely converts is taken for an index, so `add /a/+1` under EnsurePathExistsOnAdd
// creates an array where the property wants an object, and `/a/01` addresses element 1 where
// RFC 6902 evaluation fails. Every integer conversion of a token must therefore be followed by
// a check that the number, written back, is the token — with the failing edge an error.
func (b *Body) indexSyntax(l *Ledger) {
	n := 0
	for _, fn := range b.srcFuncs(b.Lib) {
		k := 0
		allInstrs(fn, func(i ssa.Instruction) {
			call, ok := i.(*ssa.Call)
			if !ok {
				return
			}
			f := call.Call.StaticCallee()
			if f == nil || f.Pkg == nil || f.Pkg.Pkg.Path() != "strconv" || (f.Name() != "Atoi" && f.Name() != "ParseInt" && f.Name() != "ParseUint") {
				return
			}
			tok := call.Call.Args[0]
			n++
			k++
			key := fmt.Sprintf("%s: integer conversion #%d of a reference token accepts only RFC 6901's index spelling", b.canonFname(fn), k)
			var num ssa.Value
			for _, ex := range extractOf(call, 0) {
				num = ex
			}
			ok2 := false
			why := "the result of " + f.Name() + " is used without a check that it spells the token: \"+1\", \"01\" and \"-0\" convert, so a member name is taken for an index (an array is created where an object is due; an element is addressed where RFC 6902 evaluation fails)"
			if num != nil {
				for _, bb := range fn.Blocks {
					iff, isIf := lastInstr(bb).(*ssa.If)
					if !isIf {
						continue
					}
					bo, isBo := iff.Cond.(*ssa.BinOp)
					if !isBo || (bo.Op != token.EQL && bo.Op != token.NEQ) {
						continue
					}
					for _, pr := range [][2]ssa.Value{{bo.X, bo.Y}, {bo.Y, bo.X}} {
						fc, isCall := pr[0].(*ssa.Call)
						if !isCall || pr[1] != tok {
							continue
						}
						g := fc.Call.StaticCallee()
						if g == nil || g.Pkg == nil || g.Pkg.Pkg.Path() != "strconv" || (g.Name() != "Itoa" && g.Name() != "FormatInt") {
							continue
						}
						if a0 := unwrapConv(fc.Call.Args[0]); a0 != num {
							continue
						}
						uneq := 0
						if bo.Op == token.EQL {
							uneq = 1
						}
						if b.rejects(bb.Succs[uneq]) {
							ok2 = true
							why = "strconv.Itoa(result) is compared with the token at " + b.posOf(iff) + " and the unequal edge returns an error"
						}
					}
				}
			}
			v := Discharged
			if !ok2 {
				v = Violated
			}
			l.add("R-TOKEN", b.Name, key, b.posOf(call), v, why, true)
		})
	}
	if n == 0 {
		l.add("R-TOKEN", b.Name, "index syntax: integer conversions of reference tokens", "", Undecided, "no strconv conversion found in the library body", false)
	}
	b.noHandWrittenDecimal(l)
}

// noHandWrittenDecimal (R-TOKEN): the library converts no digits itself. strconv reports a
// number that does not fit an int (and the methods turn that into "no such element"); a loop
// of the library's own that accumulates value*10 + digit wraps around silently, so the token
// 18446744073709551616 addresses element 0. Any multiplication by ten that feeds a loop-carried
// value in the library body is therefore reported.
func (b *Body) noHandWrittenDecimal(l *Ledger) {
	key := "index syntax: digits are converted by strconv, not accumulated by the library (overflow is reported, not wrapped)"
	bad := ""
	for _, fn := range b.srcFuncs(b.Lib) {
		allInstrs(fn, func(i ssa.Instruction) {
			bo, ok := i.(*ssa.BinOp)
			if !ok || bo.Op != token.MUL {
				return
			}
			ten := false
			for _, o := range []ssa.Value{bo.X, bo.Y} {
				if k, isK := intConst(o); isK && k == 10 {
					ten = true
				}
			}
			if !ten || innermostLoopHeader(bo.Block()) == nil {
				return
			}
			// loop carried: one operand is a phi of the loop (through conversions)
			carried := false
			for _, o := range []ssa.Value{bo.X, bo.Y} {
				if _, isPhi := unwrapConv(o).(*ssa.Phi); isPhi {
					carried = true
				}
			}
			if carried {
				bad = "a running value is multiplied by ten inside a loop at " + b.posOf(bo) + " in " + fname(fn) + ": a decimal conversion of the library's own, which wraps around for tokens beyond the integer range instead of failing"
			}
		})
	}
	if bad != "" {
		l.add("R-TOKEN", b.Name, key, "", Violated, bad, true)
	} else {
		l.add("R-TOKEN", b.Name, key, "", Discharged, "no loop-carried multiplication by ten in the library body", true)
	}
}

// isIndexParser: strconv.Atoi, or a library function (string) (int, error) built on it — the
// token is converted with Atoi and the number returned (after whatever syntax check).
func (b *Body) isIndexParser(f *ssa.Function) bool {
	if f == nil {
		return false
	}
	if stdName(f) == "strconv.Atoi" {
		return true
	}
	if f.Pkg != b.Lib || len(f.Blocks) == 0 || f.Signature.Recv() != nil || len(f.Params) != 1 || !isStringType(f.Params[0].Type()) {
		return false
	}
	res := f.Signature.Results()
	if res.Len() != 2 || !isErrorType(res.At(1).Type()) {
		return false
	}
	if bt, ok := res.At(0).Type().Underlying().(*types.Basic); !ok || bt.Kind() != types.Int {
		return false
	}
	var atoi *ssa.Call
	allInstrs(f, func(i ssa.Instruction) {
		if c, ok := i.(*ssa.Call); ok && stdName(c.Call.StaticCallee()) == "strconv.Atoi" && c.Call.Args[0] == ssa.Value(f.Params[0]) {
			atoi = c
		}
	})
	if atoi == nil {
		return false
	}
	// every return with a nil error hands back the converted number itself
	for _, r := range returnsOf(f) {
		if b.definitelyNonNilErr(r.Results[1], r.Block(), 0) {
			continue
		}
		ex, ok := r.Results[0].(*ssa.Extract)
		if !ok || ex.Tuple != ssa.Value(atoi) || ex.Index != 0 {
			return false
		}
	}
	return true
}
