package main

// R-ROOTDISPATCH: the kind of a caller-supplied document is never decided
// from a fixed byte offset of possibly-padded text. R-WS: every
// whitespace-skipping predicate skips at least the four JSON whitespace
// characters and recognises exactly the intended first byte.

import (
	"fmt"
	"go/token"
	"sort"
	"strings"

	"golang.org/x/tools/go/ssa"
)

func init() {
	register(&Rule{ID: "R-ROOTDISPATCH", Doc: "no branch depends on a constant-index byte of a []byte parameter (or of a sub-slice / partial trim of it): leading whitespace of a well-formed text must not change how its root is classified; accepted forms are predicates that skip whitespace in a loop (R-WS), bytes.TrimSpace, and bytes.Trim*/TrimLeft with a constant cutset that contains space, tab, LF and CR",
		Run: ruleRootDispatch, Min: map[string]int{"v5": 3, "legacy": 2}})
	register(&Rule{ID: "R-WS", Doc: "for every byte-classifying loop over a []byte parameter that returns a boolean (found as: a range loop whose body only compares the byte with constants), the exact sets of bytes that continue the loop, return true and return false are computed by path enumeration: the skipped set contains {0x20, 0x09, 0x0A, 0x0D} and nothing that can start a JSON value, and the accepting set is a single structural byte",
		Run: ruleWS, Min: map[string]int{}})
}

var jsonWS = []byte{' ', '\t', '\n', '\r'}

// paddedOrigin traces a []byte value back to a parameter of fn. It returns
// (param, how) where how describes the trimming applied: "" (none / slicing),
// "full" (whitespace fully trimmed), or a reason why the trim is partial.
func paddedOrigin(v ssa.Value, depth int) (*ssa.Parameter, string) {
	if depth > 8 {
		return nil, ""
	}
	switch x := v.(type) {
	case *ssa.Parameter:
		if isByteSlice(x.Type()) {
			return x, ""
		}
	case *ssa.Slice:
		p, how := paddedOrigin(x.X, depth+1)
		if p != nil && x.Low != nil {
			// dropping a computed prefix (e.g. the index found by a skipping loop) is not a fixed offset
			if _, isConst := x.Low.(*ssa.Const); !isConst {
				return p, "full"
			}
		}
		return p, how
	case *ssa.Convert:
		return paddedOrigin(x.X, depth+1)
	case *ssa.ChangeType:
		return paddedOrigin(x.X, depth+1)
	case *ssa.Phi:
		var pr *ssa.Parameter
		how := "full"
		for _, e := range x.Edges {
			p, h := paddedOrigin(e, depth+1)
			if p == nil {
				return nil, ""
			}
			pr = p
			if h != "full" {
				how = h
			}
		}
		return pr, how
	case *ssa.UnOp:
		// load of a local that holds the (re-assigned) parameter
		if al, ok := x.X.(*ssa.Alloc); ok && x.Op == token.MUL {
			var pr *ssa.Parameter
			how := "full"
			for _, r := range *al.Referrers() {
				if st, ok := r.(*ssa.Store); ok && st.Addr == ssa.Value(al) {
					p, h := paddedOrigin(st.Val, depth+1)
					if p == nil {
						return nil, ""
					}
					pr = p
					if h != "full" {
						how = h
					}
				}
			}
			return pr, how
		}
	case *ssa.Call:
		f := x.Call.StaticCallee()
		if f == nil {
			return nil, ""
		}
		switch stdName(f) {
		case "bytes.TrimSpace":
			p, _ := paddedOrigin(x.Call.Args[0], depth+1)
			return p, "full"
		case "bytes.TrimLeft", "bytes.Trim":
			p, _ := paddedOrigin(x.Call.Args[0], depth+1)
			if p == nil {
				return nil, ""
			}
			cut, ok := strConst(x.Call.Args[1])
			if !ok {
				return p, "trimmed with a non-constant cutset"
			}
			var missing []string
			for _, w := range jsonWS {
				if !strings.ContainsRune(cut, rune(w)) {
					missing = append(missing, fmt.Sprintf("0x%02x", w))
				}
			}
			if len(missing) > 0 {
				return p, fmt.Sprintf("trimmed with cutset %q, which lacks JSON whitespace %s", cut, strings.Join(missing, ","))
			}
			return p, "full"
		case "bytes.TrimRight", "bytes.TrimSuffix":
			return paddedOrigin(x.Call.Args[0], depth+1)
		case "bytes.TrimLeftFunc", "bytes.TrimFunc":
			p, _ := paddedOrigin(x.Call.Args[0], depth+1)
			if p == nil {
				return nil, ""
			}
			if g := x.Call.Args[1]; g != nil {
				if gf, ok := g.(*ssa.Function); ok && stdName(gf) == "unicode.IsSpace" {
					return p, "full"
				}
			}
			return p, "trimmed with an unrecognised predicate"
		}
	}
	return nil, ""
}

// feedsBranch: the byte value (or a comparison of it) is used as a branch condition.
func feedsBranch(v ssa.Value, depth int) bool {
	if depth > 4 {
		return false
	}
	refs := v.Referrers()
	if refs == nil {
		return false
	}
	for _, r := range *refs {
		switch x := r.(type) {
		case *ssa.If:
			return true
		case *ssa.Return:
			return true // a predicate's verdict: the caller branches on it
		case *ssa.BinOp:
			if feedsBranch(x, depth+1) {
				return true
			}
		case *ssa.UnOp:
			if feedsBranch(x, depth+1) {
				return true
			}
		case *ssa.Phi:
			if feedsBranch(x, depth+1) {
				return true
			}
		case *ssa.Convert:
			if feedsBranch(x, depth+1) {
				return true
			}
		}
	}
	return false
}

func ruleRootDispatch(c *Ctx) {
	for _, b := range c.bodies() {
		l := c.L
		nParams := 0
		for _, fn := range b.srcFuncs(b.Lib) {
			hasByteParam := false
			for _, p := range fn.Params {
				if isByteSlice(p.Type()) {
					hasByteParam = true
				}
			}
			if !hasByteParam {
				continue
			}
			nParams++
			key := fmt.Sprintf("%s: no branch on a fixed-offset byte of its []byte parameter(s)", fname(fn))
			bad := ""
			nIdx := 0
			allInstrs(fn, func(i ssa.Instruction) {
				var x, idx ssa.Value
				var val ssa.Value
				switch e := i.(type) {
				case *ssa.UnOp:
					ia, ok := e.X.(*ssa.IndexAddr)
					if !ok || e.Op != token.MUL {
						return
					}
					x, idx, val = ia.X, ia.Index, e
				case *ssa.Index:
					x, idx, val = e.X, e.Index, e
				default:
					return
				}
				if _, isConst := idx.(*ssa.Const); !isConst {
					return
				}
				p, how := paddedOrigin(x, 0)
				if p == nil {
					return
				}
				nIdx++
				if how == "full" {
					return
				}
				if !feedsBranch(val, 0) {
					return
				}
				what := "of parameter " + p.Name() + " itself"
				if how != "" {
					what = "of parameter " + p.Name() + " " + how
				}
				bad = fmt.Sprintf("the branch at %s depends on a fixed-offset byte %s: a well-formed text with leading whitespace (e.g. CR LF before the value) is classified differently from the same text without it", b.posOf(i), what)
			})
			// HasPrefix on the untrimmed parameter is the same mistake
			allInstrs(fn, func(i ssa.Instruction) {
				call, ok := i.(*ssa.Call)
				if !ok {
					return
				}
				f := call.Call.StaticCallee()
				if f == nil || stdName(f) != "bytes.HasPrefix" {
					return
				}
				p, how := paddedOrigin(call.Call.Args[0], 0)
				if p != nil && how != "full" {
					nIdx++
					bad = fmt.Sprintf("bytes.HasPrefix at %s is applied to parameter %s without all JSON whitespace trimmed (%s)", b.posOf(i), p.Name(), how)
				}
			})
			if bad != "" {
				l.add("R-ROOTDISPATCH", b.Name, key, b.rel(fn.Pos()), Violated, bad, true)
			} else {
				l.add("R-ROOTDISPATCH", b.Name, key, b.rel(fn.Pos()), Discharged, fmt.Sprintf("%d constant-index / prefix reads of parameter-derived bytes, each on fully whitespace-trimmed data (or none)", nIdx), nIdx > 0)
			}
		}
		l.stat("R-ROOTDISPATCH").Extra[b.Name+"_functions_with_byte_parameters"] = nParams
		b.nodeTextDispatch(l)
	}
}

// nodeTextDispatch: the same question for the text held by a node. A node
// built directly over a caller's bytes (the operands of Equal) carries the
// caller's leading whitespace; a node whose text was delimited by the decoder
// (members, elements, the members of an operation) does not. Nodes are not
// distinguished by origin, so as soon as one construction site can produce a
// padded node, no function may classify a node by a fixed-offset byte of its
// raw text — except for the value of an operation, which only the decoder
// produces.
func (b *Body) nodeTextDispatch(l *Ledger) {
	var paddedSites []string
	for _, fn := range b.exportedAPI(b.Lib) {
		for _, p := range fn.Params {
			if !isByteSlice(p.Type()) {
				continue
			}
			t := taintClosure(fn, []ssa.Value{p}, &taintOpts{callResult: func(ci ssa.CallInstruction, _ []int) bool {
				f := ci.Common().StaticCallee()
				if f == nil {
					return false
				}
				switch stdName(f) {
				case "bytes.TrimSpace":
					return false
				}
				// only the library's own constructors carry the bytes on
				return f.Pkg == b.Lib && canCarryData(ci.Value().Type()) && len(f.Params) == 1
			}})
			allInstrs(fn, func(i ssa.Instruction) {
				call, ok := i.(*ssa.Call)
				if !ok {
					return
				}
				if t[call] && isPtrToNamed(call.Type(), "lazyNode") {
					paddedSites = append(paddedSites, fname(fn)+"("+p.Name()+") at "+b.posOf(call))
				}
			})
		}
	}
	sort.Strings(paddedSites)
	structural := map[int64]bool{}
	for _, c := range []byte("{[\"-0123456789tfn") {
		structural[int64(c)] = true
	}
	// helpers that classify a text by its first byte: a function of the library that compares the
	// byte at a constant index of one of its parameters (a byte slice or a pointer to one)
	firstByteHelper := map[*ssa.Function]int{}
	for _, fn := range b.srcFuncs(b.Lib) {
		allInstrs(fn, func(i ssa.Instruction) {
			u, ok := i.(*ssa.UnOp)
			if !ok || u.Op != token.MUL {
				return
			}
			ia, ok := u.X.(*ssa.IndexAddr)
			if !ok {
				return
			}
			if _, isConst := ia.Index.(*ssa.Const); !isConst {
				return
			}
			root := unwrapConv(ia.X)
			if ld, ok := root.(*ssa.UnOp); ok && ld.Op == token.MUL {
				root = ld.X
			}
			p, ok := root.(*ssa.Parameter)
			if !ok || p.Parent() != fn {
				return
			}
			for _, r := range *u.Referrers() {
				if bo, ok := r.(*ssa.BinOp); ok && (bo.Op == token.EQL || bo.Op == token.NEQ) && feedsBranch(bo, 0) {
					firstByteHelper[fn] = paramIdx(p)
				}
			}
		})
	}
	for _, fn := range b.srcFuncs(b.Lib) {
		nH := 0
		badH := ""
		allInstrs(fn, func(i ssa.Instruction) {
			call, ok := i.(*ssa.Call)
			if !ok {
				return
			}
			f := call.Call.StaticCallee()
			pi, isH := firstByteHelper[f]
			if !isH || pi >= len(call.Call.Args) {
				return
			}
			arg := unwrapConv(call.Call.Args[pi])
			if ld, ok := arg.(*ssa.UnOp); ok && ld.Op == token.MUL {
				if _, fr, ok := fieldLoad(ld); ok && fr.Field == "raw" && fr.Type == "lazyNode" {
					arg = ld
				} else if _, fr, ok := fieldLoad(ld.X); ok && fr.Field == "raw" && fr.Type == "lazyNode" {
					arg = ld.X
				}
			}
			nodeV, fr, ok := fieldLoad(arg)
			if !ok || fr.Field != "raw" || fr.Type != "lazyNode" {
				return
			}
			if c2, ok := nodeV.(*ssa.Call); ok {
				if g := c2.Call.StaticCallee(); g != nil && g.Signature.Recv() != nil && isNamed(g.Signature.Recv().Type(), "Operation") {
					return
				}
			}
			nH++
			badH = fmt.Sprintf("%s classifies a node by the first byte of its raw text through %s at %s; a node can be built directly over a caller's bytes (%s), and then a well-formed text with leading whitespace is classified differently from the same text without it", fname(fn), fname(f), b.posOf(call), strings.Join(paddedSites, "; "))
		})
		if nH > 0 {
			key := fmt.Sprintf("%s: no first-byte helper is applied to a node's untrimmed text", b.canonFname(fn))
			if len(paddedSites) > 0 {
				l.add("R-ROOTDISPATCH", b.Name, key, b.rel(fn.Pos()), Violated, badH, true)
			} else {
				l.add("R-ROOTDISPATCH", b.Name, key, b.rel(fn.Pos()), Discharged, "no construction site builds a node over caller bytes", true)
			}
		}
	}
	for _, fn := range b.srcFuncs(b.Lib) {
		n, nDelim := 0, 0
		bad := ""
		allInstrs(fn, func(i ssa.Instruction) {
			var x, idx, val ssa.Value
			switch e := i.(type) {
			case *ssa.UnOp:
				ia, ok := e.X.(*ssa.IndexAddr)
				if !ok || e.Op != token.MUL {
					return
				}
				x, idx, val = ia.X, ia.Index, e
			case *ssa.Index:
				x, idx, val = e.X, e.Index, e
			default:
				return
			}
			if _, isConst := idx.(*ssa.Const); !isConst {
				return
			}
			x = unwrapConv(x)
			ld, ok := x.(*ssa.UnOp)
			if !ok || ld.Op != token.MUL || !isPtrToNamed(ld.X.Type(), "RawMessage") {
				return
			}
			nodeV, fr, ok := fieldLoad(ld.X)
			if !ok || fr.Field != "raw" || fr.Type != "lazyNode" {
				return
			}
			// compared with a byte that can start a JSON value?
			cmp := false
			for _, r := range *val.Referrers() {
				bo, ok := r.(*ssa.BinOp)
				if !ok || (bo.Op != token.EQL && bo.Op != token.NEQ) {
					continue
				}
				for _, o := range []ssa.Value{bo.X, bo.Y} {
					if k, ok := intConst(o); ok && structural[k] && feedsBranch(bo, 0) {
						cmp = true
					}
				}
			}
			if !cmp {
				return
			}
			n++
			if call, ok := nodeV.(*ssa.Call); ok {
				if f := call.Call.StaticCallee(); f != nil && f.Signature.Recv() != nil && isNamed(f.Signature.Recv().Type(), "Operation") {
					nDelim++
					return
				}
			}
			bad = fmt.Sprintf("the branch at %s classifies a node by byte %s of its raw text; a node can be built directly over a caller's bytes (%s), and then a well-formed text with leading whitespace is classified differently from the same text without it", b.posOf(i), idx.String(), strings.Join(paddedSites, "; "))
		})
		if n == 0 {
			continue
		}
		key := fmt.Sprintf("%s: no branch on a fixed-offset byte of a node's untrimmed text", b.canonFname(fn))
		switch {
		case bad != "" && len(paddedSites) > 0:
			l.add("R-ROOTDISPATCH", b.Name, key, b.rel(fn.Pos()), Violated, bad, true)
		case bad != "":
			l.add("R-ROOTDISPATCH", b.Name, key, b.rel(fn.Pos()), Discharged, "no construction site builds a node over caller bytes: every node text is decoder-delimited", true)
		default:
			l.add("R-ROOTDISPATCH", b.Name, key, b.rel(fn.Pos()), Discharged, fmt.Sprintf("%d fixed-offset classification(s), each on the value of an operation (delimited by the decoder, no leading whitespace)", nDelim), true)
		}
	}
	l.stat("R-ROOTDISPATCH").Extra[b.Name+"_nodes_built_over_caller_bytes"] = paddedSites
}

// ---- R-WS -------------------------------------------------------------------------

func ruleWS(c *Ctx) {
	for _, b := range c.bodies() {
		l := c.L
		b.trimsJSONSpace(l)
		for _, fn := range b.srcFuncs(b.Lib) {
			// candidate: func(buf []byte) bool with a range loop over buf
			if len(fn.Params) != 1 || !isByteSlice(fn.Params[0].Type()) || fn.Signature.Results().Len() != 1 {
				continue
			}
			if bt, ok := fn.Signature.Results().At(0).Type().Underlying().(interface{ String() string }); !ok || bt.String() != "bool" {
				continue
			}
			src := fn.Params[0]
			var cbyte ssa.Value
			for _, v := range loopBytes(fn, src) {
				if ld, ok := v.(*ssa.UnOp); ok {
					ia := ld.X.(*ssa.IndexAddr)
					if h := innermostLoopHeader(ld.Block()); h != nil && isRangeIndex(h, ia.Index, src) {
						cbyte = v
					}
				}
			}
			if cbyte == nil {
				continue
			}
			key := fmt.Sprintf("%s: skips all JSON whitespace and recognises one structural byte", fname(fn))
			h := innermostLoopHeader(cbyte.(ssa.Instruction).Block())
			// sets: continue (back to header), return true, return false / loop exit
			var cont, tru, fls bset
			errS := ""
			func() {
				defer func() {
					if r := recover(); r != nil {
						errS = fmt.Sprint(r)
					}
				}()
				p := &bytePath{b: b, fn: fn, byteVal: map[ssa.Value]bool{cbyte: true}, assume: map[ssa.Value]bool{}, tables: nil, stop: nil}
				var full bset
				full = full.not()
				p.classify(cbyte.(ssa.Instruction).Block(), nil, full, map[ssa.Value]bpVal{}, h, &cont, &tru, &fls, 0)
			}()
			if errS != "" {
				l.add("R-WS", b.Name, key, b.rel(fn.Pos()), Undecided, "byte-set evaluation failed: "+errS, true)
				continue
			}
			bad := ""
			for _, w := range jsonWS {
				if !cont.has(int(w)) {
					bad = fmt.Sprintf("byte 0x%02x (JSON whitespace) does not continue the scan: skipped set is %s", w, cont.String())
				}
			}
			structural := setOf('{', '[', '"', '-', '0', '1', '2', '3', '4', '5', '6', '7', '8', '9', 't', 'f', 'n')
			if !cont.and(structural).empty() {
				bad = "the scan skips bytes that can start a JSON value: " + cont.and(structural).String()
			}
			n := 0
			for i := 0; i < 256; i++ {
				if tru.has(i) {
					n++
				}
			}
			if n != 1 {
				bad = "the accepting set is " + tru.String() + ", expected a single structural byte"
			}
			if bad != "" {
				l.add("R-WS", b.Name, key, b.rel(fn.Pos()), Violated, bad, true)
			} else {
				l.add("R-WS", b.Name, key, b.rel(fn.Pos()), Discharged, "skips "+cont.String()+", returns true on "+tru.String()+", false on everything else", true)
			}
		}
	}
}

// classify enumerates the paths of one loop iteration starting at bb and
// records for which bytes the path goes back to the loop header (cont),
// returns constant true (tru) or anything else (fls).
func (p *bytePath) classify(bb, pred *ssa.BasicBlock, cset bset, env map[ssa.Value]bpVal, header *ssa.BasicBlock, cont, tru, fls *bset, depth int) {
	p.steps++
	if p.steps > 100000 || depth > 80 {
		panic("path budget exceeded")
	}
	if bb == header && pred != nil {
		*cont = cont.or(cset)
		return
	}
	for _, ins := range bb.Instrs {
		switch x := ins.(type) {
		case *ssa.Phi:
			for j, pr := range bb.Preds {
				if pr == pred {
					env[x] = p.val(env, x.Edges[j])
				}
			}
		case *ssa.If:
			cv := p.val(env, x.Cond)
			next := func(si int, cs bset) {
				if cs.empty() {
					return
				}
				e2 := make(map[ssa.Value]bpVal, len(env))
				for k, v := range env {
					e2[k] = v
				}
				p.classify(bb.Succs[si], bb, cs, e2, header, cont, tru, fls, depth+1)
			}
			switch cv.k {
			case bpBool:
				if cv.b {
					next(0, cset)
				} else {
					next(1, cset)
				}
			case bpPred:
				next(0, cset.and(cv.set))
				next(1, cset.and(cv.set.not()))
			default:
				next(0, cset)
				next(1, cset)
			}
			return
		case *ssa.Jump:
			p.classify(bb.Succs[0], bb, cset, env, header, cont, tru, fls, depth+1)
			return
		case *ssa.Return:
			if len(x.Results) == 1 {
				if k, ok := boolConst(x.Results[0]); ok && k {
					*tru = tru.or(cset)
					return
				}
				v := p.val(env, x.Results[0])
				if v.k == bpBool && v.b {
					*tru = tru.or(cset)
					return
				}
				// `return c == '['`: true for the bytes of the predicate, false for the others
				if v.k == bpPred {
					*tru = tru.or(cset.and(v.set))
					*fls = fls.or(cset.and(v.set.not()))
					return
				}
			}
			*fls = fls.or(cset)
			return
		case *ssa.Panic:
			*fls = fls.or(cset)
			return
		}
	}
}

// trimsJSONSpace (R-WS): a root classifier that strips the white space around a text before
// looking at its first and last byte strips all four white-space bytes of RFC 8259 (space,
// tab, line feed, carriage return) from both ends — TrimSpace, or Trim / TrimLeft + TrimRight
// with constant cut sets that hold all four. A cut set that misses one (the carriage return of
// a CRLF-terminated file, say) makes a well-formed array look like something else.
func (b *Body) trimsJSONSpace(l *Ledger) {
	for _, fn := range b.srcFuncs(b.Lib) {
		if len(fn.Params) != 1 || !isByteSlice(fn.Params[0].Type()) || fn.Signature.Results().Len() != 1 || typeShort(fn.Signature.Results().At(0).Type()) != "bool" {
			continue
		}
		left, right := false, false
		n := 0
		bad := ""
		derived := taintClosure(fn, []ssa.Value{fn.Params[0]}, nil)
		allInstrs(fn, func(i ssa.Instruction) {
			call, ok := i.(*ssa.Call)
			if !ok {
				return
			}
			f := call.Call.StaticCallee()
			if f == nil || f.Pkg == nil || (f.Pkg.Pkg.Path() != "bytes" && f.Pkg.Pkg.Path() != "strings") || !strings.HasPrefix(f.Name(), "Trim") {
				return
			}
			if len(call.Call.Args) == 0 || !(call.Call.Args[0] == ssa.Value(fn.Params[0]) || derived[call.Call.Args[0]]) {
				return
			}
			n++
			switch f.Name() {
			case "TrimSpace":
				left, right = true, true
			case "Trim", "TrimLeft", "TrimRight":
				set, isK := strConst(call.Call.Args[1])
				if !isK {
					bad = "the cut set at " + b.posOf(call) + " is not a constant"
					return
				}
				for _, ch := range " \t\n\r" {
					if !strings.ContainsRune(set, ch) {
						bad = fmt.Sprintf("the cut set %q at %s misses the white-space byte %q: a text with that byte at this end is classified by the wrong byte", set, b.posOf(call), string(ch))
						return
					}
				}
				if f.Name() != "TrimRight" {
					left = true
				}
				if f.Name() != "TrimLeft" {
					right = true
				}
			default:
				// TrimPrefix, TrimSuffix, TrimFunc: not a white-space trim this rule knows
				n--
			}
		})
		if n == 0 {
			continue
		}
		key := fname(fn) + ": trims all four JSON white-space bytes from both ends before looking at the brackets"
		if bad == "" && !(left && right) {
			bad = fmt.Sprintf("only one end of the text is trimmed (left: %v, right: %v)", left, right)
		}
		if bad != "" {
			l.add("R-WS", b.Name, key, b.rel(fn.Pos()), Violated, bad, true)
		} else {
			l.add("R-WS", b.Name, key, b.rel(fn.Pos()), Discharged, "TrimSpace, or constant cut sets holding space, tab, LF and CR, on both ends", true)
		}
	}
}
