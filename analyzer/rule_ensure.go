package main

// R-ENSURE: EnsurePathExistsOnAdd only adds what is missing.

import (
	"fmt"
	"go/token"
	"sort"
	"strings"

	"golang.org/x/tools/go/ssa"
)

func init() {
	register(&Rule{ID: "R-ENSURE", Doc: "EnsurePathExistsOnAdd: (i) the option is read only in the add handler, and the path walk runs only under it; (ii) every membership-changing call in ensurePathExists (container.add) is control dependent on the failure of the container.get of the same iteration — nothing is created when the parent exists; (iv) the number of nulls padded into an array comes from a single strconv.Atoi of the same iteration (or is constant): it cannot be left over from another token or an earlier iteration",
		Run: ruleEnsure, Min: map[string]int{"v5": 3}})
}

func ruleEnsure(c *Ctx) {
	b := c.V5
	if b == nil {
		return
	}
	l := c.L
	const field = "EnsurePathExistsOnAdd"
	b.shrinkingBounds(l)
	ai := b.findApply()
	ep := b.roleFn("ensurePathExists")
	if ai == nil || ai.handlers["add"] == nil || ep == nil {
		l.add("R-ENSURE", "v5", "anchor", "", Undecided, "add handler or ensurePathExists not found", false)
		return
	}
	addH := ai.handlers["add"]
	// (i) who may read the option
	{
		key := "(i) the option is read only in the add handler, and ensurePathExists runs only under it"
		bad := ""
		for _, fn := range b.srcFuncs(b.Lib) {
			allInstrs(fn, func(i ssa.Instruction) {
				fa, ok := i.(*ssa.FieldAddr)
				if !ok || fieldName(fa.X.Type(), fa.Field) != field || !isNamed(derefPtr(fa.X.Type()), "ApplyOptions") {
					return
				}
				for _, r := range *fa.Referrers() {
					if _, isLoad := r.(*ssa.UnOp); isLoad && fn != addH {
						bad = "the option is also read in " + fname(fn) + " at " + b.posOf(r)
					}
					// in the handler the option decides one thing: whether the walk runs
					if ld, isLoad := r.(*ssa.UnOp); isLoad && fn == addH && ld.Referrers() != nil {
						for _, u := range *ld.Referrers() {
							neg := false
							if nt, isNot := u.(*ssa.UnOp); isNot && nt.Op == token.NOT && nt.Referrers() != nil && len(*nt.Referrers()) == 1 {
								u, neg = (*nt.Referrers())[0], true
							}
							switch x := u.(type) {
							case *ssa.DebugRef:
							case *ssa.If:
								on := 0
								if neg {
									on = 1
								}
								guards := false
								for _, cs := range callsTo(addH, func(cc *ssa.CallCommon) bool { return cc.StaticCallee() == ep }) {
									if x.Block().Succs[on] == cs.Block() || edgeDominates(x.Block(), on, cs.Block()) {
										guards = true
									}
								}
								if !guards {
									bad = "the option read at " + b.posOf(ld) + " decides a branch that does not lead to ensurePathExists: with the option set an add does something else than an add after the parents were created"
								}
							default:
								bad = "the option read at " + b.posOf(ld) + " is used for something other than deciding whether ensurePathExists runs (" + b.posOf(u) + ")"
							}
						}
					}
					if st, isSt := r.(*ssa.Store); isSt {
						if k, ok := boolConst(st.Val); !ok || k {
							bad = "library code switches the option on at " + b.posOf(st)
						}
					}
				}
			})
			for _, cs := range callsTo(fn, func(cc *ssa.CallCommon) bool { return cc.StaticCallee() == ep }) {
				if fn != addH {
					bad = "ensurePathExists is also called from " + fname(fn)
					continue
				}
				if !b.controlledByOptionField(cs.Block(), field) {
					bad = "ensurePathExists is called without the option being set (missing parents would be created for every add)"
				}
			}
		}
		v, why := Discharged, "read only in the add handler; the path walk is control dependent on its true edge"
		if bad != "" {
			v, why = Violated, bad
		}
		l.add("R-ENSURE", "v5", key, b.rel(addH.Pos()), v, why, true)
	}
	// (v) under the option the walk runs for every add: the call is controlled by nothing but the
	// option itself, the empty-path special case and the decode of the path (a memo of parents
	// "already ensured" goes stale as soon as another operation removes one of them)
	{
		key := "(v) with the option set, ensurePathExists runs for every add that has a path"
		bad := ""
		n := 0
		for _, cs := range callsTo(addH, func(cc *ssa.CallCommon) bool { return cc.StaticCallee() == ep }) {
			n++
			for _, e := range b.controlDepsTransitive(cs.Block()) {
				iff, ok := e.From.Instrs[len(e.From.Instrs)-1].(*ssa.If)
				if !ok {
					continue
				}
				okCond := false
				var visit func(v ssa.Value, d int) bool
				visit = func(v ssa.Value, d int) bool {
					if d > 5 || v == nil {
						return false
					}
					switch x := v.(type) {
					case *ssa.UnOp:
						if x.Op == token.NOT {
							return visit(x.X, d+1)
						}
						if _, fr, ok := fieldLoad(x); ok && fr.Field == field {
							return true
						}
					case *ssa.BinOp:
						// path == "" ; err != nil
						if s0, ok := strConst(x.Y); ok && s0 == "" {
							return true
						}
						if isNilConst(x.Y) && isErrorType(x.X.Type()) {
							return true
						}
					case *ssa.Phi:
						all := true
						for _, ed := range x.Edges {
							if _, isC := ed.(*ssa.Const); isC {
								continue
							}
							if !visit(ed, d+1) {
								all = false
							}
						}
						return all
					}
					return false
				}
				okCond = visit(iff.Cond, 0)
				if !okCond {
					bad = "the call at " + b.posOf(cs) + " also depends on the condition at " + b.posOf(iff) + " (" + describeCond(iff.Cond) + "): an add can skip the creation of its parents although the option is set"
				}
			}
		}
		if n == 0 {
			bad = "the add handler never calls ensurePathExists"
		}
		v, why := Discharged, "the call is controlled only by the option, the empty-path case and the path decode"
		if bad != "" {
			v, why = Violated, bad
		}
		l.add("R-ENSURE", "v5", key, b.rel(addH.Pos()), v, why, true)
	}
	// (vi) the classification of the next token parses the token as it is: "-" selects an array
	// without becoming a number (as "-1" it would be subject to the negative-index switch)
	{
		key := "(vi) the next token is classified as given: \"-\" means array without being parsed as a number"
		bad := ""
		n := 0
		allInstrs(ep, func(i ssa.Instruction) {
			call, ok := i.(*ssa.Call)
			if !ok {
				return
			}
			f := call.Call.StaticCallee()
			if f == nil || !b.isIndexParser(f) {
				return
			}
			n++
			arg := call.Call.Args[0]
			okArg := false
			if u, isU := arg.(*ssa.UnOp); isU {
				if _, isIA := u.X.(*ssa.IndexAddr); isIA {
					okArg = true
				}
			}
			if ex, isEx := arg.(*ssa.Extract); isEx {
				if _, isNext := ex.Tuple.(*ssa.Next); isNext {
					okArg = true
				}
			}
			if !okArg {
				bad = "the text parsed as an index at " + b.posOf(call) + " is " + describeValue(arg) + ", not a reference token of the path itself: a rewritten token (\"-\" as \"-1\") falls under the negative-index switch, and the array for an appending add is no longer created when that switch is off"
			}
		})
		v, why := Discharged, fmt.Sprintf("%d index parse(s), each of an element of the split path", n)
		if bad != "" {
			v, why = Violated, bad
		}
		l.add("R-ENSURE", "v5", key, b.rel(ep.Pos()), v, why, true)
	}
	// (ii) creation only when the lookup failed
	{
		key := "(ii) containers and padding are created only when the lookup of that token failed"
		var get ssa.CallInstruction
		for _, g := range containerCalls(ep, "get") {
			get = g
		}
		bad := ""
		if get == nil {
			bad = "ensurePathExists does not look tokens up with container.get"
		} else {
			var node, gerr ssa.Value
			for _, ex := range extractOf(get.Value(), 0) {
				node = ex
			}
			for _, ex := range extractOf(get.Value(), 1) {
				gerr = ex
			}
			for _, a := range containerCalls(ep, "add") {
				// control dependent on node == nil or err != nil
				ok := false
				for _, e := range b.controlDepsTransitive(a.Block()) {
					iff, isIf := e.From.Instrs[len(e.From.Instrs)-1].(*ssa.If)
					if !isIf {
						continue
					}
					x, nnTrue, isNil := nilTestOfCond(iff.Cond)
					if !isNil {
						continue
					}
					nonNilEdge := (e.Succ == 0) == nnTrue
					if x == node && !nonNilEdge {
						ok = true
					}
					if x == gerr && nonNilEdge {
						ok = true
					}
				}
				if !ok {
					bad = "container.add at " + b.posOf(a) + " is not confined to the `lookup failed` edges: an existing parent would be overwritten by a fresh empty container"
				}
			}
		}
		v, why := Discharged, "every container.add in ensurePathExists is control dependent on target == nil or on the lookup's error"
		if bad != "" {
			v, why = Violated, bad
		}
		l.add("R-ENSURE", "v5", key, b.rel(ep.Pos()), v, why, true)
	}
	// (iv) padding counts
	n := 0
	for _, h := range ep.Blocks {
		if !isLoopHeader(h) {
			continue
		}
		iff, ok := h.Instrs[len(h.Instrs)-1].(*ssa.If)
		if !ok {
			continue
		}
		cmp, ok := iff.Cond.(*ssa.BinOp)
		if !ok || (cmp.Op != token.LSS && cmp.Op != token.LEQ) {
			continue
		}
		// a padding loop: its body adds under the key strconv.Itoa(loop variable)
		body := naturalLoop(h)
		isPad := false
		for bb := range body {
			for _, ins := range bb.Instrs {
				if ci, ok := ins.(ssa.CallInstruction); ok && isContainerInvoke(ci.Common(), "add") {
					if call, ok := ci.Common().Args[0].(*ssa.Call); ok {
						if f := call.Call.StaticCallee(); f != nil && stdName(f) == "strconv.Itoa" && call.Call.Args[0] == cmp.X {
							isPad = true
						}
					}
				}
			}
		}
		if !isPad {
			continue
		}
		n++
		key := fmt.Sprintf("(iv) padding loop #%d: the count comes from one index parse of the same iteration", n)
		// leaves of the bound
		atois := map[*ssa.Call]bool{}
		var other []string
		seen := map[ssa.Value]bool{}
		var leaves func(v ssa.Value)
		leaves = func(v ssa.Value) {
			if seen[v] {
				return
			}
			seen[v] = true
			switch x := v.(type) {
			case *ssa.Const:
			case *ssa.BinOp:
				leaves(x.X)
				leaves(x.Y)
			case *ssa.Phi:
				if isLoopHeader(x.Block()) && x.Block() != h {
					other = append(other, "a value carried around the token loop ("+x.Comment+")")
					return
				}
				for _, e := range x.Edges {
					leaves(e)
				}
			case *ssa.Extract:
				if call, ok := x.Tuple.(*ssa.Call); ok && call.Call.StaticCallee() != nil && b.isIndexParser(call.Call.StaticCallee()) && x.Index == 0 {
					atois[call] = true
					return
				}
				other = append(other, describeValue(x))
			case *ssa.Call:
				if bi, ok := x.Call.Value.(*ssa.Builtin); ok && bi.Name() == "len" {
					return // current length of the container being padded
				}
				other = append(other, describeValue(x))
			default:
				other = append(other, describeValue(v))
			}
		}
		leaves(cmp.Y)
		// the loop variable's start value may also depend on a length; only the bound matters here
		switch {
		case len(other) > 0:
			l.add("R-ENSURE", "v5", key, b.posOf(iff), Violated, "the pad count depends on "+strings.Join(other, ", ")+": nulls can be padded according to a different token or an earlier iteration", true)
		case len(atois) > 1:
			var ps []string
			for a := range atois {
				ps = append(ps, b.posOf(a))
			}
			l.add("R-ENSURE", "v5", key, b.posOf(iff), Violated, "the pad count can come from more than one index parse ("+strings.Join(ps, ", ")+"): on some path it is the index of a different token", true)
		case len(atois) == 0:
			l.add("R-ENSURE", "v5", key, b.posOf(iff), Discharged, "constant bound", true)
		default:
			okDom := true
			for a := range atois {
				if !b.instrDominates(a, iff) {
					okDom = false
				}
			}
			if okDom {
				l.add("R-ENSURE", "v5", key, b.posOf(iff), Discharged, "bound = (constant adjustments of) result 0 of a single strconv.Atoi that dominates the loop", true)
			} else {
				l.add("R-ENSURE", "v5", key, b.posOf(iff), Violated, "the index parse does not dominate the padding loop", true)
			}
		}
	}
}

// shrinkingBounds (R-ENSURE viii): a counted loop that pads a collection must not measure
// the collection again in its own bound. `for i := 0; i < n-len(xs); i++ { xs = append(xs, …) }`
// counts every element twice — once in i, once in len(xs) — and stops half way: an array
// padded this way is about half as long as the addressed index needs. (A bound that grows
// with the collection, `i < len(queue)`, is a work list and is not reported.)
func (b *Body) shrinkingBounds(l *Ledger) {
	n := 0
	var bad []string
	var badPos string
	for _, fn := range b.srcFuncs(b.Lib) {
		for _, h := range fn.Blocks {
			if !isLoopHeader(h) {
				continue
			}
			body := naturalLoop(h)
			for bb := range body {
				iff, ok := lastInstr(bb).(*ssa.If)
				if !ok {
					continue
				}
				exits := false
				for _, s := range bb.Succs {
					if !body[s] {
						exits = true
					}
				}
				bo, ok := iff.Cond.(*ssa.BinOp)
				if !ok || !exits {
					continue
				}
				switch bo.Op {
				case token.LSS, token.LEQ, token.GTR, token.GEQ, token.NEQ:
				default:
					continue
				}
				n++
				// a len() with a negative sign inside the bound, evaluated inside the loop, of a
				// location the loop stores to
				var walk func(v ssa.Value, neg bool, d int)
				walk = func(v ssa.Value, neg bool, d int) {
					if d > 6 {
						return
					}
					switch x := v.(type) {
					case *ssa.BinOp:
						switch x.Op {
						case token.SUB:
							walk(x.X, neg, d+1)
							walk(x.Y, !neg, d+1)
						case token.ADD:
							walk(x.X, neg, d+1)
							walk(x.Y, neg, d+1)
						}
					case *ssa.Convert:
						walk(x.X, neg, d+1)
					case *ssa.Call:
						arg, isLen := lenArg(x)
						if !isLen || !neg || !body[x.Block()] {
							return
						}
						ld, ok := arg.(*ssa.UnOp)
						if !ok || ld.Op != token.MUL || !body[ld.Block()] {
							return
						}
						// a store to the same location inside the loop
						for sb := range body {
							for _, ins := range sb.Instrs {
								st, ok := ins.(*ssa.Store)
								if !ok {
									continue
								}
								same := st.Addr == ld.X
								if fa1, ok1 := st.Addr.(*ssa.FieldAddr); ok1 {
									if fa2, ok2 := ld.X.(*ssa.FieldAddr); ok2 && fa1.X == fa2.X && fa1.Field == fa2.Field {
										same = true
									}
								}
								if same {
									bad = append(bad, fmt.Sprintf("%s: the loop condition at %s subtracts len() of a collection that the loop itself grows at %s", fname(fn), b.posOf(iff), b.posOf(st)))
									badPos = b.posOf(iff)
								}
							}
						}
					}
				}
				// which side is the bound: both are walked with the sign they have in `i < bound`
				switch bo.Op {
				case token.LSS, token.LEQ, token.NEQ:
					walk(bo.Y, false, 0)
					walk(bo.X, true, 0)
				default:
					walk(bo.X, false, 0)
					walk(bo.Y, true, 0)
				}
			}
		}
	}
	key := "(viii) no loop of the library shrinks its own bound by growing the collection it measures"
	if len(bad) > 0 {
		sort.Strings(bad)
		l.add("R-ENSURE", "v5", key, badPos, Violated, bad[0]+": every appended element is counted twice, so the loop stops about half way — an array padded this way is shorter than the addressed index needs", true)
	} else {
		l.add("R-ENSURE", "v5", key, "", Discharged, fmt.Sprintf("%d loop exit condition(s) examined: none subtracts, inside the loop, the length of a collection the loop stores to", n), true)
	}
}
