package main

// R-GLOBALS, third part: a package-level sync.Map used as a cache answers later calls with
// what an earlier call computed. That is invisible only if the key the value is filed under
// determines the value: every input of the calling function that the stored value was
// computed from must also be part of the key. A value that depends on a per-call option, on
// a second parameter or on a field the key does not include makes the result of a call
// depend on which call came first (C09), and between goroutines on scheduling (C10).
//
// Inputs are access paths rooted at the parameters of the storing function (p, p.f, p.f[*]);
// a key path covers a value path when it is equal to it or a prefix of it.

import (
	"fmt"
	"go/token"
	"sort"
	"strings"

	"golang.org/x/tools/go/ssa"
)

// inputPaths: the parameter-rooted access paths v is computed from.
func inputPaths(fn *ssa.Function, v ssa.Value) map[string]bool {
	out := map[string]bool{}
	seen := map[ssa.Value]bool{}
	var pathOf func(v ssa.Value, d int) (string, bool)
	pathOf = func(v ssa.Value, d int) (string, bool) {
		if d > 12 {
			return "", false
		}
		switch x := v.(type) {
		case *ssa.Parameter:
			return x.Name(), true
		case *ssa.FreeVar:
			return "captured " + x.Name(), true
		case *ssa.FieldAddr:
			if p, ok := pathOf(x.X, d+1); ok {
				return p + "." + fieldName(x.X.Type(), x.Field), true
			}
		case *ssa.Field:
			if p, ok := pathOf(x.X, d+1); ok {
				return p + "." + fieldName(x.X.Type(), x.Field), true
			}
		case *ssa.IndexAddr:
			if p, ok := pathOf(x.X, d+1); ok {
				return p + "[*]", true
			}
		case *ssa.Index:
			if p, ok := pathOf(x.X, d+1); ok {
				return p + "[*]", true
			}
		case *ssa.Lookup:
			if p, ok := pathOf(x.X, d+1); ok {
				return p + "[*]", true
			}
		case *ssa.UnOp:
			if x.Op == token.MUL {
				return pathOf(x.X, d+1)
			}
		case *ssa.Slice:
			return pathOf(x.X, d+1)
		case *ssa.ChangeType:
			return pathOf(x.X, d+1)
		case *ssa.Extract:
			if nx, ok := x.Tuple.(*ssa.Next); ok {
				if rg, ok := nx.Iter.(*ssa.Range); ok {
					if p, ok := pathOf(rg.X, d+1); ok {
						return p + "[*]", true
					}
				}
			}
		}
		return "", false
	}
	var walk func(v ssa.Value, d int)
	walk = func(v ssa.Value, d int) {
		if v == nil || seen[v] || d > 30 {
			return
		}
		seen[v] = true
		if p, ok := pathOf(v, 0); ok {
			out[p] = true
			return
		}
		switch x := v.(type) {
		case *ssa.Const, *ssa.Global, *ssa.Function, *ssa.Builtin:
		case *ssa.Alloc:
			if x.Referrers() != nil {
				for _, r := range *x.Referrers() {
					if st, ok := r.(*ssa.Store); ok && st.Addr == ssa.Value(x) {
						walk(st.Val, d+1)
					}
				}
			}
		case *ssa.MakeClosure:
			for _, bnd := range x.Bindings {
				walk(bnd, d+1)
			}
		case *ssa.Call:
			if _, isB := x.Call.Value.(*ssa.Builtin); !isB && x.Call.StaticCallee() == nil {
				walk(x.Call.Value, d+1)
			}
			for _, a := range x.Call.Args {
				walk(a, d+1)
			}
		default:
			if ins, ok := v.(ssa.Instruction); ok {
				var ops []*ssa.Value
				for _, op := range ins.Operands(ops) {
					if *op != nil {
						walk(*op, d+1)
					}
				}
			}
		}
	}
	walk(v, 0)
	return out
}

func (b *Body) cacheKeyCovers(l *Ledger, lab string, g *ssa.Global, fns []*ssa.Function) {
	n := 0
	for _, fn := range fns {
		allInstrs(fn, func(i ssa.Instruction) {
			ci, ok := i.(ssa.CallInstruction)
			if !ok {
				return
			}
			f := ci.Common().StaticCallee()
			if f == nil || f.Signature.Recv() == nil || len(ci.Common().Args) < 3 || ci.Common().Args[0] != ssa.Value(g) {
				return
			}
			vi := -1
			switch f.Name() {
			case "Store", "LoadOrStore", "Swap":
				vi = 2
			case "CompareAndSwap":
				vi = 3
			}
			if vi < 0 || vi >= len(ci.Common().Args) {
				return
			}
			n++
			key := fmt.Sprintf("cache %s: %s #%d in %s files the value under a key that determines it", g.Name(), f.Name(), n, fname(fn))
			kp := inputPaths(fn, ci.Common().Args[1])
			vp := inputPaths(fn, ci.Common().Args[vi])
			var missing []string
			for p := range vp {
				covered := false
				for q := range kp {
					if p == q || strings.HasPrefix(p, q+".") || strings.HasPrefix(p, q+"[") {
						covered = true
					}
				}
				if !covered {
					missing = append(missing, p)
				}
			}
			sort.Strings(missing)
			ks := make([]string, 0, len(kp))
			for q := range kp {
				ks = append(ks, q)
			}
			sort.Strings(ks)
			// … and only by a call that goes on to succeed: an entry filed before a later check
			// fails is handed out, without that check, to every later caller with the same key
			if ei := errResultIndex(fn); ei >= 0 {
				key2 := fmt.Sprintf("cache %s: %s #%d in %s files nothing for a call that fails", g.Name(), f.Name(), n, fname(fn))
				bad2 := ""
				for ins := range reachableAfter(b, i) {
					r, isRet := ins.(*ssa.Return)
					if !isRet {
						continue
					}
					if rv := retVal(r, ei); rv != nil && !isNilConst(rv) {
						bad2 = "after the value has been filed the call can still fail (error return at " + b.posOf(r) + "): the entry of the failed call is what later calls with the same key are answered with, without the check that failed"
					}
				}
				if bad2 != "" {
					l.add("R-GLOBALS", lab, key2, b.posOf(i), Violated, bad2, true)
				} else {
					l.add("R-GLOBALS", lab, key2, b.posOf(i), Discharged, "no error return is reachable after the value has been filed", true)
				}
			}
			if len(missing) > 0 {
				l.add("R-GLOBALS", lab, key, b.posOf(i), Violated, "the stored value is computed from "+strings.Join(missing, ", ")+", which the key ("+strings.Join(ks, ", ")+") does not include: a later call with the same key and a different "+missing[0]+" is answered with the value of the earlier one — the result of a call then depends on the calls before it, and between goroutines on their interleaving", true)
			} else {
				l.add("R-GLOBALS", lab, key, b.posOf(i), Discharged, "every input of the stored value is part of the key ("+strings.Join(ks, ", ")+")", true)
			}
		})
	}
}
