package main

// Helpers about error values and nil tests in SSA form.

import (
	"go/token"
	"go/types"

	"golang.org/x/tools/go/ssa"
)

// nilTest describes a branch on (v == nil) / (v != nil).
type nilTest struct {
	Blk        *ssa.BasicBlock
	NonNilSucc int // successor index taken when v != nil
	V          ssa.Value
	// Chain: the non-nil edge runs straight into a merge with a later error, which is tested
	// there (`if err == nil { err = next() }; if err != nil { … }`)
	Chain bool
}

// nilTestOfCond decodes a branch condition of the form v ==/!= nil
// (possibly negated); ok=false otherwise.
func nilTestOfCond(cond ssa.Value) (v ssa.Value, nonNilOnTrue bool, ok bool) {
	c, neg := stripNot(cond)
	bo, isBin := c.(*ssa.BinOp)
	if !isBin || (bo.Op != token.NEQ && bo.Op != token.EQL) {
		return nil, false, false
	}
	var x ssa.Value
	if isNilConst(bo.Y) {
		x = bo.X
	} else if isNilConst(bo.X) {
		x = bo.Y
	} else {
		return nil, false, false
	}
	nn := bo.Op == token.NEQ
	if neg {
		nn = !nn
	}
	return x, nn, true
}

// nilTests lists every branch in fn that tests value v against nil.
func nilTests(fn *ssa.Function, v ssa.Value) []nilTest {
	out := directNilTests(fn, v)
	// the chained form `if err == nil { err = next() }; if err != nil { return … }`: the test
	// of the merged value stands for the test of v when the merged value can be nil only on
	// paths on which v is nil
	if !isErrorType(v.Type()) {
		return out
	}
	for _, bb := range fn.Blocks {
		for _, ins := range bb.Instrs {
			p, ok := ins.(*ssa.Phi)
			if !ok {
				break
			}
			has := false
			for _, e := range p.Edges {
				if e == v {
					has = true
				}
			}
			if !has {
				continue
			}
			stands := true
			for i, e := range p.Edges {
				q := bb.Preds[i]
				switch {
				case e == v:
				case func() bool { // the edge is taken only once v is known to be nil
					for _, t := range out {
						if edgeDominates(t.Blk, 1-t.NonNilSucc, q) {
							return true
						}
					}
					return false
				}():
				case func() bool { // the incoming value is known not to be nil on this edge
					for _, t := range directNilTests(fn, e) {
						if (t.Blk == q && q.Succs[t.NonNilSucc] == bb) || edgeDominates(t.Blk, t.NonNilSucc, q) {
							return true
						}
					}
					return false
				}():
				default:
					stands = false
				}
			}
			if !stands {
				continue
			}
			pts := directNilTests(fn, p)
			if len(pts) == 0 {
				continue
			}
			// the chaining test of v itself (non-nil edge straight into the merge) is not where v
			// is judged
			var kept, chain []nilTest
			for _, t := range out {
				if t.Blk.Succs[t.NonNilSucc] == bb {
					t.Chain = true
					chain = append(chain, t)
					continue
				}
				kept = append(kept, t)
			}
			out = kept
			for _, t := range pts {
				out = append(out, nilTest{Blk: t.Blk, NonNilSucc: t.NonNilSucc, V: v})
			}
			// the chaining tests stay available (last) for questions about their nil edge
			out = append(out, chain...)
		}
	}
	return out
}

func directNilTests(fn *ssa.Function, v ssa.Value) []nilTest {
	var out []nilTest
	for _, bb := range fn.Blocks {
		iff, ok := bb.Instrs[len(bb.Instrs)-1].(*ssa.If)
		if !ok {
			continue
		}
		x, nnTrue, ok := nilTestOfCond(iff.Cond)
		if !ok || x != v {
			continue
		}
		s := 1
		if nnTrue {
			s = 0
		}
		out = append(out, nilTest{Blk: bb, NonNilSucc: s, V: v})
	}
	return out
}

// knownNonNilAt: a (v != nil) fact dominates block at.
func knownNonNilAt(v ssa.Value, at *ssa.BasicBlock) bool {
	for _, t := range nilTests(at.Parent(), v) {
		if edgeDominates(t.Blk, t.NonNilSucc, at) {
			return true
		}
	}
	return false
}

// knownNilAt: a (v == nil) fact dominates block at.
func knownNilAt(v ssa.Value, at *ssa.BasicBlock) bool {
	for _, t := range nilTests(at.Parent(), v) {
		if edgeDominates(t.Blk, 1-t.NonNilSucc, at) {
			return true
		}
	}
	return false
}

// sentinelGlobal: v is a load of a package-level error variable.
func sentinelGlobal(v ssa.Value) *ssa.Global {
	u, ok := v.(*ssa.UnOp)
	if !ok || u.Op != token.MUL {
		return nil
	}
	g, ok := u.X.(*ssa.Global)
	if !ok {
		return nil
	}
	if !isErrorType(g.Type().(*types.Pointer).Elem()) {
		return nil
	}
	return g
}

// definitelyNonNilErr: v, used in block at, cannot be a nil error: it is the
// result of fmt.Errorf / errors.New, a sentinel load, a boxed pointer to a
// fresh object, or a value for which a non-nil fact dominates.
func (b *Body) definitelyNonNilErr(v ssa.Value, at *ssa.BasicBlock, depth int) bool {
	if depth > 4 {
		return false
	}
	if isNilConst(v) {
		return false
	}
	if knownNonNilAt(v, at) {
		return true
	}
	switch x := v.(type) {
	case *ssa.Call:
		if staticCalleeIs(&x.Call, "fmt", "Errorf") || staticCalleeIs(&x.Call, "errors", "New") {
			return true
		}
		if f := x.Call.StaticCallee(); f != nil && f.Blocks != nil && b.inRepo(f) {
			// constructor: every return is definitely non-nil
			rets := returnsOf(f)
			if len(rets) == 0 {
				return false
			}
			for _, r := range rets {
				if len(r.Results) != 1 || !b.definitelyNonNilErr(r.Results[0], r.Block(), depth+1) {
					return false
				}
			}
			return true
		}
	case *ssa.MakeInterface:
		switch y := x.X.(type) {
		case *ssa.Alloc:
			return true
		case *ssa.Call:
			_ = y
			return false
		}
	case *ssa.UnOp:
		if g := sentinelGlobal(v); g != nil {
			return b.globalNeverNilError(g)
		}
	case *ssa.Phi:
		for i, e := range x.Edges {
			if !b.definitelyNonNilErr(e, x.Block().Preds[i], depth+1) {
				return false
			}
		}
		return true
	}
	return false
}

// globalNeverNilError: package-level error variable initialised once (in the
// package initialiser) from errors.New / fmt.Errorf and never stored again.
func (b *Body) globalNeverNilError(g *ssa.Global) bool {
	refs := b.globalStores(g)
	if len(refs) != 1 {
		return false
	}
	st := refs[0]
	if st.Parent().Name() != "init" {
		return false
	}
	// a value of an error type of the library's own: the address of a composite literal
	if mi, isMI := st.Val.(*ssa.MakeInterface); isMI {
		if _, isAlloc := mi.X.(*ssa.Alloc); isAlloc {
			return true
		}
		if _, isPtr := mi.X.Type().Underlying().(*types.Pointer); !isPtr {
			return true // a non-pointer dynamic value makes a non-nil interface
		}
		return false
	}
	c, ok := st.Val.(*ssa.Call)
	if !ok {
		return false
	}
	return staticCalleeIs(&c.Call, "errors", "New") || staticCalleeIs(&c.Call, "fmt", "Errorf")
}

// globalStores lists every Store to global g in its package.
func (b *Body) globalStores(g *ssa.Global) []*ssa.Store {
	var out []*ssa.Store
	for _, fn := range b.srcFuncs(g.Pkg) {
		allInstrs(fn, func(i ssa.Instruction) {
			if st, ok := i.(*ssa.Store); ok && st.Addr == ssa.Value(g) {
				out = append(out, st)
			}
		})
	}
	// package initialiser
	if init := g.Pkg.Func("init"); init != nil {
		seen := false
		for _, fn := range b.srcFuncs(g.Pkg) {
			if fn == init {
				seen = true
			}
		}
		if !seen {
			allInstrs(init, func(i ssa.Instruction) {
				if st, ok := i.(*ssa.Store); ok && st.Addr == ssa.Value(g) {
					out = append(out, st)
				}
			})
		}
	}
	return out
}

// rejects: every path from block start reaches (without a cycle) a Return
// whose last result is a definitely-non-nil error.
func (b *Body) rejects(start *ssa.BasicBlock) bool {
	seen := map[*ssa.BasicBlock]bool{}
	ok := true
	any := false
	var walk func(bb *ssa.BasicBlock, depth int)
	walk = func(bb *ssa.BasicBlock, depth int) {
		if !ok {
			return
		}
		if seen[bb] {
			return
		}
		if depth > 12 {
			ok = false
			return
		}
		seen[bb] = true
		last := bb.Instrs[len(bb.Instrs)-1]
		switch t := last.(type) {
		case *ssa.Return:
			if len(t.Results) == 0 {
				ok = false
				return
			}
			r := retVal(t, len(t.Results)-1)
			if !isErrorType(r.Type()) || !b.definitelyNonNilErr(r, bb, 0) {
				ok = false
				return
			}
			any = true
		case *ssa.Panic:
			ok = false
		default:
			for _, s := range bb.Succs {
				if s.Dominates(bb) { // back edge: a loop, not a plain rejection
					ok = false
					return
				}
				walk(s, depth+1)
			}
		}
	}
	walk(start, 0)
	return ok && any
}

// errCheckAfter: for an error value e (result of a call), find the branch
// that tests it and return the block+successor for the non-nil edge.
func errChecks(e ssa.Value) []nilTest {
	if e == nil {
		return nil
	}
	var fn *ssa.Function
	if i, ok := e.(ssa.Instruction); ok {
		fn = i.Parent()
	} else if p, ok := e.(*ssa.Parameter); ok {
		fn = p.Parent()
	}
	if fn == nil {
		return nil
	}
	return nilTests(fn, e)
}

// extractOf returns the Extract instruction(s) of tuple value t at index i.
func extractOf(t ssa.Value, i int) []*ssa.Extract {
	var out []*ssa.Extract
	refs := t.Referrers()
	if refs == nil {
		return nil
	}
	for _, r := range *refs {
		if ex, ok := r.(*ssa.Extract); ok && ex.Index == i {
			out = append(out, ex)
		}
	}
	return out
}

// errResultOf returns the SSA value(s) holding the error result of call c.
func errResultOf(c ssa.CallInstruction) []ssa.Value {
	v := c.Value()
	if v == nil {
		return nil
	}
	switch t := v.Type().(type) {
	case *types.Tuple:
		n := t.Len()
		if n == 0 || !isErrorType(t.At(n-1).Type()) {
			return nil
		}
		var out []ssa.Value
		for _, ex := range extractOf(v, n-1) {
			out = append(out, ex)
		}
		return out
	default:
		if isErrorType(v.Type()) {
			return []ssa.Value{v}
		}
	}
	return nil
}

// successDominates: call c returns an error that is tested, the non-nil edge
// rejects (returns an error), and the nil edge dominates target.
func (b *Body) successDominates(c ssa.CallInstruction, target ssa.Instruction) (bool, string) {
	errs := errResultOf(c)
	if len(errs) == 0 {
		return false, "call has no error result in use"
	}
	for _, e := range errs {
		all := errChecks(e)
		for _, t := range all {
			if !edgeDominates(t.Blk, 1-t.NonNilSucc, target.Block()) {
				continue
			}
			if t.Chain {
				// `if err == nil { … target … }; if err != nil { return … }`: the failure is
				// rejected at the test of the merged value
				for _, t2 := range all {
					if !t2.Chain && b.rejects(t2.Blk.Succs[t2.NonNilSucc]) {
						return true, "error tested at " + b.posOf(t.Blk.Instrs[len(t.Blk.Instrs)-1]) + " (failure rejected at " + b.posOf(t2.Blk.Instrs[len(t2.Blk.Instrs)-1]) + ")"
					}
				}
				continue
			}
			if !b.rejects(t.Blk.Succs[t.NonNilSucc]) {
				return false, "the error edge at " + b.posOf(t.Blk.Instrs[len(t.Blk.Instrs)-1]) + " does not return a non-nil error"
			}
			return true, "error tested at " + b.posOf(t.Blk.Instrs[len(t.Blk.Instrs)-1])
		}
	}
	return false, "no error test whose success edge dominates the use"
}

// resultsOf: the value(s) standing for result i of the call value t — the extracts of a
// tuple, or the call itself when it has a single result.
func resultsOf(t ssa.Value, i int) []ssa.Value {
	if t == nil {
		return nil
	}
	if _, isTuple := t.Type().(*types.Tuple); isTuple {
		var out []ssa.Value
		for _, ex := range extractOf(t, i) {
			out = append(out, ex)
		}
		return out
	}
	if i == 0 {
		return []ssa.Value{t}
	}
	return nil
}

// asResult: v is result idx of call (an extract of its tuple, or the single-result call itself).
func asResult(v ssa.Value) (call *ssa.Call, idx int, ok bool) {
	switch x := v.(type) {
	case *ssa.Extract:
		if c, isCall := x.Tuple.(*ssa.Call); isCall {
			return c, x.Index, true
		}
	case *ssa.Call:
		if _, isTuple := x.Type().(*types.Tuple); !isTuple {
			return x, 0, true
		}
	}
	return nil, 0, false
}
