package main

// R-POOLINIT: a recycled pooled state never leaks the previous call. For
// every pool-use window the set of field paths of the pooled struct that can
// be read before they are written (upward-exposed reads, computed with a
// forward must-be-written dataflow and per-function summaries to a fixpoint)
// must be empty, except for a short table of reviewed idioms each of which
// has its own structural check.

import (
	"fmt"
	"go/token"
	"go/types"
	"sort"
	"strings"

	"golang.org/x/tools/go/ssa"
)

func init() {
	register(&Rule{ID: "R-POOLINIT", Doc: "for each sync.Pool window in the codec (Get … first use by the decoder/encoder proper) the fields of the pooled struct that can be read before being written on some path are computed (must-written dataflow over field paths, callee summaries to a fixpoint, truncate idiom, Buffer.Reset, dynamic step calls resolved to the address-taken state functions); every such field must be in the reviewed table of idioms (never stored on a pool-derived state; nil-guarded content reset; consumer-guarded; assert-empty; write-before-read scratch window), each with its own structural check — a new field that init forgets fails the rule",
		Run: rulePoolInit, Min: map[string]int{"codec": 8}})
}

type pset map[string]bool

func (p pset) clone() pset {
	n := pset{}
	for k := range p {
		n[k] = true
	}
	return n
}

func (p pset) covers(path string) bool {
	if p["*"] {
		return true
	}
	parts := strings.Split(path, ".")
	for i := 1; i <= len(parts); i++ {
		if p[strings.Join(parts[:i], ".")] {
			return true
		}
	}
	return false
}

func psetInter(a, b pset) pset {
	if a["*"] {
		return b.clone()
	}
	if b["*"] {
		return a.clone()
	}
	n := pset{}
	for k := range a {
		if b.covers(k) {
			n[k] = true
		}
	}
	for k := range b {
		if a.covers(k) {
			n[k] = true
		}
	}
	return n
}

func psetEq(a, b pset) bool {
	if len(a) != len(b) {
		return false
	}
	for k := range a {
		if !b[k] {
			return false
		}
	}
	return true
}

func (p pset) list() []string {
	var ks []string
	for k := range p {
		ks = append(ks, k)
	}
	sort.Strings(ks)
	return ks
}

type piKey struct {
	fn *ssa.Function
	i  int
}

type poolInitAn struct {
	b      *Body
	pkg    *ssa.Package
	fns    []*ssa.Function
	ue     map[piKey]pset
	mw     map[piKey]pset
	byType map[string][]*ssa.Function // plain functions and methods (bound method values), by receiver-less signature
	pooled map[string]bool
}

func piStructOf(t types.Type) *types.Struct {
	if p, ok := t.Underlying().(*types.Pointer); ok {
		t = p.Elem()
	}
	s, _ := t.Underlying().(*types.Struct)
	return s
}

func (a *poolInitAn) pathOf(v ssa.Value, roots map[ssa.Value]string) (string, bool) {
	if p, ok := roots[v]; ok {
		return p, true
	}
	switch x := v.(type) {
	case *ssa.FieldAddr:
		base, ok := a.pathOf(x.X, roots)
		if !ok {
			return "", false
		}
		st := piStructOf(x.X.Type())
		if st == nil {
			return "", false
		}
		name := st.Field(x.Field).Name()
		if base == "" {
			return name, true
		}
		return base + "." + name, true
	case *ssa.ChangeType:
		return a.pathOf(x.X, roots)
	}
	return "", false
}

func (a *poolInitAn) callees(c *ssa.CallCommon) []*ssa.Function {
	if f := c.StaticCallee(); f != nil {
		return []*ssa.Function{f}
	}
	if !c.IsInvoke() {
		if sig, ok := c.Value.Type().Underlying().(*types.Signature); ok {
			return a.byType[sigKey(sig)]
		}
		return nil
	}
	return nil
}

// sigKey: parameter and result types only (no names), for matching function values.
func sigKey(sig *types.Signature) string {
	var sb strings.Builder
	for i := 0; i < sig.Params().Len(); i++ {
		sb.WriteString(types.TypeString(sig.Params().At(i).Type(), nil))
		sb.WriteString(",")
	}
	sb.WriteString("->")
	for i := 0; i < sig.Results().Len(); i++ {
		sb.WriteString(types.TypeString(sig.Results().At(i).Type(), nil))
		sb.WriteString(",")
	}
	return sb.String()
}

func piJoin(a, b string) string {
	if a == "" {
		return b
	}
	if b == "" {
		return a
	}
	return a + "." + b
}

func piTruncateOnly(load *ssa.UnOp) bool {
	refs := load.Referrers()
	if refs == nil || len(*refs) == 0 {
		return false
	}
	n := 0
	for _, r := range *refs {
		if _, ok := r.(*ssa.DebugRef); ok {
			continue
		}
		sl, ok := r.(*ssa.Slice)
		if !ok {
			return false
		}
		hi, ok := sl.High.(*ssa.Const)
		if !ok || hi.Int64() != 0 {
			return false
		}
		n++
	}
	return n > 0
}

// allFieldPaths lists the top-level field names of the struct t points to.
func allFieldPaths(t types.Type) []string {
	st := piStructOf(t)
	if st == nil {
		return nil
	}
	var out []string
	for i := 0; i < st.NumFields(); i++ {
		out = append(out, st.Field(i).Name())
	}
	return out
}

func (a *poolInitAn) out(fn *ssa.Function, blk *ssa.BasicBlock, w0 pset, roots map[ssa.Value]string, exposed pset, rootType types.Type) pset {
	w := w0.clone()
	read := func(path string) {
		if exposed != nil && path != "" && !w.covers(path) {
			exposed[path] = true
		}
	}
	for _, ins := range blk.Instrs {
		switch x := ins.(type) {
		case *ssa.UnOp:
			if x.Op == token.MUL {
				if p, ok := a.pathOf(x.X, roots); ok {
					if piTruncateOnly(x) {
						continue
					}
					read(p)
				}
			}
		case *ssa.Store:
			if p, ok := a.pathOf(x.Addr, roots); ok && p != "" {
				w[p] = true
			}
		case *ssa.MapUpdate, *ssa.Lookup, *ssa.Range:
			// reads of maps held in fields go through a load first (handled above)
		case ssa.CallInstruction:
			if _, isDefer := x.(*ssa.Defer); isDefer {
				continue
			}
			com := x.Common()
			if _, isBuiltin := com.Value.(*ssa.Builtin); isBuiltin {
				continue
			}
			args := com.Args
			cs := a.callees(com)
			for j, arg := range args {
				prefix, ok := a.pathOf(arg, roots)
				if !ok {
					continue
				}
				if len(cs) == 0 {
					// unresolved dynamic callee receiving (part of) the object: it may read anything not yet written
					if prefix == "" {
						for _, f := range allFieldPaths(rootType) {
							read(f)
						}
					} else {
						read(prefix)
					}
					continue
				}
				if cs[0].Pkg != a.pkg {
					// method of an embedded/std sub-object (bytes.Buffer etc.)
					if cs[0].Name() == "Reset" {
						if prefix != "" {
							w[prefix] = true
						}
					} else if isPoolCall(com, "Put") {
						// handing the object back is not a read
					} else {
						read(prefix)
					}
					continue
				}
				mw := pset{"*": true}
				for _, cf := range cs {
					off := 0
					if com.StaticCallee() == nil && cf.Signature.Recv() != nil {
						off = 1 // bound method value: the receiver is parameter 0 of the function
					}
					if j+off >= len(cf.Params) {
						continue
					}
					k := piKey{cf, j + off}
					ue, known := a.ue[k]
					if !known && cf.Blocks != nil {
						// parameter of a non-pooled type that still carries part of the object (e.g. *scanner inside decodeState)
						ue2, mw2 := a.analyse(cf, map[ssa.Value]string{cf.Params[j+off]: ""}, pset{}, cf.Params[j+off].Type())
						a.ue[k], a.mw[k] = ue2, mw2
						ue = ue2
					}
					for p := range ue {
						read(piJoin(prefix, p))
					}
					m, ok := a.mw[k]
					if !ok {
						m = pset{"*": true}
					}
					mw = psetInter(mw, m)
				}
				if !mw["*"] {
					for p := range mw {
						w[piJoin(prefix, p)] = true
					}
				}
			}
		}
	}
	return w
}

var piDepth = 0

func (a *poolInitAn) analyse(fn *ssa.Function, roots map[ssa.Value]string, init pset, rootType types.Type) (pset, pset) {
	piDepth++
	defer func() { piDepth-- }()
	if piDepth > 6 || fn.Blocks == nil {
		return pset{}, pset{}
	}
	exposed := pset{}
	in := map[*ssa.BasicBlock]pset{}
	for _, bb := range fn.Blocks {
		in[bb] = pset{"*": true}
	}
	in[fn.Blocks[0]] = init.clone()
	retW := pset{"*": true}
	for iter, changed := 0, true; changed && iter < 100; iter++ {
		changed = false
		retW = pset{"*": true}
		for _, bb := range fn.Blocks {
			if bb != fn.Blocks[0] {
				w := pset{"*": true}
				for _, p := range bb.Preds {
					w = psetInter(w, a.out(fn, p, in[p], roots, nil, rootType))
				}
				if !psetEq(w, in[bb]) {
					in[bb] = w
					changed = true
				}
			}
			out := a.out(fn, bb, in[bb], roots, exposed, rootType)
			if _, ok := bb.Instrs[len(bb.Instrs)-1].(*ssa.Return); ok {
				retW = psetInter(retW, out)
			}
		}
	}
	return exposed, retW
}

func (c *Ctx) poolInitFor(b *Body) *poolInitAn {
	key := "poolInit." + b.Name
	if a, ok := c.facts[key].(*poolInitAn); ok {
		return a
	}
	a := &poolInitAn{b: b, pkg: b.Codec, ue: map[piKey]pset{}, mw: map[piKey]pset{}, byType: map[string][]*ssa.Function{}, pooled: map[string]bool{}}
	a.fns = b.srcFuncs(b.Codec)
	for _, fn := range a.fns {
		if fn.Parent() == nil {
			a.byType[sigKey(fn.Signature)] = append(a.byType[sigKey(fn.Signature)], fn)
		}
	}
	// pooled struct types: asserted types of Pool.Get results, and types allocated in Pool.New
	for _, fn := range a.fns {
		allInstrs(fn, func(i ssa.Instruction) {
			if ta, ok := i.(*ssa.TypeAssert); ok {
				if call, ok := ta.X.(*ssa.Call); ok && isPoolCall(&call.Call, "Get") {
					if n := derefNamed(ta.AssertedType); n != nil {
						a.pooled[n.Obj().Name()] = true
					}
				}
			}
		})
	}
	isPooledPtr := func(t types.Type) bool {
		p, ok := t.Underlying().(*types.Pointer)
		if !ok {
			return false
		}
		n, ok := p.Elem().(*types.Named)
		return ok && a.pooled[n.Obj().Name()]
	}
	for iter := 0; iter < 20; iter++ {
		changed := false
		for _, fn := range a.fns {
			for i, p := range fn.Params {
				if !isPooledPtr(p.Type()) {
					continue
				}
				ue, mw := a.analyse(fn, map[ssa.Value]string{p: ""}, pset{}, p.Type())
				k := piKey{fn, i}
				if a.ue[k] == nil || !psetEq(a.ue[k], ue) {
					a.ue[k] = ue
					changed = true
				}
				if a.mw[k] == nil || !psetEq(a.mw[k], mw) {
					a.mw[k] = mw
					changed = true
				}
			}
		}
		if !changed {
			break
		}
	}
	c.facts[key] = a
	return a
}

func rulePoolInit(c *Ctx) {
	b := c.V5
	if b == nil {
		return
	}
	l := c.L
	a := c.poolInitFor(b)
	var pooledNames []string
	for n := range a.pooled {
		pooledNames = append(pooledNames, n)
	}
	sort.Strings(pooledNames)
	l.stat("R-POOLINIT").Extra["pooled_struct_types"] = pooledNames

	type window struct {
		fn   *ssa.Function
		obj  ssa.Value
		typ  types.Type
		init pset
		desc string
	}
	var wins []window
	acquire := map[*ssa.Function]pset{} // constructor -> must-written set at its returns
	for _, fn := range a.fns {
		allInstrs(fn, func(i ssa.Instruction) {
			ta, ok := i.(*ssa.TypeAssert)
			if !ok {
				return
			}
			call, ok := ta.X.(*ssa.Call)
			if !ok || !isPoolCall(&call.Call, "Get") {
				return
			}
			wins = append(wins, window{fn, ta, ta.AssertedType, pset{}, "Get in " + fname(fn)})
			for _, r := range liveReturns(fn) {
				for _, rv := range r.Results {
					if rv == ssa.Value(ta) {
						acquire[fn] = nil
					}
				}
			}
		})
	}
	// constructor windows continue in the callers with the constructor's must-written set
	for ctor := range acquire {
		var ta ssa.Value
		allInstrs(ctor, func(i ssa.Instruction) {
			if t, ok := i.(*ssa.TypeAssert); ok {
				if call, ok := t.X.(*ssa.Call); ok && isPoolCall(&call.Call, "Get") {
					ta = t
				}
			}
		})
		// must-written on the path that returns the recycled object: analyse with the object as root
		_, mw := a.analyseReturning(ctor, ta)
		acquire[ctor] = mw
		for _, fn := range a.fns {
			for _, cs := range callsTo(fn, func(cc *ssa.CallCommon) bool { return cc.StaticCallee() == ctor }) {
				if v := cs.Value(); v != nil {
					wins = append(wins, window{fn, v, v.Type(), mw, fname(ctor) + "() in " + fname(fn)})
				}
			}
		}
	}
	sort.Slice(wins, func(i, j int) bool { return wins[i].desc < wins[j].desc })

	for _, w := range wins {
		tn := derefNamed(w.typ)
		if tn == nil {
			continue
		}
		ue, _ := a.analyse(w.fn, map[ssa.Value]string{w.obj: ""}, w.init, w.typ)
		key := fmt.Sprintf("window %s (%s): no field of the recycled state is read before it is written", w.desc, tn.Obj().Name())
		var bad, excepted []string
		for _, p := range ue.list() {
			fld := tn.Obj().Name() + "." + p
			if ok, why := a.poolInitException(tn.Obj().Name(), p); ok {
				excepted = append(excepted, fld+" ["+why+"]")
			} else {
				if why != "" {
					bad = append(bad, fld+" ("+why+")")
				} else {
					bad = append(bad, fld)
				}
			}
		}
		pos := b.rel(w.fn.Pos())
		if ins, ok := w.obj.(ssa.Instruction); ok {
			pos = b.posOf(ins)
		}
		switch {
		case len(bad) > 0:
			l.add("R-POOLINIT", "codec", key, pos, Violated, "stale-readable field(s) of the pooled object: "+strings.Join(bad, "; ")+" — a value left by an earlier call (possibly one that failed or ran on another goroutine's data) can influence this one", true)
		case len(excepted) > 0:
			l.add("R-POOLINIT", "codec", key, pos, Discharged, "every other field is definitely written first; reviewed idioms: "+strings.Join(excepted, "; "), true)
		default:
			l.add("R-POOLINIT", "codec", key, pos, Discharged, "every field that the window's callee closure can read is definitely written first", true)
		}
	}
	// useNumber is set in every decoder entry point (part of R-NUM as well)
	isUnmarshal := func(f *ssa.Function) bool {
		return f != nil && f.Name() == "unmarshal" && recvTypeName(f) == "decodeState"
	}
	// runsDecoder[f]: f (a codec function) runs the decoder on its receiver, directly or through helpers
	runsDecoder := map[*ssa.Function]bool{}
	for changed := true; changed; {
		changed = false
		for _, fn := range a.fns {
			if runsDecoder[fn] {
				continue
			}
			allInstrs(fn, func(i ssa.Instruction) {
				if call, ok := i.(*ssa.Call); ok {
					f := call.Call.StaticCallee()
					if (isUnmarshal(f) || runsDecoder[f]) && len(call.Call.Args) > 0 {
						if _, isP := call.Call.Args[0].(*ssa.Parameter); isP && !runsDecoder[fn] {
							runsDecoder[fn] = true
							changed = true
						}
					}
				}
			})
		}
	}
	storesTrue := func(fn *ssa.Function, obj ssa.Value, before []ssa.Instruction) bool {
		ok := false
		allInstrs(fn, func(i ssa.Instruction) {
			st, isSt := i.(*ssa.Store)
			if !isSt {
				return
			}
			p, okp := a.pathOf(st.Addr, map[ssa.Value]string{obj: ""})
			if !okp || p != "useNumber" {
				return
			}
			if cv, isB := boolConst(st.Val); isB && cv {
				all := len(before) > 0
				for _, u := range before {
					if !b.instrDominates(st, u) {
						all = false
					}
				}
				if all {
					ok = true
				}
			}
		})
		return ok
	}
	for _, w := range wins {
		tn := derefNamed(w.typ)
		if tn == nil || tn.Obj().Name() != "decodeState" {
			continue
		}
		if _, isCtor := acquire[w.fn]; isCtor {
			if _, isTA := w.obj.(*ssa.TypeAssert); isTA {
				continue // the window continues in the callers of the constructor, judged there
			}
		}
		key := fmt.Sprintf("window %s: useNumber is stored true before the decoder runs", w.desc)
		var runs []ssa.Instruction
		allInstrs(w.fn, func(i ssa.Instruction) {
			if call, ok2 := i.(*ssa.Call); ok2 {
				if f := call.Call.StaticCallee(); (isUnmarshal(f) || runsDecoder[f]) && len(call.Call.Args) > 0 && call.Call.Args[0] == w.obj {
					runs = append(runs, call)
				}
			}
		})
		ok := storesTrue(w.fn, w.obj, runs)
		why := "d.useNumber = true dominates d.unmarshal: numbers are decoded as literal-preserving Number values whatever state the pool hands out"
		if !ok {
			// the constructor that handed out the state stores it on every path to its return
			if call, isCall := w.obj.(*ssa.Call); isCall {
				if ctor := call.Call.StaticCallee(); ctor != nil {
					if _, isCtor := acquire[ctor]; isCtor {
						var ta ssa.Value
						allInstrs(ctor, func(i ssa.Instruction) {
							if t, ok := i.(*ssa.TypeAssert); ok {
								if c2, ok := t.X.(*ssa.Call); ok && isPoolCall(&c2.Call, "Get") {
									ta = t
								}
							}
						})
						var rets []ssa.Instruction
						for _, r := range liveReturns(ctor) {
							rets = append(rets, r)
						}
						if ta != nil && storesTrue(ctor, ta, rets) && len(runs) > 0 {
							ok = true
							why = fname(ctor) + " stores useNumber = true before it hands out the state, on every path"
						}
					}
				}
			}
		}
		v := Discharged
		if !ok {
			v = Violated
			why = "no store of the constant true to useNumber dominates the decoder run in this entry point: whether numbers keep their literal depends on which recycled state the pool hands out"
		}
		l.add("R-POOLINIT", "codec", key, b.rel(w.fn.Pos()), v, why, true)
	}
}

// analyseReturning: must-written set along paths that return value obj.
func (a *poolInitAn) analyseReturning(fn *ssa.Function, obj ssa.Value) (pset, pset) {
	if obj == nil {
		return pset{}, pset{}
	}
	roots := map[ssa.Value]string{obj: ""}
	in := map[*ssa.BasicBlock]pset{}
	for _, bb := range fn.Blocks {
		in[bb] = pset{"*": true}
	}
	in[fn.Blocks[0]] = pset{}
	exposed := pset{}
	retW := pset{"*": true}
	for iter, changed := 0, true; changed && iter < 100; iter++ {
		changed = false
		retW = pset{"*": true}
		for _, bb := range fn.Blocks {
			if bb != fn.Blocks[0] {
				w := pset{"*": true}
				for _, p := range bb.Preds {
					w = psetInter(w, a.out(fn, p, in[p], roots, nil, obj.Type()))
				}
				if !psetEq(w, in[bb]) {
					in[bb] = w
					changed = true
				}
			}
			out := a.out(fn, bb, in[bb], roots, exposed, obj.Type())
			if r, ok := bb.Instrs[len(bb.Instrs)-1].(*ssa.Return); ok {
				for _, rv := range r.Results {
					if rv == obj {
						retW = psetInter(retW, out)
					}
				}
			}
		}
	}
	return exposed, retW
}

// poolInitException: reviewed idioms, each with a structural check on the
// current source. Returns (accepted, reason).
func (a *poolInitAn) poolInitException(typ, path string) (bool, string) {
	b := a.b
	top := strings.Split(path, ".")[0]
	// 1. never stored on a pool-derived state: every store to the field goes
	//    through a *Decoder's own embedded state (the user's object, not the pool's)
	neverOnPooled := func() (bool, string) {
		n := 0
		for _, fn := range a.fns {
			bad := ""
			allInstrs(fn, func(i ssa.Instruction) {
				st, ok := i.(*ssa.Store)
				if !ok {
					return
				}
				fa, ok := st.Addr.(*ssa.FieldAddr)
				if !ok {
					return
				}
				fr := fieldOfAddr(fa)
				if fr.Type != typ || fr.Field != top {
					return
				}
				n++
				// base must be a field of another (non-pooled) object, e.g. &dec.d
				if inner, ok := fa.X.(*ssa.FieldAddr); ok {
					if hn := derefNamed(inner.X.Type()); hn != nil && !a.pooled[hn.Obj().Name()] {
						return
					}
				}
				if cv, ok := boolConst(st.Val); ok && !cv {
					return // storing the zero value is a reset, not a leak
				}
				bad = "stored at " + b.posOf(st) + " on a state that may come from the pool"
			})
			if bad != "" {
				return false, bad
			}
		}
		return true, fmt.Sprintf("never stored on a pool-derived state: all %d store(s) go through a Decoder's own embedded state, so a recycled state always holds the zero value", n)
	}
	switch typ + "." + top {
	case "decodeState.disallowUnknownFields":
		return neverOnPooled()
	case "decodeState.errorContext":
		// nil-guarded content reset in init: under errorContext != nil every field of the pointee is written
		initFn := b.method(b.Codec, "decodeState", "init")
		if initFn == nil {
			return false, "decodeState.init not found"
		}
		st := piStructOf(b.Codec.Type("errorContext").Type())
		written := map[string]bool{}
		allInstrs(initFn, func(i ssa.Instruction) {
			s, ok := i.(*ssa.Store)
			if !ok {
				return
			}
			fa, ok := s.Addr.(*ssa.FieldAddr)
			if !ok {
				return
			}
			fr := fieldOfAddr(fa)
			if fr.Type != "errorContext" {
				return
			}
			// the base pointer is the loaded d.errorContext and a non-nil fact dominates
			if ld, ok := fa.X.(*ssa.UnOp); ok {
				if _, f2, ok := fieldLoad(ld); ok && f2.Field == "errorContext" && knownNonNilByPath(ld, s.Block()) {
					written[fr.Field] = true
				}
			}
		})
		for i := 0; st != nil && i < st.NumFields(); i++ {
			if !written[st.Field(i).Name()] {
				return false, "init does not reset errorContext." + st.Field(i).Name() + " under the non-nil guard"
			}
		}
		return true, "nil-guarded content reset: init clears every field of the kept errorContext under errorContext != nil"
	case "encodeState.ptrSeen":
		// assert-empty idiom: the only pre-write read is len(e.ptrSeen) > 0 leading to panic
		ctor := fnOf(b.Codec, "newEncodeState")
		if ctor == nil {
			return false, "newEncodeState not found"
		}
		ok := false
		allInstrs(ctor, func(i ssa.Instruction) {
			call, isC := i.(*ssa.Call)
			if !isC {
				return
			}
			bi, isB := call.Call.Value.(*ssa.Builtin)
			if !isB || bi.Name() != "len" {
				return
			}
			if _, fr, isF := fieldLoad(call.Call.Args[0]); !isF || fr.Field != "ptrSeen" {
				return
			}
			for _, r := range *call.Referrers() {
				bo, isBo := r.(*ssa.BinOp)
				if !isBo {
					continue
				}
				for _, r2 := range *bo.Referrers() {
					iff, isIf := r2.(*ssa.If)
					if !isIf {
						continue
					}
					big, small, strict, okc := cmpNorm(iff.Cond)
					if okc && big == ssa.Value(call) && strict {
						if z, okz := intConst(small); okz && z == 0 {
							tb := iff.Block().Succs[0]
							if _, isPanic := tb.Instrs[len(tb.Instrs)-1].(*ssa.Panic); isPanic {
								ok = true
							}
						}
					}
				}
			}
		})
		if !ok {
			return false, "the assert-empty check (len(ptrSeen) > 0 ⇒ panic) is gone"
		}
		return true, "assert-empty: a recycled encoder state with a non-empty ptrSeen panics instead of being used"
	case "encodeState.scratch":
		// write-before-read window: every use of the scratch array is a [:0] append destination
		// or a [:n] window that a std writer fills before it is emitted
		for _, fn := range a.fns {
			bad := ""
			allInstrs(fn, func(i ssa.Instruction) {
				fa, ok := i.(*ssa.FieldAddr)
				if !ok {
					return
				}
				fr := fieldOfAddr(fa)
				if fr.Type != "encodeState" || fr.Field != "scratch" {
					return
				}
				for _, r := range *fa.Referrers() {
					sl, ok := r.(*ssa.Slice)
					if !ok {
						if _, isDbg := r.(*ssa.DebugRef); isDbg {
							continue
						}
						bad = fmt.Sprintf("scratch used by %T at %s", r, b.posOf(r))
						continue
					}
					if hi, ok := sl.High.(*ssa.Const); ok && hi.Int64() == 0 {
						continue // [:0]: contents irrelevant
					}
					// a window: first use must be as the written argument of a std writer
					filled := false
					for _, r2 := range *sl.Referrers() {
						ci, ok := r2.(ssa.CallInstruction)
						if !ok {
							continue
						}
						f := ci.Common().StaticCallee()
						if f == nil {
							continue
						}
						if ws, ok := stdWrites[stdName(f)]; ok {
							for _, wi := range ws {
								args := callArgs(ci.Common())
								if wi < len(args) && args[wi] == ssa.Value(sl) {
									filled = true
									// every other use must be dominated by the fill
									for _, r3 := range *sl.Referrers() {
										if r3 != r2 {
											if _, isDbg := r3.(*ssa.DebugRef); !isDbg && !b.instrDominates(ci, r3) {
												bad = "scratch window read at " + b.posOf(r3) + " before it is filled"
											}
										}
									}
								}
							}
						}
					}
					if !filled {
						bad = "scratch window at " + b.posOf(sl) + " is not filled by a known writer before use"
					}
				}
			})
			if bad != "" {
				return false, bad
			}
		}
		return true, "write-before-read scratch: used only as a [:0] append destination or as a window that a std encoder fills completely before it is emitted"
	}
	return false, ""
}

// knownNonNilByPath: a (x != nil) fact for a load of the same field path dominates block at.
func knownNonNilByPath(ld *ssa.UnOp, at *ssa.BasicBlock) bool {
	base, fr, ok := fieldLoad(ld)
	if !ok {
		return false
	}
	fn := at.Parent()
	for _, bb := range fn.Blocks {
		iff, ok := bb.Instrs[len(bb.Instrs)-1].(*ssa.If)
		if !ok {
			continue
		}
		x, nnTrue, ok := nilTestOfCond(iff.Cond)
		if !ok {
			continue
		}
		b2, f2, ok := fieldLoad(x)
		if !ok || f2 != fr || b2 != base {
			continue
		}
		s := 1
		if nnTrue {
			s = 0
		}
		if edgeDominates(bb, s, at) {
			return true
		}
	}
	return false
}
