package main

// A-LIN (difference-bound facts for int SSA values relative to symbolic
// lengths), R-BOUNDS (every index and slice expression of the library is in
// range, or excepted by a named invariant) and R-NEGIDX (negative array
// indices are honoured only under the option, and rejected otherwise).

import (
	"fmt"
	"go/constant"
	"go/token"
	"go/types"
	"sort"
	"strings"

	"golang.org/x/tools/go/ssa"
)

func init() {
	register(&Rule{ID: "R-BOUNDS", Doc: "every IndexAddr / Index / Slice / MakeSlice of the library bodies is proved in range from linear facts (lhs - rhs + c >= 0) that dominate it: branch conditions, range-loop indices (0 <= i < len of the ranged slice), equal-length guards, x != y strengthening, len(make([]T, n)) = n, negative-index normalisation; symbolic lengths are access paths (param.field.field) that are stable because the function does not store to them before the use; content-dependent sites are reviewed exceptions that name the invariant they rely on",
		Run: ruleBounds, Min: map[string]int{"v5": 30, "legacy": 25}})
	register(&Rule{ID: "R-NEGIDX", Doc: "in every array method: on the index < 0 edge the option (v5: options.SupportNegativeIndices; legacy: the package variable) is tested, its false edge returns a non-nil error, and no element is touched on a path from the index < 0 edge that avoids the option's true edge",
		Run: ruleNegIdx, Min: map[string]int{"v5": 4, "legacy": 4}})
}

type lin struct {
	co map[string]int
	c  int
}

func (l lin) String() string {
	var ks []string
	for k, v := range l.co {
		if v != 0 {
			ks = append(ks, fmt.Sprintf("%+d·%s", v, strings.TrimPrefix(strings.TrimPrefix(k, "L:"), "v:")))
		}
	}
	sort.Strings(ks)
	return strings.TrimSpace(strings.Join(ks, " ") + fmt.Sprintf(" %+d", l.c))
}
func linConst(c int) lin  { return lin{map[string]int{}, c} }
func linSym(s string) lin { return lin{map[string]int{s: 1}, 0} }
func (l lin) clone() lin {
	n := lin{map[string]int{}, l.c}
	for k, v := range l.co {
		n.co[k] = v
	}
	return n
}
func (l lin) add(o lin, f int) lin {
	n := l.clone()
	for k, v := range o.co {
		n.co[k] += f * v
		if n.co[k] == 0 {
			delete(n.co, k)
		}
	}
	n.c += f * o.c
	return n
}

func linTrivial(l lin) bool {
	if l.c < 0 {
		return false
	}
	for k, v := range l.co {
		if v < 0 || !strings.HasPrefix(k, "L:") {
			return false
		}
	}
	return true
}

func linEntails(facts []lin, goal lin) bool {
	if linTrivial(goal) {
		return true
	}
	n := len(facts)
	for i := 0; i < n; i++ {
		r1 := goal.add(facts[i], -1)
		if linTrivial(r1) {
			return true
		}
		for j := i; j < n; j++ {
			r2 := r1.add(facts[j], -1)
			if linTrivial(r2) {
				return true
			}
			for k := j; k < n; k++ {
				if linTrivial(r2.add(facts[k], -1)) {
					return true
				}
			}
		}
	}
	return false
}

type linAn struct {
	b         *Body
	fn        *ssa.Function
	exprs     map[ssa.Value]lin
	stored    map[string]bool // field names the function stores to (their lengths are not stable)
	inLen     map[ssa.Value]bool
	storesTo  map[string][]ssa.Instruction
	callMemo  map[*ssa.Call][]lin
	callBusy  map[*ssa.Call]bool
	reachMemo map[*ssa.BasicBlock]map[*ssa.BasicBlock]bool
}

// reaches: instruction from can execute before instruction to.
func (a *linAn) reaches(from, to ssa.Instruction) bool {
	fb, tb := from.Block(), to.Block()
	if fb == tb {
		fi, ti := -1, -1
		for k, ins := range fb.Instrs {
			if ins == from {
				fi = k
			}
			if ins == to {
				ti = k
			}
		}
		if fi < ti {
			return true
		}
		// later in the same block: only around a loop
	}
	if a.reachMemo == nil {
		a.reachMemo = map[*ssa.BasicBlock]map[*ssa.BasicBlock]bool{}
	}
	m, ok := a.reachMemo[fb]
	if !ok {
		m = map[*ssa.BasicBlock]bool{}
		var walk func(bb *ssa.BasicBlock)
		walk = func(bb *ssa.BasicBlock) {
			for _, sx := range bb.Succs {
				if !m[sx] {
					m[sx] = true
					walk(sx)
				}
			}
		}
		walk(fb)
		a.reachMemo[fb] = m
	}
	return m[tb]
}

func newLinAn(b *Body, fn *ssa.Function) *linAn {
	a := &linAn{b: b, fn: fn, exprs: map[ssa.Value]lin{}, stored: map[string]bool{}}
	a.storesTo = map[string][]ssa.Instruction{}
	allInstrs(fn, func(i ssa.Instruction) {
		if st, ok := i.(*ssa.Store); ok {
			if fa, ok := st.Addr.(*ssa.FieldAddr); ok {
				n := fieldName(fa.X.Type(), fa.Field)
				a.stored[n] = true
				a.storesTo[n] = append(a.storesTo[n], st)
			}
		}
		// the address of a field handed to a call: the callee may write it
		if fa, ok := i.(*ssa.FieldAddr); ok {
			for _, r := range *fa.Referrers() {
				if ci, ok := r.(ssa.CallInstruction); ok {
					n := fieldName(fa.X.Type(), fa.Field)
					a.storesTo[n] = append(a.storesTo[n], ci)
				}
			}
		}
	})
	return a
}

// accessPath renders a value as a stable path: parameter / local name followed by field names.
func (a *linAn) accessPath(v ssa.Value, depth int) (string, bool) {
	if depth > 6 {
		return "", false
	}
	switch x := v.(type) {
	case *ssa.Parameter:
		return x.Name(), true
	case *ssa.Alloc:
		// a pointer to an object allocated here: its own name
		if x.Heap {
			return "new@" + x.Name(), true
		}
	case *ssa.UnOp:
		if x.Op != token.MUL {
			return "", false
		}
		switch ad := x.X.(type) {
		case *ssa.FieldAddr:
			base, ok := a.accessPath(ad.X, depth+1)
			if !ok {
				return "", false
			}
			fld := fieldName(ad.X.Type(), ad.Field)
			// a field this function stores to names the same memory only while no such store can
			// have run in between. A load that no store reaches uses the plain path; otherwise it
			// shares a symbol with the earliest dominating load of the same path from which it
			// cannot be reached by way of such a store (without passing that load again).
			reached := false
			for _, st := range a.storesTo[fld] {
				if a.reaches(st, x) {
					reached = true
				}
			}
			if !reached {
				return base + "." + fld, true
			}
			rep := a.loadRepresentative(x, ad, fld)
			return base + "." + fld + "#" + rep.Name(), true
		case *ssa.Alloc:
			// a local assigned exactly once
			var vals []ssa.Value
			for _, r := range *ad.Referrers() {
				if st, ok := r.(*ssa.Store); ok && st.Addr == ssa.Value(ad) {
					vals = append(vals, st.Val)
				}
			}
			if len(vals) == 1 {
				return a.accessPath(vals[0], depth+1)
			}
			if ad.Comment != "" {
				return "local:" + ad.Comment, true
			}
		case *ssa.Parameter:
			return "*" + ad.Name(), true
		case *ssa.UnOp:
			// *(loaded pointer): the pointee is stable unless this function stores through a
			// pointer of that type
			if ad.Op == token.MUL {
				for _, bb := range a.fn.Blocks {
					for _, ins := range bb.Instrs {
						if st, ok := ins.(*ssa.Store); ok && types.Identical(st.Addr.Type(), ad.Type()) {
							if _, isAlloc := st.Addr.(*ssa.Alloc); !isAlloc {
								return "", false
							}
						}
					}
				}
				if base, ok := a.accessPath(ad, depth+1); ok {
					return base + ".*", true
				}
			}
		case *ssa.IndexAddr:
			// an element loaded once is a value of its own
			return "val@" + x.Name(), true
		}
	case *ssa.Phi:
		if x.Comment != "" {
			return x.Comment, true // a re-assigned local / parameter, by its source name
		}
	case *ssa.ChangeType:
		return a.accessPath(x.X, depth+1)
	case *ssa.Convert:
		return a.accessPath(x.X, depth+1)
	case *ssa.Call:
		if f := x.Call.StaticCallee(); f != nil && (stdName(f) == "strings.Split") {
			return "split@" + x.Name(), true
		}
	case *ssa.Extract:
		return "res@" + x.Name(), true
	case *ssa.TypeAssert:
		return a.accessPath(x.X, depth+1)
	case *ssa.MakeInterface:
		return a.accessPath(x.X, depth+1)
	}
	return "", false
}

// lenOf: linear form of len(v) for a slice/string value.
func (a *linAn) lenOf(v ssa.Value) (lin, bool) {
	switch x := v.(type) {
	case *ssa.MakeSlice:
		return a.expr(x.Len), true
	case *ssa.Slice:
		base, ok := a.lenOfX(x.X)
		if !ok {
			return lin{}, false
		}
		hi := base
		if x.High != nil {
			hi = a.expr(x.High)
		}
		lo := linConst(0)
		if x.Low != nil {
			lo = a.expr(x.Low)
		}
		return hi.add(lo, -1), true
	case *ssa.Const:
		if x.Value != nil && x.Value.Kind() == constant.String {
			return linConst(len(constant.StringVal(x.Value))), true
		}
	case *ssa.Phi:
		// all edges the same length form
		if a.inLen == nil {
			a.inLen = map[ssa.Value]bool{}
		}
		if a.inLen[x] {
			return linSym("L:phi@" + x.Name()), true
		}
		a.inLen[x] = true
		defer delete(a.inLen, x)
		var first lin
		for i, e := range x.Edges {
			l, ok := a.lenOf(e)
			if !ok {
				return lin{}, false
			}
			if i == 0 {
				first = l
			} else if l.String() != first.String() {
				return linSym("L:phi@" + x.Name()), true
			}
		}
		return first, true
	case *ssa.UnOp:
		// local slice variable holding a single make
		if al, ok := x.X.(*ssa.Alloc); ok && x.Op == token.MUL {
			var vals []ssa.Value
			escapes := false
			for _, r := range *al.Referrers() {
				switch y := r.(type) {
				case *ssa.Store:
					if y.Addr == ssa.Value(al) {
						vals = append(vals, y.Val)
					}
				case ssa.CallInstruction:
					escapes = true
					_ = y
				}
			}
			if len(vals) == 1 && !escapes {
				return a.lenOf(vals[0])
			}
		}
	}
	if p, ok := a.accessPath(v, 0); ok {
		return linSym("L:" + p), true
	}
	// a slice or string value is immutable as an SSA value: its own name is a sound length symbol
	switch v.Type().Underlying().(type) {
	case *types.Slice, *types.Basic:
		if _, isInstr := v.(ssa.Instruction); isInstr {
			return linSym("L:val@" + v.Name()), true
		}
	}
	return lin{}, false
}

func (a *linAn) lenOfX(v ssa.Value) (lin, bool) {
	// pointer to array
	if pt, ok := v.Type().Underlying().(*types.Pointer); ok {
		if at, ok := pt.Elem().Underlying().(*types.Array); ok {
			return linConst(int(at.Len())), true
		}
	}
	return a.lenOf(v)
}

func (a *linAn) expr(v ssa.Value) lin {
	if e, ok := a.exprs[v]; ok {
		return e
	}
	var e lin
	switch x := v.(type) {
	case *ssa.Const:
		if x.Value != nil && x.Value.Kind() == constant.Int {
			n, _ := constant.Int64Val(x.Value)
			e = linConst(int(n))
		} else {
			e = linSym("v:" + x.Name())
		}
	case *ssa.BinOp:
		switch x.Op {
		case token.ADD:
			e = a.expr(x.X).add(a.expr(x.Y), 1)
		case token.SUB:
			e = a.expr(x.X).add(a.expr(x.Y), -1)
		default:
			e = linSym("v:" + x.Name())
		}
	case *ssa.UnOp:
		if x.Op == token.SUB {
			e = linConst(0).add(a.expr(x.X), -1)
		} else {
			e = linSym("v:" + x.Name())
		}
	case *ssa.Call:
		if bi, ok := x.Call.Value.(*ssa.Builtin); ok && bi.Name() == "len" {
			if l, ok := a.lenOfX(x.Call.Args[0]); ok {
				e = l
				break
			}
		}
		e = linSym("v:" + x.Name())
	case *ssa.Convert:
		e = a.expr(x.X)
	default:
		e = linSym("v:" + v.Name())
	}
	a.exprs[v] = e
	return e
}

type linFacts struct {
	ge  []lin    // each >= 0
	neq [][2]lin // x != y
}

func (a *linAn) condFacts(cond ssa.Value, truth bool, out *linFacts) {
	switch c := cond.(type) {
	case *ssa.UnOp:
		if c.Op == token.NOT {
			a.condFacts(c.X, !truth, out)
		}
	case *ssa.BinOp:
		bt, ok := c.X.Type().Underlying().(*types.Basic)
		if ok && bt.Info()&types.IsString != 0 && (c.Op == token.EQL || c.Op == token.NEQ) {
			// s != "" : the string has at least one byte
			sv, kv := c.X, c.Y
			if _, isK := sv.(*ssa.Const); isK {
				sv, kv = kv, sv
			}
			if k, isK := strConst(kv); isK && k == "" && (c.Op == token.NEQ) == truth {
				if ln, ok := a.lenOf(sv); ok {
					out.ge = append(out.ge, ln.add(linConst(1), -1))
				}
			}
			return
		}
		if !ok || bt.Info()&types.IsInteger == 0 {
			return
		}
		x, y := a.expr(c.X), a.expr(c.Y)
		op := c.Op
		if !truth {
			switch op {
			case token.LSS:
				op = token.GEQ
			case token.LEQ:
				op = token.GTR
			case token.GTR:
				op = token.LEQ
			case token.GEQ:
				op = token.LSS
			case token.EQL:
				op = token.NEQ
			case token.NEQ:
				op = token.EQL
			}
		}
		switch op {
		case token.LSS:
			out.ge = append(out.ge, y.add(x, -1).add(linConst(1), -1))
		case token.LEQ:
			out.ge = append(out.ge, y.add(x, -1))
		case token.GTR:
			out.ge = append(out.ge, x.add(y, -1).add(linConst(1), -1))
		case token.GEQ:
			out.ge = append(out.ge, x.add(y, -1))
		case token.EQL:
			out.ge = append(out.ge, x.add(y, -1), y.add(x, -1))
		case token.NEQ:
			out.neq = append(out.neq, [2]lin{x, y})
		}
	}
}

// factsAt: linear facts that hold whenever control reaches block bb.
func (a *linAn) factsAt(bb *ssa.BasicBlock) []lin {
	var f linFacts
	for _, x := range a.fn.Blocks {
		iff, ok := x.Instrs[len(x.Instrs)-1].(*ssa.If)
		if !ok {
			continue
		}
		for si := range x.Succs {
			if edgeDominates(x, si, bb) {
				a.condFacts(iff.Cond, si == 0, &f)
			}
		}
		// range-loop headers: index facts hold in the body
		if si := 0; len(x.Succs) == 2 && edgeDominates(x, si, bb) {
			if cmp, ok := iff.Cond.(*ssa.BinOp); ok && cmp.Op == token.LSS {
				if idx, ok := cmp.X.(*ssa.BinOp); ok && idx.Op == token.ADD {
					if phi, ok := idx.X.(*ssa.Phi); ok && phi.Block() == x {
						if one, ok := intConst(idx.Y); ok && one == 1 {
							isRange := false
							for _, e := range phi.Edges {
								if k, ok := intConst(e); ok && k == -1 {
									isRange = true
								}
							}
							if isRange {
								f.ge = append(f.ge, a.expr(idx)) // idx >= 0 (phi >= -1 inductively: starts at -1, only incremented)
							}
						}
					}
				}
				// classic for i := 0; i < n; i++ : phi(0, i+1)
				if phi, ok := cmp.X.(*ssa.Phi); ok && phi.Block() == x {
					nonneg := true
					for _, e := range phi.Edges {
						if k, ok := intConst(e); ok {
							if k < 0 {
								nonneg = false
							}
							continue
						}
						if inc, ok := e.(*ssa.BinOp); ok && inc.Op == token.ADD && inc.X == ssa.Value(phi) {
							if k, ok := intConst(inc.Y); ok && k >= 0 {
								continue
							}
						}
						nonneg = false
					}
					if nonneg {
						f.ge = append(f.ge, a.expr(phi))
					}
				}
			}
		}
	}
	// results of the library's own small int helpers (index normalisation and the like): facts that
	// hold at every successful return of the helper, given what is known at the call
	for _, x := range a.fn.Blocks {
		for _, ins := range x.Instrs {
			call, ok := ins.(*ssa.Call)
			if !ok {
				continue
			}
			h := call.Call.StaticCallee()
			if h == nil || h.Blocks == nil || h.Pkg != a.fn.Pkg || h == a.fn {
				continue
			}
			res := h.Signature.Results()
			if res.Len() == 0 || res.Len() > 2 {
				continue
			}
			if bt, ok := res.At(0).Type().Underlying().(*types.Basic); !ok || bt.Kind() != types.Int {
				continue
			}
			holds := false
			if res.Len() == 2 {
				if !isErrorType(res.At(1).Type()) {
					continue
				}
				for _, e := range extractOf(call, 1) {
					for _, t := range errChecks(e) {
						if edgeDominates(t.Blk, 1-t.NonNilSucc, bb) {
							holds = true
						}
					}
				}
			} else if x != bb && x.Dominates(bb) {
				holds = true
			} else if x == bb {
				holds = true // facts about a value are only used where the value is
			}
			if holds {
				f.ge = append(f.ge, a.callFacts(call)...)
			}
		}
	}
	// the standard index searches answer -1 or a position inside their first argument
	for _, x := range a.fn.Blocks {
		if !(x == bb || x.Dominates(bb)) {
			continue
		}
		for _, ins := range x.Instrs {
			call, ok := ins.(*ssa.Call)
			if !ok {
				continue
			}
			h := call.Call.StaticCallee()
			if h == nil || h.Pkg == nil || len(call.Call.Args) < 2 {
				continue
			}
			if pp := h.Pkg.Pkg.Path(); pp != "strings" && pp != "bytes" {
				continue
			}
			switch h.Name() {
			case "Index", "IndexByte", "IndexRune", "IndexAny", "LastIndex", "LastIndexByte", "LastIndexAny":
			default:
				continue
			}
			r := a.expr(call)
			f.ge = append(f.ge, r.add(linConst(1), 1))
			if ln, ok := a.lenOfX(call.Call.Args[0]); ok {
				f.ge = append(f.ge, ln.add(r, -1).add(linConst(1), -1))
			}
		}
	}
	// strings.Split with a separator that is not empty yields at least one element; and when
	// the text is not empty while the first element is, the separator occurs in the text, so
	// there are at least two
	var domFacts []edgeFact
	gotDom := false
	for _, x := range a.fn.Blocks {
		for _, ins := range x.Instrs {
			call, ok := ins.(*ssa.Call)
			if !ok || !staticCalleeIs(&call.Call, "strings", "Split") || len(call.Call.Args) != 2 {
				continue
			}
			if sep, isK := strConst(call.Call.Args[1]); !isK || sep == "" {
				continue
			}
			if !(x == bb || x.Dominates(bb)) {
				continue
			}
			ln, ok := a.lenOf(call)
			if !ok {
				continue
			}
			f.ge = append(f.ge, ln.add(linConst(1), -1))
			if !gotDom {
				domFacts, gotDom = dominatingFacts(bb), true
			}
			textNonEmpty, firstEmpty := false, false
			for _, df := range domFacts {
				if nonEmptyFact(df, call.Call.Args[0]) {
					textNonEmpty = true
				}
				if bo, isBo := df.V.(*ssa.BinOp); isBo && (bo.Op == token.EQL || bo.Op == token.NEQ) {
					el, k := bo.X, bo.Y
					if _, isC := el.(*ssa.Const); isC {
						el, k = k, el
					}
					if sv, isS := strConst(k); !isS || sv != "" {
						continue
					}
					ld, isLd := el.(*ssa.UnOp)
					if !isLd || ld.Op != token.MUL {
						continue
					}
					ia, isIA := ld.X.(*ssa.IndexAddr)
					if !isIA || ia.X != ssa.Value(call) {
						continue
					}
					if z, isZ := intConst(ia.Index); isZ && z == 0 && (bo.Op == token.EQL) == df.True {
						firstEmpty = true
					}
				}
			}
			if textNonEmpty && firstEmpty {
				f.ge = append(f.ge, ln.add(linConst(2), -1))
			}
		}
	}
	// strengthen with disequalities: x != y and y - x >= 0  =>  y - x - 1 >= 0
	for round := 0; round < 2; round++ {
		for _, nq := range f.neq {
			d1 := nq[1].add(nq[0], -1)
			if linEntails(f.ge, d1) {
				f.ge = append(f.ge, d1.add(linConst(1), -1))
			}
			d2 := nq[0].add(nq[1], -1)
			if linEntails(f.ge, d2) {
				f.ge = append(f.ge, d2.add(linConst(1), -1))
			}
		}
	}
	// integer phis: keep the template bounds that hold on every incoming edge
	return f.ge
}

// phiBounds adds, for an int phi used as an index, bounds that hold on each incoming edge.
func (a *linAn) phiFacts(bb *ssa.BasicBlock, base []lin) []lin {
	out := base
	for cur := bb; cur != nil; cur = cur.Idom() {
		for _, ins := range cur.Instrs {
			p, ok := ins.(*ssa.Phi)
			if !ok {
				continue
			}
			bt, ok := p.Type().Underlying().(*types.Basic)
			if !ok || bt.Info()&types.IsInteger == 0 {
				continue
			}
			if isLoopHeader(cur) {
				// a counter that only grows: p = φ(init, p + c) with c > 0 on every back edge
				// never falls below its initial value
				loop := naturalLoop(cur)
				var init ssa.Value
				mono := true
				for i, pr := range cur.Preds {
					e := p.Edges[i]
					if !loop[pr] {
						if init != nil && init != e {
							mono = false
						}
						init = e
						continue
					}
					bo, isBo := e.(*ssa.BinOp)
					if !isBo || bo.Op != token.ADD || bo.X != ssa.Value(p) {
						mono = false
						continue
					}
					if c, isC := intConst(bo.Y); !isC || c <= 0 {
						mono = false
					}
				}
				if mono && init != nil {
					t := lin{map[string]int{"v:" + p.Name(): 1}, 0}.add(a.expr(init), -1)
					out = append(out, t)
				}
				continue
			}
			ps := "v:" + p.Name()
			// candidate templates: ±p + k·L + c >= 0 for the length symbols seen in the edge values
			syms := map[string]bool{}
			for _, e := range p.Edges {
				for k := range a.expr(e).co {
					if strings.HasPrefix(k, "L:") {
						syms[k] = true
					}
				}
			}
			for _, pr := range cur.Preds {
				for _, f := range a.factsAt(pr) {
					for k := range f.co {
						if strings.HasPrefix(k, "L:") {
							syms[k] = true
						}
					}
				}
			}
			var lsyms []string
			for k := range syms {
				lsyms = append(lsyms, k)
			}
			sort.Strings(lsyms)
			lsyms = append([]string{""}, lsyms...)
			for _, L := range lsyms {
				for _, sgn := range []int{1, -1} {
					for _, kk := range []int{-1, 0, 1} {
						if L == "" && kk != 0 {
							continue
						}
						if L != "" && kk == 0 {
							continue
						}
						for _, c := range []int{-1, 0, 1} {
							okAll := true
							for i, pr := range cur.Preds {
								g := a.expr(p.Edges[i])
								goal := lin{map[string]int{}, c}.add(g, sgn)
								if L != "" {
									goal = goal.add(linSym(L), kk)
								}
								ef := a.edgeFacts(pr, cur)
								if !linEntails(ef, goal) {
									okAll = false
									break
								}
							}
							if okAll {
								t := lin{map[string]int{ps: sgn}, c}
								if L != "" {
									t.co[L] = kk
								}
								out = append(out, t)
							}
						}
					}
				}
			}
		}
	}
	return out
}

func (a *linAn) edgeFacts(pred, bb *ssa.BasicBlock) []lin {
	fs := a.factsAt(pred)
	if iff, ok := pred.Instrs[len(pred.Instrs)-1].(*ssa.If); ok && pred.Succs[0] != pred.Succs[1] {
		var f linFacts
		for i, s := range pred.Succs {
			if s == bb {
				a.condFacts(iff.Cond, i == 0, &f)
			}
		}
		fs = append(fs, f.ge...)
	}
	return fs
}

// describeBase: role name of the indexed collection.
func (a *linAn) describeBase(v ssa.Value) string {
	if p, ok := a.accessPath(v, 0); ok {
		if i := strings.Index(p, "@"); i >= 0 {
			p = p[:i]
		}
		return p
	}
	switch x := v.(type) {
	case *ssa.Slice:
		return a.describeBase(x.X) + "[:]"
	case *ssa.MakeSlice:
		return "make"
	case *ssa.Call:
		return "result of " + calleeLabel(&x.Call)
	case *ssa.Phi:
		return "phi " + x.Comment
	}
	return typeShort(v.Type())
}

// reviewed exceptions: function + collection role -> the invariant relied upon
var boundsExceptions = map[string]string{
	"(*lazyNode).equal|o.ary.nodes":      "the two lengths are compared immediately before the loop (len(n.ary.nodes) != len(o.ary.nodes) returns false); the loop body only parses descendants of the two trees, never their element slices",
	"(*partialDoc).remove|d.keys":        "relies on R-KEYS: the key was found in obj (comma-ok) so the scan of keys finds its index (set(keys) = dom(obj))",
	"(*partialArray).set|d.nodes":        "relies on R-REPLACE: every set on an array is dominated by a successful get of the same container and key, which bounds the index from above",
	"createArrayMergePatch|local:":       "the decoder fills both local slices; their lengths are compared (len(modifiedDocs) != total returns an error) before the pairwise walk",
	"createArrayMergePatch|originalDocs": "the decoder fills both local slices; their lengths are compared (len(modifiedDocs) != total returns an error) before the pairwise walk",
	"createArrayMergePatch|modifiedDocs": "the decoder fills both local slices; their lengths are compared (len(modifiedDocs) != total returns an error) before the pairwise walk",
	"legacy|(*partialArray).set|":        "relies on R-REPLACE (legacy): set is preceded by a successful get",
}

func ruleBounds(c *Ctx) {
	for _, b := range c.bodies() {
		l := c.L
		nSites, nProved := 0, 0
		for _, fn := range b.srcFuncs(b.Lib) {
			a := newLinAn(b, fn)
			per := map[string]int{}
			for _, bb := range fn.Blocks {
				var facts []lin
				got := false
				getFacts := func() []lin {
					if !got {
						facts = a.phiFacts(bb, a.factsAt(bb))
						got = true
					}
					return facts
				}
				for _, ins := range bb.Instrs {
					var what string
					var goals []lin
					var base ssa.Value
					unknownLen := false
					switch x := ins.(type) {
					case *ssa.IndexAddr:
						if pt, ok := x.X.Type().Underlying().(*types.Pointer); ok {
							if _, isArr := pt.Elem().Underlying().(*types.Array); isArr {
								if _, isConst := x.Index.(*ssa.Const); isConst {
									continue // constant index into a fixed array (varargs)
								}
							}
						}
						base = x.X
						ln, ok := a.lenOfX(x.X)
						i := a.expr(x.Index)
						what = "index " + a.describeBase(x.X) + "[·]"
						if !ok {
							unknownLen = true
						} else {
							goals = []lin{i, ln.add(i, -1).add(linConst(1), -1)}
						}
					case *ssa.Index:
						base = x.X
						if _, isArr := x.X.Type().Underlying().(*types.Array); isArr {
							continue
						}
						ln, ok := a.lenOf(x.X)
						i := a.expr(x.Index)
						what = "index " + a.describeBase(x.X) + "[·]"
						if !ok {
							unknownLen = true
						} else {
							goals = []lin{i, ln.add(i, -1).add(linConst(1), -1)}
						}
					case *ssa.Slice:
						if pt, ok := x.X.Type().Underlying().(*types.Pointer); ok {
							if _, isArr := pt.Elem().Underlying().(*types.Array); isArr && x.Low == nil && x.High == nil {
								continue // whole-array slice (varargs)
							}
						}
						base = x.X
						ln, ok := a.lenOfX(x.X)
						what = "slice " + a.describeBase(x.X) + "[·:·]"
						if !ok {
							unknownLen = true
						} else {
							lo, hi := linConst(0), ln
							if x.Low != nil {
								lo = a.expr(x.Low)
							}
							if x.High != nil {
								hi = a.expr(x.High)
							}
							goals = []lin{lo, hi.add(lo, -1), ln.add(hi, -1)}
							// capacity, not length, bounds the high index of a slice of a slice; we require hi <= len (stricter)
						}
					case *ssa.MakeSlice:
						what = "make length"
						goals = []lin{a.expr(x.Len)}
					default:
						continue
					}
					nSites++
					per[what]++
					key := fmt.Sprintf("%s: %s #%d in range", fname(fn), what, per[what])
					proved := !unknownLen
					var failed lin
					if proved {
						for _, g := range goals {
							if !linEntails(getFacts(), g) {
								proved = false
								failed = g
								break
							}
						}
					}
					if proved {
						nProved++
						l.add("R-BOUNDS", b.Name, key, b.posOf(ins), Discharged, "proved from dominating linear facts", true)
						continue
					}
					// reviewed exceptions
					bd := ""
					if base != nil {
						bd = a.describeBase(base)
					}
					reason := ""
					// structural, v5 only: the text of a node (and its compacted form) is validated JSON —
					// gate-checked input, a decoder-delimited value, or encoder output that passed the
					// gate (R-GATE, R-RAW) — hence not empty and not all whitespace. Reading its first
					// byte, or stepping over leading whitespace byte by byte, stays inside it.
					firstOnly := false
					switch y := ins.(type) {
					case *ssa.IndexAddr:
						if k, ok := intConst(y.Index); ok && k == 0 {
							firstOnly = true
						}
					case *ssa.Index:
						if k, ok := intConst(y.Index); ok && k == 0 {
							firstOnly = true
						}
					case *ssa.Slice:
						if y.High == nil && y.Low != nil {
							if k, ok := intConst(y.Low); ok && k <= 1 {
								firstOnly = true
							}
						}
					}
					if b.Name == "v5" && firstOnly && base != nil && b.nodeTextDerived(base, 0) {
						reason = "content-dependent: the indexed bytes are the text of a node (or its compacted form): validated JSON text, hence non-empty and containing a non-space byte (R-GATE + R-RAW decide that only such text becomes a node's raw message)"
					}
					for k, r := range boundsExceptions {
						parts := strings.SplitN(k, "|", 3)
						if len(parts) == 3 {
							if parts[0] != b.Name {
								continue
							}
							parts = parts[1:]
						}
						if parts[0] == b.canonFname(fn) && (parts[1] == "" || strings.HasPrefix(bd, parts[1])) {
							if len(r) > len(reason) || reason == "" {
								reason = r
							}
						}
					}
					if reason != "" {
						l.add("R-BOUNDS", b.Name, key, b.posOf(ins), Excepted, reason, true)
						continue
					}
					why := "no length form for the indexed collection"
					if !unknownLen {
						why = "could not derive " + failed.String() + " >= 0 from the facts that dominate this site"
					}
					l.add("R-BOUNDS", b.Name, key, b.posOf(ins), Violated, why+": the index or slice bound is not shown to be within range on every path (a run-time panic for some input)", true)
				}
			}
		}
		l.stat("R-BOUNDS").Extra[b.Name+"_sites"] = nSites
		l.stat("R-BOUNDS").Extra[b.Name+"_proved_arithmetically"] = nProved
	}
}

// ---- R-NEGIDX ---------------------------------------------------------------------

func ruleNegIdx(c *Ctx) {
	for _, b := range c.bodies() {
		l := c.L
		b.appendTokenObligation(l)
		b.addRangeObligation(l)
		for _, name := range []string{"get", "set", "add", "remove"} {
			fn := b.method(b.Lib, "partialArray", name)
			if fn == nil {
				continue
			}
			key := fmt.Sprintf("(*partialArray).%s: a negative index is used only under SupportNegativeIndices and rejected otherwise", name)
			// the parsed index: result 0 of strconv.Atoi
			var idx ssa.Value
			allInstrs(fn, func(i ssa.Instruction) {
				if call, ok := i.(*ssa.Call); ok {
					f := call.Call.StaticCallee()
					if f == nil {
						return
					}
					// the index parser: strconv.Atoi, or any function (int, error) applied to the key
					res := f.Signature.Results()
					isParser := b.isIndexParser(f)
					if !isParser && res.Len() == 2 && isErrorType(res.At(1).Type()) && len(fn.Params) > 1 {
						if bt, ok := res.At(0).Type().Underlying().(*types.Basic); ok && bt.Kind() == types.Int {
							for _, a := range call.Call.Args {
								if a == ssa.Value(fn.Params[1]) {
									isParser = true
								}
							}
						}
					}
					if isParser {
						for _, ex := range extractOf(call, 0) {
							idx = ex
						}
					}
				}
			})
			if idx == nil {
				l.add("R-NEGIDX", b.Name, key, b.rel(fn.Pos()), Undecided, "no parse of the key into an int found", false)
				continue
			}
			// idx < 0 branch
			var negBlk *ssa.BasicBlock
			negSucc := -1
			for _, bb := range fn.Blocks {
				iff, ok := bb.Instrs[len(bb.Instrs)-1].(*ssa.If)
				if !ok {
					continue
				}
				big, small, strict, ok := cmpNorm(iff.Cond)
				if !ok {
					continue
				}
				// 0 > idx  (idx < 0)
				if z, isZ := intConst(big); isZ && z == 0 && small == idx && strict {
					negBlk, negSucc = bb, 0
				}
				// idx >= 0 : negative on the false edge
				if z, isZ := intConst(small); isZ && z == 0 && big == idx && !strict {
					negBlk, negSucc = bb, 1
				}
			}
			if negBlk == nil {
				// the normalisation may live in a helper that receives the parsed index
				if ok, why, pos := b.negIdxThroughHelper(fn, idx); why != "" {
					v := Discharged
					if !ok {
						v = Violated
					}
					l.add("R-NEGIDX", b.Name, key, pos, v, why, true)
					continue
				}
				// no negative branch at all: then negative indices must be rejected by the range proof (R-BOUNDS)
				l.add("R-NEGIDX", b.Name, key, b.rel(fn.Pos()), Violated, "no `index < 0` branch: negative indices are not treated separately (they are either always accepted or left to the bounds check)", true)
				continue
			}
			// option test under the negative edge
			var optBlk *ssa.BasicBlock
			optTrue := -1
			for _, bb := range fn.Blocks {
				if !edgeDominates(negBlk, negSucc, bb) && bb != negBlk.Succs[negSucc] {
					continue
				}
				iff, ok := bb.Instrs[len(bb.Instrs)-1].(*ssa.If)
				if !ok {
					continue
				}
				cv, neg := stripNot(iff.Cond)
				isOpt := false
				if _, fr, ok := fieldLoad(cv); ok && fr.Field == "SupportNegativeIndices" {
					isOpt = true
				}
				if g := loadedGlobal(cv); g != nil && g.Name() == "SupportNegativeIndices" {
					isOpt = true
				}
				if isOpt {
					optBlk = bb
					optTrue = 0
					if neg {
						optTrue = 1
					}
				}
			}
			if optBlk == nil {
				l.add("R-NEGIDX", b.Name, key, b.posOf(negBlk.Instrs[len(negBlk.Instrs)-1]), Violated, "on the index < 0 edge SupportNegativeIndices is never consulted: negative indices are honoured (or refused) whatever the setting", true)
				continue
			}
			bad := ""
			if !b.rejects(optBlk.Succs[1-optTrue]) {
				bad = "with the option off a negative index does not lead to an error return"
			}
			// element accesses reachable from the negative edge without the option's true edge
			touches := func(bb *ssa.BasicBlock) string {
				for _, ins := range bb.Instrs {
					switch x := ins.(type) {
					case *ssa.IndexAddr:
						if _, fr, ok := fieldLoad(x.X); ok && fr.Field == "nodes" {
							return b.posOf(ins)
						}
					case *ssa.Slice:
						if _, fr, ok := fieldLoad(x.X); ok && fr.Field == "nodes" {
							return b.posOf(ins)
						}
					case *ssa.Store:
						if fa, ok := x.Addr.(*ssa.FieldAddr); ok && fieldName(fa.X.Type(), fa.Field) == "nodes" {
							return b.posOf(ins)
						}
					}
				}
				return ""
			}
			seen := map[*ssa.BasicBlock]bool{}
			var walk func(bb *ssa.BasicBlock)
			walk = func(bb *ssa.BasicBlock) {
				if seen[bb] || bad != "" {
					return
				}
				seen[bb] = true
				if p := touches(bb); p != "" {
					bad = "an element of the array is touched at " + p + " on a path from the index < 0 edge that does not pass the option's true edge"
					return
				}
				for si, s := range bb.Succs {
					if bb == optBlk && si == optTrue {
						continue
					}
					walk(s)
				}
			}
			walk(negBlk.Succs[negSucc])
			if bad != "" {
				l.add("R-NEGIDX", b.Name, key, b.posOf(optBlk.Instrs[len(optBlk.Instrs)-1]), Violated, bad, true)
			} else {
				l.add("R-NEGIDX", b.Name, key, b.posOf(optBlk.Instrs[len(optBlk.Instrs)-1]), Discharged, "index < 0 → option tested; option off → non-nil error; no element access reachable from the negative edge except through the option's true edge", true)
			}
		}
	}
}

// appendTokenObligation: the RFC 6902 token "-" (the position after the last
// element) appends in its own right. It is not an index: the branch taken for
// it reaches an append of the value onto the element slice and a nil return,
// without parsing the token as a number and without consulting the
// negative-index option (with the option off, "-" must still append).
func (b *Body) appendTokenObligation(l *Ledger) {
	fn := b.method(b.Lib, "partialArray", "add")
	if fn == nil || len(fn.Params) < 2 {
		return
	}
	key := "(*partialArray).add: the token \"-\" appends directly, whatever the negative-index setting"
	var blk *ssa.BasicBlock
	succ := -1
	for _, bb := range fn.Blocks {
		iff, ok := bb.Instrs[len(bb.Instrs)-1].(*ssa.If)
		if !ok {
			continue
		}
		bo, ok := iff.Cond.(*ssa.BinOp)
		if !ok || (bo.Op != token.EQL && bo.Op != token.NEQ) {
			continue
		}
		var other ssa.Value
		if s, ok := strConst(bo.Y); ok && s == "-" {
			other = bo.X
		} else if s, ok := strConst(bo.X); ok && s == "-" {
			other = bo.Y
		}
		if other == nil || other != ssa.Value(fn.Params[1]) {
			continue
		}
		blk, succ = bb, 0
		if bo.Op == token.NEQ {
			succ = 1
		}
	}
	if blk == nil {
		l.add("R-NEGIDX", b.Name, key, b.rel(fn.Pos()), Violated, "no branch on key == \"-\": the append token is not recognised (or is handled through the index path)", true)
		return
	}
	// everything reachable from the "-" edge
	seen := map[*ssa.BasicBlock]bool{}
	bad := ""
	appends, retNil := false, false
	var walk func(bb *ssa.BasicBlock)
	walk = func(bb *ssa.BasicBlock) {
		if seen[bb] {
			return
		}
		seen[bb] = true
		for _, ins := range bb.Instrs {
			switch x := ins.(type) {
			case *ssa.Call:
				if f := x.Call.StaticCallee(); f != nil && b.isIndexParser(f) {
					bad = "the token is parsed as a number at " + b.posOf(ins) + ": \"-\" is then subject to the index rules"
				}
				if bi, ok := x.Call.Value.(*ssa.Builtin); ok && bi.Name() == "append" {
					if _, fr, ok := fieldLoad(x.Call.Args[0]); ok && fr.Field == "nodes" {
						appends = true
					}
					if u, ok := x.Call.Args[0].(*ssa.UnOp); ok && u.X == ssa.Value(fn.Params[0]) {
						appends = true // the legacy array type is the slice itself
					}
				}
			case *ssa.FieldAddr:
				if fieldName(x.X.Type(), x.Field) == "SupportNegativeIndices" {
					bad = "the negative-index option is consulted at " + b.posOf(ins) + ": with the option off, add at \"-\" fails instead of appending"
				}
			case *ssa.UnOp:
				if g, ok := x.X.(*ssa.Global); ok && g.Name() == "SupportNegativeIndices" {
					bad = "the package-level negative-index switch is consulted at " + b.posOf(ins)
				}
			case *ssa.Return:
				if len(x.Results) == 1 && isNilConst(x.Results[0]) {
					retNil = true
				} else {
					bad = "the \"-\" branch can return " + describeValue(x.Results[0]) + " at " + b.posOf(ins)
				}
			}
		}
		for _, s := range bb.Succs {
			walk(s)
		}
	}
	walk(blk.Succs[succ])
	switch {
	case bad != "":
		l.add("R-NEGIDX", b.Name, key, b.posOf(blk.Instrs[len(blk.Instrs)-1]), Violated, bad, true)
	case !appends || !retNil:
		l.add("R-NEGIDX", b.Name, key, b.posOf(blk.Instrs[len(blk.Instrs)-1]), Violated, "the \"-\" branch does not append the value to the element slice and return nil", true)
	default:
		l.add("R-NEGIDX", b.Name, key, b.posOf(blk.Instrs[len(blk.Instrs)-1]), Discharged, "key == \"-\" → append(d.nodes, val); return nil — no number parsing, no option on that path", true)
	}
}

// addRangeObligation: an add at a parsed index succeeds only for an index up
// to the length of the array (index == length appends; anything beyond is an
// error, RFC 6902 §4.1). Decided with the linear facts at every successful
// return that follows the index parse: len(array at entry) - index >= 0.
func (b *Body) addRangeObligation(l *Ledger) {
	fn := b.method(b.Lib, "partialArray", "add")
	if fn == nil || len(fn.Params) < 2 {
		return
	}
	key := "(*partialArray).add: success only for an index up to the length of the array"
	var parse *ssa.Call
	var idx ssa.Value
	allInstrs(fn, func(i ssa.Instruction) {
		call, ok := i.(*ssa.Call)
		if !ok {
			return
		}
		f := call.Call.StaticCallee()
		if f == nil {
			return
		}
		res := f.Signature.Results()
		isParser := b.isIndexParser(f)
		if !isParser && res.Len() == 2 && isErrorType(res.At(1).Type()) {
			if bt, ok := res.At(0).Type().Underlying().(*types.Basic); ok && bt.Kind() == types.Int {
				for _, a := range call.Call.Args {
					if a == ssa.Value(fn.Params[1]) {
						isParser = true
					}
				}
			}
		}
		if isParser {
			for _, ex := range extractOf(call, 0) {
				parse, idx = call, ex
			}
		}
	})
	if parse == nil {
		l.add("R-NEGIDX", b.Name, key, b.rel(fn.Pos()), Undecided, "no parse of the key into an int found", false)
		return
	}
	a := newLinAn(b, fn)
	// the length of the array at entry: the first len() of the receiver's elements that follows the parse
	var ln lin
	haveLen := false
	allInstrs(fn, func(i ssa.Instruction) {
		if haveLen {
			return
		}
		call, ok := i.(*ssa.Call)
		if !ok {
			return
		}
		arg, ok := lenArg(call)
		if !ok {
			return
		}
		p, okp := a.accessPath(arg, 0)
		if !okp {
			return
		}
		recv := fn.Params[0].Name()
		if p == recv+".nodes" || p == "*"+recv {
			if lf, ok := a.lenOfX(arg); ok {
				ln, haveLen = lf, true
			}
		}
	})
	if !haveLen {
		l.add("R-NEGIDX", b.Name, key, b.rel(fn.Pos()), Violated, "the method never looks at the length of the array: an index beyond the end is not rejected", true)
		return
	}
	bad := ""
	n := 0
	for _, r := range liveReturns(fn) {
		if len(r.Results) != 1 || !isNilConst(r.Results[0]) {
			continue
		}
		if !parse.Block().Dominates(r.Block()) {
			continue // the "-" branch
		}
		n++
		facts := a.phiFacts(r.Block(), a.factsAt(r.Block()))
		goal := ln.add(a.expr(idx), -1)
		if !linEntails(facts, goal) {
			bad = "at the successful return at " + b.posOf(r) + " the facts do not give index <= len(array): an add (or a copy/move destination) at an index beyond the end is carried out — appended — instead of being reported as an invalid index"
		}
	}
	if bad != "" {
		l.add("R-NEGIDX", b.Name, key, b.rel(fn.Pos()), Violated, bad, true)
	} else {
		l.add("R-NEGIDX", b.Name, key, b.rel(fn.Pos()), Discharged, fmt.Sprintf("%d successful return(s) after the index parse, each with len(array) - index >= 0 entailed by the dominating comparisons", n), true)
	}
}

// nodeTextDerived: v is (a conversion, slice or phi of) the bytes a lazyNode's
// raw message points to, or the result of the compact role applied to a node.
func (b *Body) nodeTextDerived(v ssa.Value, depth int) bool {
	return b.nodeTextDerived1(v, depth, map[ssa.Value]bool{})
}

func (b *Body) nodeTextDerived1(v ssa.Value, depth int, onPath map[ssa.Value]bool) bool {
	if depth > 12 || v == nil {
		return false
	}
	if onPath[v] {
		return true // a loop-carried value: decided by its other definitions
	}
	onPath[v] = true
	defer delete(onPath, v)
	switch x := v.(type) {
	case *ssa.Convert:
		return b.nodeTextDerived1(x.X, depth+1, onPath)
	case *ssa.ChangeType:
		return b.nodeTextDerived1(x.X, depth+1, onPath)
	case *ssa.Slice:
		return b.nodeTextDerived1(x.X, depth+1, onPath)
	case *ssa.Phi:
		for _, e := range x.Edges {
			if e == ssa.Value(x) {
				continue
			}
			if !b.nodeTextDerived1(e, depth+1, onPath) {
				return false
			}
		}
		return len(x.Edges) > 0
	case *ssa.UnOp:
		if x.Op != token.MUL {
			return false
		}
		// *(<node>.raw)
		if _, fr, ok := fieldLoad(x.X); ok && fr.Field == "raw" && fr.Type == "lazyNode" {
			return true
		}
		// a local holding it
		if al, ok := x.X.(*ssa.Alloc); ok {
			n := 0
			for _, r := range *al.Referrers() {
				if st, ok := r.(*ssa.Store); ok && st.Addr == ssa.Value(al) {
					n++
					if !b.nodeTextDerived1(st.Val, depth+1, onPath) {
						return false
					}
				}
			}
			return n > 0
		}
	case *ssa.Call:
		f := x.Call.StaticCallee()
		if f == nil || f.Signature.Recv() == nil || !isPtrToNamed(f.Signature.Recv().Type(), "lazyNode") || b.Codec == nil {
			return false
		}
		calls := false
		allInstrs(f, func(i ssa.Instruction) {
			if ci, ok := i.(ssa.CallInstruction); ok {
				if g := ci.Common().StaticCallee(); g != nil && g.Pkg == b.Codec && g.Name() == "Compact" {
					calls = true
				}
			}
		})
		return calls
	}
	return false
}

// substitute replaces the helper's parameter symbols by the caller's argument forms.
func linSubst(l lin, m map[string]lin) (lin, bool) {
	out := linConst(l.c)
	for k, v := range l.co {
		if r, ok := m[k]; ok {
			out = out.add(r, v)
			continue
		}
		if strings.HasPrefix(k, "L:") || strings.HasPrefix(k, "v:") {
			// a symbol private to the helper: not expressible at the call site
			return lin{}, false
		}
		out = out.add(linSym(k), v)
	}
	return out, true
}

// callFacts: facts about the int result of a call of a library helper that hold at every
// successful return of the helper, given the facts known at the call site. Candidates:
// r >= 0, r <= / < each length symbol and int argument known at the call, r >= int argument.
func (a *linAn) callFacts(call *ssa.Call) []lin {
	if a.callMemo == nil {
		a.callMemo = map[*ssa.Call][]lin{}
		a.callBusy = map[*ssa.Call]bool{}
	}
	if fs, ok := a.callMemo[call]; ok {
		return fs
	}
	if a.callBusy[call] {
		return nil
	}
	a.callBusy[call] = true
	defer func() { a.callBusy[call] = false }()
	h := call.Call.StaticCallee()
	var r ssa.Value = call
	if h.Signature.Results().Len() == 2 {
		r = nil
		for _, e := range extractOf(call, 0) {
			r = e
		}
		if r == nil {
			a.callMemo[call] = nil
			return nil
		}
	}
	caller := a.factsAt(call.Block())
	hA := newLinAn(a.b, h)
	subst := map[string]lin{}
	var argLins []lin
	for i, p := range h.Params {
		if i >= len(call.Call.Args) {
			break
		}
		if bt, ok := p.Type().Underlying().(*types.Basic); ok && bt.Info()&types.IsInteger != 0 {
			al := a.expr(call.Call.Args[i])
			subst[hA.expr(p).String()] = al
			// hA.expr(p) is a single symbol v:<name>
			for k := range hA.expr(p).co {
				subst[k] = al
			}
			argLins = append(argLins, al)
		} else if _, isSl := p.Type().Underlying().(*types.Slice); isSl {
			if ll, ok := hA.lenOf(p); ok {
				if cl, ok2 := a.lenOfX(call.Call.Args[i]); ok2 {
					for k := range ll.co {
						subst[k] = cl
					}
				}
			}
		}
	}
	type retInfo struct {
		facts []lin
		val   lin
	}
	var rets []retInfo
	ei := errResultIndex(h)
	for _, ret := range liveReturns(h) {
		if ei >= 0 && a.b.definitelyNonNilErr(retVal(ret, ei), ret.Block(), 0) {
			continue
		}
		v, ok := linSubst(hA.expr(retVal(ret, 0)), subst)
		if !ok {
			a.callMemo[call] = nil
			return nil
		}
		var fs []lin
		for _, f := range hA.phiFacts(ret.Block(), hA.factsAt(ret.Block())) {
			if g, ok := linSubst(f, subst); ok {
				fs = append(fs, g)
			}
		}
		rets = append(rets, retInfo{append(fs, caller...), v})
	}
	if len(rets) == 0 {
		a.callMemo[call] = nil
		return nil
	}
	rl := a.expr(r)
	// candidate upper bounds: length symbols and int arguments visible at the call
	var uppers []lin
	seen := map[string]bool{}
	addU := func(l lin) {
		if !seen[l.String()] {
			seen[l.String()] = true
			uppers = append(uppers, l)
		}
	}
	for _, f := range caller {
		for k := range f.co {
			if strings.HasPrefix(k, "L:") {
				addU(linSym(k))
			}
		}
	}
	for _, al := range argLins {
		addU(al)
		for k := range al.co {
			if strings.HasPrefix(k, "L:") {
				addU(linSym(k))
			}
		}
	}
	var out []lin
	try := func(mk func(val lin) lin) {
		for _, ri := range rets {
			if !linEntails(ri.facts, mk(ri.val)) {
				return
			}
		}
		out = append(out, mk(rl))
	}
	try(func(v lin) lin { return v }) // r >= 0
	for _, u := range uppers {
		u := u
		try(func(v lin) lin { return u.add(v, -1) })                      // u - r >= 0
		try(func(v lin) lin { return u.add(v, -1).add(linConst(1), -1) }) // u - r - 1 >= 0
		try(func(v lin) lin { return v.add(u, -1) })                      // r - u >= 0
		try(func(v lin) lin { return u.add(v, -1).add(linConst(1), 1) })  // u - r + 1 >= 0
	}
	a.callMemo[call] = out
	return out
}

// negIdxThroughHelper: the parsed index is handed to a helper of the library
// that holds the `index < 0` branch. Inside the helper: on the negative edge
// the option is tested, and no successful (nil error) return is reachable from
// the negative edge except through the option's true edge. In the caller: the
// helper's error is tested and returned before any element is touched.
// why == "" means no such helper was found.
func (b *Body) negIdxThroughHelper(fn *ssa.Function, idx ssa.Value) (bool, string, string) {
	for _, r := range *idx.Referrers() {
		call, ok := r.(*ssa.Call)
		if !ok {
			continue
		}
		h := call.Call.StaticCallee()
		if h == nil || h.Blocks == nil || h.Pkg != fn.Pkg {
			continue
		}
		pi := -1
		for i, a := range call.Call.Args {
			if a == idx {
				pi = i
			}
		}
		if pi < 0 || pi >= len(h.Params) || errResultIndex(h) < 0 {
			continue
		}
		p := ssa.Value(h.Params[pi])
		var negBlk *ssa.BasicBlock
		negSucc := -1
		for _, bb := range h.Blocks {
			iff, ok := bb.Instrs[len(bb.Instrs)-1].(*ssa.If)
			if !ok {
				continue
			}
			big, small, strict, ok := cmpNorm(iff.Cond)
			if !ok {
				continue
			}
			if z, isZ := intConst(big); isZ && z == 0 && small == p && strict {
				negBlk, negSucc = bb, 0
			}
			if z, isZ := intConst(small); isZ && z == 0 && big == p && !strict {
				negBlk, negSucc = bb, 1
			}
		}
		if negBlk == nil {
			continue
		}
		pos := b.posOf(call)
		var optBlk *ssa.BasicBlock
		optTrue := -1
		for _, bb := range h.Blocks {
			if !edgeDominates(negBlk, negSucc, bb) && bb != negBlk.Succs[negSucc] {
				continue
			}
			iff, ok := bb.Instrs[len(bb.Instrs)-1].(*ssa.If)
			if !ok {
				continue
			}
			cv, neg := stripNot(iff.Cond)
			isOpt := false
			if _, fr, ok := fieldLoad(cv); ok && fr.Field == "SupportNegativeIndices" {
				isOpt = true
			}
			if g := loadedGlobal(cv); g != nil && g.Name() == "SupportNegativeIndices" {
				isOpt = true
			}
			if isOpt {
				optBlk = bb
				optTrue = 0
				if neg {
					optTrue = 1
				}
			}
		}
		if optBlk == nil {
			return false, "the helper " + fname(h) + " normalises a negative index without consulting SupportNegativeIndices", pos
		}
		if !b.rejects(optBlk.Succs[1-optTrue]) {
			return false, "in " + fname(h) + ", with the option off a negative index does not lead to an error return", pos
		}
		ei := errResultIndex(h)
		bad := ""
		seen := map[*ssa.BasicBlock]bool{}
		var walk func(bb *ssa.BasicBlock)
		walk = func(bb *ssa.BasicBlock) {
			if seen[bb] || bad != "" {
				return
			}
			seen[bb] = true
			if ret, ok := bb.Instrs[len(bb.Instrs)-1].(*ssa.Return); ok {
				if !b.definitelyNonNilErr(retVal(ret, ei), bb, 0) {
					bad = "in " + fname(h) + " a successful return at " + b.posOf(ret) + " is reachable from the index < 0 edge without passing the option's true edge"
				}
			}
			for si, sx := range bb.Succs {
				if bb == optBlk && si == optTrue {
					continue
				}
				walk(sx)
			}
		}
		walk(negBlk.Succs[negSucc])
		if bad != "" {
			return false, bad, pos
		}
		// caller: the helper's error stops the method before any element is touched
		okCaller := true
		allInstrs(fn, func(i ssa.Instruction) {
			touch := false
			switch x := i.(type) {
			case *ssa.IndexAddr:
				if _, fr, ok := fieldLoad(x.X); ok && fr.Field == "nodes" {
					touch = true
				}
				if u, ok := x.X.(*ssa.UnOp); ok && u.X == ssa.Value(fn.Params[0]) {
					touch = true
				}
			case *ssa.Slice:
				if _, fr, ok := fieldLoad(x.X); ok && fr.Field == "nodes" {
					touch = true
				}
			}
			if !touch || !reachableAfter(b, call)[i] {
				return
			}
			if ok, _ := b.successDominates(call, i); !ok {
				okCaller = false
			}
		})
		if !okCaller {
			return false, "the error of " + fname(h) + " is not tested before the elements are touched", pos
		}
		return true, "through " + fname(h) + ": index < 0 → option tested; option off → non-nil error; no successful return from the negative edge except through the option's true edge; the caller stops on the helper's error before touching an element", pos
	}
	return false, "", ""
}

// loadRepresentative: the earliest load of the same field of the same base that dominates
// x and from which x cannot be reached by way of a store to the field without passing that
// load again. x itself if there is none.
func (a *linAn) loadRepresentative(x *ssa.UnOp, ad *ssa.FieldAddr, fld string) *ssa.UnOp {
	var cands []*ssa.UnOp
	allInstrs(a.fn, func(i ssa.Instruction) {
		u, ok := i.(*ssa.UnOp)
		if !ok || u.Op != token.MUL || u == x {
			return
		}
		fa, ok := u.X.(*ssa.FieldAddr)
		if !ok || fa.Field != ad.Field || !sameCollection(fa.X, ad.X) && fa.X != ad.X {
			return
		}
		if fieldName(fa.X.Type(), fa.Field) != fld {
			return
		}
		if !a.b.instrDominates(u, x) {
			return
		}
		cands = append(cands, u)
	})
	best := x
	for _, u := range cands {
		ok := true
		for _, st := range a.storesTo[fld] {
			if a.reaches(u, st) && a.reachesAvoiding(st, x, u) {
				ok = false
			}
		}
		if ok && (best == x || a.b.instrDominates(u, best)) {
			best = u
		}
	}
	return best
}

// reachesAvoiding: instruction to can execute after from on a path that does not execute avoid.
func (a *linAn) reachesAvoiding(from, to, avoid ssa.Instruction) bool {
	fb, tb, ab := from.Block(), to.Block(), avoid.Block()
	pos := func(bb *ssa.BasicBlock, ins ssa.Instruction) int {
		for k, x := range bb.Instrs {
			if x == ins {
				return k
			}
		}
		return -1
	}
	if fb == tb && pos(fb, from) < pos(tb, to) {
		// straight line inside one block: avoid must not lie between
		if ab != fb || pos(ab, avoid) < pos(fb, from) || pos(ab, avoid) > pos(tb, to) {
			return true
		}
		return false
	}
	// leaving from's block: if avoid comes later in that block it is executed first
	if ab == fb && pos(ab, avoid) > pos(fb, from) {
		return false
	}
	seen := map[*ssa.BasicBlock]bool{}
	var walk func(bb *ssa.BasicBlock) bool
	walk = func(bb *ssa.BasicBlock) bool {
		if seen[bb] {
			return false
		}
		seen[bb] = true
		if bb == tb {
			// entering to's block from the top: avoid must not precede to in it
			if ab == tb && pos(ab, avoid) < pos(tb, to) {
				return false
			}
			return true
		}
		if bb == ab {
			return false
		}
		for _, sx := range bb.Succs {
			if walk(sx) {
				return true
			}
		}
		return false
	}
	for _, sx := range fb.Succs {
		if walk(sx) {
			return true
		}
	}
	return false
}
