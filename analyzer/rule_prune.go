package main

// R-NOPRUNE, the prune walk itself (P1–P3): "a new object value is stored with its own null
// members dropped" holds for every value only if the walk probes every value and visits
// every member.
//
//   P1  pruneNulls: every exit lies behind the object probe of its node (no early answer from
//       the size or spelling of the text); exits under a nil test of the node are exempt
//   P2  pruneNulls: when the object probe succeeds, the member walk is run on its result on
//       every path
//   P3  the member walk: the loop over the members has no exit but exhaustion, its branches
//       test only the nil-ness of the member, a nil member is removed under the loop's key and
//       a non-nil member is handed back to pruneNulls

import (
	"golang.org/x/tools/go/ssa"
)

func (b *Body) pruneWalk(l *Ledger, mf *mergeFns) {
	pn := mf.pruneNulls
	if pn == nil || len(pn.Params) == 0 {
		return
	}
	node := pn.Params[0]
	// the object probe: a call given the node whose first result is *partialDoc
	var probe *ssa.Call
	allInstrs(pn, func(i ssa.Instruction) {
		c, ok := i.(*ssa.Call)
		if !ok || probe != nil || len(c.Call.Args) == 0 || c.Call.Args[0] != ssa.Value(node) {
			return
		}
		f := c.Call.StaticCallee()
		if f == nil || f.Signature.Results().Len() == 0 {
			return
		}
		if isPtrToNamed(f.Signature.Results().At(0).Type(), "partialDoc") {
			probe = c
		}
	})
	key1 := b.roleNameOf(pn) + ": (P1) every exit lies behind the object probe of the node"
	if probe == nil {
		l.add("R-NOPRUNE", b.Name, key1, b.rel(pn.Pos()), Undecided, "no call that turns the node into an object container found", false)
		return
	}
	bad := ""
	for _, r := range returnsOf(pn) {
		if b.instrDominates(probe, r) {
			continue
		}
		// exempt: the return is taken on the nil edge of a test of the node itself
		exempt := false
		for _, t := range nilTests(pn, node) {
			if edgeDominates(t.Blk, 1-t.NonNilSucc, r.Block()) {
				exempt = true
			}
		}
		if !exempt {
			bad = "the return at " + b.posOf(r) + " is reached without the node having been probed: whatever is tested instead (the length or the spelling of the text, a counter) is not the kind of the value, so some object values keep their null members"
		}
	}
	if bad != "" {
		l.add("R-NOPRUNE", b.Name, key1, b.posOf(probe), Violated, bad, true)
	} else {
		l.add("R-NOPRUNE", b.Name, key1, b.posOf(probe), Discharged, "the probe dominates every return (returns on the nil edge of a test of the node excepted)", true)
	}
	// P2
	key2 := b.roleNameOf(pn) + ": (P2) a successful object probe is followed by the member walk on its result"
	var docRes ssa.Value
	for _, ex := range extractOf(probe, 0) {
		docRes = ex
	}
	var walkCall *ssa.Call
	allInstrs(pn, func(i ssa.Instruction) {
		c, ok := i.(*ssa.Call)
		if !ok || c == probe || docRes == nil {
			return
		}
		for _, a := range c.Call.Args {
			if a == docRes {
				walkCall = c
			}
		}
	})
	var walkFn *ssa.Function
	if walkCall == nil {
		l.add("R-NOPRUNE", b.Name, key2, b.posOf(probe), Violated, "the object container produced by the probe is handed to no function: the members of an object value are never visited", true)
	} else {
		walkFn = walkCall.Call.StaticCallee()
		// success edge of the probe's error test
		ok := false
		why := "no test of the probe's error found"
		for _, t := range errTestsOf(pn, probe) {
			nilSucc := t.Blk.Succs[1-t.NonNilSucc]
			// every return reachable from the success edge is dominated by the walk call
			all := true
			for _, r := range returnsOf(pn) {
				if !(nilSucc == r.Block() || reachesBlock(nilSucc, r.Block())) {
					continue
				}
				if !edgeDominates(t.Blk, 1-t.NonNilSucc, r.Block()) {
					continue // also reachable from the failure edge: judged by domination below
				}
				if !b.instrDominates(walkCall, r) {
					all = false
					why = "the return at " + b.posOf(r) + " lies on the success edge of the probe but not behind " + calleeLabel(&walkCall.Call)
				}
			}
			if !edgeDominates(t.Blk, 1-t.NonNilSucc, walkCall.Block()) {
				all = false
				why = calleeLabel(&walkCall.Call) + " is not on the success edge of the probe"
			}
			// the walk call must not be skippable on the success edge: its block postdominates the edge target
			if all && !mustPass(nilSucc, walkCall.Block()) {
				all = false
				why = "a path from the success edge of the probe reaches an exit without " + calleeLabel(&walkCall.Call)
			}
			if all {
				ok = true
				why = "the err == nil edge at " + b.posOf(lastInstr(t.Blk)) + " runs into " + calleeLabel(&walkCall.Call) + " on every path"
			}
		}
		v := Discharged
		if !ok {
			v = Violated
		}
		l.add("R-NOPRUNE", b.Name, key2, b.posOf(walkCall), v, why, true)
	}
	// P3
	if walkFn == nil || len(walkFn.Blocks) == 0 {
		return
	}
	key3 := b.roleNameOf(walkFn) + ": (P3) every member is visited: a nil member is removed, any other is pruned in turn"
	ml := b.findMemberLoop(walkFn)
	if ml == nil {
		l.add("R-NOPRUNE", b.Name, key3, b.rel(walkFn.Pos()), Undecided, "no range loop over the member map found", false)
		return
	}
	body := naturalLoop(ml.header)
	bad = ""
	for bb := range body {
		for _, s := range bb.Succs {
			if !body[s] && bb != ml.header {
				bad = "the loop over the members is left at " + b.posOf(lastInstr(bb)) + " before the members are exhausted"
			}
		}
		if _, isRet := lastInstr(bb).(*ssa.Return); isRet {
			bad = "the function returns from inside the loop over the members at " + b.posOf(lastInstr(bb))
		}
		if iff, ok := lastInstr(bb).(*ssa.If); ok && bb != ml.header {
			x, _, isNil := nilTestOfCond(iff.Cond)
			if !isNil || x != ml.val {
				bad = "the branch at " + b.posOf(iff) + " inside the member loop tests something other than the nil-ness of the member"
			}
		}
	}
	if ml.testBlk == nil {
		bad = "the member is not tested for nil"
	}
	if bad == "" {
		// nil edge: a removal under the loop key; non-nil edge: the recursion
		removed, recursed := false, false
		for bb := range body {
			for _, ins := range bb.Instrs {
				ci, ok := ins.(ssa.CallInstruction)
				if !ok {
					continue
				}
				cc := ci.Common()
				hasKey, hasVal := false, false
				for _, a := range cc.Args {
					if a == ml.key {
						hasKey = true
					}
					if a == ml.val {
						hasVal = true
					}
				}
				if hasKey && (bb == ml.nilBlk || ml.nilBlk.Dominates(bb)) {
					removed = true
				}
				if bi, isB := cc.Value.(*ssa.Builtin); isB && bi.Name() == "delete" && hasKey && (bb == ml.nilBlk || ml.nilBlk.Dominates(bb)) {
					removed = true
				}
				if hasVal && cc.StaticCallee() == pn && (bb == ml.nonNilBlk || ml.nonNilBlk.Dominates(bb)) {
					recursed = true
				}
			}
		}
		if !removed {
			bad = "no removal under the loop's key on the nil edge: null members survive"
		} else if !recursed {
			bad = "the non-nil member is not handed back to " + b.roleNameOf(pn) + ": null members below the first level survive"
		}
	}
	if bad != "" {
		l.add("R-NOPRUNE", b.Name, key3, b.rel(walkFn.Pos()), Violated, bad, true)
	} else {
		l.add("R-NOPRUNE", b.Name, key3, b.rel(walkFn.Pos()), Discharged, "range over the member map with no exit but exhaustion; the only test is member == nil; the nil edge removes under the loop key, the other edge recurses", true)
	}
}

// mustPass: every path from `from` to a function exit passes through `via`.
func mustPass(from, via *ssa.BasicBlock) bool {
	seen := map[*ssa.BasicBlock]bool{}
	var walk func(bb *ssa.BasicBlock) bool
	walk = func(bb *ssa.BasicBlock) bool {
		if bb == via {
			return true
		}
		if seen[bb] {
			return true
		}
		seen[bb] = true
		if len(bb.Succs) == 0 {
			_, isPanic := lastInstr(bb).(*ssa.Panic)
			return isPanic
		}
		for _, s := range bb.Succs {
			if !walk(s) {
				return false
			}
		}
		return true
	}
	return walk(from)
}

// errTestsOf: the nil tests of the error result of call.
func errTestsOf(fn *ssa.Function, call *ssa.Call) []nilTest {
	var out []nilTest
	for _, ev := range errResultOf(call) {
		out = append(out, nilTests(fn, ev)...)
	}
	return out
}
