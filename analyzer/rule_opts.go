package main

// R-OPTS (every object that can reach the output knows the caller's escaping
// choice) and R-INDENT (ApplyIndent re-indents exactly Apply's bytes).

import (
	"fmt"
	"go/token"
	"strings"

	"golang.org/x/tools/go/ssa"
)

func init() {
	register(&Rule{ID: "R-OPTS", Doc: "(a) every partialDoc composite literal in library code sets opts from the caller's options, and every function that lets the decoder allocate a partialDoc and advances the node to eDoc stores doc.opts first — or leaves it nil only on nodes that are scratch in each caller or whose doc.opts is stored before the node/doc is published into the document; (b) the escape flag the emitter passes to both of its encoder calls is opts.EscapeHTML when opts != nil and the constant true otherwise",
		Run: ruleOpts, Min: map[string]int{"v5": 8}})
	register(&Rule{ID: "R-INDENT", Doc: "ApplyIndentWithOptions: the bytes handed to Indent are the very value the non-indent path returns, namely result 0 of MarshalEscaped(document, options.EscapeHTML) on its success edge; Indent's prefix is the constant \"\" and its indent argument is the indent parameter; the indented result is the buffer Indent wrote",
		Run: ruleIndent, Min: map[string]int{"v5": 3}})
}

// optionsOrigin: v is the function's *ApplyOptions parameter or the result of NewApplyOptions().
func optionsOrigin(v ssa.Value) string {
	return optionsOriginSeen(v, map[ssa.Value]bool{})
}

func optionsOriginSeen(v ssa.Value, seen map[ssa.Value]bool) string {
	switch x := v.(type) {
	case *ssa.Parameter:
		if isPtrToNamed(x.Type(), "ApplyOptions") {
			return "parameter " + x.Name()
		}
	case *ssa.Call:
		if f := x.Call.StaticCallee(); f != nil && f.Name() == "NewApplyOptions" {
			return "NewApplyOptions()"
		}
	case *ssa.Phi:
		if seen[x] {
			return "" // a loop-carried value: not one origin
		}
		seen[x] = true
		var parts []string
		for _, e := range x.Edges {
			o := optionsOriginSeen(e, seen)
			if o == "" {
				return ""
			}
			parts = append(parts, o)
		}
		return strings.Join(parts, "|")
	}
	return ""
}

func ruleOpts(c *Ctx) {
	b := c.V5
	if b == nil {
		return
	}
	l := c.L
	a := c.nilFor(b)
	eDoc := b.constInt("eDoc")
	// (a0) one options value per call: a function that received the caller's options hands
	// exactly those on to everything it calls (a narrowed or rebuilt copy would be stored in
	// the documents parsed on that path and decide how they are written out)
	// keeps[f][i]: f can store its options parameter i into an object (directly or through a callee)
	keeps := map[*ssa.Function]map[int]bool{}
	for changed := true; changed; {
		changed = false
		for _, fn := range b.srcFuncs(b.Lib) {
			for pi, p := range fn.Params {
				if !isPtrToNamed(p.Type(), "ApplyOptions") || keeps[fn][pi] {
					continue
				}
				k := false
				for _, r := range *p.Referrers() {
					switch x := r.(type) {
					case *ssa.Store:
						if x.Val == ssa.Value(p) {
							if _, isFA := x.Addr.(*ssa.FieldAddr); isFA {
								k = true
							}
						}
					case ssa.CallInstruction:
						com := x.Common()
						for ai, arg := range callArgs(com) {
							if arg != ssa.Value(p) {
								continue
							}
							for _, g := range b.callees(com) {
								if keeps[g][ai] {
									k = true
								}
							}
						}
					}
				}
				if k {
					if keeps[fn] == nil {
						keeps[fn] = map[int]bool{}
					}
					keeps[fn][pi] = true
					changed = true
				}
			}
		}
	}
	for _, fn := range b.srcFuncs(b.Lib) {
		var own *ssa.Parameter
		for _, p := range fn.Params {
			if isPtrToNamed(p.Type(), "ApplyOptions") {
				own = p
			}
		}
		if own == nil {
			continue
		}
		n := 0
		bad := ""
		allInstrs(fn, func(i ssa.Instruction) {
			ci, ok := i.(ssa.CallInstruction)
			if !ok {
				return
			}
			com := ci.Common()
			if f := com.StaticCallee(); f != nil && f.Pkg != b.Lib {
				return
			}
			for ai, arg := range callArgs(com) {
				if !isPtrToNamed(arg.Type(), "ApplyOptions") {
					continue
				}
				kept := false
				for _, g := range b.callees(com) {
					if keeps[g][ai] {
						kept = true
					}
				}
				if !kept {
					continue // the callee only reads the switches
				}
				n++
				if arg != ssa.Value(own) {
					bad = fmt.Sprintf("%s is given %s instead of the options this function received (at %s): objects parsed on that path keep those other options and are written out with them (EscapeHTML), and the switches no longer apply uniformly to one call", calleeLabel(com), describeValue(arg), b.posOf(i))
				}
			}
		})
		if n == 0 {
			continue
		}
		key := fmt.Sprintf("%s: hands its own options, unchanged, to every callee that can store them in a document", b.canonFname(fn))
		if bad != "" {
			l.add("R-OPTS", "v5", key, b.rel(fn.Pos()), Violated, bad, true)
		} else {
			l.add("R-OPTS", "v5", key, b.rel(fn.Pos()), Discharged, fmt.Sprintf("%d options argument(s), each the function's own parameter %s", n, own.Name()), true)
		}
	}
	// (a1) composite literals
	for _, fn := range b.srcFuncs(b.Lib) {
		n := 0
		allInstrs(fn, func(i ssa.Instruction) {
			al, ok := i.(*ssa.Alloc)
			if !ok || !isPtrToNamed(al.Type(), "partialDoc") {
				return
			}
			n++
			key := fmt.Sprintf("%s: partialDoc literal #%d sets opts from the caller's options", fname(fn), n)
			origin := ""
			for _, r := range *al.Referrers() {
				fa, ok := r.(*ssa.FieldAddr)
				if !ok || fieldOfAddr(fa).Field != "opts" {
					continue
				}
				for _, r2 := range *fa.Referrers() {
					if st, ok := r2.(*ssa.Store); ok && st.Addr == ssa.Value(fa) && isConstructionStore(al, st) {
						origin = optionsOrigin(st.Val)
					}
				}
			}
			if origin != "" {
				l.add("R-OPTS", "v5", key, b.posOf(al), Discharged, "opts: "+origin, true)
			} else {
				l.add("R-OPTS", "v5", key, b.posOf(al), Violated, "the literal leaves opts nil (or sets it from something other than the caller's options): the object is emitted with HTML escaping on whatever the caller asked for", true)
			}
		})
	}
	// (a2) decoder-allocated documents: functions that store which = eDoc
	leavesNil := map[*ssa.Function]bool{}
	for _, fn := range b.srcFuncs(b.Lib) {
		allInstrs(fn, func(i ssa.Instruction) {
			st, ok := i.(*ssa.Store)
			if !ok {
				return
			}
			fa, ok := st.Addr.(*ssa.FieldAddr)
			if !ok || fieldOfAddr(fa).Type != "lazyNode" || fieldOfAddr(fa).Field != "which" {
				return
			}
			if k, ok := intConst(st.Val); !ok || k != eDoc {
				return
			}
			node := fa.X
			// does this function let the decoder fill node.doc? (address of node.doc passed to a call)
			fills := false
			allInstrs(fn, func(j ssa.Instruction) {
				if ci, ok := j.(ssa.CallInstruction); ok {
					for _, arg := range ci.Common().Args {
						if f2, ok := unwrapConv(arg).(*ssa.FieldAddr); ok && f2.X == node && fieldOfAddr(f2).Field == "doc" {
							fills = true
						}
					}
				}
			})
			if !fills {
				return // doc assigned from an existing object (e.g. the root slot): its opts were set at construction
			}
			key := fmt.Sprintf("%s: the decoded document gets the caller's options before the node becomes eDoc", fname(fn))
			// a store to node.doc.opts dominating the which store
			ok2 := false
			allInstrs(fn, func(j ssa.Instruction) {
				s2, ok := j.(*ssa.Store)
				if !ok {
					return
				}
				f2, ok := s2.Addr.(*ssa.FieldAddr)
				if !ok || fieldOfAddr(f2).Type != "partialDoc" || fieldOfAddr(f2).Field != "opts" {
					return
				}
				if base, fr, ok := fieldLoad(f2.X); ok && fr.Field == "doc" && base == node && optionsOrigin(s2.Val) != "" && b.instrDominates(s2, st) {
					ok2 = true
				}
			})
			if ok2 {
				l.add("R-OPTS", "v5", key, b.posOf(st), Discharged, "n.doc.opts = options dominates n.which = eDoc", true)
			} else {
				leavesNil[fn] = true
				l.add("R-OPTS", "v5", key, b.posOf(st), Discharged, "summary: may move its receiver to eDoc leaving doc.opts nil — every call site is checked (receiver scratch, or opts stored before publication)", true)
			}
		})
	}
	for _, fn := range b.srcFuncs(b.Lib) {
		n := 0
		for _, cs := range callsTo(fn, func(cc *ssa.CallCommon) bool { f := cc.StaticCallee(); return f != nil && leavesNil[f] }) {
			n++
			callee := cs.Common().StaticCallee()
			recv := cs.Common().Args[0]
			key := fmt.Sprintf("%s: %s #%d is applied to a scratch node, or doc.opts is stored before the node is published", fname(fn), fname(callee), n)
			if leavesNil[fn] {
				if p, ok := recv.(*ssa.Parameter); ok && paramIdx(p) == 0 {
					continue
				}
			}
			if why := b.optsStoredOnSuccessEdge(fn, cs, recv); why != "" {
				l.add("R-OPTS", "v5", key, b.posOf(cs), Discharged, why, true)
				continue
			}
			fresh := a.freshValue(recv)
			if phi, isPhi := recv.(*ssa.Phi); isPhi && !fresh {
				// phi(document node that is already parsed, scratch copy): the callee is applied
				// only under which == eRaw (R-STALERAW), which the parsed edge contradicts
				all := true
				for i, e := range phi.Edges {
					if a.freshValue(e) {
						if esc, _ := a.escapesIntoDocument(e); !esc {
							continue
						}
					}
					pred := phi.Block().Preds[i]
					if a.whichFactAtEdge(e, pred, phi.Block(), func(f pathFact) bool { return f.Kind == fNeInt && f.Val == a.eRaw }) {
						continue
					}
					all = false
				}
				if all {
					if esc, _ := a.escapesIntoDocument(phi); !esc {
						l.add("R-OPTS", "v5", key, b.posOf(cs), Discharged, "receiver is phi(already-parsed node, scratch copy made in this function): the callee parses only nodes in state eRaw (R-STALERAW), i.e. only the scratch copy, which is never stored into the document", true)
						continue
					}
				}
			}
			if !fresh {
				// a parameter of a function that itself is only applied to scratch nodes is accepted one level up
				l.add("R-OPTS", "v5", key, b.posOf(cs), Violated, "the receiver is not a node created in this function: a document node would be parsed in place without the caller's escaping options (a passing test re-spells the tested value)", true)
				continue
			}
			esc, why := a.escapesIntoDocument(recv)
			// publication of recv.doc (root slot)
			var pubs []ssa.Instruction
			allInstrs(fn, func(j ssa.Instruction) {
				st, ok := j.(*ssa.Store)
				if !ok {
					return
				}
				if base, fr, ok := fieldLoad(unwrapConv(st.Val)); ok && fr.Field == "doc" && base == recv {
					pubs = append(pubs, st)
				}
			})
			if !esc && len(pubs) == 0 {
				l.add("R-OPTS", "v5", key, b.posOf(cs), Discharged, "scratch node: created here, never stored into the document", true)
				continue
			}
			// need an opts store dominating each publication
			var optsStores []*ssa.Store
			allInstrs(fn, func(j ssa.Instruction) {
				s2, ok := j.(*ssa.Store)
				if !ok {
					return
				}
				f2, ok := s2.Addr.(*ssa.FieldAddr)
				if !ok || fieldOfAddr(f2).Field != "opts" {
					return
				}
				if base, fr, ok := fieldLoad(f2.X); ok && fr.Field == "doc" && base == recv && optionsOrigin(s2.Val) != "" {
					optsStores = append(optsStores, s2)
				}
			})
			okAll := len(pubs) > 0 || esc
			bad := ""
			// paths on which the callee succeeded (eDoc) and reach a publication must pass an opts store
			for _, p := range pubs {
				dom := false
				for _, s2 := range optsStores {
					if b.instrDominates(s2, p) || b.optsStoreCoversEdge(cs, s2, p) {
						dom = true
					}
				}
				if !dom {
					bad = "the document of the node is published at " + b.posOf(p) + " without doc.opts having been stored on the success path"
				}
			}
			if esc && len(optsStores) == 0 {
				bad = "the node is " + why + " with doc.opts left nil"
			}
			if okAll && bad == "" {
				l.add("R-OPTS", "v5", key, b.posOf(cs), Discharged, fmt.Sprintf("%d store(s) of doc.opts = options on the success edge cover the %d publication(s)", len(optsStores), len(pubs)), true)
			} else {
				l.add("R-OPTS", "v5", key, b.posOf(cs), Violated, bad, true)
			}
		}
	}

	// (b) the emitter's flag
	em := b.method(b.Lib, "partialDoc", "TrustMarshalJSON")
	key := "emitter: escape flag = opts.EscapeHTML when opts != nil, else true, for the name and the value"
	if em == nil {
		l.add("R-OPTS", "v5", key, "", Undecided, "TrustMarshalJSON not found", false)
		return
	}
	bad := ""
	nCalls := 0
	allInstrs(em, func(i ssa.Instruction) {
		call, ok := i.(*ssa.Call)
		if !ok {
			return
		}
		f := call.Call.StaticCallee()
		if f == nil || f.Pkg != b.Codec || !strings.HasPrefix(f.Name(), "Marshal") {
			return
		}
		nCalls++
		if f.Name() != "MarshalEscaped" || len(call.Call.Args) < 2 {
			bad = "the emitter encodes with " + f.Name() + " at " + b.posOf(i) + ", which cannot take the caller's escaping choice"
			return
		}
		if !emitterFlagOK(call.Call.Args[1], em.Params[0]) {
			bad = "the escape argument at " + b.posOf(i) + " is not phi(true, n.opts.EscapeHTML under n.opts != nil)"
		}
	})
	if nCalls == 0 {
		bad = "the emitter makes no encoder call"
	}
	if bad != "" {
		l.add("R-OPTS", "v5", key, b.rel(em.Pos()), Violated, bad, true)
	} else {
		l.add("R-OPTS", "v5", key, b.rel(em.Pos()), Discharged, fmt.Sprintf("%d encoder calls, each with escape = phi(true, n.opts.EscapeHTML)", nCalls), true)
	}
}

// optsStoreCoversEdge: the opts store lies on the success edge of the call
// and the publication is reachable only through blocks dominated by the call
// (the failure edge returns before the publication).
func (b *Body) optsStoreCoversEdge(cs ssa.CallInstruction, st *ssa.Store, pub ssa.Instruction) bool {
	v := cs.Value()
	if v == nil {
		return false
	}
	// success edge of `if !call()` / `if call()`
	for _, r := range *v.Referrers() {
		var iff *ssa.If
		neg := false
		switch x := r.(type) {
		case *ssa.If:
			iff = x
		case *ssa.UnOp:
			if x.Op == token.NOT {
				for _, r2 := range *x.Referrers() {
					if i2, ok := r2.(*ssa.If); ok {
						iff, neg = i2, true
					}
				}
			}
		}
		if iff == nil {
			continue
		}
		succ := 0
		if neg {
			succ = 1
		}
		if !edgeDominates(iff.Block(), succ, st.Block()) {
			continue
		}
		// every path from the failure edge to pub must be impossible or re-establish: the failure successor must not reach pub with which == eDoc.
		// Accept when the failure successor cannot reach the publication without passing another callee that fails/returns:
		fail := iff.Block().Succs[1-succ]
		if !reachesBlockOrSame(fail, pub.Block()) {
			return true
		}
		// the publication is guarded by a which-switch: on the failure path which != eDoc, so the `case eDoc` store is not taken
		return publishedUnderWhichEDoc(pub)
	}
	return false
}

func reachesBlockOrSame(from, to *ssa.BasicBlock) bool {
	return from == to || reachesBlock(from, to)
}

// publishedUnderWhichEDoc: the publication is control dependent on a
// comparison of the node's which field with a constant (switch val.which).
func publishedUnderWhichEDoc(pub ssa.Instruction) bool {
	fn := pub.Parent()
	for _, bb := range fn.Blocks {
		iff, ok := bb.Instrs[len(bb.Instrs)-1].(*ssa.If)
		if !ok {
			continue
		}
		bo, ok := iff.Cond.(*ssa.BinOp)
		if !ok || bo.Op != token.EQL {
			continue
		}
		if _, fr, ok := fieldLoad(bo.X); ok && fr.Field == "which" {
			if edgeDominates(bb, 0, pub.Block()) {
				return true
			}
		}
	}
	return false
}

// emitterFlagOK: v is phi(true, load n.opts.EscapeHTML) (any edge order).
func emitterFlagOK(v ssa.Value, recv ssa.Value) bool {
	phi, ok := v.(*ssa.Phi)
	if !ok {
		return false
	}
	sawTrue, sawField := false, false
	for _, e := range phi.Edges {
		if k, ok := boolConst(e); ok {
			if !k {
				return false
			}
			sawTrue = true
			continue
		}
		base, fr, ok := fieldLoad(e)
		if !ok || fr.Field != "EscapeHTML" {
			return false
		}
		b2, f2, ok := fieldLoad(base)
		if !ok || f2.Field != "opts" || b2 != recv {
			return false
		}
		// under opts != nil
		ld := e.(*ssa.UnOp)
		if !knownNonNilByPathValue(base, ld.Block()) {
			return false
		}
		sawField = true
	}
	return sawTrue && sawField
}

// knownNonNilByPathValue: a (x != nil) test on a load of the same field path as v dominates block at.
func knownNonNilByPathValue(v ssa.Value, at *ssa.BasicBlock) bool {
	ld, ok := v.(*ssa.UnOp)
	if !ok {
		return false
	}
	return knownNonNilByPath(ld, at)
}

// ---- R-INDENT ---------------------------------------------------------------------

func ruleIndent(c *Ctx) {
	b := c.V5
	if b == nil {
		return
	}
	l := c.L
	ai := b.findApply()
	if ai == nil {
		l.add("R-INDENT", "v5", "anchor apply function", "", Undecided, "apply function not found", false)
		return
	}
	// the wrappers of the apply function hand its result on untouched: ApplyIndent's output is
	// Apply's output re-indented only if neither has a way of its own to produce a document
	for _, w := range b.srcFuncs(b.Lib) {
		if recvTypeName(w) != "Patch" || !token.IsExported(w.Name()) || w == ai.loopFn {
			continue
		}
		res := w.Signature.Results()
		if res.Len() != 2 || !isByteSlice(res.At(0).Type()) || !isErrorType(res.At(1).Type()) {
			continue
		}
		key := fmt.Sprintf("%s: a wrapper of the apply function returns exactly what it is handed", fname(w))
		bad := ""
		n := 0
		for _, r := range returnsOf(w) {
			n++
			e0, ok0 := r.Results[0].(*ssa.Extract)
			e1, ok1 := r.Results[1].(*ssa.Extract)
			okc := false
			if ok0 && ok1 && e0.Tuple == e1.Tuple && e0.Index == 0 && e1.Index == 1 {
				if call, ok := e0.Tuple.(*ssa.Call); ok {
					if f := call.Call.StaticCallee(); f != nil && recvTypeName(f) == "Patch" && f.Pkg == b.Lib {
						okc = true
					}
				}
			}
			if !okc {
				bad = "the return at " + b.posOf(r) + " is not the result pair of a call to the next function of the Apply family: this entry point produces (or alters) a document on its own, past the one encoder call and the options that the apply function honours"
			}
		}
		if bad != "" {
			l.add("R-INDENT", "v5", key, b.rel(w.Pos()), Violated, bad, true)
		} else {
			l.add("R-INDENT", "v5", key, b.rel(w.Pos()), Discharged, fmt.Sprintf("%d return(s), each the untouched result pair of the next Apply function", n), true)
		}
	}
	fn := b.encodeFnOf(ai)
	var marsh, indent *ssa.Call
	nMarsh := 0
	allInstrs(fn, func(i ssa.Instruction) {
		call, ok := i.(*ssa.Call)
		if !ok {
			return
		}
		f := call.Call.StaticCallee()
		if f == nil || f.Pkg != b.Codec {
			return
		}
		switch {
		case strings.HasPrefix(f.Name(), "Marshal"):
			marsh = call
			nMarsh++
		case f.Name() == "Indent":
			indent = call
		}
	})
	add := func(key string, pos ssa.Instruction, ok bool, good, bad string) {
		v, f := Discharged, good
		if !ok {
			v, f = Violated, bad
		}
		p := b.rel(fn.Pos())
		if pos != nil {
			p = b.posOf(pos)
		}
		l.add("R-INDENT", "v5", key, p, v, f, true)
	}
	key := "final marshal: MarshalEscaped(document, options.EscapeHTML), once"
	if marsh == nil || nMarsh != 1 {
		add(key, nil, false, "", fmt.Sprintf("found %d codec Marshal* calls in the apply function", nMarsh))
		return
	}
	{
		bad := ""
		f := marsh.Call.StaticCallee()
		if f.Name() != "MarshalEscaped" {
			bad = "the output is produced by " + f.Name() + ", which ignores options.EscapeHTML (and may apply its own indentation)"
		} else {
			if b.limitSource(marsh.Call.Args[1]) != "param-field:ApplyOptions.EscapeHTML" {
				bad = "the escape argument is " + b.limitSource(marsh.Call.Args[1]) + describeValue(marsh.Call.Args[1]) + ", not the caller's options.EscapeHTML"
			}
			// the marshalled value is the document container
			if !isNamed(unwrapMI(marsh.Call.Args[0]).Type(), "container") && loadOf(unwrapMI(marsh.Call.Args[0])) == nil {
				bad = "the marshalled value is not the document container"
			}
		}
		add(key, marsh, bad == "", "MarshalEscaped(pd, options.EscapeHTML)", bad)
	}
	data := extractOf(marsh, 0)
	key = "non-indent path returns the marshalled bytes themselves"
	{
		ok := false
		for _, r := range liveReturns(fn) {
			for _, d := range data {
				if retVal(r, 0) == ssa.Value(d) && isNilConst(retVal(r, 1)) {
					if okd, _ := b.successDominates(marsh, r); okd {
						ok = true
					}
				}
			}
		}
		add(key, marsh, ok, "return data, nil on the success edge of the marshal", "no return of the marshal's result 0 with a nil error on its success edge")
	}
	key = "indent path: Indent(&buf, data, \"\", indent) over the same bytes, result is that buffer"
	if indent == nil {
		add(key, nil, false, "", "no call of the codec's Indent in the apply function: ApplyIndent does not re-indent Apply's output")
		return
	}
	{
		bad := ""
		isData := false
		for _, d := range data {
			if indent.Call.Args[1] == ssa.Value(d) {
				isData = true
			}
		}
		if !isData {
			bad = "Indent's source is not the value the non-indent path returns"
		}
		if s, ok := strConst(indent.Call.Args[2]); !ok || s != "" {
			bad = "Indent's prefix is not the constant \"\""
		}
		var indentParam *ssa.Parameter
		for _, p := range fn.Params {
			if p.Name() == "indent" || (isStringType(p.Type()) && indentParam == nil) {
				indentParam = p
			}
		}
		if indent.Call.Args[3] != ssa.Value(indentParam) {
			bad = "Indent's indent argument is not the function's indent parameter"
		}
		// the returned bytes on this path come from the buffer Indent wrote
		buf := indent.Call.Args[0]
		okRet := false
		for _, r := range liveReturns(fn) {
			if call, ok := retVal(r, 0).(*ssa.Call); ok {
				if f := call.Call.StaticCallee(); f != nil && stdName(f) == "bytes.(*Buffer).Bytes" && call.Call.Args[0] == buf && b.instrDominates(indent, r) {
					okRet = true
				}
			}
		}
		if !okRet && bad == "" {
			bad = "the indent path does not return the bytes of the buffer that Indent wrote"
		}
		if !b.instrDominates(marsh, indent) && bad == "" {
			bad = "Indent does not follow the marshal"
		}
		add(key, indent, bad == "", "Indent(&buf, data, \"\", indent); return buf.Bytes(), nil", bad)
		// Indent can fail on a text the encoder produced (nesting beyond the scanner's limit):
		// its error is tested and a failure returns no document
		key = "indent path: a failure of Indent is reported, not returned as an empty document"
		if ok, why := b.successDominates(indent, func() ssa.Instruction {
			for _, r := range liveReturns(fn) {
				if call, ok := retVal(r, 0).(*ssa.Call); ok {
					if f := call.Call.StaticCallee(); f != nil && stdName(f) == "bytes.(*Buffer).Bytes" && call.Call.Args[0] == buf {
						return r
					}
				}
			}
			return indent
		}()); ok {
			add(key, indent, true, "the return of the buffer lies behind err == nil of Indent ("+why+")", "")
		} else {
			add(key, indent, false, "", "the error of Indent is dropped ("+why+"): when the patched document nests deeper than the scanner accepts, Indent fails after writing nothing and ApplyIndent returns an empty text with a nil error")
		}
	}
}

// optsStoredOnSuccessEdge: the block entered when the callee answered true stores
// recv.doc.opts = options before anything else can happen to the node (straight-line code from
// the edge to the store). Whatever node recv is, it leaves this function with its options set.
func (b *Body) optsStoredOnSuccessEdge(fn *ssa.Function, cs ssa.CallInstruction, recv ssa.Value) string {
	v := cs.Value()
	if v == nil || v.Referrers() == nil {
		return ""
	}
	for _, r := range *v.Referrers() {
		var iff *ssa.If
		neg := false
		switch x := r.(type) {
		case *ssa.If:
			iff = x
		case *ssa.UnOp:
			if x.Op == token.NOT {
				for _, r2 := range *x.Referrers() {
					if i2, ok := r2.(*ssa.If); ok {
						iff, neg = i2, true
					}
				}
			}
		}
		if iff == nil || iff.Block() != cs.Block() {
			continue
		}
		succ := 0
		if neg {
			succ = 1
		}
		bb := iff.Block().Succs[succ]
		for steps := 0; steps < 4 && len(bb.Preds) == 1; steps++ {
			for _, j := range bb.Instrs {
				s2, ok := j.(*ssa.Store)
				if !ok {
					continue
				}
				f2, ok := s2.Addr.(*ssa.FieldAddr)
				if !ok || fieldOfAddr(f2).Field != "opts" {
					continue
				}
				if base, fr, ok := fieldLoad(f2.X); ok && fr.Field == "doc" && base == recv && optionsOrigin(s2.Val) != "" {
					return "the edge on which the callee answered true runs straight into " + roleOf(recv) + ".doc.opts = options at " + b.posOf(s2)
				}
			}
			if len(bb.Succs) != 1 {
				break
			}
			bb = bb.Succs[0]
		}
	}
	return ""
}
