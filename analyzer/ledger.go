package main

import (
	"crypto/sha1"
	"encoding/hex"
	"encoding/json"
	"fmt"
	"os"
	"path/filepath"
	"sort"
	"strings"
)

// Verdicts of an obligation.
const (
	Discharged = "discharged"
	Violated   = "violated"
	Excepted   = "excepted"
	Undecided  = "undecided"
	Info       = "info" // census entry, not an obligation (never counted as one)
)

// Obl is one obligation produced by a rule: a role-keyed construct of the
// analysed source together with the verdict and the fact that decides it.
type Obl struct {
	Rule    string `json:"rule"`
	Body    string `json:"body"`    // v5 | codec | legacy | v5/cmd | legacy/cmd
	Config  string `json:"config"`  // build configuration label
	Key     string `json:"key"`     // role-based construct key (no positions)
	Pos     string `json:"pos"`     // file:line, diagnosis only
	Verdict string `json:"verdict"` // discharged | violated | excepted | undecided
	Fact    string `json:"fact"`    // discharging fact / witness / exception reason
	// Nontrivial: the verdict needed at least one fact derived from the code
	// (a dominance, dataflow or table fact), i.e. it was not true by syntax alone.
	Nontrivial bool `json:"nontrivial"`
}

func (o *Obl) ID() string { return o.Rule + " | " + o.Body + " | " + o.Key }

type Ledger struct {
	Obls      []*Obl
	seen      map[string]*Obl
	RuleStats map[string]*RuleStat
	Config    string
	Notes     []string
}

type RuleStat struct {
	Rule      string         `json:"rule"`
	Instances map[string]int `json:"instances"` // per body
	Min       map[string]int `json:"confirmed_minimum"`
	Extra     map[string]any `json:"extra,omitempty"`
}

func newLedger() *Ledger {
	return &Ledger{seen: map[string]*Obl{}, RuleStats: map[string]*RuleStat{}}
}

func (l *Ledger) add(rule, body, key, pos, verdict, fact string, nontrivial bool) *Obl {
	o := &Obl{Rule: rule, Body: body, Config: l.Config, Key: key, Pos: pos, Verdict: verdict, Fact: fact, Nontrivial: nontrivial}
	id := o.ID() + " | " + l.Config
	if prev, ok := l.seen[id]; ok {
		// Same construct reported twice within one configuration: disambiguate
		// deterministically by ordinal so that nothing is silently dropped.
		n := 2
		for {
			k2 := fmt.Sprintf("%s #%d", key, n)
			o.Key = k2
			id = o.ID() + " | " + l.Config
			if _, ok := l.seen[id]; !ok {
				break
			}
			n++
		}
		_ = prev
	}
	l.seen[id] = o
	l.Obls = append(l.Obls, o)
	return o
}

func (l *Ledger) stat(rule string) *RuleStat {
	s, ok := l.RuleStats[rule]
	if !ok {
		s = &RuleStat{Rule: rule, Instances: map[string]int{}, Min: map[string]int{}, Extra: map[string]any{}}
		l.RuleStats[rule] = s
	}
	return s
}

// ---- known findings ------------------------------------------------------------

type KnownFinding struct {
	Property     string `json:"property"`
	Rule         string `json:"rule"`
	Body         string `json:"body"`
	Key          string `json:"key"`
	What         string `json:"what"`
	FailingInput string `json:"failing_input"`
}

type KnownFile struct {
	Comment  string         `json:"comment"`
	Findings []KnownFinding `json:"findings"`
	Fixed    []string       `json:"fixed"`
}

func loadKnown(path string) (*KnownFile, error) {
	var kf KnownFile
	data, err := os.ReadFile(path)
	if err != nil {
		if os.IsNotExist(err) {
			return &kf, nil
		}
		return nil, err
	}
	if err := json.Unmarshal(data, &kf); err != nil {
		return nil, fmt.Errorf("%s: %v", path, err)
	}
	return &kf, nil
}

func (kf *KnownFile) match(prop string, o *Obl) *KnownFinding {
	for i := range kf.Findings {
		f := &kf.Findings[i]
		if f.Rule == o.Rule && f.Body == o.Body && f.Key == o.Key {
			// A finding is a fact about a construct of the code; it is listed
			// under the property it was first recorded for, but the same
			// construct violating the same rule is the same finding for every
			// property that uses the rule.
			return f
		}
	}
	return nil
}

// ---- evidence -------------------------------------------------------------------

type Evidence struct {
	PropertyID  string         `json:"property_id"`
	Tier        string         `json:"tier"`
	Seed        int            `json:"seed"`
	Level       string         `json:"level"`
	Coverage    map[string]any `json:"coverage"`
	Assumptions []string       `json:"assumptions"`
	WallS       float64        `json:"wall_s"`
	Violations  int            `json:"violations"`
}

func hashKey(s string) string {
	h := sha1.Sum([]byte(s))
	return hex.EncodeToString(h[:])[:12]
}

type Replay struct {
	Property string `json:"property"`
	Rule     string `json:"rule"`
	Body     string `json:"body"`
	Config   string `json:"config"`
	Key      string `json:"key"`
	Pos      string `json:"pos"`
	Verdict  string `json:"verdict"`
	Witness  string `json:"witness"`
	Repo     string `json:"repo"`
	Explain  string `json:"explain"`
}

func writeJSON(path string, v any) error {
	data, err := json.MarshalIndent(v, "", " ")
	if err != nil {
		return err
	}
	if err := os.MkdirAll(filepath.Dir(path), 0o755); err != nil {
		return err
	}
	tmp := path + ".tmp"
	if err := os.WriteFile(tmp, append(data, '\n'), 0o644); err != nil {
		return err
	}
	return os.Rename(tmp, path)
}

func sortObls(obls []*Obl) {
	sort.SliceStable(obls, func(i, j int) bool {
		a, b := obls[i], obls[j]
		if a.Rule != b.Rule {
			return a.Rule < b.Rule
		}
		if a.Body != b.Body {
			return a.Body < b.Body
		}
		if a.Config != b.Config {
			return a.Config < b.Config
		}
		return a.Key < b.Key
	})
}

func short(s string, n int) string {
	s = strings.ReplaceAll(s, "\n", " ")
	if len(s) > n {
		return s[:n-1] + "…"
	}
	return s
}
